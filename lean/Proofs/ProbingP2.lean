import Proofs.ProbingScan
/-!
`Power2Mod`: for a power-of-two bucket count the mask arithmetic is the `DivMod` arithmetic, the
constructor accepts exactly the powers of two, and `RoundBuckets` is the least power of two above.
-/
namespace KV.Probing

theorem nextP2_eq (j i : Nat) (hi : i < 2^j) : nextP2 (2^j) i = next (2^j) i := by
  unfold nextP2 next
  rw [Nat.and_two_pow_sub_one_eq_mod]
  split
  · next h => rw [h, Nat.mod_self]
  · next h => exact Nat.mod_eq_of_lt (by omega)

theorem idealP2_eq (h : Nat → Nat) (j k : Nat) : idealP2 h (2^j) k = ideal h (2^j) k := by
  unfold idealP2 ideal
  exact Nat.and_two_pow_sub_one_eq_mod _ _

theorem scanWith_P2 (s : Slots) (j k : Nat) : ∀ fuel i, i < 2^j →
    scanWith (nextP2 (2^j)) s k fuel i = scanWith (next (2^j)) s k fuel i := by
  intro fuel
  induction fuel with
  | zero => intro i _; rfl
  | succ f ih =>
    intro i hi
    simp only [scanWith]
    rw [nextP2_eq j i hi, ih _ (next_lt _ i hi)]

theorem firstEmptyWith_P2 (s : Slots) (j : Nat) : ∀ fuel i, i < 2^j →
    firstEmptyWith (nextP2 (2^j)) s fuel i = firstEmptyWith (next (2^j)) s fuel i := by
  intro fuel
  induction fuel with
  | zero => intro i _; rfl
  | succ f ih =>
    intro i hi
    simp only [firstEmptyWith]
    rw [nextP2_eq j i hi, ih _ (next_lt _ i hi)]

theorem ideal_lt_pow (h : Nat → Nat) (j k : Nat) : ideal h (2^j) k < 2^j :=
  Nat.mod_lt _ (Nat.two_pow_pos j)

/-- the `Power2Mod` table operations are the `DivMod` ones on a power-of-two bucket count -/
theorem findPosP2_eq (h : Nat → Nat) (t : Table) (j k : Nat) (hN : t.N = 2^j) :
    findPosP2 h t k = findPos h t k := by
  unfold findPosP2 findPos
  rw [hN, idealP2_eq, scanWith_P2 t.s j k _ _ (ideal_lt_pow h j k)]

theorem uncheckedInsertP2_eq (h : Nat → Nat) (t : Table) (j k v : Nat) (hN : t.N = 2^j) :
    uncheckedInsertP2 h t k v = uncheckedInsert h t k v := by
  unfold uncheckedInsertP2 uncheckedInsert
  rw [hN, idealP2_eq, firstEmptyWith_P2 _ j _ _ (ideal_lt_pow h j k)]

theorem insertP2_eq (h : Nat → Nat) (t : Table) (j k v : Nat) (hN : t.N = 2^j) :
    insertP2 h t k v = insert h t k v := by
  simp only [insertP2, insert, uncheckedInsertP2_eq h { t with entries := t.entries + 1 } j k v hN]

theorem findOrInsertP2_eq (h : Nat → Nat) (t : Table) (j k v : Nat) (hN : t.N = 2^j) :
    findOrInsertP2 h t k v = findOrInsert h t k v := by
  unfold findOrInsertP2 findOrInsert
  rw [hN, idealP2_eq, scanWith_P2 _ j k _ _ (ideal_lt_pow h j k)]

/-! ### the constructor's power-of-two test -/

theorem testBit_top (n j : Nat) (h1 : 2^j ≤ n) (h2 : n < 2^(j+1)) : n.testBit j = true := by
  rw [Nat.testBit_eq_decide_div_mod_eq]
  have : n / 2^j = 1 := by
    apply Nat.div_eq_of_lt_le
    · simpa using h1
    · rw [Nat.pow_succ] at h2; omega
  simp [this]

theorem isPow2_iff (n : Nat) : isPow2 n = true ↔ ∃ j, n = 2^j := by
  unfold isPow2
  constructor
  · intro h
    simp at h
    obtain ⟨h0, hand⟩ := h
    refine ⟨n.log2, ?_⟩
    have hlo : 2 ^ n.log2 ≤ n := Nat.log2_self_le h0
    have hhi : n < 2 ^ (n.log2 + 1) := Nat.lt_log2_self
    apply Classical.byContradiction
    intro hne
    have h1 : 2 ^ n.log2 ≤ n - 1 := by omega
    have b1 := testBit_top n n.log2 hlo hhi
    have b2 := testBit_top (n - 1) n.log2 h1 (by omega)
    have : ((n - 1) &&& n).testBit n.log2 = true := by rw [Nat.testBit_and, b1, b2]; rfl
    rw [hand] at this
    simp at this
  · rintro ⟨j, rfl⟩
    have hp := Nat.two_pow_pos j
    have h1 : (2^j - 1) &&& 2^j = 0 := by
      rw [Nat.and_comm, Nat.and_two_pow_sub_one_eq_mod, Nat.mod_self]
    simp [h1]

/-! ### `RoundBuckets` -/

/-- `f < 2^(j+1)` and its `t` bits from `j` downwards are set -/
def Top (f j t : Nat) : Prop := f < 2^(j+1) ∧ ∀ b, b ≤ j → j < b + t → f.testBit b = true

theorem Top_smear (f j t k : Nat) (hk : k ≤ t) (ht : Top f j t) : Top (f ||| (f >>> k)) j (t + k) := by
  obtain ⟨hlt, hb⟩ := ht
  refine ⟨Nat.or_lt_two_pow hlt (Nat.lt_of_le_of_lt (Nat.shiftRight_le _ _) hlt), ?_⟩
  intro b h1 h2
  rw [Nat.testBit_or, Nat.testBit_shiftRight]
  by_cases c : j < b + t
  · rw [hb b h1 c]; rfl
  · rw [hb (k + b) (by omega) (by omega)]; simp

theorem Top_full (f j t : Nat) (hj : j + 1 ≤ t) (ht : Top f j t) : f = 2^(j+1) - 1 := by
  obtain ⟨hlt, hb⟩ := ht
  apply Nat.eq_of_testBit_eq
  intro b
  rw [Nat.testBit_two_pow_sub_one]
  by_cases c : b < j + 1
  · rw [hb b (by omega) (by omega)]; simp [c]
  · have : f < 2^b := Nat.lt_of_lt_of_le hlt (Nat.pow_le_pow_right (by omega) (by omega))
    rw [Nat.testBit_lt_two_pow this]; simp [c]

/-- the six `from |= from >> k` lines -/
def smear6 (f0 : Nat) : Nat :=
  let f1 := f0 ||| (f0 >>> 1)
  let f2 := f1 ||| (f1 >>> 2)
  let f3 := f2 ||| (f2 >>> 4)
  let f4 := f3 ||| (f3 >>> 8)
  let f5 := f4 ||| (f4 >>> 16)
  f5 ||| (f5 >>> 32)

theorem roundBuckets_unfold (x : Nat) : roundBuckets x = (smear6 ((x + 2^64 - 1) % 2^64) + 1) % 2^64 := rfl

theorem smear6_spec (f j : Nat) (hj : j ≤ 63) (h1 : 2^j ≤ f) (h2 : f < 2^(j+1)) : smear6 f = 2^(j+1) - 1 := by
  have t0 : Top f j 1 := ⟨h2, fun b hb1 hb2 => by
    have : b = j := by omega
    subst this; exact testBit_top f b h1 h2⟩
  have t1 := Top_smear _ j 1 1 (by omega) t0
  have t2 := Top_smear _ j 2 2 (by omega) t1
  have t3 := Top_smear _ j 4 4 (by omega) t2
  have t4 := Top_smear _ j 8 8 (by omega) t3
  have t5 := Top_smear _ j 16 16 (by omega) t4
  have t6 := Top_smear _ j 32 32 (by omega) t5
  exact Top_full _ j 64 (by omega) t6

/-- **`RoundBuckets(x)` is the least power of two `≥ x`** (for `1 ≤ x ≤ 2^63`; beyond that the
64-bit result wraps to 0) -/
theorem roundBuckets_spec (x : Nat) (h1 : 1 ≤ x) (h2 : x ≤ 2^63) :
    ∃ j, roundBuckets x = 2^j ∧ x ≤ 2^j ∧ (j = 0 ∨ 2^(j-1) < x) := by
  rw [roundBuckets_unfold]
  have e : (x + 2^64 - 1) % 2^64 = x - 1 := by
    have : x + 2^64 - 1 = (x - 1) + 2^64 := by omega
    rw [this, Nat.add_mod_right, Nat.mod_eq_of_lt (by omega)]
  rw [e]
  by_cases hx : x = 1
  · subst hx
    exact ⟨0, by decide, by decide, Or.inl rfl⟩
  · have h0 : x - 1 ≠ 0 := by omega
    have hlo : 2 ^ (x - 1).log2 ≤ x - 1 := Nat.log2_self_le h0
    have hhi : x - 1 < 2 ^ ((x - 1).log2 + 1) := Nat.lt_log2_self
    have hj : (x - 1).log2 ≤ 62 := by
      apply Classical.byContradiction
      intro hc
      have : 2^63 ≤ 2 ^ (x - 1).log2 := Nat.pow_le_pow_right (by omega) (by omega)
      omega
    rw [smear6_spec (x - 1) _ (by omega) hlo hhi]
    refine ⟨(x - 1).log2 + 1, ?_, by omega, Or.inr (by simp; omega)⟩
    have hp := Nat.two_pow_pos ((x - 1).log2 + 1)
    have hle : 2 ^ ((x - 1).log2 + 1) ≤ 2^63 := Nat.pow_le_pow_right (by omega) (by omega)
    rw [Nat.sub_add_cancel hp, Nat.mod_eq_of_lt (by omega)]

end KV.Probing
