import Model.PCQueueSys
import Proofs.PCQueueRefine
import Proofs.PCQueueEintr
/-!
Forward simulation from the composed step-level system (`KV.Sys.cstep`, `cintr`) to the atomic-FIFO system
(`KV.Sys.astep`), for arbitrary client programs: every step of the product is a stutter step or exactly one step
of the atomic system under the abstraction `abs`.  Core Lean only.
-/
namespace KV.Sys
open KV.PCQueue
open KV.Chain (fifoPush fifoPop upd)

variable {σ : Type} {dP dC : Nat}

/-! ### entering an operation -/

theorem done_rem {s : State} {t : Nat} {th : Thread} (h : Inv dP dC s) (hth : s.threads[t]? = some th)
    (hpc : th.pc = .done) : remP th = 0 ∧ remC th = 0 := by
  have ok := h.thr t th hth
  cases hr : th.role
  · simp [remP, remC, hr, ok.p_done hr hpc]
  · simp [remP, remC, hr, ok.c_done hr hpc]

theorem arm_prod_inv {s : State} {t : Nat} {th : Thread} (h : Inv dP dC s) (hth : s.threads[t]? = some th)
    (hpc : th.pc = .done) (v : Nat) : Inv (dP + 1) dC (armProd s t v) := by
  obtain ⟨hrp, hrc⟩ := done_rem h hth hpc
  sum_facts hth { role := .prod, pc := .wait, items := [v],
                  orig := (s.writes.filter (fun x => x.1 == t)).map (·.2) ++ [v] }
  rw [hrp] at hP
  rw [hrc] at hQ
  simp [isA, isB, isC, isD, remP, remC, b2n, hpc] at hA hB hC hD hP hQ
  refine { cap_pos := h.cap_pos, acct := ?_, occ := ?_, pat := h.pat, cat := h.cat, ringv := h.ringv,
           fifo := h.fifo, pm := ?_, cm := ?_, balance := ?_, thr := ?_ }
  · have := h.acct; simp [armProd, State.setT]; omega
  · have := h.occ; simp [armProd, State.setT]; omega
  · exact h.pm.frame hth (by simp [holdsP, hpc])
  · exact h.cm.frame hth (by simp [holdsC, hpc])
  · have := h.balance; simp [armProd, State.setT]; omega
  · exact thr_update h.thr hth
      ⟨by simp, by simp, fun _ => rfl, by simp, by simp, by simp⟩
      (fun t' th0 _ h0 => h0.frame rfl rfl)

theorem arm_cons_inv {s : State} {t : Nat} {th : Thread} (h : Inv dP dC s) (hth : s.threads[t]? = some th)
    (hpc : th.pc = .done) : Inv dP (dC + 1) (armCons s t) := by
  obtain ⟨hrp, hrc⟩ := done_rem h hth hpc
  sum_facts hth { role := .cons, pc := .wait, quota := 1, got := (s.reads.filter (fun x => x.1 == t)).map (·.2) }
  rw [hrp] at hP
  rw [hrc] at hQ
  simp [isA, isB, isC, isD, remP, remC, b2n, hpc] at hA hB hC hD hP hQ
  refine { cap_pos := h.cap_pos, acct := ?_, occ := ?_, pat := h.pat, cat := h.cat, ringv := h.ringv,
           fifo := h.fifo, pm := ?_, cm := ?_, balance := ?_, thr := ?_ }
  · have := h.acct; simp [armCons, State.setT]; omega
  · have := h.occ; simp [armCons, State.setT]; omega
  · exact h.pm.frame hth (by simp [holdsP, hpc])
  · exact h.cm.frame hth (by simp [holdsC, hpc])
  · have := h.balance; simp [armCons, State.setT]; omega
  · exact thr_update h.thr hth
      ⟨by simp, by simp, by simp, by simp, by simp, fun _ => rfl⟩
      (fun t' th0 _ h0 => h0.frame rfl rfl)

/-! ### what a micro-step does to the stepping thread's entry -/

theorem step_prod {s s' : State} {t : Nat} {th : Thread} (hth : s.threads[t]? = some th) (hr : th.role = .prod)
    (hs : step s t = some s') :
    ∃ th', s'.threads = s.threads.set t th' ∧ th'.role = .prod ∧ s'.reads = s.reads ∧
      ((th.pc = .wait ∧ th'.pc = .lock ∧ th'.items = th.items ∧ s'.writes = s.writes)
      ∨ (th.pc = .lock ∧ th'.pc = .body ∧ th'.items = th.items ∧ s'.writes = s.writes)
      ∨ (th.pc = .body ∧ th'.pc = .unlock ∧ ∃ v, th.items = v :: th'.items ∧ s'.writes = s.writes ++ [(t, v)])
      ∨ (th.pc = .unlock ∧ th'.pc = .post ∧ th'.items = th.items ∧ s'.writes = s.writes)
      ∨ (th.pc = .post ∧ th'.pc = nextProd th.items ∧ th'.items = th.items ∧ s'.writes = s.writes)) := by
  unfold step at hs
  simp only [hth] at hs
  obtain ⟨role, pc, items, orig, quota, got⟩ := th
  simp only at hr; subst hr
  cases pc <;> simp only at hs
  · by_cases he : s.empty = 0
    · simp [he] at hs
    · simp [he] at hs; subst hs
      exact ⟨_, rfl, rfl, rfl, Or.inl ⟨rfl, rfl, rfl, rfl⟩⟩
  · by_cases hm : s.pmutex.isSome
    · simp [hm] at hs
    · simp [hm] at hs; subst hs
      exact ⟨_, rfl, rfl, rfl, Or.inr (Or.inl ⟨rfl, rfl, rfl, rfl⟩)⟩
  · cases items with
    | nil => simp at hs
    | cons v rest =>
      simp at hs; subst hs
      exact ⟨_, rfl, rfl, rfl, Or.inr (Or.inr (Or.inl ⟨rfl, rfl, v, rfl, rfl⟩))⟩
  · simp at hs; subst hs
    exact ⟨_, rfl, rfl, rfl, Or.inr (Or.inr (Or.inr (Or.inl ⟨rfl, rfl, rfl, rfl⟩)))⟩
  · simp at hs; subst hs
    exact ⟨_, rfl, rfl, rfl, Or.inr (Or.inr (Or.inr (Or.inr ⟨rfl, rfl, rfl, rfl⟩)))⟩
  · simp at hs

theorem step_cons {s s' : State} {t : Nat} {th : Thread} (hth : s.threads[t]? = some th) (hr : th.role = .cons)
    (hs : step s t = some s') :
    ∃ th', s'.threads = s.threads.set t th' ∧ th'.role = .cons ∧ s'.writes = s.writes ∧
      ((th.pc = .wait ∧ th'.pc = .lock ∧ th'.quota = th.quota ∧ th'.got = th.got ∧ s'.reads = s.reads)
      ∨ (th.pc = .lock ∧ th'.pc = .body ∧ th'.quota = th.quota ∧ th'.got = th.got ∧ s'.reads = s.reads)
      ∨ (th.pc = .body ∧ th'.pc = .unlock ∧ th'.quota = th.quota - 1
          ∧ th'.got = th.got ++ [s.ring s.consumeAt] ∧ s'.reads = s.reads ++ [(t, s.ring s.consumeAt)])
      ∨ (th.pc = .unlock ∧ th'.pc = .post ∧ th'.quota = th.quota ∧ th'.got = th.got ∧ s'.reads = s.reads)
      ∨ (th.pc = .post ∧ th'.pc = nextCons th.quota ∧ th'.quota = th.quota ∧ th'.got = th.got ∧ s'.reads = s.reads)) := by
  unfold step at hs
  simp only [hth] at hs
  obtain ⟨role, pc, items, orig, quota, got⟩ := th
  simp only at hr; subst hr
  cases pc <;> simp only at hs
  · by_cases he : s.used = 0
    · simp [he] at hs
    · simp [he] at hs; subst hs
      exact ⟨_, rfl, rfl, rfl, Or.inl ⟨rfl, rfl, rfl, rfl, rfl⟩⟩
  · by_cases hm : s.cmutex.isSome
    · simp [hm] at hs
    · simp [hm] at hs; subst hs
      exact ⟨_, rfl, rfl, rfl, Or.inr (Or.inl ⟨rfl, rfl, rfl, rfl, rfl⟩)⟩
  · simp at hs; subst hs
    exact ⟨_, rfl, rfl, rfl, Or.inr (Or.inr (Or.inl ⟨rfl, rfl, rfl, rfl, rfl⟩))⟩
  · simp at hs; subst hs
    exact ⟨_, rfl, rfl, rfl, Or.inr (Or.inr (Or.inr (Or.inl ⟨rfl, rfl, rfl, rfl, rfl⟩)))⟩
  · simp at hs; subst hs
    exact ⟨_, rfl, rfl, rfl, Or.inr (Or.inr (Or.inr (Or.inr ⟨rfl, rfl, rfl, rfl, rfl⟩)))⟩
  · simp at hs

/-! ### abstraction and invariant of the product -/

def linearized (s : State) (t : Nat) : Bool :=
  match pcOf s t with
  | .unlock => true
  | .post => true
  | .done => true
  | _ => false

/-- local state of a thread in the atomic system: a thread inside `Produce`/`Consume` has already made its
abstract step iff its critical-section body (the linearisation point) has been executed -/
def absLoc (c : CState σ) (t : Nat) : σ :=
  match c.mode t with
  | .idle => c.loc t
  | .inP q _ k => if linearized (c.qs q) t then k else c.loc t
  | .inC q k => if linearized (c.qs q) t then k (lastGot (c.qs q) t) else c.loc t

def abs (c : CState σ) : AState σ :=
  { q := fun q => absBuf (c.qs q), loc := absLoc c, popped := fun q => (c.qs q).reads }

def preBody (pc : PC) : Prop := pc = .wait ∨ pc = .lock ∨ pc = .body
def postBody (pc : PC) : Prop := pc = .unlock ∨ pc = .post ∨ pc = .done

/-- consistency of the mode of thread `t` with its entry `th` in queue `q` -/
def ModeOK (P : Prog σ) (l : σ) (t q : Nat) (m : Mode σ) (th : Thread) : Prop :=
  match m with
  | .idle => th.pc = .done
  | .inP q' v k => q' = q ∧ P.act t l = .produce q v k ∧ th.role = .prod
      ∧ (preBody th.pc → th.items = [v]) ∧ (postBody th.pc → th.items = [])
  | .inC q' k => q' = q ∧ P.act t l = .consume q k ∧ th.role = .cons
      ∧ (preBody th.pc → th.quota = 1) ∧ (postBody th.pc → th.quota = 0)

/-- the queue (if any) in which thread `t` has an operation in progress -/
def Mode.queue : Mode σ → Option Nat
  | .idle => none
  | .inP q _ _ => some q
  | .inC q _ => some q

structure CInv (P : Prog σ) (c : CState σ) : Prop where
  qinv : ∀ q, ∃ dP dC, Inv dP dC (c.qs q)
  qcap : ∀ q, (c.qs q).cap = P.cap q
  qlen : ∀ q, (c.qs q).threads.length = P.nthreads
  /-- outside the queue of its current operation every entry of a thread is at rest -/
  rest : ∀ t q, (c.mode t).queue ≠ some q → pcOf (c.qs q) t = .done
  mok : ∀ t q th, (c.mode t).queue = some q → (c.qs q).threads[t]? = some th → ModeOK P (c.loc t) t q (c.mode t) th

theorem entry_of_lt {P : Prog σ} {c : CState σ} (h : CInv P c) {t : Nat} (ht : t < P.nthreads) (q : Nat) :
    ∃ th, (c.qs q).threads[t]? = some th := by
  have := h.qlen q
  exact ⟨(c.qs q).threads[t]'(by omega), List.getElem?_eq_getElem (by omega)⟩

theorem pcOf_eq {s : State} {t : Nat} {th : Thread} (h : s.threads[t]? = some th) : pcOf s t = th.pc := by
  simp [pcOf, h]

theorem lastGot_eq {s : State} {t : Nat} {th : Thread} (h : s.threads[t]? = some th) :
    lastGot s t = th.got.getLastD 0 := by
  simp [lastGot, h]

theorem get_set_self {s s' : State} {t : Nat} {th th' : Thread} (hth : s.threads[t]? = some th)
    (hset : s'.threads = s.threads.set t th') : s'.threads[t]? = some th' := by
  rw [hset]; exact set_self hth th'

theorem get_set_ne {s s' : State} {t t' : Nat} {th' : Thread} (hset : s'.threads = s.threads.set t th')
    (hne : t' ≠ t) : s'.threads[t']? = s.threads[t']? := by
  rw [hset]; exact set_other th' hne

/-- replacing queue `q` by a state that differs only in the entry of thread `t` (a call or a micro-step),
together with a new mode of `t` -/
theorem cinv_update {P : Prog σ} {c : CState σ} (h : CInv P c) {t q : Nat} {s' : State} {th th' : Thread}
    {m' : Mode σ} (hth : (c.qs q).threads[t]? = some th) (hset : s'.threads = (c.qs q).threads.set t th')
    (hcap : s'.cap = (c.qs q).cap) (hinv : ∃ dP dC, Inv dP dC s')
    (hold : ∀ q', q' ≠ q → (c.mode t).queue ≠ some q')
    (hm : (m'.queue = some q ∧ ModeOK P (c.loc t) t q m' th') ∨ (m' = .idle ∧ th'.pc = .done)) :
    CInv P { c with qs := upd c.qs q s', mode := upd c.mode t m' } := by
  have hq_self : (upd c.qs q s') q = s' := by simp [Chain.upd]
  have hq_ne : ∀ q', q' ≠ q → (upd c.qs q s') q' = c.qs q' := fun q' e => by simp [Chain.upd, e]
  refine ⟨?_, ?_, ?_, ?_, ?_⟩
  · intro q'
    by_cases e : q' = q
    · subst e; show ∃ dP dC, Inv dP dC (upd c.qs q' s' q'); rw [hq_self]; exact hinv
    · show ∃ dP dC, Inv dP dC (upd c.qs q s' q'); rw [hq_ne q' e]; exact h.qinv q'
  · intro q'
    by_cases e : q' = q
    · subst e; show (upd c.qs q' s' q').cap = _; rw [hq_self, hcap]; exact h.qcap q'
    · show (upd c.qs q s' q').cap = _; rw [hq_ne q' e]; exact h.qcap q'
  · intro q'
    by_cases e : q' = q
    · subst e; show (upd c.qs q' s' q').threads.length = _; rw [hq_self, hset, List.length_set]; exact h.qlen q'
    · show (upd c.qs q s' q').threads.length = _; rw [hq_ne q' e]; exact h.qlen q'
  · intro t' q' hne
    show pcOf (upd c.qs q s' q') t' = .done
    by_cases et : t' = t
    · subst et
      have hmode : (upd c.mode t' m') t' = m' := by simp [Chain.upd]
      simp only [hmode] at hne
      by_cases e : q' = q
      · subst e
        rw [hq_self, pcOf_eq (get_set_self hth hset)]
        rcases hm with ⟨h1, _⟩ | ⟨_, h2⟩
        · exact absurd h1 hne
        · exact h2
      · rw [hq_ne q' e]; exact h.rest t' q' (hold q' e)
    · have hmode : (upd c.mode t m') t' = c.mode t' := by simp [Chain.upd, et]
      simp only [hmode] at hne
      by_cases e : q' = q
      · subst e
        rw [hq_self]
        have := h.rest t' q' hne
        simp only [pcOf, get_set_ne hset et] at this ⊢
        exact this
      · rw [hq_ne q' e]; exact h.rest t' q' hne
  · intro t' q' th0 hqq hget
    by_cases et : t' = t
    · subst et
      have hmode : (upd c.mode t' m') t' = m' := by simp [Chain.upd]
      simp only [hmode] at hqq ⊢
      rcases hm with ⟨h1, h2⟩ | ⟨h1, _⟩
      · have e : q' = q := by rw [h1] at hqq; exact (Option.some.inj hqq).symm
        subst e
        have hg : (upd c.qs q' s' q').threads[t']? = some th0 := hget
        rw [hq_self, get_set_self hth hset] at hg
        cases hg
        exact h2
      · rw [h1] at hqq; cases hqq
    · have hmode : (upd c.mode t m') t' = c.mode t' := by simp [Chain.upd, et]
      simp only [hmode] at hqq ⊢
      have hg : (upd c.qs q s' q').threads[t']? = some th0 := hget
      by_cases e : q' = q
      · subst e
        rw [hq_self, get_set_ne hset et] at hg
        exact h.mok t' q' th0 hqq hg
      · rw [hq_ne q' e] at hg
        exact h.mok t' q' th0 hqq hg

theorem cinv_loc {P : Prog σ} {c : CState σ} (h : CInv P c) {t : Nat} (hidle : c.mode t = .idle) (l' : σ) :
    CInv P { c with loc := upd c.loc t l' } := by
  refine ⟨h.qinv, h.qcap, h.qlen, h.rest, ?_⟩
  intro t' q th0 hq hget
  by_cases et : t' = t
  · subst et; rw [hidle] at hq; cases hq
  · have : (upd c.loc t l') t' = c.loc t' := by simp [Chain.upd, et]
    show ModeOK P (upd c.loc t l' t') t' q (c.mode t') th0
    rw [this]; exact h.mok t' q th0 hq hget

theorem cinv_return {P : Prog σ} {c : CState σ} (h : CInv P c) {t q : Nat}
    (hq : (c.mode t).queue = some q) (hdone : pcOf (c.qs q) t = .done) (l' : σ) :
    CInv P { c with loc := upd c.loc t l', mode := upd c.mode t .idle } := by
  refine ⟨h.qinv, h.qcap, h.qlen, ?_, ?_⟩
  · intro t' q' hne
    by_cases et : t' = t
    · subst et
      by_cases e : q' = q
      · subst e; exact hdone
      · exact h.rest t' q' (by rw [hq]; intro e2; exact e (Option.some.inj e2).symm)
    · have : (upd c.mode t Mode.idle) t' = c.mode t' := by simp [Chain.upd, et]
      simp only [this] at hne
      exact h.rest t' q' hne
  · intro t' q' th0 hqq hget
    by_cases et : t' = t
    · subst et
      have : (upd c.mode t' Mode.idle) t' = Mode.idle := by simp [Chain.upd]
      simp only [this] at hqq
      cases hqq
    · have h1 : (upd c.mode t Mode.idle) t' = c.mode t' := by simp [Chain.upd, et]
      have h2 : (upd c.loc t l') t' = c.loc t' := by simp [Chain.upd, et]
      simp only [h1] at hqq
      show ModeOK P (upd c.loc t l' t') t' q' (upd c.mode t Mode.idle t') th0
      rw [h1, h2]; exact h.mok t' q' th0 hqq hget

/-! ### how the abstraction moves -/

theorem AState.ext' {a b : AState σ} (h1 : a.q = b.q) (h2 : a.loc = b.loc) (h3 : a.popped = b.popped) : a = b := by
  cases a; cases b; simp at h1 h2 h3; simp [h1, h2, h3]

theorem absLoc_other (c c' : CState σ) (t' : Nat) (hloc : c'.loc t' = c.loc t') (hmode : c'.mode t' = c.mode t')
    (hpc : ∀ q', pcOf (c'.qs q') t' = pcOf (c.qs q') t')
    (hg : ∀ q', lastGot (c'.qs q') t' = lastGot (c.qs q') t') : absLoc c' t' = absLoc c t' := by
  unfold absLoc linearized
  rw [hmode, hloc]
  cases c.mode t' <;> simp [hpc, hg]

/-- other threads do not notice a change of the entry of `t` in queue `q` -/
theorem absLoc_frame (c c' : CState σ) {t q : Nat} {s' : State} {th' : Thread}
    (hqs : c'.qs = upd c.qs q s') (hset : s'.threads = (c.qs q).threads.set t th')
    (hloc : ∀ t', t' ≠ t → c'.loc t' = c.loc t') (hmode : ∀ t', t' ≠ t → c'.mode t' = c.mode t')
    (t' : Nat) (hne : t' ≠ t) : absLoc c' t' = absLoc c t' := by
  apply absLoc_other c c' t' (hloc t' hne) (hmode t' hne)
  · intro q'
    rw [hqs]
    by_cases e : q' = q
    · subst e; simp only [Chain.upd, if_true, pcOf, get_set_ne hset hne]
    · simp [Chain.upd, e]
  · intro q'
    rw [hqs]
    by_cases e : q' = q
    · subst e; simp only [Chain.upd, if_true, lastGot, get_set_ne hset hne]
    · simp [Chain.upd, e]

theorem abs_stutter (c c' : CState σ) {t q : Nat} {s' : State} {th' : Thread}
    (hqs : c'.qs = upd c.qs q s') (hset : s'.threads = (c.qs q).threads.set t th')
    (hloc : ∀ t', t' ≠ t → c'.loc t' = c.loc t') (hmode : ∀ t', t' ≠ t → c'.mode t' = c.mode t')
    (hbuf : absBuf s' = absBuf (c.qs q)) (hreads : s'.reads = (c.qs q).reads)
    (hself : absLoc c' t = absLoc c t) : abs c' = abs c := by
  apply AState.ext'
  · funext q'
    show absBuf (c'.qs q') = absBuf (c.qs q')
    rw [hqs]; by_cases e : q' = q
    · subst e; simp [Chain.upd, hbuf]
    · simp [Chain.upd, e]
  · funext t'
    show absLoc c' t' = absLoc c t'
    by_cases e : t' = t
    · subst e; exact hself
    · exact absLoc_frame c c' hqs hset hloc hmode t' e
  · funext q'
    show (c'.qs q').reads = (c.qs q').reads
    rw [hqs]; by_cases e : q' = q
    · subst e; simp [Chain.upd, hreads]
    · simp [Chain.upd, e]

theorem abs_move (c c' : CState σ) {t q : Nat} {s' : State} {th' : Thread}
    (hqs : c'.qs = upd c.qs q s') (hset : s'.threads = (c.qs q).threads.set t th')
    (hloc : ∀ t', t' ≠ t → c'.loc t' = c.loc t') (hmode : ∀ t', t' ≠ t → c'.mode t' = c.mode t') :
    abs c' = { q := upd (abs c).q q (absBuf s'), loc := upd (abs c).loc t (absLoc c' t),
               popped := upd (abs c).popped q s'.reads } := by
  apply AState.ext'
  · funext q'
    show absBuf (c'.qs q') = upd (fun q => absBuf (c.qs q)) q (absBuf s') q'
    rw [hqs]; by_cases e : q' = q
    · subst e; simp [Chain.upd]
    · simp [Chain.upd, e]
  · funext t'
    show absLoc c' t' = upd (absLoc c) t (absLoc c' t) t'
    by_cases e : t' = t
    · subst e; simp [Chain.upd]
    · simp only [Chain.upd, e, if_false]; exact absLoc_frame c c' hqs hset hloc hmode t' e
  · funext q'
    show (c'.qs q').reads = upd (fun q => (c.qs q).reads) q s'.reads q'
    rw [hqs]; by_cases e : q' = q
    · subst e; simp [Chain.upd]
    · simp [Chain.upd, e]

theorem upd_self {α : Type} (f : Nat → α) (i : Nat) : upd f i (f i) = f := by
  funext j; by_cases e : j = i <;> simp [Chain.upd, e]

theorem linearized_eq {s : State} {t : Nat} {th : Thread} (h : s.threads[t]? = some th) :
    linearized s t = (match th.pc with | .unlock => true | .post => true | .done => true | _ => false) := by
  simp [linearized, pcOf, h]

/-! ### a per-thread potential for termination

`gOf c t` = potential of thread `t`: idle 7; inside an operation 6, 5, 4 before the critical-section body and
10, 9, 8 after it (at `unlock`, `post`, returned-not-yet-handed-over).  Every stutter step of `t` lowers it; the
linearising body step raises it by 6 while the abstract system makes a step. -/

def gPc : PC → Nat
  | .wait => 6 | .lock => 5 | .body => 4 | .unlock => 10 | .post => 9 | .done => 8

def gOf (c : CState σ) (t : Nat) : Nat :=
  match c.mode t with
  | .idle => 7
  | .inP q _ _ => gPc (pcOf (c.qs q) t)
  | .inC q _ => gPc (pcOf (c.qs q) t)

theorem gOf_other (c c' : CState σ) (t' : Nat) (hmode : c'.mode t' = c.mode t')
    (hpc : ∀ q', pcOf (c'.qs q') t' = pcOf (c.qs q') t') : gOf c' t' = gOf c t' := by
  unfold gOf
  rw [hmode]
  cases c.mode t' <;> simp [hpc]

theorem gOf_frame (c c' : CState σ) {t q : Nat} {s' : State} {th' : Thread}
    (hqs : c'.qs = upd c.qs q s') (hset : s'.threads = (c.qs q).threads.set t th')
    (hmode : ∀ t', t' ≠ t → c'.mode t' = c.mode t') (t' : Nat) (hne : t' ≠ t) : gOf c' t' = gOf c t' := by
  apply gOf_other c c' t' (hmode t' hne)
  intro q'
  rw [hqs]
  by_cases e : q' = q
  · subst e; simp only [Chain.upd, if_true, pcOf, get_set_ne hset hne]
  · simp [Chain.upd, e]

/-- what a step of thread `t` does to the abstraction and to the potentials -/
def StepRel (P : Prog σ) (c c' : CState σ) (t : Nat) : Prop :=
  ((abs c' = abs c ∧ gOf c' t < gOf c t) ∨ (astep P (abs c) t = some (abs c') ∧ gOf c' t ≤ gOf c t + 6))
  ∧ ∀ t', t' ≠ t → gOf c' t' = gOf c t'

/-! ### the forward simulation, one mode at a time -/

theorem sim_inP {P : Prog σ} {c c' : CState σ} {t q v : Nat} {k : σ} (h : CInv P c) (ht : t < P.nthreads)
    (hmode : c.mode t = .inP q v k) (hs : cstep P c t = some c') :
    CInv P c' ∧ StepRel P c c' t := by
  obtain ⟨th, hth⟩ := entry_of_lt h ht q
  have hq : (c.mode t).queue = some q := by rw [hmode]; rfl
  have hmok := h.mok t q th hq hth
  rw [hmode] at hmok
  obtain ⟨_, hact, hrole, hpre, hpost⟩ := hmok
  have hold : ∀ q', q' ≠ q → (c.mode t).queue ≠ some q' := by
    intro q' e e2; rw [hq] at e2; exact e (Option.some.inj e2).symm
  unfold cstep at hs
  rw [if_pos ht] at hs
  simp only [hmode] at hs
  by_cases hdone : pcOf (c.qs q) t = .done
  · -- return
    rw [if_pos hdone] at hs; cases hs
    refine ⟨cinv_return h hq hdone k, ⟨Or.inl ⟨?_, ?_⟩, ?_⟩⟩
    · apply AState.ext'
      · rfl
      · funext t'
        show absLoc { c with loc := upd c.loc t k, mode := upd c.mode t .idle } t' = absLoc c t'
        by_cases e : t' = t
        · subst e
          have hlin : linearized (c.qs q) t' = true := by simp [linearized, hdone]
          simp [absLoc, hmode, hlin, Chain.upd]
        · apply absLoc_other <;> simp [Chain.upd, e]
      · rfl
    · simp [gOf, hmode, hdone, Chain.upd, gPc]
    · intro t' e; apply gOf_other <;> simp [Chain.upd, e]
  · rw [if_neg hdone] at hs
    cases hst : step (c.qs q) t with
    | none => simp [hst] at hs
    | some s' =>
      simp only [hst] at hs; cases hs
      obtain ⟨dP, dC, hinv⟩ := h.qinv q
      obtain ⟨th', hset, hrole', hreads, hcase⟩ := step_prod hth hrole hst
      have hinv' := inv_step hinv hst
      have hcap := cap_step hinv hst
      have hth' := get_set_self hth hset
      have hlin := linearized_eq hth
      have hlin' := linearized_eq hth'
      have hcinv : ∀ (hmo : ModeOK P (c.loc t) t q (.inP q v k) th'),
          CInv P { c with qs := upd c.qs q s' } := by
        intro hmo
        have := cinv_update h hth hset hcap ⟨dP, dC, hinv'⟩ hold (m' := .inP q v k) (Or.inl ⟨rfl, hmo⟩)
        have e : upd c.mode t (.inP q v k) = c.mode := by rw [← hmode]; exact upd_self _ _
        rw [e] at this; exact this
      have stutter : s'.writes = (c.qs q).writes →
          linearized s' t = linearized (c.qs q) t → abs { c with qs := upd c.qs q s' } = abs c := by
        intro hw hl
        apply abs_stutter c { c with qs := upd c.qs q s' } rfl hset (fun _ _ => rfl) (fun _ _ => rfl)
          (absBuf_frame hw hreads) hreads
        simp only [absLoc, hmode, Chain.upd, if_true, hl]
      have gold : gOf c t = gPc th.pc := by simp [gOf, hmode, pcOf_eq hth]
      have gnew : gOf { c with qs := upd c.qs q s' } t = gPc th'.pc := by
        simp [gOf, hmode, Chain.upd, pcOf_eq hth']
      have gfr : ∀ t', t' ≠ t → gOf { c with qs := upd c.qs q s' } t' = gOf c t' :=
        gOf_frame c { c with qs := upd c.qs q s' } rfl hset (fun _ _ => rfl)
      rcases hcase with ⟨h1, h2, h3, h4⟩ | ⟨h1, h2, h3, h4⟩ | ⟨h1, h2, v0, h3, h4⟩ | ⟨h1, h2, h3, h4⟩ | ⟨h1, h2, h3, h4⟩
      · refine ⟨hcinv ⟨rfl, hact, hrole', fun _ => by rw [h3]; exact hpre (Or.inl h1), fun hp => ?_⟩,
                ⟨Or.inl ⟨stutter h4 (by rw [hlin, hlin', h1, h2]), by rw [gnew, gold, h1, h2]; decide⟩, gfr⟩⟩
        rcases hp with e | e | e <;> simp [h2] at e
      · refine ⟨hcinv ⟨rfl, hact, hrole', fun _ => by rw [h3]; exact hpre (Or.inr (Or.inl h1)), fun hp => ?_⟩,
                ⟨Or.inl ⟨stutter h4 (by rw [hlin, hlin', h1, h2]), by rw [gnew, gold, h1, h2]; decide⟩, gfr⟩⟩
        rcases hp with e | e | e <;> simp [h2] at e
      · -- the linearisation point: push
        have hitems := hpre (Or.inr (Or.inr h1))
        rw [hitems] at h3
        have hv : v0 = v ∧ th'.items = [] := by
          simp at h3
          obtain ⟨e1, e2⟩ := h3
          exact ⟨by first | exact e1 | exact e1.symm, by first | exact e2 | exact e2.symm⟩
        obtain ⟨rfl, hnil⟩ := hv
        refine ⟨hcinv ⟨rfl, hact, hrole', fun hp => ?_, fun _ => hnil⟩, ⟨Or.inr ⟨?_, by rw [gnew, gold, h1, h2]; decide⟩, gfr⟩⟩
        · rcases hp with e | e | e <;> simp [h2] at e
        · have href := step_refines hinv hst
          have hev : stepEvent (c.qs q) t = some (.push t v0) := by
            simp [stepEvent, hth, hrole, h1, hitems]
          rw [hev] at href
          simp only at href
          rw [h.qcap q] at href
          have habs := abs_move c { c with qs := upd c.qs q s' } rfl hset (fun _ _ => rfl) (fun _ _ => rfl)
          have hl' : absLoc { c with qs := upd c.qs q s' } t = k := by
            simp [absLoc, hmode, Chain.upd, hlin', h2]
          have hl : absLoc c t = c.loc t := by simp [absLoc, hmode, hlin, h1]
          rw [habs, hl', hreads]
          have hp0 : upd (abs c).popped q (c.qs q).reads = (abs c).popped := upd_self (fun q => (c.qs q).reads) q
          rw [hp0]
          unfold astep
          rw [if_pos ht]
          have hl2 : (abs c).loc t = c.loc t := hl
          have href2 : fifoPush (P.cap q) ((abs c).q q) v0 = some (absBuf s') := href
          simp only [hl2, hact, href2]
      · have hi0 := hpost (Or.inl h1)
        refine ⟨hcinv ⟨rfl, hact, hrole', fun hp => ?_, fun _ => by rw [h3]; exact hi0⟩,
                ⟨Or.inl ⟨stutter h4 (by rw [hlin, hlin', h1, h2]), by rw [gnew, gold, h1, h2]; decide⟩, gfr⟩⟩
        rcases hp with e | e | e <;> simp [h2] at e
      · have hi0 := hpost (Or.inr (Or.inl h1))
        have hnp : th'.pc = .done := by rw [h2, hi0]; rfl
        refine ⟨hcinv ⟨rfl, hact, hrole', fun hp => ?_, fun _ => by rw [h3]; exact hi0⟩,
                ⟨Or.inl ⟨stutter h4 (by rw [hlin, hlin', h1, hnp]), by rw [gnew, gold, h1, hnp]; decide⟩, gfr⟩⟩
        rcases hp with e | e | e <;> simp [hnp] at e

theorem sim_inC {P : Prog σ} {c c' : CState σ} {t q : Nat} {k : Nat → σ} (h : CInv P c) (ht : t < P.nthreads)
    (hmode : c.mode t = .inC q k) (hs : cstep P c t = some c') :
    CInv P c' ∧ StepRel P c c' t := by
  obtain ⟨th, hth⟩ := entry_of_lt h ht q
  have hq : (c.mode t).queue = some q := by rw [hmode]; rfl
  have hmok := h.mok t q th hq hth
  rw [hmode] at hmok
  obtain ⟨_, hact, hrole, hpre, hpost⟩ := hmok
  have hold : ∀ q', q' ≠ q → (c.mode t).queue ≠ some q' := by
    intro q' e e2; rw [hq] at e2; exact e (Option.some.inj e2).symm
  unfold cstep at hs
  rw [if_pos ht] at hs
  simp only [hmode] at hs
  by_cases hdone : pcOf (c.qs q) t = .done
  · rw [if_pos hdone] at hs; cases hs
    refine ⟨cinv_return h hq hdone _, ⟨Or.inl ⟨?_, ?_⟩, ?_⟩⟩
    · apply AState.ext'
      · rfl
      · funext t'
        show absLoc { c with loc := upd c.loc t (k (lastGot (c.qs q) t)), mode := upd c.mode t .idle } t' = absLoc c t'
        by_cases e : t' = t
        · subst e
          have hlin : linearized (c.qs q) t' = true := by simp [linearized, hdone]
          simp [absLoc, hmode, hlin, Chain.upd]
        · apply absLoc_other <;> simp [Chain.upd, e]
      · rfl
    · simp [gOf, hmode, hdone, Chain.upd, gPc]
    · intro t' e; apply gOf_other <;> simp [Chain.upd, e]
  · rw [if_neg hdone] at hs
    cases hst : step (c.qs q) t with
    | none => simp [hst] at hs
    | some s' =>
      simp only [hst] at hs; cases hs
      obtain ⟨dP, dC, hinv⟩ := h.qinv q
      obtain ⟨th', hset, hrole', hwrites, hcase⟩ := step_cons hth hrole hst
      have hinv' := inv_step hinv hst
      have hcap := cap_step hinv hst
      have hth' := get_set_self hth hset
      have hlin := linearized_eq hth
      have hlin' := linearized_eq hth'
      have hcinv : ∀ (hmo : ModeOK P (c.loc t) t q (.inC q k) th'),
          CInv P { c with qs := upd c.qs q s' } := by
        intro hmo
        have := cinv_update h hth hset hcap ⟨dP, dC, hinv'⟩ hold (m' := .inC q k) (Or.inl ⟨rfl, hmo⟩)
        have e : upd c.mode t (.inC q k) = c.mode := by rw [← hmode]; exact upd_self _ _
        rw [e] at this; exact this
      have stutter : s'.reads = (c.qs q).reads → th'.got = th.got →
          linearized s' t = linearized (c.qs q) t → abs { c with qs := upd c.qs q s' } = abs c := by
        intro hr hg hl
        apply abs_stutter c { c with qs := upd c.qs q s' } rfl hset (fun _ _ => rfl) (fun _ _ => rfl)
          (absBuf_frame hwrites hr) hr
        have hgot : lastGot s' t = lastGot (c.qs q) t := by rw [lastGot_eq hth', lastGot_eq hth, hg]
        simp only [absLoc, hmode, Chain.upd, if_true, hl, hgot]
      have gold : gOf c t = gPc th.pc := by simp [gOf, hmode, pcOf_eq hth]
      have gnew : gOf { c with qs := upd c.qs q s' } t = gPc th'.pc := by
        simp [gOf, hmode, Chain.upd, pcOf_eq hth']
      have gfr : ∀ t', t' ≠ t → gOf { c with qs := upd c.qs q s' } t' = gOf c t' :=
        gOf_frame c { c with qs := upd c.qs q s' } rfl hset (fun _ _ => rfl)
      rcases hcase with ⟨h1, h2, h3, h4, h5⟩ | ⟨h1, h2, h3, h4, h5⟩ | ⟨h1, h2, h3, h4, h5⟩ | ⟨h1, h2, h3, h4, h5⟩
          | ⟨h1, h2, h3, h4, h5⟩
      · refine ⟨hcinv ⟨rfl, hact, hrole', fun _ => by rw [h3]; exact hpre (Or.inl h1), fun hp => ?_⟩,
                ⟨Or.inl ⟨stutter h5 h4 (by rw [hlin, hlin', h1, h2]), by rw [gnew, gold, h1, h2]; decide⟩, gfr⟩⟩
        rcases hp with e | e | e <;> simp [h2] at e
      · refine ⟨hcinv ⟨rfl, hact, hrole', fun _ => by rw [h3]; exact hpre (Or.inr (Or.inl h1)), fun hp => ?_⟩,
                ⟨Or.inl ⟨stutter h5 h4 (by rw [hlin, hlin', h1, h2]), by rw [gnew, gold, h1, h2]; decide⟩, gfr⟩⟩
        rcases hp with e | e | e <;> simp [h2] at e
      · -- the linearisation point: pop
        have hquota := hpre (Or.inr (Or.inr h1))
        refine ⟨hcinv ⟨rfl, hact, hrole', fun hp => ?_, fun _ => by rw [h3, hquota]⟩, ⟨Or.inr ⟨?_, by rw [gnew, gold, h1, h2]; decide⟩, gfr⟩⟩
        · rcases hp with e | e | e <;> simp [h2] at e
        · have href := step_refines hinv hst
          have hev : stepEvent (c.qs q) t = some (.pop t ((c.qs q).ring (c.qs q).consumeAt)) := by
            simp [stepEvent, hth, hrole, h1]
          rw [hev] at href
          simp only at href
          have habs := abs_move c { c with qs := upd c.qs q s' } rfl hset (fun _ _ => rfl) (fun _ _ => rfl)
          have hgot : lastGot s' t = (c.qs q).ring (c.qs q).consumeAt := by
            rw [lastGot_eq hth', h4]; simp
          have hl' : absLoc { c with qs := upd c.qs q s' } t = k ((c.qs q).ring (c.qs q).consumeAt) := by
            simp [absLoc, hmode, Chain.upd, hlin', h2, hgot]
          have hl : absLoc c t = c.loc t := by simp [absLoc, hmode, hlin, h1]
          rw [habs, hl', h5]
          unfold astep
          rw [if_pos ht]
          have hl2 : (abs c).loc t = c.loc t := hl
          have href2 : fifoPop ((abs c).q q) = some ((c.qs q).ring (c.qs q).consumeAt, absBuf s') := href
          simp only [hl2, hact, href2]
          rfl
      · have hi0 := hpost (Or.inl h1)
        refine ⟨hcinv ⟨rfl, hact, hrole', fun hp => ?_, fun _ => by rw [h3]; exact hi0⟩,
                ⟨Or.inl ⟨stutter h5 h4 (by rw [hlin, hlin', h1, h2]), by rw [gnew, gold, h1, h2]; decide⟩, gfr⟩⟩
        rcases hp with e | e | e <;> simp [h2] at e
      · have hi0 := hpost (Or.inr (Or.inl h1))
        have hnp : th'.pc = .done := by rw [h2, hi0]; rfl
        refine ⟨hcinv ⟨rfl, hact, hrole', fun hp => ?_, fun _ => by rw [h3]; exact hi0⟩,
                ⟨Or.inl ⟨stutter h5 h4 (by rw [hlin, hlin', h1, hnp]), by rw [gnew, gold, h1, hnp]; decide⟩, gfr⟩⟩
        rcases hp with e | e | e <;> simp [hnp] at e

theorem abs_loc_step (c : CState σ) {t : Nat} (hidle : c.mode t = .idle) (l' : σ) :
    abs { c with loc := upd c.loc t l' } = { abs c with loc := upd (abs c).loc t l' } := by
  apply AState.ext'
  · rfl
  · funext t'
    show absLoc { c with loc := upd c.loc t l' } t' = upd (absLoc c) t l' t'
    by_cases e : t' = t
    · subst e; simp [absLoc, hidle, Chain.upd]
    · simp only [Chain.upd, e, if_false]
      apply absLoc_other <;> simp [Chain.upd, e]
  · rfl

theorem sim_idle {P : Prog σ} {c c' : CState σ} {t : Nat} (h : CInv P c) (ht : t < P.nthreads)
    (hmode : c.mode t = .idle) (hs : cstep P c t = some c') :
    CInv P c' ∧ StepRel P c c' t := by
  have hnone : ∀ q, (c.mode t).queue ≠ some q := by intro q e; rw [hmode] at e; cases e
  have hl : (abs c).loc t = c.loc t := by show absLoc c t = c.loc t; simp [absLoc, hmode]
  unfold cstep at hs
  rw [if_pos ht] at hs
  simp only [hmode] at hs
  cases hact : P.act t (c.loc t) with
  | produce q v k =>
    simp only [hact] at hs; cases hs
    obtain ⟨th, hth⟩ := entry_of_lt h ht q
    have hpc : th.pc = .done := by rw [← pcOf_eq hth]; exact h.rest t q (hnone q)
    obtain ⟨dP, dC, hinv⟩ := h.qinv q
    have hset : (armProd (c.qs q) t v).threads = (c.qs q).threads.set t
        { role := .prod, pc := .wait, items := [v],
          orig := ((c.qs q).writes.filter (fun x => x.1 == t)).map (·.2) ++ [v] } := rfl
    refine ⟨cinv_update h hth hset rfl ⟨_, _, arm_prod_inv hinv hth hpc v⟩ (fun q' _ => hnone q')
              (Or.inl ⟨rfl, rfl, hact, rfl, fun _ => rfl, fun hp => ?_⟩), ⟨Or.inl ⟨?_, ?_⟩, ?_⟩⟩
    · rcases hp with e | e | e <;> simp at e
    · apply abs_stutter c { c with qs := upd c.qs q (armProd (c.qs q) t v), mode := upd c.mode t (.inP q v k) }
        rfl hset (fun _ _ => rfl) (fun t' e => by simp [Chain.upd, e]) (absBuf_frame rfl rfl) rfl
      have hlin : linearized (armProd (c.qs q) t v) t = false := by
        rw [linearized_eq (get_set_self hth hset)]
      simp [absLoc, hmode, Chain.upd, hlin]
    · simp [gOf, hmode, Chain.upd, pcOf_eq (get_set_self hth hset), gPc]
    · exact gOf_frame c _ rfl hset (fun t' e => by simp [Chain.upd, e])
  | consume q k =>
    simp only [hact] at hs; cases hs
    obtain ⟨th, hth⟩ := entry_of_lt h ht q
    have hpc : th.pc = .done := by rw [← pcOf_eq hth]; exact h.rest t q (hnone q)
    obtain ⟨dP, dC, hinv⟩ := h.qinv q
    have hset : (armCons (c.qs q) t).threads = (c.qs q).threads.set t
        { role := .cons, pc := .wait, quota := 1,
          got := ((c.qs q).reads.filter (fun x => x.1 == t)).map (·.2) } := rfl
    refine ⟨cinv_update h hth hset rfl ⟨_, _, arm_cons_inv hinv hth hpc⟩ (fun q' _ => hnone q')
              (Or.inl ⟨rfl, rfl, hact, rfl, fun _ => rfl, fun hp => ?_⟩), ⟨Or.inl ⟨?_, ?_⟩, ?_⟩⟩
    · rcases hp with e | e | e <;> simp at e
    · apply abs_stutter c { c with qs := upd c.qs q (armCons (c.qs q) t), mode := upd c.mode t (.inC q k) }
        rfl hset (fun _ _ => rfl) (fun t' e => by simp [Chain.upd, e]) (absBuf_frame rfl rfl) rfl
      have hlin : linearized (armCons (c.qs q) t) t = false := by
        rw [linearized_eq (get_set_self hth hset)]
      simp [absLoc, hmode, Chain.upd, hlin]
    · simp [gOf, hmode, Chain.upd, pcOf_eq (get_set_self hth hset), gPc]
    · exact gOf_frame c _ rfl hset (fun t' e => by simp [Chain.upd, e])
  | tau k =>
    simp only [hact] at hs; cases hs
    refine ⟨cinv_loc h hmode k, ⟨Or.inr ⟨?_, ?_⟩, ?_⟩⟩
    · rw [abs_loc_step c hmode k]
      unfold astep
      rw [if_pos ht]
      simp only [hl, hact]
    · simp [gOf, hmode]
    · intro t' e; apply gOf_other <;> simp
  | await p pred k =>
    simp only [hact] at hs
    cases hmp : c.mode p with
    | idle =>
      simp only [hmp] at hs
      by_cases hp : pred (c.loc p) = true
      · rw [if_pos hp] at hs; cases hs
        refine ⟨cinv_loc h hmode k, ⟨Or.inr ⟨?_, ?_⟩, ?_⟩⟩
        · rw [abs_loc_step c hmode k]
          unfold astep
          rw [if_pos ht]
          have hlp : (abs c).loc p = c.loc p := by show absLoc c p = c.loc p; simp [absLoc, hmp]
          simp only [hl, hact, hlp, hp, if_true]
        · simp [gOf, hmode]
        · intro t' e; apply gOf_other <;> simp
      · rw [if_neg hp] at hs; cases hs
    | inP _ _ _ => simp [hmp] at hs
    | inC _ _ => simp [hmp] at hs
  | stop => simp [hact] at hs

/-- **forward simulation** (client-generic, any number of queues): every step of the composed step-level system
preserves the product invariant and is a stutter step or exactly one step of the atomic-FIFO system -/
theorem sim_step {P : Prog σ} {c c' : CState σ} {t : Nat} (h : CInv P c) (hs : cstep P c t = some c') :
    CInv P c' ∧ StepRel P c c' t := by
  by_cases ht : t < P.nthreads
  · cases hm : c.mode t with
    | idle => exact sim_idle h ht hm hs
    | inP q v k => exact sim_inP h ht hm hs
    | inC q k => exact sim_inC h ht hm hs
  · unfold cstep at hs; rw [if_neg ht] at hs; cases hs

/-- EINTR inside `Produce` / `Consume` of the composed system is a stutter step -/
theorem sim_intr {c c' : CState σ} {t : Nat} (hs : cintr c t = some c') : c' = c := by
  unfold cintr at hs
  cases hm : c.mode t with
  | idle => simp [hm] at hs
  | inP q v k =>
    simp only [hm] at hs
    cases hi : interrupt (c.qs q) t with
    | none => simp [hi] at hs
    | some s' =>
      simp [hi] at hs
      rw [interrupt_eq hi, upd_self] at hs
      exact hs.symm
  | inC q k =>
    simp only [hm] at hs
    cases hi : interrupt (c.qs q) t with
    | none => simp [hi] at hs
    | some s' =>
      simp [hi] at hs
      rw [interrupt_eq hi, upd_self] at hs
      exact hs.symm

theorem cinv_init (P : Prog σ) (loc0 : Nat → σ) (hcap : ∀ q, 0 < P.cap q) : CInv P (cinit P loc0) := by
  have hdone : ∀ (q t : Nat) (th : Thread), (cinit P loc0).qs q |>.threads[t]? = some th → th.pc = .done := by
    intro q t th hth
    have hm := List.mem_of_getElem? hth
    simp only [cinit, mkInit, List.map_nil, List.append_nil, List.map_replicate] at hm
    have := List.eq_of_mem_replicate hm
    rw [this]; rfl
  refine ⟨fun q => ⟨_, _, inv_init (P.cap q) _ [] (hcap q)⟩, fun q => rfl, ?_, ?_, ?_⟩
  · intro q; simp [cinit, mkInit]
  · intro t q _
    unfold pcOf
    cases hth : ((cinit P loc0).qs q).threads[t]? with
    | none => rfl
    | some th => exact hdone q t th hth
  · intro t q th hq _
    simp [cinit, Mode.queue] at hq

theorem abs_init (P : Prog σ) (loc0 : Nat → σ) : abs (cinit P loc0) = ainit loc0 := by
  apply AState.ext'
  · funext q; simp [abs, cinit, absBuf, mkInit, ainit]
  · funext t; simp [abs, absLoc, cinit, ainit]
  · funext q; simp [abs, cinit, mkInit, ainit]

/-- **stuttering refinement**: every run of the composed step-level system (with arbitrary EINTR interrupts) maps
under `abs` to a run of the atomic-FIFO system with the same client programs -/
theorem creach_refines {P : Prog σ} {loc0 : Nat → σ} (hcap : ∀ q, 0 < P.cap q) {c : CState σ}
    (hr : CReach P (cinit P loc0) c) : CInv P c ∧ AReach P (ainit loc0) (abs c) := by
  induction hr with
  | init => exact ⟨cinv_init P loc0 hcap, by rw [abs_init]; exact .init⟩
  | step _ hs ih =>
    obtain ⟨h1, h2⟩ := sim_step ih.1 hs
    refine ⟨h1, ?_⟩
    rcases h2.1 with ⟨e, _⟩ | ⟨e, _⟩
    · rw [e]; exact ih.2
    · exact .step ih.2 e
  | intr _ hs ih => rw [sim_intr hs]; exact ih

end KV.Sys
