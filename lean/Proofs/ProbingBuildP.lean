import Proofs.ProbingBuildBlank2
/-! Key-indexed view of the builder state: every table (and the unigram array, as keys of length 1) holds the
payload `want k` for its keys; primitive operations are updates of `want` at one key.  This separates the index
bookkeeping from the semantic computation on keys (used for blank chains of any length). -/
namespace KV.ProbingBuild
open KV.Arpa KV.Table KV.Score KV.ProbingLM

def updW (want : Key → W) (k : Key) (w : W) : Key → W := fun k' => if k' = k then w else want k'

structure OrdP (combine : Nat → Word → Nat) (Ks : List Key) (cap : Nat) (o : Ord) (M : Nat → Option Nat) (want : Key → W) : Prop where
  inv : OrdInv o M
  ent : o.t.entries = Ks.length
  cap : o.t.N = cap
  plen : o.pay.length = Ks.length
  key : ∀ j (hj : j < Ks.length), M (hashOf combine Ks[j]) = some j
  pay : ∀ j (hj : j < Ks.length), o.pay.getD j default = want Ks[j]
  only : ∀ h i, M h = some i → ∃ (hj : i < Ks.length), h = hashOf combine Ks[i]

theorem ordP_of_G {combine : Nat → Word → Nat} {a : Arpa} {S : List Key} {m cap : Nat} {o : Ord} {M : Nat → Option Nat}
    (h : OrdG combine a S m cap o M) : OrdP combine (keysOf S m) cap o M (wantW a S) :=
  ⟨h.inv, h.ent, h.cap, h.plen, h.key, h.pay, h.only⟩

theorem ordG_of_P {combine : Nat → Word → Nat} {a : Arpa} {S : List Key} {m cap : Nat} {o : Ord} {M : Nat → Option Nat}
    (h : OrdP combine (keysOf S m) cap o M (wantW a S)) : OrdG combine a S m cap o M :=
  ⟨h.inv, h.ent, h.cap, h.plen, h.key, h.pay, h.only⟩

theorem OrdP.idx_unique {combine : Nat → Word → Nat} {Ks : List Key} {cap : Nat} {o : Ord} {M : Nat → Option Nat} {want : Key → W}
    (h : OrdP combine Ks cap o M want) (j j' : Nat) (hj : j < Ks.length) (hj' : j' < Ks.length) (he : Ks[j] = Ks[j']) : j = j' := by
  have h1 := h.key j hj
  have h2 := h.key j' hj'
  rw [he, h2] at h1
  injection h1 with h1
  exact h1.symm

theorem ordP_congr {combine : Nat → Word → Nat} {Ks : List Key} {cap : Nat} {o : Ord} {M : Nat → Option Nat} {want want' : Key → W}
    (h : OrdP combine Ks cap o M want) (hw : ∀ k ∈ Ks, want k = want' k) : OrdP combine Ks cap o M want' :=
  ⟨h.inv, h.ent, h.cap, h.plen, h.key, fun j hj => by rw [h.pay j hj]; exact hw _ (List.getElem_mem hj), h.only⟩

/-- a payload update at the index of a key = an update of `want` at that key -/
theorem ordP_modify {combine : Nat → Word → Nat} {Ks : List Key} {cap : Nat} {o : Ord} {M : Nat → Option Nat} {want : Key → W}
    (h : OrdP combine Ks cap o M want) (i : Nat) (hi : i < Ks.length) (f : W → W) :
    OrdP combine Ks cap (withPay o (o.pay.set i (f (o.pay.getD i default)))) M (updW want Ks[i] (f (want Ks[i]))) := by
  refine ⟨ordInv_setPay h.inv _ _, h.ent, h.cap, by simp [withPay, h.plen], h.key, ?_, h.only⟩
  intro j hj
  show (o.pay.set i (f (o.pay.getD i default))).getD j default = _
  rw [getD_set]
  have hil : i < o.pay.length := by rw [h.plen]; exact hi
  by_cases hji : j = i
  · subst hji
    rw [if_pos ⟨rfl, hil⟩, h.pay j hj]
    simp [updW]
  · have hne : Ks[j] ≠ Ks[i] := fun he => hji (h.idx_unique j i hj hi he)
    rw [if_neg (fun hc => hji hc.1), h.pay j hj]
    simp [updW, hne]

/-- a key of this table is found at its index -/
theorem OrdP.find_mem {combine : Nat → Word → Nat} {Ks : List Key} {cap : Nat} {o : Ord} {M : Nat → Option Nat} {want : Key → W}
    (h : OrdP combine Ks cap o M want) (k : Key) (hk : k ∈ Ks) :
    ∃ j, ∃ (hj : j < Ks.length), Ks[j] = k ∧ M (hashOf combine k) = some j := by
  obtain ⟨j, hj, he⟩ := List.mem_iff_getElem.mp hk
  exact ⟨j, hj, he, by rw [← he]; exact h.key j hj⟩

theorem OrdP.find_fresh {combine : Nat → Word → Nat} {Ks : List Key} {cap : Nat} {o : Ord} {M : Nat → Option Nat} {want : Key → W}
    (h : OrdP combine Ks cap o M want) (g : Key) (hfresh : ∀ k ∈ Ks, hashOf combine k ≠ hashOf combine g) :
    M (hashOf combine g) = none := by
  cases hm : M (hashOf combine g) with
  | none => rfl
  | some i =>
    obtain ⟨hj, hk⟩ := h.only _ i hm
    exact absurd hk.symm (hfresh _ (List.getElem_mem hj))

/-- a new key appended with payload `w` -/
theorem ordP_append {combine : Nat → Word → Nat} {Ks : List Key} {cap : Nat} {o : Ord} {M : Nat → Option Nat} {want : Key → W}
    (h : OrdP combine Ks cap o M want) (g : Key) (w : W) (hnew : g ∉ Ks)
    (hfresh : ∀ k ∈ Ks, hashOf combine k ≠ hashOf combine g)
    (o' : Ord) (oi' : OrdInv o' (KV.Probing.upd M (hashOf combine g) o.pay.length))
    (hpay' : o'.pay = o.pay ++ [w]) (hN' : o'.t.N = o.t.N) (hent' : o'.t.entries = o.t.entries + 1) :
    OrdP combine (Ks ++ [g]) cap o' (KV.Probing.upd M (hashOf combine g) o.pay.length) (updW want g w) := by
  refine ⟨oi', by rw [hent', h.ent]; simp, by rw [hN', h.cap], by rw [hpay']; simp [h.plen], ?_, ?_, ?_⟩
  · intro j hj
    simp only [List.length_append, List.length_cons, List.length_nil] at hj
    by_cases hjl : j < Ks.length
    · rw [List.getElem_append_left hjl]
      unfold KV.Probing.upd
      have hne : hashOf combine Ks[j] ≠ hashOf combine g := hfresh _ (List.getElem_mem hjl)
      simp [hne, h.key j hjl]
    · have hje : j = Ks.length := by omega
      subst hje
      simp [KV.Probing.upd, h.plen]
  · intro j hj
    simp only [List.length_append, List.length_cons, List.length_nil] at hj
    rw [hpay']
    by_cases hjl : j < Ks.length
    · rw [List.getElem_append_left hjl]
      rw [List.getD_eq_getElem?_getD, List.getElem?_append_left (by rw [h.plen]; exact hjl), ← List.getD_eq_getElem?_getD]
      rw [h.pay j hjl]
      have hne : Ks[j] ≠ g := fun he => hnew (by rw [← he]; exact List.getElem_mem hjl)
      simp [updW, hne]
    · have hje : j = Ks.length := by omega
      subst hje
      rw [List.getD_eq_getElem?_getD, List.getElem?_append_right (by rw [h.plen]; exact Nat.le_refl _)]
      simp [h.plen, updW]
  · intro k i hk
    unfold KV.Probing.upd at hk
    split at hk
    · cases hk
      rename_i hkk
      refine ⟨by simp [h.plen], ?_⟩
      simp [h.plen, hkk]
    · obtain ⟨hj, hkk⟩ := h.only k i hk
      refine ⟨by simp; omega, ?_⟩
      rw [List.getElem_append_left hj]; exact hkk

end KV.ProbingBuild
