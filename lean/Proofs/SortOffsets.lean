import Model.Sort
/-! C16: the `Offsets` run-length log reads back exactly the non-zero lengths appended. -/
namespace KV.Sort

/-- the lengths denoted by a list of (length, run) entries -/
def expand (es : List (Nat × Nat)) : List Nat := es.flatMap (fun e => List.replicate e.2 e.1)

@[simp] theorem expand_nil : expand [] = [] := rfl
@[simp] theorem expand_cons (e : Nat × Nat) (es) : expand (e :: es) = List.replicate e.2 e.1 ++ expand es := by
  simp [expand]
@[simp] theorem expand_append (a b : List (Nat × Nat)) : expand (a ++ b) = expand a ++ expand b := by
  simp [expand]

/-- writer invariant: the log starts with the dummy `(0,0)`, all later entries are non-degenerate,
and `block_count_` is the number of lengths logged -/
def WInv (o : Offsets) (tl : List (Nat × Nat)) : Prop :=
  o.log ++ [o.cur] = (0, 0) :: tl ∧ (∀ e ∈ tl, e.1 ≠ 0 ∧ e.2 ≠ 0) ∧ o.blockCount = (expand tl).length

theorem WInv_reset : WInv Offsets.reset [] := by
  simp [WInv, Offsets.reset]

theorem WInv_append {o : Offsets} {tl} (h : WInv o tl) (l : Nat) :
    ∃ tl', WInv (o.append l) tl' ∧ expand tl' = expand tl ++ (if l = 0 then [] else [l]) := by
  obtain ⟨h1, h2, h3⟩ := h
  unfold Offsets.append
  by_cases hl : l = 0
  · exact ⟨tl, ⟨by simp [hl, h1], h2, by simp [hl, h3]⟩, by simp [hl]⟩
  · simp only [hl, ↓reduceIte]
    by_cases hc : l = o.cur.1
    · -- the current entry is a real one (its length is non-zero), so it is the last of tl
      simp only [hc, ↓reduceIte]
      have hne : tl ≠ [] := by
        intro ht
        subst ht
        have hlen := congrArg List.length h1
        simp only [List.length_append, List.length_cons, List.length_nil] at hlen
        have hlog : o.log = [] := List.eq_nil_of_length_eq_zero (by omega)
        rw [hlog] at h1
        simp only [List.nil_append, List.cons.injEq, and_true] at h1
        rw [h1] at hc
        exact hl hc
      obtain ⟨tl0, last, rfl⟩ : ∃ tl0 last, tl = tl0 ++ [last] :=
        ⟨tl.dropLast, tl.getLast hne, (List.dropLast_concat_getLast hne).symm⟩
      have h1' : o.log ++ [o.cur] = ((0, 0) :: tl0) ++ [last] := by simpa using h1
      have hcur : o.cur = last := by
        have := List.append_inj' h1' rfl
        simpa using this.2
      have hlog : o.log = (0, 0) :: tl0 := (List.append_inj' h1' rfl).1
      refine ⟨tl0 ++ [(last.1, last.2 + 1)], ⟨?_, ?_, ?_⟩, ?_⟩
      · simp [hlog, hcur]
      · intro e he
        simp only [List.mem_append, List.mem_singleton] at he
        rcases he with he | rfl
        · exact h2 e (by simp [he])
        · exact ⟨(h2 last (by simp)).1, by simp⟩
      · simp [h3, List.length_replicate]; omega
      · simp [hcur, List.replicate_succ']
    · simp only [hc, ↓reduceIte]
      refine ⟨tl ++ [(l, 1)], ⟨?_, ?_, ?_⟩, ?_⟩
      · simp only [List.append_assoc] at h1 ⊢
        rw [← List.append_assoc, h1]; simp
      · intro e he
        simp only [List.mem_append, List.mem_singleton] at he
        rcases he with he | rfl
        · exact h2 e he
        · exact ⟨hl, by simp⟩
      · simp [h3]
      · simp

theorem WInv_foldl (ls : List Nat) : ∀ {o : Offsets} {tl}, WInv o tl →
    ∃ tl', WInv (ls.foldl Offsets.append o) tl' ∧ expand tl' = expand tl ++ ls.filter (· ≠ 0) := by
  induction ls with
  | nil => intro o tl h; exact ⟨tl, h, by simp⟩
  | cons l ls ih =>
    intro o tl h
    obtain ⟨tl1, h1, e1⟩ := WInv_append h l
    obtain ⟨tl2, h2, e2⟩ := ih h1
    refine ⟨tl2, h2, ?_⟩
    rw [e2, e1]
    by_cases hl : l = 0 <;> simp [hl, List.filter_cons]

/-- reader invariant -/
def RInv (r : OffsetsReader) : Prop :=
  r.cur.1 ≠ 0 ∧ r.cur.2 ≠ 0 ∧ (∀ e ∈ r.rest, e.1 ≠ 0 ∧ e.2 ≠ 0) ∧
    r.blockCount = r.cur.2 + (expand r.rest).length

theorem take_of_RInv : ∀ (n : Nat) (r : OffsetsReader), RInv r → r.blockCount = n →
    r.take n = some (expand (r.cur :: r.rest)) := by
  intro n
  induction n with
  | zero =>
    intro r ⟨_, h2, _, h4⟩ hn
    omega
  | succ n ih =>
    intro r ⟨h1, h2, h3, h4⟩ hn
    obtain ⟨rest, ⟨c1, c2⟩, bc, os⟩ := r
    simp only at h1 h2 h3 h4 hn
    subst hn
    unfold OffsetsReader.take
    simp only [OffsetsReader.nextSize, h2, or_false, Nat.add_one_ne_zero, ↓reduceIte, Nat.add_sub_cancel]
    by_cases hrun : c2 - 1 = 0
    · have hc2 : c2 = 1 := by omega
      subst hc2
      by_cases hbc : n = 0
      · subst hbc
        have : expand rest = [] := List.eq_nil_of_length_eq_zero (by omega)
        simp [OffsetsReader.take, this]
      · simp only [hrun, hbc, ne_eq, not_false_eq_true, and_self, ↓reduceIte]
        cases rest with
        | nil => simp at h4; omega
        | cons e rest' =>
          have he := h3 e (by simp)
          simp only [he, ne_eq, not_false_eq_true, and_self, ↓reduceIte]
          have hinv : RInv ⟨rest', e, n, os + c1⟩ := by
            refine ⟨he.1, he.2, fun x hx => h3 x (by simp [hx]), ?_⟩
            simp [List.length_replicate] at h4 ⊢
            omega
          rw [ih _ hinv rfl]
          simp
    · have : ¬ (c2 - 1 = 0 ∧ n ≠ 0) := fun h => hrun h.1
      simp only [this, ↓reduceIte]
      have hinv : RInv ⟨rest, (c1, c2 - 1), n, os + c1⟩ := by
        refine ⟨h1, hrun, h3, ?_⟩
        simp at h4 ⊢; omega
      rw [ih _ hinv rfl]
      have : c2 = (c2 - 1) + 1 := by omega
      simp only [expand_cons, Option.map_some, Option.some.injEq]
      conv => rhs; rw [this, List.replicate_succ]
      simp

/-- **Offsets round trip**: what `NextSize` returns, `RemainingBlocks()` times, after any
sequence of `Append`s and `FinishedAppending`, is the appended non-zero lengths in order. -/
theorem offsets_roundtrip_aux (ls : List Nat) :
    ∃ r, offsetsEncode ls = some r ∧ r.blockCount = (ls.filter (· ≠ 0)).length ∧
      offsetsDecode r = some (ls.filter (· ≠ 0)) := by
  obtain ⟨tl, ⟨h1, h2, h3⟩, he⟩ := WInv_foldl ls WInv_reset
  simp only [expand_nil, List.nil_append] at he
  unfold offsetsEncode Offsets.finish
  rw [h1]
  simp only [List.drop_succ_cons, List.drop_zero]
  by_cases hb : (ls.foldl Offsets.append Offsets.reset).blockCount = 0
  · have hnil : ls.filter (· ≠ 0) = [] := by
      rw [← he]; exact List.eq_nil_of_length_eq_zero (by omega)
    simp only [hb, ↓reduceIte]
    refine ⟨_, rfl, ?_, ?_⟩
    · rw [hnil]; rfl
    · rw [hnil]; rfl
  · simp only [hb, ↓reduceIte]
    cases tl with
    | nil => simp at h3; omega
    | cons e rest =>
      have hnz := h2 e (by simp)
      simp only [hnz, ne_eq, not_false_eq_true, and_self, ↓reduceIte]
      refine ⟨_, rfl, ?_, ?_⟩
      · rw [← he]; exact h3
      · unfold offsetsDecode
        have hinv : RInv ⟨rest, e, (ls.foldl Offsets.append Offsets.reset).blockCount, 0⟩ := by
          refine ⟨hnz.1, hnz.2, fun x hx => h2 x (by simp [hx]), ?_⟩
          simp [h3, List.length_replicate]
        rw [take_of_RInv _ _ hinv rfl, ← he]

/-! ### reading runs back through the log -/

theorem splitLens_map_length {β : Type} : ∀ (rs : List (List β)), splitLens (rs.map List.length) rs.flatten = rs
  | [] => rfl
  | r :: rs => by
    simp [splitLens, splitLens_map_length rs]

/-- runs that are not empty -/
def nonempties {β : Type} (runs : List (List β)) : List (List β) := runs.filter (fun r => !r.isEmpty)

theorem flatten_nonempties {β : Type} : ∀ (runs : List (List β)), (nonempties runs).flatten = runs.flatten
  | [] => rfl
  | r :: rs => by
    cases r with
    | nil => simpa [nonempties] using flatten_nonempties rs
    | cons x xs => simpa [nonempties] using flatten_nonempties rs

theorem map_length_nonempties {β : Type} : ∀ (runs : List (List β)),
    (runs.map List.length).filter (· ≠ 0) = (nonempties runs).map List.length
  | [] => rfl
  | r :: rs => by
    have ih := map_length_nonempties rs
    cases r with
    | nil => simpa [nonempties] using ih
    | cons x xs => simpa [nonempties] using ih

theorem nextSize_outputSum {r r' : OffsetsReader} {s : Nat} (h : r.nextSize = some (s, r')) :
    r'.outputSum = r.outputSum + s := by
  unfold OffsetsReader.nextSize at h
  split at h
  · cases h
  · simp only at h
    split at h
    · split at h
      · split at h
        · simp only [Option.some.injEq, Prod.mk.injEq] at h
          obtain ⟨rfl, rfl⟩ := h; rfl
        · cases h
      · cases h
    · simp only [Option.some.injEq, Prod.mk.injEq] at h
      obtain ⟨rfl, rfl⟩ := h; rfl

/-- (offset, size) pairs for consecutive pieces starting at offset `o` -/
def offsetsFrom (o : Nat) : List Nat → List (Nat × Nat)
  | [] => []
  | s :: ss => (o, s) :: offsetsFrom (o + s) ss

theorem takeAt_eq : ∀ (n : Nat) (r : OffsetsReader),
    r.takeAt n = (r.take n).map (offsetsFrom r.outputSum)
  | 0, r => by simp [OffsetsReader.takeAt, OffsetsReader.take, offsetsFrom]
  | n + 1, r => by
    unfold OffsetsReader.takeAt OffsetsReader.take
    cases h : r.nextSize with
    | none => simp
    | some p =>
      obtain ⟨s, r'⟩ := p
      simp only
      rw [takeAt_eq n r', nextSize_outputSum h]
      cases OffsetsReader.take n r' <;> simp [offsetsFrom]

theorem readAt_offsetsFrom {β : Type} (data : List β) : ∀ (lens : List Nat) (o : Nat),
    (offsetsFrom o lens).map (readAt data) = splitLens lens (data.drop o)
  | [], _ => rfl
  | s :: ss, o => by
    simp only [offsetsFrom, List.map_cons, splitLens, readAt, List.drop_drop]
    rw [readAt_offsetsFrom data ss (o + s)]

/-- Writing runs to the data file + log and reading them back at the logged offsets loses exactly
the empty runs. -/
theorem storeRuns_eq {β : Type} (runs : List (List β)) : storeRuns runs = some (nonempties runs) := by
  obtain ⟨r, h1, _, h3⟩ := offsets_roundtrip_aux (runs.map List.length)
  have h0 : r.outputSum = 0 := by
    unfold offsetsEncode Offsets.finish at h1
    simp only at h1
    split at h1
    · simp only [Option.some.injEq] at h1; rw [← h1]
    · split at h1
      · split at h1
        · simp only [Option.some.injEq] at h1; rw [← h1]
        · cases h1
      · cases h1
  unfold storeRuns storeRunsLogged
  rw [h1]
  simp only
  unfold offsetsDecode at h3
  rw [takeAt_eq, h3, h0]
  simp only [Option.map_some]
  rw [readAt_offsetsFrom, List.drop_zero, map_length_nonempties, ← flatten_nonempties, splitLens_map_length]

theorem mem_nonempties {β : Type} {runs : List (List β)} {r} : r ∈ nonempties runs ↔ r ∈ runs ∧ r ≠ [] := by
  simp [nonempties, List.isEmpty_iff]

end KV.Sort
