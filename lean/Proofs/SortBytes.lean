import Model.SortBytes
import Proofs.SortOffsets
/-! C16 byte level: `swap(SizedProxy, SizedProxy)` exchanges exactly two records; any sequence of
record swaps / moves at byte level simulates the same sequence on abstract records. -/
namespace KV.Sort
open List

theorem swapByte_length (buf : Buf) (a b : Nat) : (swapByte buf a b).length = buf.length := by
  unfold swapByte
  split <;> simp

theorem swapByte_get (buf : Buf) (a b : Nat) (ha : a < buf.length) (hb : b < buf.length) (p : Nat) :
    (swapByte buf a b)[p]? = if p = b then buf[a]? else if p = a then buf[b]? else buf[p]? := by
  unfold swapByte
  simp only [getElem?_eq_getElem ha, getElem?_eq_getElem hb]
  rw [getElem?_set, getElem?_set]
  simp only [length_set]
  by_cases h1 : p = b
  · subst h1; simp [hb]
  · have h1' : ¬ b = p := fun h => h1 h.symm
    rw [if_neg h1', if_neg h1]
    by_cases h2 : p = a
    · subst h2; simp [ha]
    · have h2' : ¬ a = p := fun h => h2 h.symm
      rw [if_neg h2', if_neg h2]

theorem swapRanges_length : ∀ (n : Nat) (buf : Buf) (a b : Nat), (swapRanges n buf a b).length = buf.length
  | 0, _, _, _ => rfl
  | n + 1, buf, a, b => by
    simp only [swapRanges]
    rw [swapRanges_length n, swapByte_length]

/-- every byte after `std::swap_ranges` on two disjoint in-bounds ranges -/
theorem swapRanges_get : ∀ (n : Nat) (buf : Buf) (a b : Nat), (a + n ≤ b ∨ b + n ≤ a) →
    a + n ≤ buf.length → b + n ≤ buf.length → ∀ p,
    (swapRanges n buf a b)[p]? =
      if a ≤ p ∧ p < a + n then buf[p - a + b]?
      else if b ≤ p ∧ p < b + n then buf[p - b + a]? else buf[p]?
  | 0, buf, a, b, _, _, _, p => by
    simp only [swapRanges]
    have h1 : ¬ (a ≤ p ∧ p < a + 0) := by omega
    have h2 : ¬ (b ≤ p ∧ p < b + 0) := by omega
    rw [if_neg h1, if_neg h2]
  | n + 1, buf, a, b, hd, ha, hb, p => by
    simp only [swapRanges]
    rw [swapRanges_get n (swapByte buf a b) (a + 1) (b + 1) (by omega)
      (by rw [swapByte_length]; omega) (by rw [swapByte_length]; omega) p]
    have hab : a ≠ b := by omega
    have g := swapByte_get buf a b (by omega) (by omega)
    by_cases c1 : a + 1 ≤ p ∧ p < a + 1 + n
    · rw [if_pos c1, if_pos (by omega), g]
      rw [if_neg (by omega), if_neg (by omega)]
      have e : p - (a + 1) + (b + 1) = p - a + b := by omega
      rw [e]
    · rw [if_neg c1]
      by_cases c2 : b + 1 ≤ p ∧ p < b + 1 + n
      · rw [if_pos c2, if_neg (by omega), if_pos (by omega), g]
        rw [if_neg (by omega), if_neg (by omega)]
        have e : p - (b + 1) + (a + 1) = p - b + a := by omega
        rw [e]
      · rw [if_neg c2, g]
        by_cases c3 : p = b
        · subst c3
          rw [if_pos rfl, if_neg (by omega), if_pos (by omega)]
          have e : p - p + a = a := by omega
          rw [e]
        · rw [if_neg c3]
          by_cases c4 : p = a
          · subst c4
            rw [if_pos rfl, if_pos (by omega)]
            have e : p - p + b = b := by omega
            rw [e]
          · rw [if_neg c4, if_neg (by omega), if_neg (by omega)]

theorem rec_bounds {s i n : Nat} (hi : i < n) : i * s + s ≤ n * s := by
  have : (i + 1) * s ≤ n * s := Nat.mul_le_mul_right s hi
  rwa [Nat.succ_mul] at this

theorem rec_disjoint {s i j : Nat} (h : i < j) : i * s + s ≤ j * s := rec_bounds h

/-- every byte of a record -/
theorem recAt_get (s : Nat) (buf : Buf) (i q : Nat) :
    (recAt s buf i)[q]? = if q < s then buf[i * s + q]? else none := by
  unfold recAt
  rw [getElem?_take]
  split
  · rw [getElem?_drop]
  · rfl

theorem recAt_length {s n : Nat} {buf : Buf} (hl : buf.length = n * s) {i : Nat} (hi : i < n) :
    (recAt s buf i).length = s := by
  have := rec_bounds (s := s) hi
  simp only [recAt, length_take, length_drop]; omega

/-- **sized_swap_exchanges** (pointwise form): after `swap(SizedProxy_i, SizedProxy_j)` on a block
of `n` records of *any* size `s`, byte `p` is byte `p - i*s + j*s` of the old buffer if it lies in
record `i`, byte `p - j*s + i*s` if it lies in record `j`, and unchanged otherwise. -/
theorem sizedSwap_get {s n : Nat} {buf : Buf} (hl : buf.length = n * s) {i j : Nat} (hi : i < n) (hj : j < n)
    (hij : i ≠ j) (p : Nat) :
    (sizedSwap s buf i j)[p]? =
      if i * s ≤ p ∧ p < i * s + s then buf[p - i * s + j * s]?
      else if j * s ≤ p ∧ p < j * s + s then buf[p - j * s + i * s]? else buf[p]? := by
  unfold sizedSwap
  have bi := rec_bounds (s := s) hi
  have bj := rec_bounds (s := s) hj
  apply swapRanges_get s buf (i * s) (j * s) _ (by omega) (by omega)
  rcases Nat.lt_or_gt_of_ne hij with h | h
  · left; exact rec_disjoint h
  · right; exact rec_disjoint h

theorem sizedSwap_self {s : Nat} (buf : Buf) (i : Nat) : sizedSwap s buf i i = buf := by
  unfold sizedSwap
  generalize i * s = a
  suffices h : ∀ (n : Nat) (buf : Buf) (a : Nat), swapRanges n buf a a = buf from h s buf a
  intro n
  induction n with
  | zero => intro buf a; rfl
  | succ n ih =>
    intro buf a
    simp only [swapRanges]
    have : swapByte buf a a = buf := by
      unfold swapByte
      cases h : buf[a]? with
      | none => rfl
      | some x =>
        simp only
        apply ext_getElem?
        intro p
        simp only [getElem?_set, length_set]
        by_cases hp : a = p
        · subst hp
          have hlt : a < buf.length := by
            rcases Nat.lt_or_ge a buf.length with h' | h'
            · exact h'
            · rw [getElem?_eq_none h'] at h; cases h
          have hx : x = buf[a] := by
            rw [getElem?_eq_getElem hlt] at h; exact (Option.some.inj h).symm
          simp [hlt, hx]
        · simp [hp]
    rw [this, ih]

theorem sizedSwap_length (s : Nat) (buf : Buf) (i j : Nat) : (sizedSwap s buf i j).length = buf.length :=
  swapRanges_length _ _ _ _

/-- record level: the two records are exchanged, every other record is untouched -/
theorem recAt_sizedSwap {s n : Nat} {buf : Buf} (hl : buf.length = n * s) {i j : Nat} (hi : i < n) (hj : j < n)
    (k : Nat) (hk : k < n) :
    recAt s (sizedSwap s buf i j) k = if k = i then recAt s buf j else if k = j then recAt s buf i else recAt s buf k := by
  by_cases hij : i = j
  · subst hij
    rw [sizedSwap_self]
    by_cases hk' : k = i <;> simp [hk']
  · apply ext_getElem?
    intro q
    rw [recAt_get]
    by_cases hq : q < s
    · rw [if_pos hq, sizedSwap_get hl hi hj hij]
      by_cases c1 : k = i
      · subst c1
        rw [if_pos rfl, recAt_get, if_pos hq, if_pos (by omega)]
        congr 1; omega
      · rw [if_neg c1]
        have dki : k * s + s ≤ i * s ∨ i * s + s ≤ k * s := by
          rcases Nat.lt_or_gt_of_ne c1 with h | h
          · left; exact rec_disjoint h
          · right; exact rec_disjoint h
        by_cases c2 : k = j
        · subst c2
          rw [if_pos rfl, recAt_get, if_pos hq, if_neg (by omega), if_pos (by omega)]
          congr 1; omega
        · rw [if_neg c2]
          have dkj : k * s + s ≤ j * s ∨ j * s + s ≤ k * s := by
            rcases Nat.lt_or_gt_of_ne c2 with h | h
            · left; exact rec_disjoint h
            · right; exact rec_disjoint h
          rw [recAt_get, if_pos hq, if_neg (by omega), if_neg (by omega)]
    · rw [if_neg hq]
      by_cases c1 : k = i
      · rw [if_pos c1, recAt_get, if_neg hq]
      · rw [if_neg c1]
        by_cases c2 : k = j
        · rw [if_pos c2, recAt_get, if_neg hq]
        · rw [if_neg c2, recAt_get, if_neg hq]

/-! ### memcpy of a record -/

theorem writeRec_length {s n : Nat} {buf : Buf} (hl : buf.length = n * s) {i : Nat} (hi : i < n) {v : List Nat}
    (hv : v.length = s) : (writeRec s buf i v).length = buf.length := by
  have := rec_bounds (s := s) hi
  simp only [writeRec, length_append, length_take, length_drop, hv]; omega

theorem recAt_writeRec {s n : Nat} {buf : Buf} (hl : buf.length = n * s) {i : Nat} (hi : i < n) {v : List Nat}
    (hv : v.length = s) (k : Nat) (hk : k < n) :
    recAt s (writeRec s buf i v) k = if k = i then v else recAt s buf k := by
  have bi := rec_bounds (s := s) hi
  have bk := rec_bounds (s := s) hk
  apply ext_getElem?
  intro q
  rw [recAt_get]
  have htl : (buf.take (i * s)).length = i * s := by simp only [length_take]; omega
  by_cases hq : q < s
  · rw [if_pos hq]
    unfold writeRec
    by_cases c1 : k = i
    · subst c1
      rw [if_pos rfl, append_assoc, getElem?_append_right (by omega), htl,
        getElem?_append_left (by omega)]
      congr 1; omega
    · rw [if_neg c1, recAt_get, if_pos hq]
      rcases Nat.lt_or_gt_of_ne c1 with h | h
      · have := rec_disjoint (s := s) h
        rw [append_assoc, getElem?_append_left (by omega), getElem?_take_of_lt (by omega)]
      · have := rec_disjoint (s := s) h
        rw [getElem?_append_right (by simp only [length_append, htl, hv]; omega)]
        simp only [length_append, htl, hv, getElem?_drop]
        congr 1; omega
  · rw [if_neg hq]
    by_cases c1 : k = i
    · rw [if_pos c1, getElem?_eq_none (by omega)]
    · rw [if_neg c1, recAt_get, if_neg hq]

end KV.Sort

namespace KV.Sort
open List

/-- byte-level state simulates record-level state -/
structure SimInv (s n : Nat) (b : Buf × List (List Nat)) (a : (Nat → List Nat) × List (List Nat)) : Prop where
  len : b.1.length = n * s
  recs : ∀ k, k < n → recAt s b.1 k = a.1 k
  temps : b.2 = a.2
  tlen : ∀ t ∈ b.2, t.length = s

theorem sim_step {s n : Nat} {b : Buf × List (List Nat)} {a : (Nat → List Nat) × List (List Nat)}
    (h : SimInv s n b a) (op : SortOp) (hv : opValid n b.2.length op = true) :
    SimInv s n (stepBytes s b op) (stepRecs a op) := by
  obtain ⟨hl, hr, ht, htl⟩ := h
  cases op with
  | swap i j =>
    simp only [opValid, Bool.and_eq_true, decide_eq_true_eq] at hv
    refine ⟨by simp only [stepBytes, sizedSwap_length, hl], ?_, ht, htl⟩
    intro k hk
    simp only [stepBytes, stepRecs]
    rw [recAt_sizedSwap hl hv.1 hv.2 k hk, hr i hv.1, hr j hv.2, hr k hk]
  | assign i j =>
    simp only [opValid, Bool.and_eq_true, decide_eq_true_eq] at hv
    have hlen := recAt_length hl hv.2
    refine ⟨by simp only [stepBytes]; rw [writeRec_length hl hv.1 hlen, hl], ?_, ht, htl⟩
    intro k hk
    simp only [stepBytes, stepRecs]
    rw [recAt_writeRec hl hv.1 hlen k hk, hr j hv.2, hr k hk]
  | save i =>
    simp only [opValid, decide_eq_true_eq] at hv
    refine ⟨hl, hr, by simp only [stepBytes, stepRecs, ht, hr i hv], ?_⟩
    intro t htm
    simp only [stepBytes, mem_append, mem_singleton] at htm
    rcases htm with htm | rfl
    · exact htl t htm
    · exact recAt_length hl hv
  | restore i t =>
    simp only [opValid, Bool.and_eq_true, decide_eq_true_eq] at hv
    have hmem : b.2.getD t [] ∈ b.2 := by
      rw [getD_eq_getElem?_getD, getElem?_eq_getElem hv.2]
      exact getElem_mem hv.2
    have hlen := htl _ hmem
    refine ⟨by simp only [stepBytes]; rw [writeRec_length hl hv.1 hlen, hl], ?_, ht, htl⟩
    intro k hk
    simp only [stepBytes, stepRecs]
    rw [recAt_writeRec hl hv.1 hlen k hk, hr k hk, ht]

theorem stepBytes_temps_length (s : Nat) (b : Buf × List (List Nat)) (op : SortOp) :
    (stepBytes s b op).2.length = (match op with | .save _ => b.2.length + 1 | _ => b.2.length) := by
  cases op <;> simp [stepBytes]

theorem sim_foldl {s n : Nat} : ∀ (ops : List SortOp) (b : Buf × List (List Nat))
    (a : (Nat → List Nat) × List (List Nat)), SimInv s n b a → opsValid n b.2.length ops = true →
    SimInv s n (ops.foldl (stepBytes s) b) (ops.foldl stepRecs a)
  | [], _, _, h, _ => h
  | op :: ops, b, a, h, hv => by
    simp only [opsValid, Bool.and_eq_true] at hv
    simp only [foldl_cons]
    apply sim_foldl ops _ _ (sim_step h op hv.1)
    rw [stepBytes_temps_length]
    exact hv.2

/-- **byte level simulates record level**: running any valid sequence of record swaps / copies /
temporaries on the flat byte buffer gives, record by record, what the same sequence gives on the
abstract array of records. -/
theorem execBytes_sim {s n : Nat} (ops : List SortOp) (buf : Buf) (hl : buf.length = n * s)
    (hv : opsValid n 0 ops = true) :
    (execBytes s ops buf).1.length = n * s ∧
      ∀ k, k < n → recAt s (execBytes s ops buf).1 k = (execRecs ops (recAt s buf)).1 k := by
  have h0 : SimInv s n (buf, []) (recAt s buf, []) := ⟨hl, fun _ _ => rfl, rfl, by simp⟩
  have := sim_foldl ops (buf, []) (recAt s buf, []) h0 hv
  exact ⟨this.len, this.recs⟩

theorem recsOf_congr {s n : Nat} {b : Buf} {a : Nat → List Nat} (h : ∀ k, k < n → recAt s b k = a k) :
    recsOf s n b = (List.range n).map a := by
  unfold recsOf
  apply map_congr_left
  intro k hk
  exact h k (mem_range.mp hk)

end KV.Sort
