import Proofs.ScoreMain
/-! `FullScoreForgotState` returns the textbook probability for every explicit context. -/
namespace KV.Score
open KV.Arpa KV.Table KV.State

theorem lookup_none_take' {T : Table} (ok : TableOK T) (l : List Word) (j c : Nat) (hjc : j ≤ c)
    (hne : l.take j ≠ []) (hn : T.lookup (l.take j) = none) : T.lookup (l.take c) = none := by
  have : l.take c = l.take j ++ (l.drop j).take (c - j) := by
    have : c = j + (c - j) := by omega
    rw [this, List.take_add]; simp
  rw [this]
  exact lookup_none_extend ok _ (l.take j) hne hn

theorem boW_zero_of_none {a : Arpa} {T : Table} (tf : TableFor a T) (g : List Word) (h : T.lookup g = none) : a.boW g = 0 := by
  unfold Arpa.boW
  cases hg : a.gram g with
  | none => rfl
  | some e => obtain ⟨t, ht, _⟩ := tf.real g e hg; rw [h] at ht; cases ht

theorem rsum_zero {f : Nat → Rat} {lo e : Nat} (h : ∀ i, lo ≤ i → i < lo + e → f i = 0) : rsum f lo e = 0 := by
  have := rsum_zero_tail (f := f) (lo := lo) (d := 0) (e := e) (by intro i h1 h2; exact h i (by omega) (by omega))
  simpa [rsum] using this

theorem charge_spec {a : Arpa} {T : Table} (wf : WellFormed a) (tf : TableFor a T) (c : List Word) :
    ∀ (n j om2 : Nat) (node : List Word) (acc : Rat), n = c.length - j → 1 ≤ j → j ≤ c.length → node = c.take j →
      chargeLoop (tableSearch T) (c.drop j) om2 node acc
        = acc + rsum (fun k => a.boW (c.take (k+1))) j (c.length - j) := by
  intro n
  induction n with
  | zero =>
    intro j om2 node acc hn h1 hj hnode
    have : c.length ≤ j := by omega
    rw [List.drop_eq_nil_of_le this]
    have : c.length - j = 0 := by omega
    rw [this]; simp only [chargeLoop, rsum]; grind
  | succ n ih =>
    intro j om2 node acc hn h1 hj hnode
    obtain ⟨x, rest, hdrop⟩ : ∃ x rest, c.drop j = x :: rest := by
      cases h : c.drop j with
      | nil => have := List.drop_eq_nil_iff.mp h; omega
      | cons x rest => exact ⟨x, rest, rfl⟩
    obtain ⟨htake, hdrop', hjl⟩ := take_succ_of_drop hdrop
    rw [hdrop]
    have hnx : node ++ [x] = c.take (j+1) := by rw [hnode, htake]
    unfold chargeLoop
    have hsplit : c.length - j = (c.length - (j+1)) + 1 := by omega
    cases hl : T.lookup (c.take (j+1)) with
    | none =>
      have : (tableSearch T).lookupMiddle om2 x node = (none, node ++ [x]) := by simp [tableSearch, hnx, hl]
      simp only [this]
      have hz : rsum (fun k => a.boW (c.take (k+1))) j (c.length - j) = 0 := by
        apply rsum_zero
        intro i hi1 hi2
        show a.boW (c.take (i+1)) = 0
        apply boW_zero_of_none tf
        apply lookup_none_take' tf.toTableOK c (j+1) (i+1) (by omega) _ hl
        intro hnil; have := congrArg List.length hnil
        simp only [List.length_take, List.length_nil] at this; omega
      rw [hz]; grind
    | some p =>
      have : (tableSearch T).lookupMiddle om2 x node = (some (toFound p), node ++ [x]) := by simp [tableSearch, hnx, hl]
      simp only [this]
      rw [← hdrop', ih (j+1) (om2+1) (node ++ [x]) _ (by omega) (by omega) (by omega) hnx]
      rw [hsplit, rsum_split]
      have hb : (toFound p).backoff = a.boW (c.take (j+1)) := by
        rw [← tf.bo_eq wf]; simp [toFound, Table.bo, hl]
      rw [hb]; grind

theorem forgot_prob_aux {a : Arpa} {T : Table} (wf : WellFormed a) (tf : TableFor a T) (ctx : List Word) {w : Word}
    (hw : a.gram [w] ≠ none) :
    (fullScoreForgotState (tableSearch T) ctx w).1.prob = score a ctx w := by
  obtain ⟨e, he⟩ := Option.ne_none_iff_exists'.mp hw
  obtain ⟨u, hu, _, _⟩ := tf.real [w] e he
  have ok : TableOK T := tf.toTableOK
  have hN := wf.order_ge
  have hord : (tableSearch T).order = a.order := tf.order_eq
  rw [← score_take]
  unfold fullScoreForgotState
  rw [hord]
  generalize hc : ctx.take (a.order - 1) = c
  have hcl : c.length ≤ a.order - 1 := by rw [← hc, List.length_take]; omega
  obtain ⟨c0, post⟩ := sxb_post ok c w u hu
  have hsxb := scoreExceptBackoff_table c w u hu
  generalize hacc : resumeScore (tableSearch T) c 0 [w] _ = acc at post hsxb
  simp only [hsxb]
  have hc0 := post.c0_le
  obtain ⟨t, ht, hp⟩ := post.found
  have hA := entry_prob_eq tf c w c0 hc0 (by omega) t ht
  have F3 : ∀ k, c0 < k → k ≤ c.length → a.gram (w :: c.take k) = none := by
    intro k hk1 hk2
    have hstop := post.stop (by omega) (by rw [tf.order_eq]; omega)
    have := lookup_none_take ok w c (c0+1) k (by omega) hstop
    cases hg : a.gram (w :: c.take k) with
    | none => rfl
    | some e' => obtain ⟨t', ht', _⟩ := tf.real _ e' hg; rw [this] at ht'; cases ht'
  have hspec : score a c w = acc.ret.prob + rsum (fun k => a.boW (c.take (k+1))) c0 (c.length - c0) := by
    unfold score
    rw [Nat.min_eq_left hcl]
    have : c.length = c0 + (c.length - c0) := by omega
    rw [this, scoreAt_skip a c w c0 _ (fun k h1 h2 => F3 k h1 (by omega)), hp, hA]
    congr 2; omega
  rw [hspec, post.len]
  by_cases h1 : c.length < c0 + 1
  · simp only [h1, if_true]
    have : c.length - c0 = 0 := by omega
    rw [this]; simp only [rsum]; grind
  · simp only [h1, if_false]
    by_cases h2 : c0 + 1 ≤ 1
    · have hc00 : c0 = 0 := by omega
      subst hc00
      simp only [h2, if_true]
      cases hcc : c with
      | nil => subst hcc; simp at h1
      | cons x0 rest =>
        simp only
        have hdrop1 : c.drop 1 = rest := by rw [hcc]; rfl
        have htake1 : c.take 1 = [x0] := by rw [hcc]; rfl
        have hu0 : ((tableSearch T).lookupUnigram x0).1.backoff = a.boW (c.take 1) := by
          rw [← tf.bo_eq wf, htake1]
          simp only [tableSearch, Table.bo]
          cases T.lookup [x0] <;> simp [toFound]
        have hnode : ((tableSearch T).lookupUnigram x0).2 = c.take 1 := by rw [htake1]; rfl
        have := charge_spec wf tf c (c.length - 1) 1 0 (c.take 1) (acc.ret.prob + a.boW (c.take 1)) rfl (by omega)
          (by rw [hcc]; simp) rfl
        rw [hdrop1] at this
        show chargeLoop (tableSearch T) rest 0 ((tableSearch T).lookupUnigram x0).2
              (acc.ret.prob + ((tableSearch T).lookupUnigram x0).1.backoff) = _
        rw [hu0, hnode, this, ← hcc]
        have hs : c.length - 0 = (c.length - 1) + 1 := by rw [hcc]; simp
        rw [hs, rsum_split]; grind
    · simp only [h2, if_false]
      have hc01 : c0 + 1 - 1 = c0 := by omega
      have hc02 : c0 + 1 - 2 = c0 - 1 := by omega
      rw [hc01]
      cases hl : T.lookup (c.take c0) with
      | none =>
        have : (tableSearch T).fastMakeNode (c.take c0) = none := by simp [tableSearch, hl]
        simp only [this]
        have hz : rsum (fun k => a.boW (c.take (k+1))) c0 (c.length - c0) = 0 := by
          apply rsum_zero
          intro i hi1 hi2
          show a.boW (c.take (i+1)) = 0
          apply boW_zero_of_none tf
          apply lookup_none_take' ok c c0 (i+1) (by omega) _ hl
          intro hnil; have := congrArg List.length hnil
          simp only [List.length_take, List.length_nil] at this; omega
        rw [hz]; grind
      | some tn =>
        have : (tableSearch T).fastMakeNode (c.take c0) = some (c.take c0) := by simp [tableSearch, hl]
        simp only [this]
        exact charge_spec wf tf c (c.length - c0) c0 _ (c.take c0) acc.ret.prob rfl (by omega) (by omega) rfl

end KV.Score
