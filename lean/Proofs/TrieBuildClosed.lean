import Proofs.TrieBuild
import Proofs.TrieShape
import Proofs.ScoreClosed
import Proofs.ProbingBuildRep
/-! The trie builder on suffix-closed models (no blanks): its bit table is `Table.build a` under a value encoding. -/
set_option maxRecDepth 4000
namespace KV.TrieBuild
open KV.Arpa KV.Table KV.TrieLM KV.Score

/-- the parsed model as the builder's input: one `Gram` per ARPA entry, with float bits given by `P` / `B` -/
def gramsOf (a : Arpa) (P B : List Word → Nat) : List Gram := a.entries.map fun p => ⟨p.1, P p.1, B p.1⟩

theorem nodup_insertGram (g : Gram) (l : List Gram) (h : (l.map (·.key)).Nodup) (hg : g.key ∉ l.map (·.key)) :
    ((insertGram g l).map (·.key)).Nodup := by
  induction l with
  | nil => simp [insertGram]
  | cons x xs ih =>
    simp only [List.map_cons, List.nodup_cons] at h
    unfold insertGram
    split
    · simp only [List.map_cons, List.nodup_cons]
      exact ⟨by simpa using hg, h.1, h.2⟩
    · simp only [List.map_cons, List.nodup_cons]
      refine ⟨?_, ih h.2 (fun hm => hg (by simp [hm]))⟩
      intro hm
      simp only [List.mem_map] at hm
      obtain ⟨y, hy, hyk⟩ := hm
      rcases (mem_insertGram g y xs).mp hy with e | e
      · subst e; exact hg (by simp [hyk])
      · exact h.1 (by simp only [List.mem_map]; exact ⟨y, e, hyk⟩)

theorem nodup_visitOrder (gs : List Gram) (h : (gs.map (·.key)).Nodup) : ((visitOrder gs).map (·.key)).Nodup := by
  induction gs with
  | nil => simp [visitOrder]
  | cons g gs ih =>
    simp only [List.map_cons, List.nodup_cons] at h
    show ((insertGram g (visitOrder gs)).map (·.key)).Nodup
    apply nodup_insertGram g _ (ih h.2)
    intro hm
    simp only [List.mem_map] at hm
    obtain ⟨y, hy, hyk⟩ := hm
    exact h.1 (by simp only [List.mem_map]; exact ⟨y, (mem_visitOrder gs y).mp hy, hyk⟩)

theorem hasDuplicate_false_of_nodup : ∀ (l : List Gram), (l.map (·.key)).Nodup → hasDuplicate l = false
  | [], _ => rfl
  | [_], _ => rfl
  | a :: b :: t, h => by
    simp only [List.map_cons, List.nodup_cons, List.mem_cons, not_or] at h
    simp only [hasDuplicate, Bool.or_eq_false_iff, beq_eq_false_iff_ne, ne_eq]
    exact ⟨h.1.1, hasDuplicate_false_of_nodup (b :: t) (by simp only [List.map_cons, List.nodup_cons]; exact ⟨h.2.1, h.2.2⟩)⟩

/-- a suffix-closed model with a value encoding: `P g` / `B g` are the float bits of the probability / back-off of the n-gram
`g` as `read_arpa.cc` stores them, `fval` decodes bits.  For a real model: `P`/`B` = float32 of the ARPA numbers (all values
float32-representable), zero back-off = `-0.0` except the hallucinated `<unk>` (`+0.0`). -/
structure ArpaEnc (fval : Nat → Rat) (a : Arpa) (bound : Nat) (P B : List Word → Nat) : Prop where
  wf : WellFormed a
  sc : SuffixClosed a
  nodup : (a.entries.map (·.1)).Nodup
  words : ∀ p ∈ a.entries, ∀ w ∈ p.1, w < bound
  unigrams : ∀ w, w < bound → a.gram [w] ≠ none
  pval : ∀ g e, a.gram g = some e → P g < 2^32 ∧ fval (if g.length = 1 then P g else P g % 2^31 + 2^31) = e.prob
  bval : ∀ g e, a.gram g = some e → B g < 2^32 ∧ fval (B g) = e.backoff ∧
    (B g = minusZero ↔ (e.backoff = 0 ∧ ¬(a.unkHallucinated = true ∧ g = [0])))
  zero : fval plusZero = 0

variable {fval : Nat → Rat} {a : Arpa} {bound : Nat} {P B : List Word → Nat}

theorem lookup_of_mem_nodup {β} : ∀ (l : List (List Word × β)) (g : List Word) (e : β), (l.map (·.1)).Nodup → (g, e) ∈ l →
    l.lookup g = some e
  | [], _, _, _, h => by simp at h
  | (k, v) :: ps, g, e, hn, h => by
    simp only [List.map_cons, List.nodup_cons] at hn
    rcases List.mem_cons.mp h with e1 | e1
    · cases e1; simp [List.lookup]
    · have hk : g ≠ k := by
        intro e2; subst e2
        exact hn.1 (by simp only [List.mem_map]; exact ⟨(g, e), e1, rfl⟩)
      have : (g == k) = false := by simpa using hk
      simp only [List.lookup, this]
      exact lookup_of_mem_nodup ps g e hn.2 e1

theorem gram_iff_mem (hn : (a.entries.map (·.1)).Nodup) (g : List Word) (e : Entry) : a.gram g = some e ↔ (g, e) ∈ a.entries :=
  ⟨KV.Score.lookup_some_mem _ _ _, lookup_of_mem_nodup _ g e hn⟩

/-- real keys of the visit order = n-grams of the model -/
theorem realOf_visit (enc : ArpaEnc fval a bound P B) (k : List Word) :
    (realOf (visitOrder (gramsOf a P B)) k).isSome = (a.gram k).isSome := by
  apply Bool.eq_iff_iff.mpr
  constructor
  · intro h
    obtain ⟨r, hr⟩ := Option.isSome_iff_exists.mp h
    obtain ⟨hm, hk⟩ := realOf_mem _ _ _ hr
    have := (mem_visitOrder _ r).mp hm
    simp only [gramsOf, List.mem_map] at this
    obtain ⟨p, hp, rfl⟩ := this
    simp only at hk
    rw [← hk]
    have := (gram_iff_mem enc.nodup p.1 p.2).mpr hp
    simp [this]
  · intro h
    obtain ⟨e, he⟩ := Option.isSome_iff_exists.mp h
    have hp := (gram_iff_mem enc.nodup k e).mp he
    have hm : (⟨k, P k, B k⟩ : Gram) ∈ visitOrder (gramsOf a P B) := by
      rw [mem_visitOrder]; simp only [gramsOf, List.mem_map]; exact ⟨(k, e), hp, rfl⟩
    have hnd : ((gramsOf a P B).map (·.key)).Nodup := by
      have : (gramsOf a P B).map (·.key) = a.entries.map (·.1) := by simp [gramsOf, Function.comp]
      rw [this]; exact enc.nodup
    have hk := visitOrder_keysLt _ (hasDuplicate_false_of_nodup _ (nodup_visitOrder _ hnd))
    have := realOf_of_mem hk _ hm
    simp only at this
    simp [this]


theorem visit_keysLt (enc : ArpaEnc fval a bound P B) : KeysLt (visitOrder (gramsOf a P B)) := by
  have hnd : ((gramsOf a P B).map (·.key)).Nodup := by
    have : (gramsOf a P B).map (·.key) = a.entries.map (·.1) := by simp [gramsOf, Function.comp]
    rw [this]; exact enc.nodup
  exact visitOrder_keysLt _ (hasDuplicate_false_of_nodup _ (nodup_visitOrder _ hnd))

theorem visit_mem_real (enc : ArpaEnc fval a bound P B) (g : Gram) (hg : g ∈ visitOrder (gramsOf a P B)) :
    a.gram g.key ≠ none ∧ g.prob = P g.key ∧ g.backoff = B g.key := by
  have := (mem_visitOrder _ g).mp hg
  simp only [gramsOf, List.mem_map] at this
  obtain ⟨p, hp, rfl⟩ := this
  have := (gram_iff_mem enc.nodup p.1 p.2).mpr hp
  exact ⟨by simp [this], rfl, rfl⟩

theorem take_real (enc : ArpaEnc fval a bound P B) (k : List Word) (hk : a.gram k ≠ none) (n : Nat) (hn : 1 ≤ n) :
    a.gram (k.take n) ≠ none := by
  have hkne : 1 ≤ k.length := by
    have := enc.wf.len_pos k hk
    cases k with
    | nil => exact absurd rfl this
    | cons _ _ => simp
  by_cases hl : n ≤ k.length
  · have := closed_prefix_real enc.sc (k.drop n) (k.take n) (by
      intro e
      have : min n k.length = 0 := by rw [← List.length_take, e]; rfl
      omega) (by rw [List.take_append_drop]; exact hk)
    exact this
  · rw [List.take_of_length_le (by omega)]; exact hk

/-- on a suffix-closed model the `BlankManager` pass succeeds and creates no blank -/
theorem closed_visit (enc : ArpaEnc fval a bound P B) :
    ∃ st, visitAll (visitOrder (gramsOf a P B)) = .ok st ∧ st.blanks = [] := by
  have hk := visit_keysLt enc
  have hne : ∀ g ∈ visitOrder (gramsOf a P B), 1 ≤ g.key.length := by
    intro g hg
    have := enc.wf.len_pos g.key (visit_mem_real enc g hg).1
    cases hgk : g.key with
    | nil => exact absurd hgk this
    | cons _ _ => simp
  have hspec := visit_spec _ hk hne
  have hreal : ∀ k, a.gram k ≠ none → realOf (visitOrder (gramsOf a P B)) k ≠ none := by
    intro k h
    have := realOf_visit enc k
    cases hr : realOf (visitOrder (gramsOf a P B)) k with
    | none => rw [hr] at this; simp at this; exact absurd this h
    | some _ => simp
  cases hv : visitAll (visitOrder (gramsOf a P B)) with
  | error e =>
    rw [hv] at hspec
    obtain ⟨_, g, hg, _, hnr⟩ := hspec
    exact absurd hnr (hreal _ (take_real enc g.key (visit_mem_real enc g hg).1 1 (by omega)))
  | ok st =>
    rw [hv] at hspec
    refine ⟨st, rfl, ?_⟩
    apply List.eq_nil_iff_forall_not_mem.mpr
    intro b hb
    obtain ⟨g, hg, hok⟩ := hspec b hb
    obtain ⟨n, hn2, _, hbk⟩ := hok.isPrefix
    have := hok.notReal
    rw [hbk] at this
    exact hreal _ (take_real enc g.key (visit_mem_real enc g hg).1 n (by omega)) this


/-- contexts of the real entries of order ≥ 2 -/
def ctxsOf (sorted : List Gram) : List (List Word) := sorted.filterMap fun g => if g.key.length ≥ 2 then some (g.key.drop 1) else none

/-- the bit table of a model without blanks: the entries in visit order with the extension marks of `WriteEntries` -/
def closedTable (order : Nat) (sorted : List Gram) : BT :=
  sorted.map fun g => (g.key, (g.prob,
    if g.key.length = order then 0
    else if g.backoff = minusZero ∧ ((ctxsOf sorted).contains g.key ∨ ([] : List (List Word)).contains g.key) then plusZero else g.backoff))

theorem buildTable_closed (fadd : Nat → Nat → Nat) (enc : ArpaEnc fval a bound P B) :
    ∃ counts, buildTable fadd a.order (gramsOf a P B) =
      .ok { table := closedTable a.order (visitOrder (gramsOf a P B)), blanks := [], counts := counts } := by
  obtain ⟨st, hst, hbl⟩ := closed_visit enc
  have hnd : ((gramsOf a P B).map (·.key)).Nodup := by
    have : (gramsOf a P B).map (·.key) = a.entries.map (·.1) := by simp [gramsOf, Function.comp]
    rw [this]; exact enc.nodup
  have hdup := hasDuplicate_false_of_nodup _ (nodup_visitOrder _ hnd)
  have hctx : (visitOrder (gramsOf a P B)).any
      (fun g => decide (g.key.length ≥ 2) && (realOf (visitOrder (gramsOf a P B)) (g.key.drop 1)).isNone) = false := by
    rw [List.any_eq_false]
    intro g hg
    simp only [Bool.and_eq_true, decide_eq_true_eq, not_and, Option.isNone_iff_eq_none]
    intro hl
    have hr := (visit_mem_real enc g hg).1
    cases hk : g.key with
    | nil => rw [hk] at hl; simp at hl
    | cons x rest =>
      rw [hk] at hr hl
      have hrest : rest ≠ [] := by intro e; rw [e] at hl; simp at hl
      have := enc.wf.ctx_present x rest hrest hr
      have h2 := realOf_visit enc rest
      simp only [List.drop_succ_cons, List.drop_zero]
      intro hn
      rw [hn] at h2
      cases hg2 : a.gram rest with
      | none => exact this hg2
      | some _ => rw [hg2] at h2; simp at h2
  unfold buildTable
  simp only [hdup, Bool.false_eq_true, if_false, hst, hctx, hbl, List.flatMap_nil, List.map_nil, List.append_nil]
  exact ⟨_, rfl⟩


/-- the marked back-off bits of the real entry `g` -/
def markedB (order : Nat) (sorted : List Gram) (g : List Word) (b : Nat) : Nat :=
  if g.length = order then 0
  else if b = minusZero ∧ ((ctxsOf sorted).contains g ∨ ([] : List (List Word)).contains g) then plusZero else b

theorem closedTable_keys (order : Nat) (sorted : List Gram) : (closedTable order sorted).map (·.1) = sorted.map (·.key) := by
  simp [closedTable, Function.comp]

theorem closedTable_isKey (enc : ArpaEnc fval a bound P B) (g : List Word) :
    IsKey (closedTable a.order (visitOrder (gramsOf a P B))) g ↔ a.gram g ≠ none := by
  constructor
  · rintro ⟨p, hp, rfl⟩
    simp only [closedTable, List.mem_map] at hp
    obtain ⟨r, hr, rfl⟩ := hp
    exact (visit_mem_real enc r hr).1
  · intro h
    have := realOf_visit enc g
    cases hr : realOf (visitOrder (gramsOf a P B)) g with
    | none =>
      rw [hr] at this
      cases hg : a.gram g with
      | none => exact absurd hg h
      | some _ => rw [hg] at this; simp at this
    | some r =>
      obtain ⟨hm, hk⟩ := realOf_mem _ _ _ hr
      exact ⟨_, by simp only [closedTable, List.mem_map]; exact ⟨r, hm, rfl⟩, hk⟩

theorem closedTable_lookup (enc : ArpaEnc fval a bound P B) (g : List Word) (e : Entry) (hg : a.gram g = some e) :
    (closedTable a.order (visitOrder (gramsOf a P B))).lookup g
      = some (P g, markedB a.order (visitOrder (gramsOf a P B)) g (B g)) := by
  apply lookup_of_mem_nodup
  · rw [closedTable_keys]
    have hnd : ((gramsOf a P B).map (·.key)).Nodup := by
      have : (gramsOf a P B).map (·.key) = a.entries.map (·.1) := by simp [gramsOf, Function.comp]
      rw [this]; exact enc.nodup
    exact nodup_visitOrder _ hnd
  · simp only [closedTable, List.mem_map]
    refine ⟨⟨g, P g, B g⟩, ?_, rfl⟩
    rw [mem_visitOrder]; simp only [gramsOf, List.mem_map]
    exact ⟨(g, e), (gram_iff_mem enc.nodup g e).mp hg, rfl⟩

theorem mem_ctxsOf (enc : ArpaEnc fval a bound P B) (g : List Word) (hg : g ≠ []) :
    (ctxsOf (visitOrder (gramsOf a P B))).contains g = isContext a g := by
  rw [← KV.ProbingBuild.startsWith_eq_isContext enc.sc g hg]
  apply Bool.eq_iff_iff.mpr
  simp only [List.contains_iff_mem, ctxsOf, List.mem_filterMap, KV.ProbingBuild.startsWith, List.any_eq_true,
    Bool.and_eq_true, beq_iff_eq]
  constructor
  · rintro ⟨r, hr, h⟩
    split at h
    · rename_i hl
      have hgr := (visit_mem_real enc r hr).1
      cases hge : a.gram r.key with
      | none => exact absurd hge hgr
      | some e =>
        refine ⟨(r.key, e), KV.ProbingBuild.mem_ngramLines a r.key e hge hl, ?_, Option.some.inj h⟩
        have := Option.some.inj h
        rw [← this]; simp; omega
    · cases h
  · rintro ⟨p, hp, hl, hd⟩
    obtain ⟨hreal, h2⟩ := KV.ProbingBuild.ngramLines_real a p hp
    cases hge : a.gram p.1 with
    | none => exact absurd hge hreal
    | some e =>
      refine ⟨⟨p.1, P p.1, B p.1⟩, ?_, ?_⟩
      · rw [mem_visitOrder]; simp only [gramsOf, List.mem_map]
        exact ⟨(p.1, e), (gram_iff_mem enc.nodup _ _).mp hge, rfl⟩
      · simp only; rw [if_pos h2, hd]


theorem children_extendsLeft (enc : ArpaEnc fval a bound P B) (g : List Word) (hg : g ≠ []) :
    (!(childrenOf (closedTable a.order (visitOrder (gramsOf a P B))) g).isEmpty) = extendsLeft a g := by
  apply Bool.eq_iff_iff.mpr
  rw [extendsLeft_iff]
  constructor
  · intro h
    cases hc : childrenOf (closedTable a.order (visitOrder (gramsOf a P B))) g with
    | nil => rw [hc] at h; simp at h
    | cons w ws =>
      have hw : w ∈ childrenOf (closedTable a.order (visitOrder (gramsOf a P B))) g := by rw [hc]; simp
      have := (closedTable_isKey enc _).mp ((mem_childrenOf _ g w).mp hw)
      exact ⟨g ++ [w], this, by simp, List.prefix_append _ _⟩
  · rintro ⟨p, hp, hl, ⟨ys, rfl⟩⟩
    cases ys with
    | nil => simp at hl
    | cons w ys =>
      have h1 : a.gram ((g ++ [w]) ++ ys) ≠ none := by simpa using hp
      have h2 := closed_prefix_real enc.sc ys (g ++ [w]) (by simp) h1
      have : w ∈ childrenOf (closedTable a.order (visitOrder (gramsOf a P B))) g :=
        (mem_childrenOf _ g w).mpr ((closedTable_isKey enc _).mpr h2)
      cases hc : childrenOf (closedTable a.order (visitOrder (gramsOf a P B))) g with
      | nil => rw [hc] at this; simp at this
      | cons _ _ => simp

theorem top_no_extendsLeft (wf : WellFormed a) (g : List Word) (hl : g.length = a.order) : extendsLeft a g = false := by
  cases h : extendsLeft a g with
  | false => rfl
  | true =>
    obtain ⟨p, hp, hlt, _⟩ := (extendsLeft_iff a g).mp h
    have := wf.len_le p hp
    omega

theorem top_no_isContext (wf : WellFormed a) (g : List Word) (hl : g.length = a.order) : isContext a g = false := by
  cases h : isContext a g with
  | false => rfl
  | true =>
    unfold isContext at h
    rw [List.any_eq_true] at h
    obtain ⟨p, hp, hc⟩ := h
    simp only [Bool.and_eq_true, decide_eq_true_eq] at hc
    have := wf.len_le p.1 (mem_lookup_ne_none _ p.1 p.2 hp)
    omega


theorem table_ext (T1 T2 : Table) (ho : T1.order = T2.order) (hl : ∀ g, T1.lookup g = T2.lookup g) : T1 = T2 := by
  cases T1; cases T2
  simp only [Table.mk.injEq] at *
  exact ⟨ho, funext hl⟩

/-- **the bit table of a suffix-closed model is `Table.build a`**: values through the encoding, `extendsLeft` = has a child,
`extendsRight` = non-zero back-off, context of a longer n-gram, or the hallucinated `<unk>` -/
theorem closed_table_eq (enc : ArpaEnc fval a bound P B) :
    tableOf (ftOf fval (closedTable a.order (visitOrder (gramsOf a P B))) a.order) a.order = Table.build a := by
  refine table_ext _ _ (by rfl) ?_
  intro g
  rw [lookup_ftOf]
  cases hg : a.gram g with
  | none =>
    have h1 : (closedTable a.order (visitOrder (gramsOf a P B))).lookup g = none := by
      cases hl : (closedTable a.order (visitOrder (gramsOf a P B))).lookup g with
      | none => rfl
      | some v =>
        have := (closedTable_isKey enc g).mp ((lookup_ne_none_iff _ g).mp (by rw [hl]; simp))
        exact absurd hg this
    have h2 : (Table.build a).lookup g = none := by
      cases hb : (Table.build a).lookup g with
      | none => rfl
      | some t => exact absurd hg (closed_lookup_real enc.sc (fun _ => false) g (by rw [hb]; simp))
    rw [h1, h2]; rfl
  | some e =>
    have hne : g ≠ [] := enc.wf.len_pos g (by rw [hg]; simp)
    rw [closedTable_lookup enc g e hg]
    obtain ⟨hP, hPv⟩ := enc.pval g e hg
    obtain ⟨hB, hBv, hBz⟩ := enc.bval g e hg
    cases g with
    | nil => exact absurd rfl hne
    | cons w ctx =>
      simp only [Table.build, hg, Option.map_some]
      congr 1
      unfold entryOf markedB
      rw [hPv]
      by_cases hl : (w :: ctx).length = a.order
      · -- top order
        have hbo := enc.wf.top_bo _ e hg hl
        have hunk : ((w :: ctx) == [0]) = false := by
          cases ctx with
          | nil => have := enc.wf.order_ge; simp at hl; omega
          | cons c cs => simp
        simp only [hl, if_true, hbo, top_no_extendsLeft enc.wf _ hl, top_no_isContext enc.wf _ hl, hunk]
        simp
      · simp only [hl, if_false]
        have hctx := mem_ctxsOf enc (w :: ctx) (by simp)
        have hel := children_extendsLeft enc (w :: ctx) (by simp)
        rw [hel]
        by_cases hm : B (w :: ctx) = minusZero ∧ ((ctxsOf (visitOrder (gramsOf a P B))).contains (w :: ctx) = true ∨
            ([] : List (List Word)).contains (w :: ctx) = true)
        · rw [if_pos hm]
          have hb0 : e.backoff = 0 := (hBz.mp hm.1).1
          have hc : isContext a (w :: ctx) = true := by
            rcases hm.2 with h | h
            · rw [← hctx]; exact h
            · simp at h
          have hz0 : fval 0 = 0 := enc.zero
          simp [hz0, hb0, hc, plusZero, noExtensionBits]
        · rw [if_neg hm, hBv]
          congr 1
          apply Bool.eq_iff_iff.mpr
          simp only [bne_iff_ne, ne_eq, Bool.or_eq_true, Bool.and_eq_true, beq_iff_eq]
          constructor
          · intro hnz
            have : ¬ (e.backoff = 0 ∧ ¬(a.unkHallucinated = true ∧ w :: ctx = [0])) := fun h => hnz (hBz.mpr h)
            by_cases hb0 : e.backoff = 0
            · right
              have : a.unkHallucinated = true ∧ w :: ctx = [0] := by
                by_cases hu : a.unkHallucinated = true ∧ w :: ctx = [0]
                · exact hu
                · exact absurd ⟨hb0, hu⟩ this
              exact this
            · left; left; exact hb0
          · intro h hz
            have hz' := hBz.mp hz
            rcases h with (h | h) | h
            · exact h hz'.1
            · apply hm
              refine ⟨hz, Or.inl ?_⟩
              rw [hctx]; exact h
            · exact hz'.2 h


theorem closedTable_mem (enc : ArpaEnc fval a bound P B) (p : List Word × (Nat × Nat))
    (hp : p ∈ closedTable a.order (visitOrder (gramsOf a P B))) :
    ∃ e, a.gram p.1 = some e ∧ (p.1, e) ∈ a.entries ∧ p.2.1 = P p.1 ∧
      p.2.2 = markedB a.order (visitOrder (gramsOf a P B)) p.1 (B p.1) := by
  simp only [closedTable, List.mem_map] at hp
  obtain ⟨r, hr, rfl⟩ := hp
  obtain ⟨hreal, hp1, hb1⟩ := visit_mem_real enc r hr
  cases hg : a.gram r.key with
  | none => exact absurd hg hreal
  | some e =>
    refine ⟨e, rfl, (gram_iff_mem enc.nodup _ _).mp hg, hp1, ?_⟩
    simp only [markedB, hb1]

theorem closedTable_btok (enc : ArpaEnc fval a bound P B) :
    BTOK (closedTable a.order (visitOrder (gramsOf a P B))) bound a.order := by
  refine ⟨enc.wf.order_ge, ?_, ?_, ?_, ?_, ?_⟩
  · rw [closedTable_keys]
    have hnd : ((gramsOf a P B).map (·.key)).Nodup := by
      have : (gramsOf a P B).map (·.key) = a.entries.map (·.1) := by simp [gramsOf, Function.comp]
      rw [this]; exact enc.nodup
    exact nodup_visitOrder _ hnd
  · intro p hp
    obtain ⟨e, hg, _, _, _⟩ := closedTable_mem enc p hp
    have h1 := enc.wf.len_pos p.1 (by rw [hg]; simp)
    have h2 := enc.wf.len_le p.1 (by rw [hg]; simp)
    refine ⟨?_, h2⟩
    cases hk : p.1 with
    | nil => exact absurd hk h1
    | cons _ _ => simp
  · intro p hp w hw
    obtain ⟨e, _, hm, _, _⟩ := closedTable_mem enc p hp
    exact enc.words (p.1, e) hm w hw
  · intro w hw
    exact (closedTable_isKey enc [w]).mpr (enc.unigrams w hw)
  · intro p hp h2
    obtain ⟨e, hg, _, _, _⟩ := closedTable_mem enc p hp
    exact (closedTable_isKey enc _).mpr (enc.sc p.1 (by rw [hg]; simp) h2)

theorem closedTable_vals (enc : ArpaEnc fval a bound P B) : ValsOK (closedTable a.order (visitOrder (gramsOf a P B))) := by
  intro p hp
  obtain ⟨e, hg, _, h1, h2⟩ := closedTable_mem enc p hp
  refine ⟨by rw [h1]; exact (enc.pval _ e hg).1, ?_⟩
  rw [h2]; unfold markedB
  have hB := (enc.bval _ e hg).1
  split
  · decide
  · split
    · decide
    · exact hB


/-- back-off a context contributes to a blank's probability: the real n-gram's back-off, nothing if the context is no n-gram -/
def msgValue (fval : Nat → Rat) (gs : List Gram) (k : List Word) : Rat :=
  match realOf gs k with
  | some r => fval r.backoff
  | none => 0

/-- **value of a blank** under an exact addition shared by builder and table (`fval (fadd x y) = fval x + fval y`, both zeros
decode to 0): the probability `SRISucks` computes is the basis plus the back-offs of the asked contexts, in the order of the
messages — the operand list of the back-off recursion from the basis order up to the blank's order. -/
theorem blankProb_value (fval : Nat → Rat) (fadd : Nat → Nat → Nat) (hadd : ∀ x y, fval (fadd x y) = fval x + fval y)
    (hz : fval minusZero = 0 ∧ fval plusZero = 0) (gs : List Gram) (b : Blank) :
    fval (blankProb fadd gs b) = fval b.basis + ((messageKeys b).map (msgValue fval gs)).sum := by
  unfold blankProb
  generalize messageKeys b = keys
  generalize b.basis = acc
  induction keys generalizing acc with
  | nil => simp only [List.foldl_nil, List.map_nil, List.sum_nil]; rw [Rat.add_zero]
  | cons k ks ih =>
    rw [List.foldl_cons, ih, List.map_cons, List.sum_cons]
    unfold msgValue
    cases hr : realOf gs k with
    | none => simp only; rw [Rat.zero_add]
    | some r =>
      simp only [hadd]
      by_cases hb : r.backoff = minusZero
      · rw [if_pos hb, hb, hz.1, hz.2, Rat.add_assoc]
      · rw [if_neg hb, Rat.add_assoc]


end KV.TrieBuild
