import Proofs.PCQueueSys
import Proofs.ChainPool
import Proofs.ChainRing
/-!
The ThreadPool as a client program of the composed system: the atomic system instantiated with `poolProg` is the
`Pool` model (`toPool`), so by `creach_refines` every reachable state of the ThreadPool running on the STEP-LEVEL
queue (semaphores, mutexes, ring, EINTR) abstracts to a reachable state of the `Pool` model.  Core Lean only.
-/
namespace KV.Sys
open KV.Chain (Item WPC Pool fifoPush fifoPop upd)

inductive PLoc
  | main (todo : List Item) (joined : Nat)
  | worker (pc : WPC) (handled : List Nat)

def enc : Item → Nat
  | .poison => 0
  | .val v => v + 1

def dec : Nat → Item
  | 0 => .poison
  | n + 1 => .val n

theorem dec_enc (x : Item) : dec (enc x) = x := by cases x <;> rfl

def isFinished : PLoc → Bool
  | .worker .finished _ => true
  | _ => false

/-- user thread (tid 0): `Produce` every request, then one poison per worker, then `Join` every worker in order;
worker `i` (tid `i+1`): `while (1) { Consume(request); if (request == poison) return; handler(request); }` -/
def poolProg (cap w : Nat) : Prog PLoc where
  nthreads := w + 1
  cap := fun _ => cap
  act := fun t l =>
    match t, l with
    | 0, .main (x :: rest) j => .produce 0 (enc x) (.main rest j)
    | 0, .main [] j => if j < w then .await (j + 1) isFinished (.main [] (j + 1)) else .stop
    | _ + 1, .worker .notStarted h => .tau (.worker .running h)
    | _ + 1, .worker .running h =>
      .consume 0 (fun n => match dec n with
        | .poison => .worker .finished h
        | .val v => .worker .running (h ++ [v]))
    | _, _ => .stop

def poolLoc0 (w : Nat) (reqs : List Nat) : Nat → PLoc
  | 0 => .main (reqs.map .val ++ List.replicate w .poison) 0
  | _ + 1 => .worker .notStarted []

def wpcOf : PLoc → WPC
  | .worker pc _ => pc
  | _ => .finished

def handledOf : PLoc → List Nat
  | .worker _ h => h
  | _ => []

def todoOf : PLoc → List Item
  | .main todo _ => todo
  | _ => []

def joinedOf : PLoc → Nat
  | .main _ j => j
  | _ => 0

/-- the `Pool` state denoted by a state of the atomic client system -/
def toPool (cap w : Nat) (a : AState PLoc) : Pool :=
  { cap := cap, q := (a.q 0).map dec, todo := todoOf (a.loc 0), joined := joinedOf (a.loc 0),
    wpc := (List.range w).map fun i => wpcOf (a.loc (i + 1)),
    handled := (List.range w).map fun i => handledOf (a.loc (i + 1)),
    log := (a.popped 0).map fun x => (x.1 - 1, dec x.2) }

/-- thread 0 is the user thread, threads `1..w` are workers -/
def PWF (w : Nat) (a : AState PLoc) : Prop :=
  (∃ todo j, a.loc 0 = .main todo j) ∧ ∀ i, i < w → ∃ pc h, a.loc (i + 1) = .worker pc h

theorem map_range_upd {α β : Type} (f : α → β) (g : Nat → α) (w i : Nat) (x : α) (hi : i < w) :
    (List.range w).map (fun j => f (upd g (i + 1) x (j + 1)))
      = ((List.range w).map fun j => f (g (j + 1))).set i (f x) := by
  apply List.ext_getElem?
  intro j
  simp only [List.getElem?_map, List.getElem?_set, List.getElem?_range, List.length_map, List.length_range]
  by_cases hj : j < w
  · by_cases e : i = j
    · subst e; simp [hj, Chain.upd]
    · have e' : ¬ j = i := fun h => e h.symm
      simp [hj, e, Chain.upd, e']
  · have : i ≠ j := by omega
    simp [hj, this]

theorem map_range_upd0 {α β : Type} (f : α → β) (g : Nat → α) (w : Nat) (x : α) :
    (List.range w).map (fun j => f (upd g 0 x (j + 1))) = (List.range w).map fun j => f (g (j + 1)) := by
  apply List.map_congr_left
  intro j _
  simp [Chain.upd]

theorem wpc_get (w : Nat) (a : AState PLoc) {i : Nat} (hi : i < w) :
    ((List.range w).map fun j => wpcOf (a.loc (j + 1)))[i]? = some (wpcOf (a.loc (i + 1))) := by
  simp [List.getElem?_map, List.getElem?_range, hi]

theorem handled_getD (w : Nat) (a : AState PLoc) {i : Nat} (hi : i < w) :
    ((List.range w).map fun j => handledOf (a.loc (j + 1))).getD i [] = handledOf (a.loc (i + 1)) := by
  simp [List.getD_eq_getElem?_getD, List.getElem?_map, List.getElem?_range, hi]

theorem PWF.upd_main {w : Nat} {a : AState PLoc} (h : PWF w a) (todo : List Item) (j : Nat) (q p) :
    PWF w { q := q, loc := upd a.loc 0 (.main todo j), popped := p } := by
  refine ⟨⟨todo, j, by simp [Chain.upd]⟩, fun i hi => ?_⟩
  obtain ⟨pc, hh, e⟩ := h.2 i hi
  exact ⟨pc, hh, by simp [Chain.upd, e]⟩

theorem PWF.upd_worker {w : Nat} {a : AState PLoc} (h : PWF w a) (i : Nat) (pc : WPC) (hh : List Nat) (q p) :
    PWF w { q := q, loc := upd a.loc (i + 1) (.worker pc hh), popped := p } := by
  refine ⟨?_, fun j hj => ?_⟩
  · obtain ⟨todo, jn, e⟩ := h.1
    exact ⟨todo, jn, by simp [Chain.upd, e]⟩
  · by_cases e : j = i
    · subst e; exact ⟨pc, hh, by simp [Chain.upd]⟩
    · obtain ⟨pc', h', e'⟩ := h.2 j hj
      exact ⟨pc', h', by simp [Chain.upd, e, e']⟩

theorem set_same {α : Type} {l : List α} {i : Nat} {x : α} (h : l[i]? = some x) : l.set i x = l := by
  apply List.ext_getElem?
  intro j
  by_cases e : i = j
  · subst e
    obtain ⟨hlt, hx⟩ := List.getElem?_eq_some_iff.mp h
    simp [List.getElem?_set, hlt, hx]
  · simp [List.getElem?_set, e]

theorem toPool_main (cap w : Nat) (a : AState PLoc) (todo : List Item) (j : Nat) (q' : Nat → List Nat)
    (p' : Nat → List (Nat × Nat)) :
    toPool cap w { q := q', loc := upd a.loc 0 (.main todo j), popped := p' }
      = { cap := cap, q := (q' 0).map dec, todo := todo, joined := j, wpc := (toPool cap w a).wpc,
          handled := (toPool cap w a).handled, log := (p' 0).map fun x => (x.1 - 1, dec x.2) } := by
  simp only [toPool, map_range_upd0]
  simp [Chain.upd, todoOf, joinedOf]

theorem toPool_worker (cap w : Nat) (a : AState PLoc) {i : Nat} (hi : i < w) (pc : WPC) (hh : List Nat)
    (q' : Nat → List Nat) (p' : Nat → List (Nat × Nat)) :
    toPool cap w { q := q', loc := upd a.loc (i + 1) (.worker pc hh), popped := p' }
      = { cap := cap, q := (q' 0).map dec, todo := (toPool cap w a).todo, joined := (toPool cap w a).joined,
          wpc := (toPool cap w a).wpc.set i pc, handled := (toPool cap w a).handled.set i hh,
          log := (p' 0).map fun x => (x.1 - 1, dec x.2) } := by
  have e1 := map_range_upd wpcOf a.loc w i (.worker pc hh) hi
  have e2 := map_range_upd handledOf a.loc w i (.worker pc hh) hi
  simp only [toPool, e1, e2]
  simp [Chain.upd, wpcOf, handledOf]

/-- the atomic client system with `poolProg` IS the `Pool` model: each of its steps is the corresponding
`Pool.step` on the denoted state -/
theorem pool_astep {cap w : Nat} {a a' : AState PLoc} {t : Nat} (hwf : PWF w a)
    (hs : astep (poolProg cap w) a t = some a') :
    (toPool cap w a).step t = some (toPool cap w a') ∧ PWF w a' := by
  have hq : (toPool cap w a).q = (a.q 0).map dec := rfl
  have hcapp : (toPool cap w a).cap = cap := rfl
  have hlog : (toPool cap w a).log = (a.popped 0).map fun x => (x.1 - 1, dec x.2) := rfl
  have hwlen : (toPool cap w a).wpc.length = w := by simp [toPool]
  unfold astep at hs
  by_cases ht : t < w + 1
  · have ht' : t < (poolProg cap w).nthreads := ht
    rw [if_pos ht'] at hs
    cases t with
    | zero =>
      obtain ⟨todo, j, hl⟩ := hwf.1
      have htodo : (toPool cap w a).todo = todo := by simp [toPool, hl, todoOf]
      have hjoined : (toPool cap w a).joined = j := by simp [toPool, hl, joinedOf]
      cases todo with
      | cons x rest =>
        simp only [hl, poolProg] at hs
        cases hqq : fifoPush cap (a.q 0) (enc x) with
        | none => simp [hqq] at hs
        | some buf =>
          simp only [hqq] at hs; cases hs
          obtain ⟨hlt, rfl⟩ := Chain.fifoPush_some hqq
          refine ⟨?_, hwf.upd_main rest j _ _⟩
          have hlen : (toPool cap w a).q.length < (toPool cap w a).cap := by rw [hq, hcapp]; simpa using hlt
          rw [toPool_main]
          unfold Pool.step
          simp only [htodo, hlen, if_true]
          simp [Chain.upd, dec_enc, hq, hcapp, hjoined, hlog]
      | nil =>
        simp only [hl, poolProg] at hs
        by_cases hj : j < w
        · simp only [hj, if_true] at hs
          by_cases hf : isFinished (a.loc (j + 1)) = true
          · simp only [hf, if_true] at hs; cases hs
            refine ⟨?_, hwf.upd_main [] (j + 1) _ _⟩
            obtain ⟨pc, hh, e⟩ := hwf.2 j hj
            have hpc : pc = .finished := by
              rw [e] at hf; cases pc <;> simp [isFinished] at hf ⊢
            have hget : (toPool cap w a).wpc[(toPool cap w a).joined]? = some .finished := by
              rw [hjoined]; show _ = _
              rw [show (toPool cap w a).wpc = (List.range w).map fun i => wpcOf (a.loc (i + 1)) from rfl,
                  wpc_get w a hj, e, hpc]; rfl
            have hjl : (toPool cap w a).joined < (toPool cap w a).wpc.length := by rw [hjoined, hwlen]; exact hj
            rw [toPool_main]
            unfold Pool.step
            simp only [htodo, hjl, if_true, hget]
            simp [hq, hcapp, hjoined, hlog]
          · simp [hf] at hs
        · simp [hj] at hs
    | succ i =>
      have hi : i < w := by omega
      obtain ⟨pc, hh, hl⟩ := hwf.2 i hi
      have hget : (toPool cap w a).wpc[i]? = some pc := by
        rw [show (toPool cap w a).wpc = (List.range w).map fun i => wpcOf (a.loc (i + 1)) from rfl,
            wpc_get w a hi, hl]; rfl
      have hhand : (toPool cap w a).handled[i]? = some hh := by
        show ((List.range w).map fun i => handledOf (a.loc (i + 1)))[i]? = some hh
        simp [List.getElem?_map, List.getElem?_range, hi, hl, handledOf]
      have hgetD : (toPool cap w a).handled.getD i [] = hh := by
        simp [List.getD_eq_getElem?_getD, hhand]
      cases pc with
      | notStarted =>
        simp only [hl, poolProg] at hs; cases hs
        refine ⟨?_, hwf.upd_worker i .running hh _ _⟩
        rw [toPool_worker cap w a hi, set_same hhand]
        unfold Pool.step
        simp only [hget]
        simp [hq, hcapp, hlog]
      | running =>
        simp only [hl, poolProg] at hs
        cases hqq : fifoPop (a.q 0) with
        | none => simp [hqq] at hs
        | some pr =>
          obtain ⟨n, rest⟩ := pr
          simp only [hqq] at hs; cases hs
          have hq0 := Chain.fifoPop_some hqq
          have hq' : (toPool cap w a).q = dec n :: rest.map dec := by rw [hq, hq0]; rfl
          cases hd : dec n with
          | poison =>
            refine ⟨?_, by simpa [hd] using hwf.upd_worker i .finished hh _ _⟩
            simp only [hd]
            rw [toPool_worker cap w a hi, set_same hhand]
            unfold Pool.step
            simp only [hget, hq', hd]
            simp [Chain.upd, hcapp, hlog, hd]
          | val v =>
            refine ⟨?_, by simpa [hd] using hwf.upd_worker i .running (hh ++ [v]) _ _⟩
            simp only [hd]
            rw [toPool_worker cap w a hi, set_same hget]
            unfold Pool.step
            simp only [hget, hq', hd, hgetD]
            simp [Chain.upd, hcapp, hlog, hd]
      | finished => simp [hl, poolProg] at hs
  · have ht' : ¬ t < (poolProg cap w).nthreads := ht
    rw [if_neg ht'] at hs; cases hs

theorem map_range_const {α : Type} (w : Nat) (x : α) : (List.range w).map (fun _ => x) = List.replicate w x := by
  apply List.ext_getElem?
  intro j
  by_cases hj : j < w
  · simp [List.getElem?_map, List.getElem?_range, List.getElem?_replicate, hj]
  · simp [List.getElem?_map, List.getElem?_range, List.getElem?_replicate, hj]

theorem toPool_init (cap w : Nat) (reqs : List Nat) :
    toPool cap w (ainit (poolLoc0 w reqs)) = Pool.init cap w reqs := by
  simp [toPool, ainit, poolLoc0, Pool.init, todoOf, joinedOf, wpcOf, handledOf, map_range_const]

theorem pwf_init (w : Nat) (reqs : List Nat) : PWF w (ainit (poolLoc0 w reqs)) :=
  ⟨⟨_, _, rfl⟩, fun _ _ => ⟨_, _, rfl⟩⟩

theorem pool_areach {cap w : Nat} {reqs : List Nat} {a : AState PLoc}
    (h : AReach (poolProg cap w) (ainit (poolLoc0 w reqs)) a) :
    PWF w a ∧ Pool.Reach (Pool.init cap w reqs) (toPool cap w a) := by
  induction h with
  | init => exact ⟨pwf_init w reqs, by rw [toPool_init]; exact .init⟩
  | step _ hs ih =>
    obtain ⟨h1, h2⟩ := pool_astep ih.1 hs
    exact ⟨h2, .step ih.2 h1⟩

end KV.Sys
