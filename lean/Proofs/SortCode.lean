import Proofs.SortExt
/-! C16: the code's own merge plan (`codeSort`) is one of the plans `extSort` quantifies over. -/
namespace KV.Sort
open List

variable {α : Type}

/-- the groups formed by `MergingReader::Run` are a partition into consecutive non-empty groups -/
theorem codeGroups_split (entrySize bufferSize totalMem : Nat) (assertOne : Bool) :
    ∀ (fuel : Nat) (runs : List (List α)) (gs : List (List (List α))),
      codeGroups entrySize bufferSize totalMem assertOne fuel runs = .ok gs →
      splitGroups (gs.map List.length) runs = gs := by
  intro fuel
  induction fuel with
  | zero =>
    intro runs gs h
    cases runs with
    | nil => simp only [codeGroups, Except.ok.injEq] at h; subst h; simp [splitGroups]
    | cons r rs => simp [codeGroups] at h
  | succ fuel ih =>
    intro runs gs h
    cases runs with
    | nil => simp only [codeGroups, Except.ok.injEq] at h; subst h; simp [splitGroups]
    | cons r rs =>
      simp only [codeGroups] at h
      split at h
      · cases h
      · split at h
        · cases h
        · split at h
          · cases h
          · split at h
            · cases h
            · rename_i hc0 _ _
              split at h
              · cases h
              · rename_i gs' hrec
                simp only [Except.ok.injEq] at h
                subst h
                have ih' := ih _ _ hrec
                generalize hc : groupCount _ _ _ _ = c at *
                obtain ⟨c', rfl⟩ : ∃ c', c = c' + 1 := ⟨c - 1, by omega⟩
                simp only [take_succ_cons, drop_succ_cons, map_cons, length_cons, length_take] at ih' ⊢
                simp only [splitGroups, Nat.add_sub_cancel]
                have ht : take (min c' rs.length) rs = take c' rs := by
                  rw [Nat.min_def]; split
                  · rfl
                  · rw [take_of_length_le (by omega), take_of_length_le (by omega)]
                have hd : drop (min c' rs.length) rs = drop c' rs := by
                  rw [Nat.min_def]; split
                  · rfl
                  · rw [drop_of_length_le (by omega), drop_of_length_le (by omega)]
                rw [ht, hd, ih']

/-- with `assert_one` the only possible result is one group holding all runs -/
theorem codeGroups_one (entrySize bufferSize totalMem : Nat) (fuel : Nat) (r : List α) (rs : List (List α))
    (gs : List (List (List α)))
    (h : codeGroups entrySize bufferSize totalMem true fuel (r :: rs) = .ok gs) : gs = [r :: rs] := by
  cases fuel with
  | zero => simp [codeGroups] at h
  | succ fuel =>
    simp only [codeGroups] at h
    split at h
    · cases h
    · split at h
      · cases h
      · split at h
        · cases h
        · split at h
          · cases h
          · rename_i hone
            have hc : (r :: rs).length ≤ groupCount (perBuffer entrySize bufferSize totalMem (r :: rs).length) totalMem 0
                (map (fun r => r.length * entrySize) (r :: rs)) := by
              simp only [true_and, Nat.not_lt] at hone
              exact hone
            rw [drop_of_length_le hc, take_of_length_le hc] at h
            cases fuel <;> simp [codeGroups] at h <;> exact h.symm

theorem codePass_refines (lt : α → α → Bool) (comb) (pick) (cfg : Cfg) (reading : Nat) (runs runs' : List (List α))
    (h : codePass lt comb pick cfg reading runs = .ok runs') (h2 : 2 ≤ runs.length) :
    ∃ sizes, pass lt comb pick sizes runs = some runs' := by
  match runs, h2 with
  | r1 :: r2 :: rs, _ =>
    simp only [codePass] at h
    split at h
    · cases h
    · rename_i gs hgs
      have hsplit := codeGroups_split _ _ _ _ _ _ _ hgs
      refine ⟨gs.map List.length, ?_⟩
      simp only [pass, hsplit]
      rw [storeRunsLogged_merge, storeRuns_eq] at h ⊢
      simp only [Except.ok.injEq] at h
      rw [h]

theorem codeMergeLoop_refines (lt : α → α → Bool) (comb) (pick) (cfg : Cfg) (lazyMem : Nat) :
    ∀ (fuel : Nat) (runs : List (List α)) (n : Nat) (runs' : List (List α)) (n' : Nat),
      codeMergeLoop lt comb pick cfg lazyMem fuel runs n = .ok (runs', n') →
      ∃ plan : List (List Nat), n' = n + plan.length ∧ passes lt comb pick plan runs = some runs' := by
  intro fuel
  induction fuel with
  | zero =>
    intro runs n runs' n' h
    unfold codeMergeLoop at h
    simp only at h
    split at h
    · simp only [Except.ok.injEq, Prod.mk.injEq] at h
      exact ⟨[], by simp [h.2.symm], by simp [passes, h.1]⟩
    · cases h
  | succ fuel ih =>
    intro runs n runs' n' h
    unfold codeMergeLoop at h
    simp only at h
    split at h
    · simp only [Except.ok.injEq, Prod.mk.injEq] at h
      exact ⟨[], by simp [h.2.symm], by simp [passes, h.1]⟩
    · rename_i hcond
      split at h
      · cases h
      · rename_i r1 hp
        have h2 : 2 ≤ runs.length := by
          have : ¬ runs.length ≤ max 1 (lazyMem / cfg.bufferSize) := fun hh => hcond (Or.inl hh)
          have : 1 ≤ max 1 (lazyMem / cfg.bufferSize) := Nat.le_max_left _ _
          omega
        obtain ⟨sizes, hs⟩ := codePass_refines lt comb pick cfg _ runs r1 hp h2
        obtain ⟨plan, hn, hpl⟩ := ih r1 (n + 1) runs' n' h
        exact ⟨sizes :: plan, by simp [hn]; omega, by simp [passes, hs, hpl]⟩

theorem codeFinal_refines (lt : α → α → Bool) (comb) (pick) (cfg : Cfg) (lazyMem : Nat) (runs : List (List α))
    (out : List α) (h : codeFinal lt comb pick cfg lazyMem runs = .ok out) : out = finalMerge lt comb pick runs := by
  match runs with
  | [] => simp only [codeFinal, Except.ok.injEq] at h; simp [finalMerge, h]
  | [r] => simp only [codeFinal, Except.ok.injEq] at h; simp [finalMerge, h]
  | r1 :: r2 :: rs =>
    simp only [codeFinal] at h
    split at h
    · cases h
    · rename_i gs hgs
      have := codeGroups_one _ _ _ _ _ _ _ hgs
      subst this
      simp only [map_cons, map_nil, flatten_cons, flatten_nil, append_nil, Except.ok.injEq] at h
      simp [finalMerge, h]

/-- **The code's plan is a plan**: whenever the arity logic of `Sort::Merge` /
`MergingReader::Run` (as modelled by `codeSort`, which the check compares with the real code:
number of passes and `Merge`'s return value) produces an output, that output is
`extSort blocks plan` for a plan with as many passes as the code made. -/
theorem codeSort_refines_aux (lt : α → α → Bool) (comb) (pick) (cfg : Cfg) (lazyMem : Nat) (blocks : List (List α))
    (out : List α) (p ret : Nat) (h : codeSort lt comb pick cfg lazyMem blocks = .ok (out, p, ret)) :
    ∃ plan : List (List Nat), plan.length = p ∧ extSort lt comb pick blocks plan = some out := by
  unfold codeSort at h
  rw [afterBlockSorter_eq] at h
  simp only at h
  split at h
  · cases h
  · rename_i m hm
    split at h
    · cases h
    · rename_i out' hf
      simp only [Except.ok.injEq, Prod.mk.injEq] at h
      obtain ⟨rfl, rfl, rfl⟩ := h
      have hfin := codeFinal_refines lt comb pick cfg lazyMem m.runs out' hf
      unfold codeMerge at hm
      split at hm
      · rename_i hle
        simp only [Except.ok.injEq] at hm
        subst hm
        refine ⟨[], rfl, ?_⟩
        simp [extSort, afterBlockSorter_eq, passes, hfin]
      · split at hm
        · cases hm
        · rename_i runs' n hloop
          obtain ⟨plan, hn, hpl⟩ := codeMergeLoop_refines lt comb pick cfg lazyMem _ _ _ _ _ hloop
          have hmr : m.runs = runs' ∧ m.passes = n := by
            split at hm <;> (simp only [Except.ok.injEq] at hm; subst hm; exact ⟨rfl, rfl⟩)
          refine ⟨plan, by omega, ?_⟩
          simp [extSort, afterBlockSorter_eq, hpl, hfin, hmr.1]

end KV.Sort

namespace KV.Sort
variable {α : Type}

/-- the traced loop is the loop -/
theorem codeMergeLoopT_eq (lt : α → α → Bool) (comb) (pick) (cfg : Cfg) (lazyMem : Nat) :
    ∀ (fuel : Nat) (runs : List (List α)) (n : Nat) (hist : List (List Nat)),
      (codeMergeLoopT lt comb pick cfg lazyMem fuel runs n hist).map (fun x => (x.1, x.2.1)) =
        codeMergeLoop lt comb pick cfg lazyMem fuel runs n := by
  intro fuel
  induction fuel with
  | zero =>
    intro runs n hist
    unfold codeMergeLoopT codeMergeLoop
    simp only
    split <;> rfl
  | succ fuel ih =>
    intro runs n hist
    unfold codeMergeLoopT codeMergeLoop
    simp only
    split
    · rfl
    · split
      · rfl
      · exact ih _ _ _

end KV.Sort
