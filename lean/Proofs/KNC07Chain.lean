import Model.KNChainStages
import Proofs.KNBlocks
import Proofs.KNSorters
import Properties.C17
/-!
The SINGLE-CHAIN part of C07's hypothesis `h_stages`, discharged with C17's
`chain_stream_transducer`.

* §0 `natsCode`: a concrete `BlockCode` (blocks of numbers ↔ `Nat`).
* §1 `liftStage`, `chain_stage_stream_pf`: a per-block state transformer on record blocks, run as the
  worker of a C17 chain, hands on — for every number of chain blocks, every schedule — exactly
  `runBlocks step init blocks`.
* §2 for each single-chain stage of lmplz: over ANY block partition of its input stream, the
  concatenation of what it hands on is the stage function of `Model/KN.lean` on the concatenated input
  (`onlyGamma_partition`, `collapse_partition`, `mergeRight_partition_pf`, `mergeRightUnigram_partition_pf`).
* §3 `single_chain_stages` (= §1 ∘ §2), `lmplz_indep_final2` with the remaining hypothesis `h_wiring`.
* §4 non-vacuity on a concrete chain.
-/
namespace KV.C07
open KV.KN KV.KN.Blocks KV.KN.ChainStages KV.KN.Interp KV.Chain

/-! ## 0. A concrete block code -/

theorem tz_pow (a : Nat) : ∀ (f o : Nat), o % 2 = 1 → a ≤ f → tz f (o * 2 ^ a) = a := by
  induction a with
  | zero =>
    intro f o ho _
    cases f with
    | zero => rfl
    | succ f => simp only [tz, Nat.pow_zero, Nat.mul_one]; rw [if_neg]; omega
  | succ a ih =>
    intro f o ho hf
    cases f with
    | zero => omega
    | succ f =>
      have hpos : 0 < 2 ^ a := Nat.two_pow_pos a
      have hopos : 0 < o := by omega
      have hmul : 0 < o * 2 ^ a := Nat.mul_pos hopos hpos
      have e : o * 2 ^ (a + 1) = 2 * (o * 2 ^ a) := by rw [Nat.pow_succ]; ac_rfl
      simp only [tz]
      rw [if_pos (by rw [e]; omega), e, Nat.mul_div_cancel_left _ (by decide : 0 < 2), ih f o ho (by omega)]
      omega

theorem decNatsF_enc : ∀ (l : List Nat) (f : Nat), encNats l ≤ f → decNatsF f (encNats l) = l
  | [], f, _ => by cases f <;> simp [decNatsF, encNats]
  | a :: l, f, hf => by
    have hpos : 0 < 2 ^ a := Nat.two_pow_pos a
    have hlt : a < 2 ^ a := Nat.lt_two_pow_self
    have hge : 2 ^ a ≤ (2 * encNats l + 1) * 2 ^ a := Nat.le_mul_of_pos_left _ (by omega)
    have hge2 : 2 * encNats l + 1 ≤ (2 * encNats l + 1) * 2 ^ a := Nat.le_mul_of_pos_right _ hpos
    cases f with
    | zero => simp only [encNats] at hf; omega
    | succ f =>
      simp only [encNats] at hf ⊢
      simp only [decNatsF]
      rw [if_neg (by omega)]
      have htz : tz f ((2 * encNats l + 1) * 2 ^ a) = a := tz_pow a f _ (by omega) (by omega)
      simp only [htz, Nat.mul_div_cancel _ hpos]
      have : (2 * encNats l + 1 - 1) / 2 = encNats l := by omega
      rw [this, decNatsF_enc l f (by omega)]

/-- blocks of numbers as numbers -/
def natsCode : BlockCode Nat := ⟨encNats, decNats, fun b => decNatsF_enc b _ (Nat.le_refl _)⟩

/-! ## 1. A stage as the worker of a C17 chain -/

section lift
variable {σ β γ : Type}

/-- stage 1 of the chain runs `step` on decoded blocks (state kept by the worker's loop); further
workers, if any, pass the blocks on unchanged -/
def liftStage (cβ : BlockCode β) (cγ : BlockCode γ) (step : Stage σ β γ) (init : σ) : Transducers σ where
  init := fun _ => init
  step := fun i s v => if i = 1 then ((step s (cβ.dec v)).1, cγ.enc (step s (cβ.dec v)).2) else (s, v)

theorem liftStage_run (cβ : BlockCode β) (cγ : BlockCode γ) (step : Stage σ β γ) (init : σ) :
    ∀ (blocks : List (List β)) (s : σ),
      (liftStage cβ cγ step init).run 1 s (blocks.map cβ.enc) = (runBlocks step s blocks).map cγ.enc
  | [], _ => rfl
  | b :: bs, s => by
    simp only [List.map_cons, Transducers.run, runBlocks, liftStage, if_true, cβ.dec_enc]
    have := liftStage_run cβ cγ step init bs (step s b).1
    simp only [liftStage] at this
    rw [this]

theorem valsOf_map_val (l : List Nat) : valsOf (l.map Item.val ++ [Item.poison]) = l := by
  induction l with
  | nil => rfl
  | cons a l ih => simp only [List.map_cons, List.cons_append, valsOf, ih]

/-- **A stage on a chain** (C17 `chain_stream_transducer`).  Let the source of a chain produce the
record blocks `blocks` (any partition of its stream) and the worker run the per-block state
transformer `step` from `init`.  For every number `b ≥ 1` of chain blocks, every chain length `m ≥ 2`
and EVERY schedule (`Chain.Reach`: any finite interleaving of source, workers, recycler and the thread
that called `Chain::Start` / `Chain::Wait`): when `Wait` has returned, the worker has handed on exactly
the blocks `runBlocks step init blocks`, in order, each once, then one poison, and the next stage has
received exactly that. -/
theorem chain_stage_stream_pf (cβ : BlockCode β) (cγ : BlockCode γ) (step : Stage σ β γ) (init : σ)
    (blocks : List (List β)) {b m : Nat} {c : Chain} (hb : 0 < b) (hm : 2 ≤ m)
    (hr : Chain.Reach (Chain.initT b m (blocks.map cβ.enc) (liftStage cβ cγ step init).toStageFn.tr) c)
    (hfin : c.main = .finished) :
    (valsOf (c.st 1).out).map cγ.dec = runBlocks step init blocks
    ∧ (c.st 1).out = ((runBlocks step init blocks).map cγ.enc).map Item.val ++ [Item.poison]
    ∧ (c.st 2).inp = (c.st 1).out := by
  obtain ⟨hout, hin⟩ := (KV.C17.chain_stream_transducer (liftStage cβ cγ step init) hb (by omega) hr).2 hfin 1 (by omega)
  have hp : (liftStage cβ cγ step init).pipeline (blocks.map cβ.enc) 1 = (runBlocks step init blocks).map cγ.enc := by
    show (liftStage cβ cγ step init).run 1 init (blocks.map cβ.enc) = _
    exact liftStage_run cβ cγ step init blocks init
  rw [hp] at hout
  refine ⟨?_, hout, hin⟩
  rw [hout, valsOf_map_val, List.map_map]
  have : (cγ.dec ∘ cγ.enc) = id := funext cγ.dec_enc
  rw [this, List.map_id]

end lift

/-! ## 2. The stages: any block partition gives the stage function of `Model/KN.lean` -/

theorem runBlocks_constState {σ β γ : Type} (F : σ → List β → List γ) (s : σ) :
    ∀ blocks : List (List β), runBlocks (fun s b => (s, F s b)) s blocks = blocks.map (F s)
  | [] => rfl
  | b :: bs => by simp only [runBlocks, List.map_cons, runBlocks_constState F s bs]

theorem runBlocks_stateless {σ β γ : Type} (F : List β → List γ) (s : σ) (blocks : List (List β)) :
    runBlocks (fun s b => (s, F b)) s blocks = blocks.map F :=
  runBlocks_constState (fun _ => F) s blocks

/-- `OnlyGamma` -/
theorem onlyGamma_partition (pruning : Bool) (blocks : List (List Gam)) :
    (runBlocks (onlyGammaBlock pruning) () blocks).flatten = blocks.flatten.map (onlyGamma pruning) := by
  unfold onlyGammaBlock
  rw [runBlocks_stateless (fun b => b.map (onlyGamma pruning))]
  simp [List.map_flatten]

/-- `CollapseStream`: what flows on is `KV.KN.Blocks.collapseStream`, for every partition a
permutation of the filtered stream (the consumer is a sort: `SortsOK` only needs the multiset) -/
theorem collapse_partition {α : Type} (p : α → Bool) (blocks : List (List α)) :
    (runBlocks (collapseStage p) () blocks).flatten = (collapseStream p blocks).2
    ∧ (collapseStream p blocks).2.Perm (blocks.flatten.filter fun a => !p a) := by
  refine ⟨?_, collapseStream_perm p blocks⟩
  unfold collapseStage
  rw [runBlocks_stateless (fun b => (collapseBlock p b).2)]
  simp [collapseStream, List.flatMap]

/-! ### `MergeRight` over `PruneNGramStream` (order ≥ 2) -/

theorem mrRun_append (d : Disc) : ∀ (a b : List Emit) (st : MRState),
    mrRun d st (a ++ b) = ((mrRun d (mrRun d st a).1 b).1, (mrRun d st a).2 ++ (mrRun d (mrRun d st a).1 b).2)
  | [], _, _ => rfl
  | e :: a, b, st => by
    simp only [List.cons_append, mrRun, mrRun_append d a b (mrStep d st e).1]

/-- block boundaries are not observable: only the state crosses them -/
theorem mrBlocks_flatten (d : Disc) : ∀ (blocks : List (List Emit)) (st : MRState),
    (runBlocks (mrBlock d) st blocks).flatten = (mrRun d st blocks.flatten).2.filter (·.keep)
  | [], _ => rfl
  | b :: bs, st => by
    simp only [runBlocks, List.flatten_cons, mrRun_append, List.filter_append, mrBlock,
      mrBlocks_flatten d bs (mrRun d st b).1]

/-- records of the current context take the current sums entry -/
theorem mrRun_same (d : Disc) (c : Gram) (g : Gam) (S : List Gam) : ∀ (xs : List Emit),
    (∀ x ∈ xs, x.gram.tail = c) → ∀ ys : List Emit,
    mrRun d ⟨S, some (c, g)⟩ (xs ++ ys) =
      ((mrRun d ⟨S, some (c, g)⟩ ys).1, xs.map (mrOut d g) ++ (mrRun d ⟨S, some (c, g)⟩ ys).2)
  | [], _, _ => rfl
  | x :: xs, h, ys => by
    have hx : x.gram.tail = c := h x (List.mem_cons_self ..)
    have ih := mrRun_same d c g S xs (fun y hy => h y (List.mem_cons_of_mem _ hy)) ys
    simp only [List.cons_append, mrRun, mrStep, hx, if_true, ih, List.map_cons]

/-- what `ctxRuns` returns: non-empty runs of constant context, neighbours with different contexts -/
def GoodRuns : List (List Emit) → Prop
  | [] => True
  | run :: R => run ≠ [] ∧ (∀ x ∈ run, x.gram.tail = runCtx run) ∧
      (∀ r2, R.head? = some r2 → runCtx r2 ≠ runCtx run) ∧ GoodRuns R

theorem ctxRuns_good (es : List Emit) : GoodRuns (ctxRuns es) := by
  induction es with
  | nil => simp [ctxRuns, GoodRuns]
  | cons e t ih =>
    rcases ctxRuns_cons_cases e t with ⟨_, h⟩ | ⟨f, r, rs, ht, hef, h⟩ | ⟨f, r, rs, ht, hef, h⟩
    · rw [h]
      exact ⟨by simp, by intro x hx; simp only [List.mem_singleton] at hx; subst hx; rfl, by simp, trivial⟩
    · rw [h]; rw [ht] at ih
      obtain ⟨_, hc, hadj, hR⟩ := ih
      refine ⟨by simp, ?_, ?_, hR⟩
      · intro x hx
        rcases List.mem_cons.1 hx with rfl | hx
        · rfl
        · rw [hc x hx]; simp [runCtx, hef]
      · intro r2 h2
        have := hadj r2 h2
        simpa [runCtx, hef] using this
    · rw [h]; rw [ht] at ih
      refine ⟨by simp, by intro x hx; simp only [List.mem_singleton] at hx; subst hx; rfl, ?_, ih⟩
      intro r2 h2
      simp only [List.head?_cons, Option.some.injEq] at h2
      subst h2
      simpa [runCtx] using fun h' => hef h'.symm

/-- run by run: each run takes the next entry of the sums stream -/
theorem mrRun_runs (d : Disc) (h : List Emit → Gam) : ∀ (R : List (List Emit)), GoodRuns R →
    ∀ (extra : List Gam) (cur : Option (Gram × Gam)),
      (∀ c g, cur = some (c, g) → ∀ r2, R.head? = some r2 → runCtx r2 ≠ c) →
      (mrRun d ⟨R.map h ++ extra, cur⟩ R.flatten).2 = R.flatMap (fun run => run.map (mrOut d (h run)))
  | [], _, _, _, _ => rfl
  | run :: R, hg, extra, cur, hcur => by
    obtain ⟨hne, hconst, hadj, hR⟩ := hg
    obtain ⟨e, rest, rfl⟩ := List.exists_cons_of_ne_nil hne
    have hctx : runCtx (e :: rest) = e.gram.tail := rfl
    have hrest : ∀ x ∈ rest, x.gram.tail = e.gram.tail := fun x hx => hconst x (List.mem_cons_of_mem _ hx)
    have ih := mrRun_runs d h R hR extra (some (e.gram.tail, h (e :: rest)))
      (fun c g hc r2 h2 => by cases hc; exact hadj r2 h2)
    have hstep : mrStep d ⟨h (e :: rest) :: (List.map h R ++ extra), cur⟩ e =
        (⟨R.map h ++ extra, some (e.gram.tail, h (e :: rest))⟩, mrOut d (h (e :: rest)) e) := by
      cases cur with
      | none => simp [mrStep]
      | some cg =>
        obtain ⟨c, g⟩ := cg
        have hne' : ¬ e.gram.tail = c := fun h' => hcur c g rfl (e :: rest) rfl (by rw [hctx]; exact h')
        simp [mrStep, hne']
    simp only [List.flatten_cons, List.cons_append, mrRun, hstep, List.flatMap_cons, List.map_cons]
    rw [mrRun_same d _ _ _ rest hrest, ih]

/-- **`MergeRight` ∘ `PruneNGramStream` on an order's primary chain**: for every partition of the
context-sorted stream `es` into blocks, with the sums stream from the adder chain (one entry per context,
in order: `(ctxRuns es).map (addRight d)`) as the initial state, the concatenation of the blocks handed
on is the stage function of `initialOrder` / `initialOrderWith` before the suffix sort. -/
theorem mergeRight_partition_pf (d : Disc) (es : List Emit) (blocks : List (List Emit)) (hb : blocks.flatten = es) :
    (runBlocks (mrBlock d) ⟨(ctxRuns es).map (addRight d), none⟩ blocks).flatten =
      ((ctxRuns es).flatMap (mergeRight d)).filter (·.keep) := by
  rw [mrBlocks_flatten, hb]
  have := mrRun_runs d (addRight d) (ctxRuns es) (ctxRuns_good es) [] none (fun c g h => by cases h)
  rw [List.append_nil, ctxRuns_flatten] at this
  rw [this]
  rfl

/-! ### order 1 -/

theorem ctxRuns_single (c : Gram) : ∀ (es : List Emit), es ≠ [] → (∀ e ∈ es, e.gram.tail = c) → ctxRuns es = [es]
  | [], h, _ => absurd rfl h
  | [e], _, _ => rfl
  | e :: f :: r, _, h => by
    have ih := ctxRuns_single c (f :: r) (by simp) (fun x hx => h x (List.mem_cons_of_mem _ hx))
    have hef : e.gram.tail = f.gram.tail := by
      rw [h e (List.mem_cons_self ..), h f (List.mem_cons_of_mem _ (List.mem_cons_self ..))]
    conv => lhs; rw [ctxRuns]
    rw [ih]
    simp [hef]

theorem filter_keep_map {f : Emit → Uninterp} (hf : ∀ e, (f e).keep = keptBy e) (l : List Emit) :
    (l.map f).filter (·.keep) = (l.filter keptBy).map f := by
  induction l with
  | nil => rfl
  | cons e l ih =>
    simp only [List.map_cons, List.filter_cons, hf e]
    cases keptBy e <;> simp [ih]

theorem mrUniOut_keep (iu : Bool) (d : Disc) (g : Gam) (e : Emit) : (mrUniOut iu d g e).keep = keptBy e := by
  unfold mrUniOut
  dsimp only
  split
  · rfl
  · split <;> rfl

/-- **the order-1 branch** (as `Model/KN.lean` has it: by the value of the word), over the repaired
`PruneNGramStream`: for every partition of the unigram stream, with the single sums entry as the state -/
theorem mergeRightUnigram_partition_pf (iu : Bool) (d : Disc) (es : List Emit) (hne : es ≠ [])
    (huni : ∀ e ∈ es, e.gram.tail = []) (blocks : List (List Emit)) (hb : blocks.flatten = es) :
    (runBlocks (mrUnigramBlock iu d) (addRight d es) blocks).flatten =
      ((ctxRuns es).flatMap (mergeRightUnigram iu d)).filter (·.keep) := by
  unfold mrUnigramBlock
  rw [runBlocks_constState (fun g b => pruneBlock true (mrUniOut iu d g) b)]
  have h1 : (blocks.map fun b => pruneBlock true (mrUniOut iu d (addRight d es)) b).flatten =
      pruneStream true (mrUniOut iu d (addRight d es)) blocks := by
    simp [pruneStream, List.flatMap]
  rw [h1, pruneStream_fixed, hb, ctxRuns_single [] es hne huni, List.flatMap_cons, List.flatMap_nil, List.append_nil,
    ← filter_keep_map (mrUniOut_keep iu d (addRight d es))]
  rfl

/-! ## 3. Every single chain delivers its stage function's stream -/

/-- **What is proved about the single chains of the pipeline**, for every coding of the record blocks,
every number `b ≥ 1` of chain blocks, every chain length `m ≥ 2`, every block partition `blocks`
produced upstream and EVERY schedule: once `Chain::Wait` has returned, the concatenation of the blocks the
worker handed on is the stage function of `Model/KN.lean` applied to the concatenation of the blocks it
received —
1. the gamma chain of an order (source `AddRight`, worker `OnlyGamma`);
2. `CollapseStream` on the order-`N` chain (a permutation of the filtered stream; the consumer is a sort);
3. an order's primary chain in step 3, order ≥ 2 (worker `MergeRight` over `PruneNGramStream`, the sums
   stream `(ctxRuns es).map (addRight d)` of the adder chain in the initial state);
4. the same for order 1. -/
def SingleChainsDeliver : Prop :=
  (∀ (cG : BlockCode Gam) (cO : BlockCode (Gram × Rat)) (pruning : Bool) (blocks : List (List Gam))
      (b m : Nat) (c : Chain), 0 < b → 2 ≤ m →
      Chain.Reach (Chain.initT b m (blocks.map cG.enc) (liftStage cG cO (onlyGammaBlock pruning) ()).toStageFn.tr) c →
      c.main = .finished →
      ((valsOf (c.st 1).out).map cO.dec).flatten = blocks.flatten.map (onlyGamma pruning))
  ∧ (∀ (cR : BlockCode (Gram × Nat)) (blocks : List (List (Gram × Nat))) (b m : Nat) (c : Chain), 0 < b → 2 ≤ m →
      Chain.Reach (Chain.initT b m (blocks.map cR.enc) (liftStage cR cR (collapseStage bosAt1) ()).toStageFn.tr) c →
      c.main = .finished →
      (((valsOf (c.st 1).out).map cR.dec).flatten).Perm (blocks.flatten.filter fun e => !bosAt1 e))
  ∧ (∀ (cE : BlockCode Emit) (cU : BlockCode Uninterp) (d : Disc) (es : List Emit) (blocks : List (List Emit)),
      blocks.flatten = es → ∀ (b m : Nat) (c : Chain), 0 < b → 2 ≤ m →
      Chain.Reach (Chain.initT b m (blocks.map cE.enc)
        (liftStage cE cU (mrBlock d) ⟨(ctxRuns es).map (addRight d), none⟩).toStageFn.tr) c →
      c.main = .finished →
      ((valsOf (c.st 1).out).map cU.dec).flatten = ((ctxRuns es).flatMap (mergeRight d)).filter (·.keep))
  ∧ (∀ (cE : BlockCode Emit) (cU : BlockCode Uninterp) (iu : Bool) (d : Disc) (es : List Emit) (blocks : List (List Emit)),
      es ≠ [] → (∀ e ∈ es, e.gram.tail = []) → blocks.flatten = es → ∀ (b m : Nat) (c : Chain), 0 < b → 2 ≤ m →
      Chain.Reach (Chain.initT b m (blocks.map cE.enc)
        (liftStage cE cU (mrUnigramBlock iu d) (addRight d es)).toStageFn.tr) c →
      c.main = .finished →
      ((valsOf (c.st 1).out).map cU.dec).flatten = ((ctxRuns es).flatMap (mergeRightUnigram iu d)).filter (·.keep))

/-- **the single-chain part of `h_stages`** — C17 `chain_stream_transducer` (via `chain_stage_stream_pf`)
composed with the partition lemmas of §2 -/
theorem single_chain_stages_pf : SingleChainsDeliver := by
  refine ⟨?_, ?_, ?_, ?_⟩
  · intro cG cO pruning blocks b m c hb hm hr hfin
    rw [(chain_stage_stream_pf cG cO _ () blocks hb hm hr hfin).1, onlyGamma_partition]
  · intro cR blocks b m c hb hm hr hfin
    rw [(chain_stage_stream_pf cR cR _ () blocks hb hm hr hfin).1, (collapse_partition bosAt1 blocks).1]
    exact (collapse_partition bosAt1 blocks).2
  · intro cE cU d es blocks hbl b m c hb hm hr hfin
    rw [(chain_stage_stream_pf cE cU _ _ blocks hb hm hr hfin).1, mergeRight_partition_pf d es blocks hbl]
  · intro cE cU iu d es blocks hne huni hbl b m c hb hm hr hfin
    rw [(chain_stage_stream_pf cE cU _ _ blocks hb hm hr hfin).1, mergeRightUnigram_partition_pf iu d es hne huni blocks hbl]

section final2
open KV.Vocab
variable {W : Type} [DecidableEq W]

/-- **C07 with the single-chain part of `h_stages` discharged.**  As `lmplz_indep_final`, with `h_stages`
replaced by `h_wiring`: *given* that every single chain delivers its stage function's stream
(`SingleChainsDeliver`, proved: `single_chain_stages`), the part of the tool after the first sort computes
`render (estimateFromWith (sorters m s) …)`.  `h_wiring` is what is still ASSUMED about the later stages;
since its premise is a theorem it is logically no weaker than `h_stages` — its form records what a proof
of it may use and what it has to supply, namely the plumbing BETWEEN chains, none of which is discharged
here:
* fan-out in step 2: `AdjustCounts::Run` reads the sorted order-`N` chain and writes the `N` chains of the
  orders `1 … N` in one loop (the stateful multi-output stream function `adjustStream` + `collapse` of
  Model/KN.lean, C05 `adjust_stream_eq`); only its `CollapseStream` iterator is a single-chain stage (2.);
* the counts-of-counts → discounts hand-over (`discounts` after the last block of step 2: a barrier);
* fan-out in step 3: `SortAndReadTwice` delivers the context-sorted stream of an order twice, to the adder
  chain (`AddRight`, source of chain 1.) and to the primary chain (3./4.); that both readers see the same
  stream is C16 (`h_sorters`: the sort's output is a function of its input) plus the file being read twice;
* fan-in in step 3: the sums stream of the adder chain is consumed by `MergeRight` record by record
  (`util::stream::Stream summed(from_adder_)`), interleaved with the primary chain: here the whole sums
  stream sits in the initial state of the worker (3.), i.e. "the second chain's content is
  `(ctxRuns es).map (addRight d)` and arrives in order" is part of `h_wiring`, as is `AddRight` computing
  `addRight d` per context (a single-chain source, not a worker);
* fan-in in step 4: `Interpolate` / `JointOrder` read the `N` suffix-sorted chains in lock step
  (`joinLower`, `interpOrder`, `interpAll`) together with the `N−1` gamma files written via 1.
  (`takeBackoffsSeq` / `takeBackoffsHash`);
* the external sorts between the steps (`sorters m s n`, assumed correct in `h_sorters`, which C16 proves
  of `extSort` / `codeSort`), `--renumber` (a stateless per-record map, not in the model) and the printer
  (`render`).
Everything else is as in `lmplz_indep_final`. -/
theorem lmplz_indep_final2_pf {Mem Sched Out : Type}
    (I : Impl Mem Sched (List (List W)) Out) (render : Except Err Model → Out) (opts : Opts)
    (hN : 1 ≤ opts.cfg.order) (text : List (List W))
    (hash : W → Nat) (unk bos eos : W) (unkCapHash : Nat) (xOf : Mem → Nat)
    (hx : ∀ m, 1 ≤ xOf m ∧ xOf m ≤ 2^63)
    (h_enc : ∀ m t, I.encode m t = growableIds hash unk bos eos unkCapHash (xOf m) t)
    (hsp : unk ≠ bos ∧ unk ≠ eos ∧ bos ≠ eos)
    (hinj : InjOn hash ([unk, bos, eos] ++ text.flatten))
    (hnz : ∀ w, w ∈ [unk, bos, eos] ++ text.flatten → hash w ≠ 0)
    (hmax : (specEncode unk bos eos text).2 < kWordIndexMax)
    (h_sortImpl : ∀ m s blocks, ∃ pick plan,
      KV.Sort.extSort KV.Sort.suffixLt KV.Sort.combineCounts pick (toBlocks blocks) plan =
        some ((I.sortCombine m s blocks).map toRec))
    (sorters : Mem → Sched → Nat → Sorters)
    (h_wiring : SingleChainsDeliver → ∀ m s full, I.post m s opts full =
      render (estimateFromWith (sorters m s) opts.cfg opts.pruneVocab opts.fallback full))
    (h_sorters : ∀ m s n, SortsOK (sorters m s n))
    (hk : opts.cfg.keepSpecials = true)
    (m₁ m₂ : Mem) (s₁ s₂ : Sched) :
    lmplzOut I m₁ s₁ opts text = lmplzOut I m₂ s₂ opts text :=
  lmplz_indep_discharged2 I render opts hN text hash unk bos eos unkCapHash xOf hx h_enc hsp hinj hnz hmax
    h_sortImpl sorters (h_wiring single_chain_stages_pf) h_sorters hk m₁ m₂ s₁ s₂

end final2

/-! ## 4. Non-vacuity: a stateful, compacting stage on a concrete chain -/

theorem foldl_step_none (sched : List Nat) :
    sched.foldl (fun (o : Option Chain) t => o.bind (·.step t)) none = none := by
  induction sched with
  | nil => rfl
  | cons t ts ih => simpa using ih

/-- a schedule that runs through is a witness of `Chain.Reach` -/
theorem reach_of_fold (c0 : Chain) (sched : List Nat) (c : Chain)
    (h : sched.foldl (fun (o : Option Chain) t => o.bind (·.step t)) (some c0) = some c) : Chain.Reach c0 c := by
  suffices H : ∀ (sched : List Nat) (c1 : Chain), Chain.Reach c0 c1 →
      sched.foldl (fun (o : Option Chain) t => o.bind (·.step t)) (some c1) = some c → Chain.Reach c0 c from
    H sched c0 .init h
  intro sched
  induction sched with
  | nil => intro c1 h1 h; simp only [List.foldl_nil, Option.some.injEq] at h; subst h; exact h1
  | cons t ts ih =>
    intro c1 h1 h
    simp only [List.foldl_cons, Option.bind_some] at h
    cases hs : c1.step t with
    | none => rw [hs, foldl_step_none] at h; cases h
    | some c2 => rw [hs] at h; exact ih c2 (.step h1 hs) h

/-- drops the zero records (compaction, like `PruneNGramStream`) and adds to every kept record its
position in the whole stream (state = number of records seen so far, like a running context) -/
def idxStage : Stage Nat Nat Nat :=
  fun s b => (s + b.length, (b.zipIdx.filter (fun p => p.1 != 0)).map (fun p => p.1 + s + p.2))

def exChain (blocks : List (List Nat)) : Chain :=
  Chain.initT 2 2 (blocks.map natsCode.enc) (liftStage natsCode natsCode idxStage 0).toStageFn.tr

def exSched₁ : List Nat :=
  [0, 0, 1, 1, 1, 1, 1, 2, 2, 2, 2, 2, 3, 3, 3, 1, 1, 2, 2, 3, 3, 1, 1, 0, 2, 2, 0, 3, 3, 3, 3, 0, 0, 0]
def exSched₂ : List Nat :=
  [0, 0, 3, 2, 1, 1, 1, 2, 2, 3, 3, 1, 1, 2, 2, 3, 3, 1, 1, 2, 2, 3, 3, 1, 1, 2, 2, 3, 3, 0, 0, 0, 0, 0]

/-- two block partitions of the stream `1 0 2 3 0 4`, two schedules (2 chain blocks, source + worker +
recycler): both runs finish; the worker's blocks differ, their concatenation does not -/
example :
    ((exSched₁.foldl (fun (o : Option Chain) t => o.bind (·.step t)) (some (exChain [[1, 0, 2], [3], [0, 4]]))).map
      fun c => (c.main, (valsOf (c.st 1).out).map natsCode.dec)) = some (.finished, [[1, 4], [6], [9]])
    ∧ ((exSched₂.foldl (fun (o : Option Chain) t => o.bind (·.step t)) (some (exChain [[1], [0, 2, 3, 0], [4]]))).map
      fun c => (c.main, (valsOf (c.st 1).out).map natsCode.dec)) = some (.finished, [[1], [4, 6], [9]]) := by
  decide

/-- … as `chain_stage_stream_pf` says: its hypotheses are met by these runs -/
example (c : Chain)
    (h : exSched₂.foldl (fun (o : Option Chain) t => o.bind (·.step t)) (some (exChain [[1], [0, 2, 3, 0], [4]])) = some c)
    (hfin : c.main = .finished) :
    (valsOf (c.st 1).out).map natsCode.dec = runBlocks idxStage 0 [[1], [0, 2, 3, 0], [4]] :=
  (chain_stage_stream_pf natsCode natsCode idxStage 0 _ (by decide) (by decide) (reach_of_fold _ _ _ h) hfin).1

example : (runBlocks idxStage 0 [[1, 0, 2], [3], [0, 4]]).flatten = (runBlocks idxStage 0 [[1], [0, 2, 3, 0], [4]]).flatten := by
  decide

end KV.C07
