import Proofs.LoaderProbingBuild
import Proofs.ProbingBuildChain
/-! Frame lemmas for the payload-only phases of `ProbingBuild.addLine` (`AdjustLower`, `fillBlanks`, `markChain`): under the table
invariant every `find` succeeds, nothing raises, and no table changes (only payload cells are overwritten).  Verdict level: no
assumption on contexts being present, so they apply to every parsed file.  Core only. -/
namespace KV.LoaderPB
open KV.Arpa KV.ProbingBuild KV.Probing KV.ProbingLM

/-- same tables (slots, counters), same payload lengths, same longest table -/
structure SameT (s s' : St) : Prop where
  midlen : s'.mid.length = s.mid.length
  mid : ∀ i, (s'.mid.getD i default).t = (s.mid.getD i default).t ∧ (s'.mid.getD i default).pay.length = (s.mid.getD i default).pay.length
  longest : s'.longest = s.longest

theorem SameT.refl (s : St) : SameT s s := ⟨rfl, fun _ => ⟨rfl, rfl⟩, rfl⟩

theorem SameT.trans {a b c : St} (h1 : SameT a b) (h2 : SameT b c) : SameT a c :=
  ⟨h2.midlen.trans h1.midlen, fun i => ⟨(h2.mid i).1.trans (h1.mid i).1, (h2.mid i).2.trans (h1.mid i).2⟩, h2.longest.trans h1.longest⟩

theorem modify_sameT (s : St) (r : Ref) (f : W → W) : SameT s (s.modify r f) := by
  cases r with
  | uni w => exact ⟨rfl, fun _ => ⟨rfl, rfl⟩, rfl⟩
  | mid om2 i =>
    refine ⟨by simp [St.modify], fun j => ?_, rfl⟩
    simp only [St.modify]
    by_cases hj : om2 = j
    · subst hj
      by_cases hl : om2 < s.mid.length
      · simp [List.getD_eq_getElem?_getD, List.getElem?_set, hl]
      · have : s.mid.set om2 { t := (s.mid.getD om2 default).t, pay := (s.mid.getD om2 default).pay.set i (f ((s.mid.getD om2 default).pay.getD i default)) } = s.mid :=
          List.set_eq_of_length_le (by omega)
        rw [this]; exact ⟨rfl, rfl⟩
    · simp [List.getD_eq_getElem?_getD, List.getElem?_set, hj]

/-- every middle table (in or out of range) satisfies the C20 invariant for some map -/
def AllInv (s : St) : Prop := ∀ i, ∃ M, OrdInv (s.mid.getD i default) M

theorem ordInv_of_same {o o' : Ord} {M : Nat → Option Nat} (h : OrdInv o M) (ht : o'.t = o.t) (hp : o'.pay.length = o.pay.length) :
    OrdInv o' M :=
  ⟨by rw [ht]; exact h.inv, by rw [ht]; exact h.abs, fun k i hk => by rw [hp]; exact h.idx k i hk⟩

theorem AllInv.of_sameT {s s' : St} (h : AllInv s) (st : SameT s s') : AllInv s' := by
  intro i
  obtain ⟨M, hM⟩ := h i
  exact ⟨M, ordInv_of_same hM (st.mid i).1 (st.mid i).2⟩

theorem fillBlanks_frame (combine : Nat → Word → Nat) (g : List Word) :
    ∀ (changes : List Ref) (basis : Nat) (prob : Rat) (s : St), AllInv s →
      ∃ s', fillBlanks combine false g changes basis prob s = .ok s' ∧ SameT s s' := by
  intro changes
  induction changes with
  | nil => intro basis prob s _; exact ⟨s, rfl, SameT.refl s⟩
  | cons ch more ih =>
    intro basis prob s hinv
    obtain ⟨M, hM⟩ := hinv (basis - 2)
    cases hr : M (hashOf combine ((g.drop 1).take basis)) with
    | none =>
      have hs2 : SameT s (s.modify ch (fun w => setRest false (setProb w prob))) := modify_sameT _ _ _
      obtain ⟨s', h1, h2⟩ := ih (basis + 1) prob _ (hinv.of_sameT hs2)
      refine ⟨s', ?_, hs2.trans h2⟩
      simp only [fillBlanks, ord_find hM, hr, bind, Except.bind]
      exact h1
    | some i =>
      have hs1 : SameT s (s.modify (.mid (basis - 2) i) setExtension) := modify_sameT _ _ _
      have hs2 := hs1.trans (modify_sameT (s.modify (.mid (basis - 2) i) setExtension) ch
        (fun w => setRest false (setProb w (prob + ((s.modify (.mid (basis - 2) i) setExtension).get (.mid (basis - 2) i)).backoff))))
      obtain ⟨s', h1, h2⟩ := ih (basis + 1) _ _ (hinv.of_sameT hs2)
      refine ⟨s', ?_, hs2.trans h2⟩
      simp only [fillBlanks, ord_find hM, hr, bind, Except.bind]
      exact h1

theorem markChain_sameT : ∀ (refs : List Ref) (lr : Rat) (s : St), SameT s (markChain false refs lr s) := by
  intro refs
  induction refs with
  | nil => intro lr s; exact SameT.refl s
  | cons r more ih =>
    intro lr s
    simp only [markChain]
    exact (modify_sameT s r _).trans (ih _ _)

/-- **`AdjustLower` never raises and touches no table** (`NoRestBuild`), for any `between` -/
theorem adjustLower_frame (combine : Nat → Word → Nat) (ar : Rat) (g : List Word) (n : Nat) (between : List Ref) (s : St)
    (hinv : AllInv s) : ∃ s', adjustLower combine false ar g n between s = .ok s' ∧ SameT s s' := by
  match between with
  | [] => exact ⟨s, by simp [adjustLower], SameT.refl s⟩
  | [r] =>
    exact ⟨s.modify r clr, adjustLower_single combine ar g n r s, modify_sameT _ _ _⟩
  | r1 :: r2 :: rest =>
    rw [adjustLower_ge2 combine ar g n _ s (by simp)]
    by_cases hb : n - (r1 :: r2 :: rest).length = 1
    · -- basis is a unigram: the first blank is a hallucinated bigram
      cases hch : ((r1 :: r2 :: rest).dropLast).reverse with
      | nil =>
        have : ((r1 :: r2 :: rest).dropLast).reverse.length = 0 := by rw [hch]; rfl
        simp at this
      | cons ch more =>
        rw [adjustGen_one combine ar g n _ s ch more hb hch]
        have hs1 : SameT s (s.modify (.uni (g.getD 1 0)) setExtension) := modify_sameT _ _ _
        have hs2 := hs1.trans (modify_sameT (s.modify (.uni (g.getD 1 0)) setExtension) ch
          (fun w => setRest false (setProb w (-(s.get ((r1 :: r2 :: rest).getLastD (.uni 0))).mag +
            ((s.modify (.uni (g.getD 1 0)) setExtension).get (.uni (g.getD 1 0))).backoff))))
        obtain ⟨s2, h1, h2⟩ := fillBlanks_frame combine g more 2 _ _ (hinv.of_sameT hs2)
        refine ⟨markChain false (r1 :: r2 :: rest) ar s2, ?_, (hs2.trans h2).trans (markChain_sameT _ _ _)⟩
        rw [h1]; rfl
    · rw [adjustGen_ge2 combine ar g n _ s hb]
      obtain ⟨s2, h1, h2⟩ := fillBlanks_frame combine g ((r1 :: r2 :: rest).dropLast).reverse (n - (r1 :: r2 :: rest).length)
        (-(s.get ((r1 :: r2 :: rest).getLastD (.uni 0))).mag) s hinv
      refine ⟨markChain false (r1 :: r2 :: rest) ar s2, ?_, h2.trans (markChain_sameT _ _ _)⟩
      rw [h1]; rfl

/-- the representation invariant is transported along a frame step -/
theorem TabInv.of_sameT {combine : Nat → Word → Nat} {N : Nat} {caps : Nat → Nat} {keys tops : List Key} {s s' : St}
    (inv : TabInv combine N caps keys tops s) (st : SameT s s') : TabInv combine N caps keys tops s' := by
  have htt : ∀ m, (tbl N s' m).t = (tbl N s m).t ∧ (tbl N s' m).pay.length = (tbl N s m).pay.length := by
    intro m
    unfold tbl
    by_cases hm : m = N
    · simp [hm, st.longest]
    · simp only [hm, ↓reduceIte]; exact st.mid (m - 2)
  refine ⟨st.midlen.trans inv.midlen, ?_, fun m h2 hN => by rw [(htt m).1]; exact inv.below m h2 hN⟩
  intro m h2 hN
  obtain ⟨M, oi, hmem, hent, hcap⟩ := inv.tabs m h2 hN
  have ht : (tbl N s' m).t = (tbl N s m).t ∧ (tbl N s' m).pay.length = (tbl N s m).pay.length := by
    unfold tbl
    by_cases hm : m = N
    · simp [hm, st.longest]
    · simp only [hm, ↓reduceIte]; exact st.mid (m - 2)
  exact ⟨M, ordInv_of_same oi ht.1 ht.2, hmem, by rw [ht.1]; exact hent, by rw [ht.1]; exact hcap⟩

/-- under the representation invariant every middle table index satisfies the C20 invariant -/
theorem TabInv.allInv {combine : Nat → Word → Nat} {N : Nat} {caps : Nat → Nat} {keys tops : List Key} {s : St}
    (inv : TabInv combine N caps keys tops s) : AllInv s := by
  intro i
  by_cases hi : i + 2 < N
  · obtain ⟨M, oi, _⟩ := inv.tabs (i + 2) (by omega) (by omega)
    have : tbl N s (i + 2) = s.mid.getD i default := by simp [tbl, Nat.ne_of_lt hi]
    rw [this] at oi
    exact ⟨M, oi⟩
  · have hl : s.mid.length ≤ i := by rw [inv.midlen]; omega
    have : s.mid.getD i default = emptyOrd 1 := by
      rw [List.getD_eq_getElem?_getD, List.getElem?_eq_none hl]; rfl
    rw [this]
    exact ⟨fun _ => none, emptyOrd_inv 1 (by omega)⟩

end KV.LoaderPB
