import Proofs.InterpSorted
import Mathlib.Data.List.TakeWhile
/-!
The back-off stream of pass 2 (`BackoffManager` skip records + `SameContext` records) and the zip
of pass 3: per order, the back-off records come out in `SuffixOrder` and cover exactly the union
n-grams that `hasBackoffRecord`; so `ReunifyBackoff` pairs every probability with *its* back-off iff
no n-gram is `stuck`, and otherwise the streams differ in length (the throw of finding K).
-/
namespace KV.Interp

/-! ### `SuffixLexicographicLess` is a strict total order -/

theorem sufLt_iff {a b : List Nat} : sufLt a b = true ↔ lexLe a.reverse b.reverse = true ∧ a ≠ b := by
  unfold sufLt
  simp

theorem sufLt_irrefl (a : List Nat) : sufLt a a = false := by
  unfold sufLt; simp

theorem sufLt_trans {a b c : List Nat} (h1 : sufLt a b = true) (h2 : sufLt b c = true) :
    sufLt a c = true := by
  rw [sufLt_iff] at *
  refine ⟨lexLe_trans _ _ _ h1.1 h2.1, ?_⟩
  rintro rfl
  exact h1.2 (List.reverse_injective (lexLe_antisymm _ _ h1.1 h2.1))

theorem sufLt_asymm {a b : List Nat} (h1 : sufLt a b = true) : sufLt b a = false := by
  by_contra h
  have := sufLt_trans h1 (by simpa using h)
  rw [sufLt_irrefl] at this
  exact Bool.noConfusion this

theorem sufLt_tri (a b : List Nat) : sufLt a b = true ∨ a = b ∨ sufLt b a = true := by
  by_cases hab : a = b
  · exact Or.inr (Or.inl hab)
  · have := lexLe_total a.reverse b.reverse
    rw [Bool.or_eq_true] at this
    rcases this with h | h
    · exact Or.inl (sufLt_iff.2 ⟨h, hab⟩)
    · exact Or.inr (Or.inr (sufLt_iff.2 ⟨h, fun h' => hab h'.symm⟩))

/-- strictly increasing in `SuffixLexicographicLess` -/
def SufSorted (l : List (List Nat)) : Prop := l.Pairwise (fun a b => sufLt a b = true)

/-! ### the manager against the visiting order -/

theorem takeWhile_dropWhile_facts (Q : List (List Nat)) (c : List Nat) (hQ : SufSorted Q) :
    (∀ g ∈ (enterQ Q c).1, sufLt g c = true) ∧
    (∀ g ∈ (enterQ Q c).2, sufLt c g = true) ∧
    (∀ g, g ∈ Q ↔ g ∈ (enterQ Q c).1 ∨ g ∈ (enterQ Q c).2 ∨ (g = c ∧ c ∈ Q)) ∧
    SufSorted (enterQ Q c).1 ∧ SufSorted (enterQ Q c).2 := by
  unfold enterQ
  simp only
  set p := fun g => sufLt g c with hp
  have hsplit : Q.takeWhile p ++ Q.dropWhile p = Q := List.takeWhile_append_dropWhile
  have hsk : ∀ g ∈ Q.takeWhile p, sufLt g c = true := fun g hg => by
    have := List.mem_takeWhile_imp (p := p) hg
    simpa [hp] using this
  -- every element after the skipped prefix is not below c
  have hr1 : ∀ g ∈ Q.dropWhile p, sufLt g c = false := by
    intro g hg
    cases hd : Q.dropWhile p with
    | nil => rw [hd] at hg; simp at hg
    | cons h t =>
      have hh : p h = false := by
        have := List.head?_dropWhile_not p Q
        rw [hd] at this
        simpa using this
      rw [hd] at hg
      rcases List.mem_cons.1 hg with rfl | hgt
      · exact hh
      · have hsorted : SufSorted (h :: t) := by
          rw [← hd]; exact hQ.sublist (List.dropWhile_sublist p)
        have hlt := (List.pairwise_cons.1 hsorted).1 g hgt
        by_contra hcon
        have : sufLt h c = true := sufLt_trans hlt (by simpa using hcon)
        rw [hp] at hh
        simp only at hh
        rw [this] at hh
        exact Bool.noConfusion hh
  have hsortedr1 : SufSorted (Q.dropWhile p) := hQ.sublist (List.dropWhile_sublist p)
  set r1 := Q.dropWhile p with hr1def
  have hsplit2 : r1.takeWhile (fun g => g == c) ++ r1.dropWhile (fun g => g == c) = r1 :=
    List.takeWhile_append_dropWhile
  have heq : ∀ g ∈ r1.takeWhile (fun g => g == c), g = c := fun g hg => by
    have := List.mem_takeWhile_imp (p := fun g => g == c) hg
    simpa using this
  have hr2 : ∀ g ∈ r1.dropWhile (fun g => g == c), sufLt c g = true := by
    intro g hg
    have hgr1 : g ∈ r1 := (List.dropWhile_sublist _).subset hg
    rcases sufLt_tri g c with h | h | h
    · rw [hr1 g hgr1] at h; exact Bool.noConfusion h
    · -- g = c cannot survive the second dropWhile of a strictly sorted list
      exfalso
      subst h
      cases hd : r1 with
      | nil => rw [hd] at hgr1; simp at hgr1
      | cons h0 t =>
        rw [hd] at hg hsortedr1
        by_cases h0c : h0 = g
        · subst h0c
          have hlt := (List.pairwise_cons.1 hsortedr1).1
          rw [List.dropWhile_cons_of_pos (by simp)] at hg
          have hgt : h0 ∈ t := (List.dropWhile_sublist _).subset hg
          have := hlt h0 hgt
          rw [sufLt_irrefl] at this
          exact Bool.noConfusion this
        · rw [List.dropWhile_cons_of_neg (by simpa using h0c)] at hg
          rcases List.mem_cons.1 hg with h' | h'
          · exact h0c h'.symm
          · have hlt := (List.pairwise_cons.1 hsortedr1).1 g h'
            have hh0 : sufLt h0 g = false := hr1 h0 (by rw [hd]; simp)
            rw [hlt] at hh0
            exact Bool.noConfusion hh0
    · exact h
  refine ⟨hsk, hr2, ?_, hQ.sublist (List.takeWhile_sublist p),
    hsortedr1.sublist (List.dropWhile_sublist _)⟩
  intro g
  constructor
  · intro hg
    rw [← hsplit, List.mem_append] at hg
    rcases hg with hg | hg
    · exact Or.inl hg
    · rw [← hsplit2, List.mem_append] at hg
      rcases hg with hg' | hg'
      · have := heq g hg'
        subst this
        exact Or.inr (Or.inr ⟨rfl, by
          rw [← hsplit]; exact List.mem_append_right _ ((List.takeWhile_sublist _).subset hg')⟩)
      · exact Or.inr (Or.inl hg')
  · rintro (hg | hg | ⟨rfl, hg⟩)
    · exact (List.takeWhile_sublist p).subset hg
    · exact (List.dropWhile_sublist p).subset ((List.dropWhile_sublist _).subset hg)
    · exact hg

/-- the back-off records come out strictly sorted and are exactly the queued n-grams plus the
visited contexts -/
theorem backoffRecs_spec : ∀ (C Q : List (List Nat)), SufSorted Q → SufSorted C →
    SufSorted (backoffRecs Q C) ∧ ∀ g, g ∈ backoffRecs Q C ↔ g ∈ Q ∨ g ∈ C
  | [], Q, hQ, _ => ⟨hQ, fun g => by simp [backoffRecs]⟩
  | c :: C, Q, hQ, hC => by
    obtain ⟨hsk, hr2, hmem, hs1, hs2⟩ := takeWhile_dropWhile_facts Q c hQ
    have hC' := List.pairwise_cons.1 hC
    obtain ⟨ihS, ihM⟩ := backoffRecs_spec C (enterQ Q c).2 hs2 hC'.2
    rw [backoffRecs]
    constructor
    · unfold SufSorted
      rw [List.pairwise_append]
      refine ⟨hs1, ?_, ?_⟩
      · rw [List.pairwise_cons]
        refine ⟨?_, ihS⟩
        intro g hg
        rcases (ihM g).1 hg with h | h
        · exact hr2 g h
        · exact hC'.1 g h
      · intro a ha b hb
        rcases List.mem_cons.1 hb with rfl | hb
        · exact hsk a ha
        · have hcb : sufLt c b = true := by
            rcases (ihM b).1 hb with h | h
            · exact hr2 b h
            · exact hC'.1 b h
          exact sufLt_trans (hsk a ha) hcb
    · intro g
      rw [List.mem_append, List.mem_cons, ihM, hmem g, List.mem_cons]
      constructor
      · rintro (h | h | h | h)
        · exact Or.inl (Or.inl h)
        · exact Or.inr (Or.inl h)
        · exact Or.inl (Or.inr (Or.inl h))
        · exact Or.inr (Or.inr h)
      · rintro ((h | h | ⟨h, _⟩) | h | h)
        · exact Or.inl h
        · exact Or.inr (Or.inr (Or.inl h))
        · exact Or.inr (Or.inl h)
        · exact Or.inr (Or.inl h)
        · exact Or.inr (Or.inr (Or.inr h))

/-! ### the visiting order is strictly increasing -/
section Pre
variable (cs : Comps Nat)

theorem ctxPre_form : ∀ (d : Nat) (c c' : List Nat), c' ∈ ctxPre (sortedY cs) d c →
    ∃ p, p.length ≤ d ∧ c' = p ++ c
  | 0, c, c', h => by
    rw [ctxPre, List.mem_singleton] at h
    exact ⟨[], by simp, by simpa using h⟩
  | d + 1, c, c', h => by
    rw [ctxPre, List.mem_cons, List.mem_flatMap] at h
    rcases h with rfl | ⟨y, _, h⟩
    · exact ⟨[], by simp, by simp⟩
    · obtain ⟨p, hp, hc⟩ := ctxPre_form d (y :: c) c' h
      exact ⟨p ++ [y], by simp; omega, by rw [hc]; simp⟩

theorem sufLt_extend (p : List Nat) (y : Nat) (c : List Nat) : sufLt c (p ++ y :: c) = true := by
  rw [sufLt_iff]
  constructor
  · have : (p ++ y :: c).reverse = c.reverse ++ (y :: p.reverse) := by simp
    rw [this]
    have h0 := lexLe_append_left c.reverse [] (y :: p.reverse)
    rw [List.append_nil] at h0
    rw [h0]
    rfl
  · intro h
    have := congrArg List.length h
    simp at this
    omega

theorem sufLt_siblings (p1 p2 : List Nat) {y1 y2 : Nat} (h : y1 < y2) (c : List Nat) :
    sufLt (p1 ++ y1 :: c) (p2 ++ y2 :: c) = true := by
  rw [sufLt_iff]
  constructor
  · have e1 : (p1 ++ y1 :: c).reverse = c.reverse ++ (y1 :: p1.reverse) := by simp
    have e2 : (p2 ++ y2 :: c).reverse = c.reverse ++ (y2 :: p2.reverse) := by simp
    rw [e1, e2, lexLe_append_left]
    exact lexLe_cons_lt h _ _
  · intro heq
    have := congrArg List.reverse heq
    have e1 : (p1 ++ y1 :: c).reverse = c.reverse ++ (y1 :: p1.reverse) := by simp
    have e2 : (p2 ++ y2 :: c).reverse = c.reverse ++ (y2 :: p2.reverse) := by simp
    rw [e1, e2] at this
    have := List.append_cancel_left this
    have : y1 = y2 := (List.cons.inj this).1
    omega

theorem sufSorted_ctxPre : ∀ (d : Nat) (c : List Nat), SufSorted (ctxPre (sortedY cs) d c)
  | 0, c => by simp [ctxPre, SufSorted]
  | d + 1, c => by
    rw [ctxPre]
    unfold SufSorted
    rw [List.pairwise_cons]
    constructor
    · intro c' hc'
      rw [List.mem_flatMap] at hc'
      obtain ⟨y, _, h⟩ := hc'
      obtain ⟨p, _, rfl⟩ := ctxPre_form cs d (y :: c) c' h
      exact sufLt_extend p y c
    · rw [List.pairwise_flatMap]
      refine ⟨fun y _ => sufSorted_ctxPre d (y :: c), ?_⟩
      apply (nodup_sortedY_src cs c).imp
      intro y1 y2 hlt a ha b hb
      obtain ⟨p1, _, rfl⟩ := ctxPre_form cs d (y1 :: c) a ha
      obtain ⟨p2, _, rfl⟩ := ctxPre_form cs d (y2 :: c) b hb
      exact sufLt_siblings p1 p2 hlt c

/-- the visited contexts below the empty context -/
def visited (D : Nat) : List (List Nat) :=
  (sortedY cs []).flatMap (fun y => ctxPre (sortedY cs) D [y])

theorem sufSorted_visited (D : Nat) : SufSorted (visited cs D) := by
  unfold visited SufSorted
  rw [List.pairwise_flatMap]
  refine ⟨fun y _ => sufSorted_ctxPre cs D [y], ?_⟩
  apply (nodup_sortedY_src cs []).imp
  intro y1 y2 hlt a ha b hb
  obtain ⟨p1, _, rfl⟩ := ctxPre_form cs D [y1] a ha
  obtain ⟨p2, _, rfl⟩ := ctxPre_form cs D [y2] b hb
  exact sufLt_siblings p1 p2 hlt []

/-- a context is visited iff it is non-empty, not too long, and has an extension in the union -/
theorem mem_ctxPre (h : UnionSuffixClosed cs) : ∀ (d : Nat) (c c' : List Nat),
    c' ∈ ctxPre (sortedY cs) d c ↔
      c' = c ∨ ∃ p, p ≠ [] ∧ p.length ≤ d ∧ c' = p ++ c ∧ ∃ x, (c', x) ∈ unionGrams cs
  | 0, c, c' => by
    rw [ctxPre, List.mem_singleton]
    constructor
    · exact fun h => Or.inl h
    · rintro (h | ⟨p, hp, hl, _⟩)
      · exact h
      · exact absurd (List.length_eq_zero_iff.1 (by omega)) hp
  | d + 1, c, c' => by
    rw [ctxPre, List.mem_cons, List.mem_flatMap]
    constructor
    · rintro (h | ⟨y, hy, hin⟩)
      · exact Or.inl h
      · right
        rcases (mem_ctxPre h d (y :: c) c').1 hin with rfl | ⟨p, hp, hl, hc, hx⟩
        · exact ⟨[y], by simp, by simp, rfl, (mem_sortedY cs).1 hy⟩
        · exact ⟨p ++ [y], by simp, by simp; omega, by rw [hc]; simp, hx⟩
    · rintro (h | ⟨p, hp, hl, hc, x, hx⟩)
      · exact Or.inl h
      · right
        obtain ⟨p', y, rfl⟩ : ∃ p' y, p = p' ++ [y] := by
          rcases List.eq_nil_or_concat p with h0 | ⟨p', y, h1⟩
          · exact absurd h0 hp
          · exact ⟨p', y, by rw [h1, List.concat_eq_append]⟩
        have hc' : c' = p' ++ (y :: c) := by rw [hc]; simp
        refine ⟨y, ?_, (mem_ctxPre h d (y :: c) c').2 ?_⟩
        · rw [mem_sortedY]
          exact ⟨x, union_drop cs h p' (y :: c) x (hc' ▸ hx)⟩
        · by_cases hp' : p' = []
          · left; rw [hc', hp']; rfl
          · right
            exact ⟨p', hp', by simp at hl; omega, hc', x, hx⟩

theorem mem_visited (h : UnionSuffixClosed cs) (D : Nat) (c : List Nat) :
    c ∈ visited cs D ↔ c ≠ [] ∧ c.length ≤ D + 1 ∧ ∃ x, (c, x) ∈ unionGrams cs := by
  unfold visited
  rw [List.mem_flatMap]
  constructor
  · rintro ⟨y, hy, hin⟩
    rcases (mem_ctxPre cs h D [y] c).1 hin with rfl | ⟨p, _, hl, hc, hx⟩
    · exact ⟨by simp, by simp, (mem_sortedY cs).1 hy⟩
    · exact ⟨by rw [hc]; simp, by rw [hc]; simp; omega, hx⟩
  · rintro ⟨hne, hl, x, hx⟩
    obtain ⟨p, y, rfl⟩ : ∃ p y, c = p ++ [y] := by
      rcases List.eq_nil_or_concat c with h0 | ⟨p, y, h1⟩
      · exact absurd h0 hne
      · exact ⟨p, y, by rw [h1, List.concat_eq_append]⟩
    refine ⟨y, ?_, (mem_ctxPre cs h D [y] _).2 ?_⟩
    · rw [mem_sortedY]
      exact ⟨x, union_drop cs h p [y] x hx⟩
    · by_cases hp : p = []
      · left; rw [hp]; rfl
      · right
        exact ⟨p, hp, by simp at hl; omega, rfl, x, hx⟩

end Pre

/-! ### the visited contexts are the contexts of the back-off events of the stream recursion -/
section Events
variable {W : Type} [DecidableEq W] {F : Type} [Field F]
variable (E : ℚ → F) (cs : Comps W) (V : List W) (X Y : List W → List W)

/-- the context of a back-off event of pass 2 -/
def evCtx : Ev W F → Option (List W)
  | Ev.bo c _ => some c
  | Ev.prob _ _ _ => none

theorem filterMap_probs (c : List W) (xs : List W) (f : W → F) :
    (xs.map (fun x => Ev.prob c x (f x))).filterMap evCtx = [] := by
  induction xs with
  | nil => rfl
  | cons x xs ih => simp [List.filterMap_cons, evCtx, ih]

/-- `SameContext` is run (and `BackoffManager::Enter` is called) exactly for the contexts of the
pre-order listing, in that order -/
theorem filterMap_specOut : ∀ (d : Nat) (c : List W),
    (specOut E cs V X Y d c).filterMap evCtx = ctxPre Y d c
  | 0, c => by
    rw [specOut, List.filterMap_append, filterMap_probs]
    rfl
  | d + 1, c => by
    rw [specOut, List.filterMap_append, List.filterMap_append, filterMap_probs, ctxPre]
    simp only [List.nil_append, List.filterMap_cons, evCtx, List.filterMap_nil, List.singleton_append,
      List.cons.injEq, true_and]
    rw [List.filterMap_flatMap]
    apply List.flatMap_congr
    intro y _
    exact filterMap_specOut d (y :: c)

end Events

/-! ### the two streams that pass 3 zips -/
section Zip3
variable (cs : Comps Nat)

theorem sufSorted_mergeSort (l : List (List Nat)) (hnd : l.Nodup) :
    SufSorted (l.mergeSort (fun a b => lexLe a.reverse b.reverse)) := by
  have hs := List.pairwise_mergeSort (le := fun a b : List Nat => lexLe a.reverse b.reverse)
    (fun a b c h1 h2 => lexLe_trans _ _ _ h1 h2) (fun a b => lexLe_total _ _) l
  have hnd' := (List.mergeSort_perm l (fun a b => lexLe a.reverse b.reverse)).nodup_iff.2 hnd
  exact (hs.and (List.nodup_iff_pairwise_ne.1 hnd')).imp (fun ⟨h1, h2⟩ => sufLt_iff.2 ⟨h1, h2⟩)

theorem sufSorted_eq_of_mem {l₁ l₂ : List (List Nat)} (h1 : SufSorted l₁) (h2 : SufSorted l₂)
    (hm : ∀ g, g ∈ l₁ ↔ g ∈ l₂) : l₁ = l₂ := by
  have hn1 : l₁.Nodup := List.nodup_iff_pairwise_ne.2 (h1.imp (fun h heq => by
    rw [heq, sufLt_irrefl] at h; exact Bool.noConfusion h))
  have hn2 : l₂.Nodup := List.nodup_iff_pairwise_ne.2 (h2.imp (fun h heq => by
    rw [heq, sufLt_irrefl] at h; exact Bool.noConfusion h))
  have hperm : l₁.Perm l₂ := (List.perm_ext_iff_of_nodup hn1 hn2).2 hm
  exact hperm.eq_of_pairwise (fun a b _ _ hab hba => by
    rw [sufLt_asymm hab] at hba; exact Bool.noConfusion hba) h1 h2

theorem mem_queueGrams {g : List Nat} :
    g ∈ queueGrams cs ↔ ∃ p ∈ cs, ∃ e ∈ p.2.entries, e.gram = g ∧ g.length < p.2.order := by
  unfold queueGrams
  rw [List.mem_mergeSort, mem_dedup, List.mem_flatMap]
  constructor
  · rintro ⟨p, hp, h⟩
    rw [List.mem_map] at h
    obtain ⟨e, he, rfl⟩ := h
    rw [List.mem_filter] at he
    exact ⟨p, hp, e, he.1, rfl, by simpa using he.2⟩
  · rintro ⟨p, hp, e, he, rfl, hl⟩
    exact ⟨p, hp, List.mem_map.2 ⟨e, List.mem_filter.2 ⟨he, by simpa using hl⟩, rfl⟩⟩

theorem sufSorted_queueGrams : SufSorted (queueGrams cs) := by
  unfold queueGrams
  exact sufSorted_mergeSort _ (nodup_dedup _)

theorem mem_probStream3 {k : Nat} {g : List Nat} :
    g ∈ probStream3 cs k ↔ (∃ g' ∈ unionGrams cs, g'.1 ++ [g'.2] = g) ∧ g.length = k := by
  unfold probStream3
  rw [List.mem_mergeSort, List.mem_filter, List.mem_map]
  simp

theorem sufSorted_probStream3 (k : Nat) : SufSorted (probStream3 cs k) := by
  unfold probStream3
  apply sufSorted_mergeSort
  apply List.Nodup.filter
  apply (nodup_unionGrams cs).map
  intro a b hab
  have := List.append_inj' hab rfl
  exact Prod.ext this.1 (by simpa using this.2)

theorem hasBackoffRecord_iff {g : List Nat} :
    hasBackoffRecord cs g = true ↔
      explicit cs g ≠ [] ∨ ∃ p ∈ cs, g.length < p.2.order ∧ ∃ e ∈ p.2.entries, e.gram = g := by
  unfold hasBackoffRecord
  rw [Bool.or_eq_true, List.any_eq_true]
  constructor
  · rintro (h | ⟨p, hp, h⟩)
    · left; intro h0; rw [h0] at h; simp at h
    · right
      rw [Bool.and_eq_true, decide_eq_true_eq] at h
      obtain ⟨hl, hs⟩ := h
      unfold LM.findGram at hs
      rw [List.find?_isSome] at hs
      obtain ⟨e, he, hg⟩ := hs
      exact ⟨p, hp, hl, e, he, of_decide_eq_true hg⟩
  · rintro (h | ⟨p, hp, hl, e, he, hg⟩)
    · left
      cases hx : explicit cs g with
      | nil => exact absurd hx h
      | cons _ _ => rfl
    · right
      refine ⟨p, hp, ?_⟩
      rw [Bool.and_eq_true, decide_eq_true_eq]
      exact ⟨hl, hg ▸ findGram_isSome_of_mem p.2 e he⟩

/-- **the back-off stream of every order** is the `SuffixOrder`-sorted list of the union n-grams
of that order that get a back-off record -/
theorem backoffStream_eq (hsc : UnionSuffixClosed cs) (hpc : PrefixClosedD cs) (k : Nat)
    (hk1 : 1 ≤ k) (hk2 : k < maxOrder cs) :
    backoffStream cs k = (probStream3 cs k).filter (hasBackoffRecord cs) := by
  have hspec := backoffRecs_spec (visited cs (maxOrder cs - 2)) (queueGrams cs)
    (sufSorted_queueGrams cs) (sufSorted_visited cs _)
  apply sufSorted_eq_of_mem
  · unfold backoffStream
    exact hspec.1.sublist List.filter_sublist
  · exact (sufSorted_probStream3 cs k).sublist List.filter_sublist
  · intro g
    unfold backoffStream
    rw [List.mem_filter, List.mem_filter, mem_probStream3, hasBackoffRecord_iff]
    have hv := hspec.2 g
    unfold visited at hv
    rw [hv, mem_queueGrams]
    have hvis := mem_visited cs hsc (maxOrder cs - 2) g
    unfold visited at hvis
    rw [hvis]
    constructor
    · rintro ⟨h | ⟨hne, _, x, hx⟩, hlen⟩
      · obtain ⟨p, hp, e, he, hg, hl⟩ := h
        have hlen' : g.length = k := by simpa using hlen
        refine ⟨⟨⟨(e.ctx, e.word), mem_unionGrams.2 ⟨p, hp, e, he, rfl, rfl⟩, hg⟩, hlen'⟩,
          Or.inr ⟨p, hp, hl, e, he, hg⟩⟩
      · have hlen' : g.length = k := by simpa using hlen
        obtain ⟨g', hg', hgram⟩ := hpc (g, x) hx hne
        refine ⟨⟨⟨g', hg', hgram⟩, hlen'⟩, Or.inl ?_⟩
        intro h0
        have := mem_unionGrams_iff_explicit.1 hx
        rw [h0] at this
        simp at this
    · rintro ⟨⟨_, hlen⟩, h | ⟨p, hp, hl, e, he, hg⟩⟩
      · refine ⟨Or.inr ⟨?_, by omega, ?_⟩, by simpa using hlen⟩
        · intro h0; rw [h0] at hlen; simp at hlen; omega
        · obtain ⟨x, hx⟩ := List.exists_mem_of_ne_nil _ h
          exact ⟨x, mem_unionGrams_iff_explicit.2 hx⟩
      · exact ⟨Or.inl ⟨p, hp, e, he, hg, hl⟩, by simpa using hlen⟩

theorem mem_stuck {g : List Nat} :
    g ∈ stuck cs ↔ (∃ g' ∈ unionGrams cs, g'.1 ++ [g'.2] = g) ∧ g.length < maxOrder cs ∧
      hasBackoffRecord cs g = false := by
  unfold stuck
  rw [List.mem_filter, List.mem_map]
  simp

/-- **Pass 3 is aligned** when nothing is stuck: the back-off stream of every order *is* the n-gram
sequence of the `SuffixOrder`-sorted probability stream, so `ReunifyBackoff` pairs every probability
with the back-off of the same n-gram. -/
theorem backoffStream_aligned (hsc : UnionSuffixClosed cs) (hpc : PrefixClosedD cs)
    (hst : stuck cs = []) (k : Nat) (hk1 : 1 ≤ k) (hk2 : k < maxOrder cs) :
    backoffStream cs k = probStream3 cs k := by
  rw [backoffStream_eq cs hsc hpc k hk1 hk2, List.filter_eq_self]
  intro g hg
  by_contra hcon
  have hm := (mem_probStream3 cs).1 hg
  have : g ∈ stuck cs := (mem_stuck cs).2 ⟨hm.1, by omega, by simpa using hcon⟩
  rw [hst] at this
  simp at this

/-- **Pass 3 throws** when an n-gram of order `k` is stuck: the back-off stream of that order is
strictly shorter than the probability stream ("Streams were not the same size during merging"). -/
theorem backoffStream_short (hsc : UnionSuffixClosed cs) (hpc : PrefixClosedD cs)
    (g : List Nat) (hg : g ∈ stuck cs) (hk1 : 1 ≤ g.length) :
    (backoffStream cs g.length).length < (probStream3 cs g.length).length := by
  obtain ⟨hu, hl, hb⟩ := (mem_stuck cs).1 hg
  rw [backoffStream_eq cs hsc hpc g.length hk1 hl]
  apply List.length_filter_lt_length_iff_exists.2
  exact ⟨g, (mem_probStream3 cs).2 ⟨hu, rfl⟩, by simp [hb]⟩

end Zip3

end KV.Interp
