import Model.Left

/-!
# Open chart states are square (C08, follow-up)

While `left_done_` is false every word scored so far sits in both halves of the chart state, so
`right.length = left.length`.  Consequently two branches of `RuleScore::NonTerminal` cannot be
taken for states that `RuleScore` itself produced:

* `left.hh:105-106`  (`out_->right.length == 0`, `!left_done_`, `out_->left.length != 0`);
* `left.hh:135-137`  (`!in.left.full` and `in.right.length < in.left.length`).

No hypothesis on the table or on the rest function is needed.
-/

namespace KV.Left
open KV.Arpa KV.Table KV.State KV.Score

/-- a running `RuleScore` is square -/
def Sq (rs : RS) : Prop := rs.leftDone = false → rs.out.right.length = rs.out.left.length

/-- a finished chart state is square -/
def SqC (c : Chart) : Prop := c.left.full = false → c.right.length = c.left.length

theorem init_sq : Sq RS.init := by
  intro _; rfl

theorem beginSentence_sq (T : Table) (R : Ptr → Rat) (bos : Word) (rs : RS) : Sq (beginSentence T R bos rs) := by
  intro h; simp [beginSentence] at h

theorem finish_sq (order : Nat) {rs : RS} (h : Sq rs) : SqC (finish order rs).1 := by
  intro hf
  simp only [finish, Bool.or_eq_false_iff] at hf
  exact h hf.1

theorem terminal_sq (T : Table) (R : Ptr → Rat) {rs : RS} (h : Sq rs) (w : Word) : Sq (terminal T R rs w) := by
  unfold terminal
  generalize fullScore (restSearch T R) rs.out.right w = fs
  obtain ⟨ret, outR⟩ := fs
  simp only
  split
  · rename_i hd
    intro hd'; simp [hd] at hd'
  · split
    · intro hd'; simp at hd'
    · rename_i hd _
      intro hd'
      simp only [bne_eq_false_iff_eq] at hd'
      have h0 := h (by simpa using hd)
      simp only [normS, LeftSt.length, List.length_append, List.length_singleton] at *
      omega

theorem processRet_done {rs : RS} (ret : ExtRet) (h : rs.leftDone = true) : (processRet rs ret).leftDone = true := by
  simp [processRet, h]

/-- the loop invariant of `NonTerminal`'s two `ExtendLeft` loops, `k` = calls made so far -/
def LoopInv (rs0 : RS) (k : Nat) (st : StepOut) : Prop :=
  st.rs.leftDone = false →
    rs0.leftDone = false ∧ st.exit = false ∧ st.nextUse = rs0.out.right.length ∧ st.rs.out.right = rs0.out.right ∧
      st.rs.out.left.length = rs0.out.left.length + k

theorem rsExtendLeft_inv (T : Table) (R : Ptr → Rat) (inC : Chart) {rs0 : RS} {k : Nat} {st : StepOut} (e : Nat)
    (I : LoopInv rs0 k st) : LoopInv rs0 (k + 1) (rsExtendLeft T R st.rs inC st.nextUse e st.back) := by
  unfold rsExtendLeft
  generalize extendLeft T R (st.rs.out.right.words.take st.nextUse) st.back (inC.left.pointers.getD (e - 1) []) e = ret
  simp only
  by_cases hd : st.rs.leftDone = true
  · -- already done: stays done on every path
    have h1 := processRet_done ret hd
    intro hopen
    split at hopen
    · split at hopen <;> simp at hopen
    · simp [h1] at hopen
  · have hd' : st.rs.leftDone = false := by simpa using hd
    obtain ⟨h00, _, hn, hr, hl⟩ := I hd'
    split
    · intro hopen
      split at hopen <;> simp at hopen
    · rename_i hne
      intro hopen
      simp only [processRet, hd'] at hopen ⊢
      by_cases hi : ret.independentLeft = true
      · simp [hi] at hopen
      · simp only [hi, Bool.false_eq_true, if_false] at hopen ⊢
        refine ⟨h00, (by first | rfl | trivial), ?_, hr, ?_⟩
        · have : ret.nextUse = st.rs.out.right.length := by simpa using hne
          rw [this, hr]
        · simp only [LeftSt.length, List.length_append, List.length_singleton] at hl ⊢
          omega

theorem extendAll_inv (T : Table) (R : Ptr → Rat) (inC : Chart) {rs0 : RS} :
    ∀ (fuel e k : Nat) (st : StepOut), LoopInv rs0 k st → LoopInv rs0 (k + fuel) (extendAll T R inC fuel e st)
  | 0, _, _, st, I => by simpa [extendAll] using I
  | fuel+1, e, k, st, I => by
    unfold extendAll
    split
    · rename_i hx
      intro hopen
      have := (I hopen).2.1
      simp [hx] at this
    · have := extendAll_inv T R inC fuel (e + 1) (k + 1) _ (rsExtendLeft_inv T R inC e I)
      have e2 : k + 1 + fuel = k + (fuel + 1) := by omega
      rw [e2] at this
      exact this

theorem nonTerminal_sq (T : Table) (R : Ptr → Rat) {rs : RS} {inC : Chart} (h : Sq rs) (hc : SqC inC) (p : Rat) :
    Sq (nonTerminal T R rs inC p) := by
  unfold nonTerminal
  simp only
  split
  · split
    · intro hd; simp at hd
    · intro hd; exact h hd
  · rename_i hl0
    split
    · rename_i hr0
      split
      · rename_i hd; intro hd'; simp at hd hd'; simp [hd] at hd'
      · split
        · intro hd'; simp at hd'
        · intro hd'
          simp only at hd' ⊢
          exact hc hd'
    · rename_i hr0
      have I0 : LoopInv { rs with prob := rs.prob + p } 0
          { rs := { rs with prob := rs.prob + p }, nextUse := rs.out.right.length,
            back := rs.out.right.backoff.take rs.out.right.length, exit := false } := by
        intro h0; exact ⟨h0, rfl, rfl, rfl, rfl⟩
      have I := extendAll_inv T R inC inC.left.length 1 0 _ I0
      revert I
      generalize extendAll T R inC inC.left.length 1
        { rs := { rs with prob := rs.prob + p }, nextUse := rs.out.right.length,
          back := rs.out.right.backoff.take rs.out.right.length, exit := false } = st
      intro I
      split
      · intro hd
        have := (I hd).2.1
        simp_all
      · split
        · intro hd; simp at hd
        · rename_i hfull
          have hfull' : inC.left.full = false := by simpa using hfull
          have hsq := hc hfull'
          split
          · rename_i hlt; omega
          · intro hd
            simp only at hd ⊢
            obtain ⟨h00, _, hn, _, hl⟩ := I hd
            have h0 := h h00
            simp only [LeftSt.length] at *
            omega

mutual
theorem applyItem_sq (T : Table) (R : Ptr → Rat) : ∀ (i : Item) {rs : RS}, Sq rs → Sq (applyItem T R rs i)
  | .term w, rs, h => by
    simp only [applyItem]; exact terminal_sq T R h w
  | .nt r, rs, h => by
    simp only [applyItem]
    exact nonTerminal_sq T R h (finish_sq T.order (applyRule_sq T R r init_sq)) _
theorem applyRule_sq (T : Table) (R : Ptr → Rat) : ∀ (r : Rule) {rs : RS}, Sq rs → Sq (applyRule T R rs r)
  | .nil, rs, h => by simpa [applyRule] using h
  | .cons i r, rs, h => by
    simp only [applyRule]
    exact applyRule_sq T R r (applyItem_sq T R i h)
end

/-- every chart state a derivation produces is square -/
theorem ruleScore_sq (T : Table) (R : Ptr → Rat) (bos : Option Word) (r : Rule) : SqC (ruleScore T R bos r).1 := by
  unfold ruleScore
  cases bos with
  | none => exact finish_sq _ (applyRule_sq T R r init_sq)
  | some b => exact finish_sq _ (applyRule_sq T R r (beginSentence_sq T R b RS.init))

end KV.Left
