import Proofs.FilterSearchEval
import Proofs.FilterPhrase
/-!
`buildGraph` is a well-formed graph, and a sentence accepted by the declarative graph model
`graphAccept` is accepted (`PAcc`) at the last vertex of `buildGraph` — the bridge between the
specification of round 2 and the lazy search.
-/
namespace KV.Filter

theorem cuts_mem {g : List Bytes} {c : List Bytes × List Bytes} (h : c ∈ cuts g) :
    c.1 ≠ [] ∧ c.2 ≠ [] ∧ c.1 ++ c.2 = g := by
  unfold cuts at h
  obtain ⟨i, hi, rfl⟩ := List.mem_map.mp h
  have hi' : i < g.length - 1 := List.mem_range.mp hi
  refine ⟨?_, ?_, List.take_append_drop _ _⟩
  · intro e
    have h := congrArg List.length e
    simp only [List.length_take, List.length_nil] at h; omega
  · intro e
    have h := congrArg List.length e
    simp only [List.length_drop, List.length_nil] at h; omega

theorem inc_filter_range (n : Nat) (p : Nat → Bool) : Inc ((List.range n).filter p) := by
  have h : Inc (List.range n) := by
    have := List.pairwise_lt_range (n := n)
    exact this
  exact h.sublist List.filter_sublist

theorem mem_sentsWhere {sents : List (List (List Bytes))} {P : List (List Bytes) → Bool} {s : Nat} :
    s ∈ sentsWhere sents P ↔ s < sents.length ∧ P (sents.getD s []) = true := by
  simp [sentsWhere]

theorem buildGraph_wf (sents : List (List (List Bytes))) (g : List Bytes) : WFG (buildGraph sents g) := by
  constructor
  · intro a ha
    simp only [buildGraph, List.mem_append, List.mem_filterMap, List.mem_flatMap] at ha
    rcases ha with (⟨c, _, hc⟩ | ha) | ⟨c, _, hc | hc⟩
    · split at hc
      · injection hc with hc; subst hc; exact inc_filter_range _ _
      · cases hc
    · split at ha
      · simp only [List.mem_cons, List.not_mem_nil, or_false] at ha; subst ha; exact inc_filter_range _ _
      · cases ha
    · obtain ⟨d, _, hd⟩ := hc
      split at hd
      · injection hd with hd; subst hd; exact inc_filter_range _ _
      · cases hd
    · split at hc
      · simp only [List.mem_cons, List.not_mem_nil, or_false] at hc; subst hc; exact inc_filter_range _ _
      · cases hc
  · intro a ha u hu
    simp only [buildGraph, List.mem_append, List.mem_filterMap, List.mem_flatMap] at ha
    rcases ha with (⟨c, _, hc⟩ | ha) | ⟨c, hcm, hc | hc⟩
    · split at hc
      · injection hc with hc; subst hc; cases hu
      · cases hc
    · split at ha
      · simp only [List.mem_cons, List.not_mem_nil, or_false] at ha; subst ha; cases hu
      · cases ha
    · obtain ⟨d, hdm, hd⟩ := hc
      obtain ⟨c1, _, _⟩ := cuts_mem hcm
      obtain ⟨d1, _, _⟩ := cuts_mem hdm
      have := List.length_pos_iff.mpr c1
      have := List.length_pos_iff.mpr d1
      split at hd
      · injection hd with hd; subst hd
        simp only at hu ⊢; injection hu with hu; omega
      · cases hd
    · obtain ⟨c1, c2, c3⟩ := cuts_mem hcm
      have h1 := List.length_pos_iff.mpr c1
      have h2 := List.length_pos_iff.mpr c2
      have h3 : g.length = c.1.length + c.2.length := by rw [← c3]; simp
      split at hc
      · simp only [List.mem_cons, List.not_mem_nil, or_false] at hc; subst hc
        simp only at hu ⊢; injection hu with hu; omega
      · cases hc

theorem lt_of_any {sents : List (List (List Bytes))} {s : Nat} {p : List Bytes → Bool}
    (h : (sents.getD s []).any p = true) : s < sents.length := by
  rcases Nat.lt_or_ge s sents.length with hlt | hge
  · exact hlt
  · rw [List.getD_eq_getElem?_getD, List.getElem?_eq_none hge] at h; simp at h

/-- the arcs after the first segment -/
theorem graphRest_acc {sents : List (List (List Bytes))} {s : Nat} {g : List Bytes} :
    ∀ (fuel : Nat) (done r : List Bytes), done ++ r = g → done ≠ [] →
      PAcc (buildGraph sents g) (done.length - 1) s → graphRest sents (sents.getD s []) fuel r = true →
      PAcc (buildGraph sents g) (g.length - 1) s
  | 0, _, _, _, _, _, h => by simp [graphRest] at h
  | f+1, done, r, hg, hd, hacc, h => by
    simp only [graphRest, Bool.or_eq_true, Bool.and_eq_true, decide_eq_true_eq] at h
    rcases h with ⟨⟨hrne, hpp⟩, hpre⟩ | h
    · -- last segment: FindLeft
      have hcut : (done, r) ∈ cuts g := by rw [← hg]; exact mem_cuts hd hrne
      have hs : s < sents.length := lt_of_any (p := fun p => r.isPrefixOf p) hpre
      refine PAcc.step ⟨some (done.length - 1), g.length - 1, sentsWhere sents (isPrefixOfAny · r)⟩ ?_ rfl
        (show s ∈ sentsWhere sents (isPrefixOfAny · r) from mem_sentsWhere.mpr ⟨hs, hpre⟩) (done.length - 1) rfl hacc
      simp only [buildGraph, List.mem_append, List.mem_flatMap]
      exact Or.inr ⟨(done, r), hcut, Or.inr (by simp [hpp])⟩
    · obtain ⟨d, hdm, hh⟩ := List.any_eq_true.mp h
      simp only [Bool.and_eq_true] at hh
      obtain ⟨⟨hpp, hcon⟩, hrest⟩ := hh
      obtain ⟨d1, d2, d3⟩ := cuts_mem hdm
      have hrne : r ≠ [] := by intro e; rw [e] at d3; simp at d3; exact d1 d3.1
      have hcut : (done, r) ∈ cuts g := by rw [← hg]; exact mem_cuts hd hrne
      have hs : s < sents.length := by
        rcases Nat.lt_or_ge s sents.length with hlt | hge
        · exact hlt
        · rw [List.getD_eq_getElem?_getD, List.getElem?_eq_none hge] at hcon; simp at hcon
      have hacc' : PAcc (buildGraph sents g) ((done ++ d.1).length - 1) s := by
        have hl : (done ++ d.1).length - 1 = done.length + d.1.length - 1 := by simp
        rw [hl]
        refine PAcc.step ⟨some (done.length - 1), done.length + d.1.length - 1, sentsWhere sents (·.contains d.1)⟩ ?_ rfl
          (show s ∈ sentsWhere sents (·.contains d.1) from mem_sentsWhere.mpr ⟨hs, hcon⟩) (done.length - 1) rfl hacc
        simp only [buildGraph, List.mem_append, List.mem_flatMap, List.mem_filterMap]
        exact Or.inr ⟨(done, r), hcut, Or.inl ⟨d, hdm, by simp [hpp]⟩⟩
      exact graphRest_acc f (done ++ d.1) d.2 (by rw [List.append_assoc, d3, hg]) (by simp [hd]) hacc' hrest

/-- **graphAccept ⇒ accepted at the last vertex of the graph the search runs on** -/
theorem graphAccept_acc (sents : List (List (List Bytes))) (s : Nat) (g : List Bytes)
    (h : graphAccept sents s g = true) : PAcc (buildGraph sents g) (g.length - 1) s := by
  simp only [graphAccept, Bool.or_eq_true, Bool.and_eq_true] at h
  rcases h with ⟨hpp, hsub⟩ | h
  · have hs : s < sents.length := lt_of_any hsub
    refine PAcc.start ⟨none, g.length - 1, sentsWhere sents (·.any (isSubstr g))⟩ ?_ rfl (show s ∈ sentsWhere sents (·.any (isSubstr g)) from mem_sentsWhere.mpr ⟨hs, hsub⟩) rfl
    simp only [buildGraph, List.mem_append]
    exact Or.inl (Or.inr (by simp [hpp]))
  · obtain ⟨c, hcm, hh⟩ := List.any_eq_true.mp h
    simp only [Bool.and_eq_true] at hh
    obtain ⟨⟨hpp, hsuf⟩, hrest⟩ := hh
    obtain ⟨c1, c2, c3⟩ := cuts_mem hcm
    have hs : s < sents.length := lt_of_any (p := fun p => c.1.isSuffixOf p) hsuf
    have hacc : PAcc (buildGraph sents g) (c.1.length - 1) s := by
      refine PAcc.start ⟨none, c.1.length - 1, sentsWhere sents (isSuffixOfAny · c.1)⟩ ?_ rfl (show s ∈ sentsWhere sents (isSuffixOfAny · c.1) from mem_sentsWhere.mpr ⟨hs, hsuf⟩) rfl
      simp only [buildGraph, List.mem_append, List.mem_filterMap]
      exact Or.inl (Or.inl ⟨c, hcm, by simp [hpp]⟩)
    exact graphRest_acc _ c.1 c.2 c3 c1 hacc hrest

end KV.Filter

namespace KV.Filter

theorem graphRest_mono {sents : List (List (List Bytes))} {phrases : List (List Bytes)} :
    ∀ (f f' : Nat) (r : List Bytes), f ≤ f' → graphRest sents phrases f r = true → graphRest sents phrases f' r = true
  | 0, _, _, _, h => by simp [graphRest] at h
  | f+1, 0, _, hle, _ => by omega
  | f+1, f'+1, r, hle, h => by
    simp only [graphRest, Bool.or_eq_true] at h ⊢
    rcases h with h | h
    · exact Or.inl h
    · right
      obtain ⟨d, hdm, hh⟩ := List.any_eq_true.mp h
      simp only [Bool.and_eq_true] at hh
      exact List.any_eq_true.mpr ⟨d, hdm, by
        simp only [Bool.and_eq_true]
        exact ⟨hh.1, graphRest_mono f f' d.2 (by omega) hh.2⟩⟩

/-- what can follow vertex `v`: nothing (it is the last vertex) or the arcs over the rest of the n-gram -/
def Cont (sents : List (List (List Bytes))) (s : Nat) (g : List Bytes) (v : Nat) : Prop :=
  v = g.length - 1 ∨ graphRest sents (sents.getD s []) ((g.drop (v+1)).length + 1) (g.drop (v+1)) = true

theorem acc_graphAccept_aux (sents : List (List (List Bytes))) (g : List Bytes) :
    ∀ v s, PAcc (buildGraph sents g) v s → Cont sents s g v → graphAccept sents s g = true := by
  intro v s h
  induction h with
  | start a ha hto hs hf =>
    intro hcont
    simp only [buildGraph, List.mem_append, List.mem_filterMap, List.mem_flatMap] at ha
    rcases ha with (⟨c, hcm, hc⟩ | ha) | ⟨c, hcm, hc | hc⟩
    · -- a right-aligned arc
      split at hc
      · rename_i hpp
        injection hc with hc; subst hc
        obtain ⟨c1, c2, c3⟩ := cuts_mem hcm
        have hl1 := List.length_pos_iff.mpr c1
        have hl2 := List.length_pos_iff.mpr c2
        have hgl : g.length = c.1.length + c.2.length := by rw [← c3]; simp
        simp only at hto hs
        have hdrop : g.drop (c.1.length - 1 + 1) = c.2 := by
          have : c.1.length - 1 + 1 = c.1.length := by omega
          rw [this, ← c3]; simp
        rw [← hto] at hcont
        rcases hcont with hv | hrest
        · omega
        · rw [hdrop] at hrest
          simp only [graphAccept, Bool.or_eq_true]
          right
          refine List.any_eq_true.mpr ⟨c, hcm, ?_⟩
          simp only [Bool.and_eq_true]
          exact ⟨⟨hpp, (mem_sentsWhere.mp hs).2⟩, hrest⟩
      · cases hc
    · split at ha
      · rename_i hpp
        simp only [List.mem_cons, List.not_mem_nil, or_false] at ha; subst ha
        simp only at hs
        simp only [graphAccept, Bool.or_eq_true, Bool.and_eq_true]
        exact Or.inl ⟨hpp, (mem_sentsWhere.mp hs).2⟩
      · cases ha
    · obtain ⟨d, _, hd⟩ := hc
      split at hd
      · injection hd with hd; subst hd; cases hf
      · cases hd
    · split at hc
      · simp only [List.mem_cons, List.not_mem_nil, or_false] at hc; subst hc; cases hf
      · cases hc
  | @step v' s' a ha hto hs u hf hu ih =>
    intro hcont
    apply ih
    simp only [buildGraph, List.mem_append, List.mem_filterMap, List.mem_flatMap] at ha
    rcases ha with (⟨c, hcm, hc⟩ | ha) | ⟨c, hcm, hc | hc⟩
    · split at hc
      · injection hc with hc; subst hc; cases hf
      · cases hc
    · split at ha
      · simp only [List.mem_cons, List.not_mem_nil, or_false] at ha; subst ha; cases hf
      · cases ha
    · -- a whole-phrase arc
      obtain ⟨d, hdm, hd⟩ := hc
      split at hd
      · rename_i hpp
        injection hd with hd; subst hd
        obtain ⟨c1, c2, c3⟩ := cuts_mem hcm
        obtain ⟨d1, d2, d3⟩ := cuts_mem hdm
        have hl1 := List.length_pos_iff.mpr c1
        have hl2 := List.length_pos_iff.mpr d1
        have hl3 := List.length_pos_iff.mpr d2
        simp only at hto hs hf
        injection hf with hf
        have hgl : g.length = c.1.length + d.1.length + d.2.length := by rw [← c3, ← d3]; simp; omega
        have hdropu : g.drop (u + 1) = c.2 := by
          have : u + 1 = c.1.length := by omega
          rw [this, ← c3]; simp
        have hdropv : g.drop (c.1.length + d.1.length - 1 + 1) = d.2 := by
          have : c.1.length + d.1.length - 1 + 1 = (c.1 ++ d.1).length := by simp; omega
          rw [this, ← c3, ← d3, ← List.append_assoc]; simp
        right
        rw [hdropu]
        rw [← hto] at hcont
        have hrest : graphRest sents (sents.getD s' []) (d.2.length + 1) d.2 = true := by
          rcases hcont with hv | hr
          · omega
          · rw [hdropv] at hr; exact hr
        have hc2l : c.2.length = d.1.length + d.2.length := by rw [← d3]; simp
        simp only [graphRest, Bool.or_eq_true]
        right
        refine List.any_eq_true.mpr ⟨d, hdm, ?_⟩
        simp only [Bool.and_eq_true]
        exact ⟨⟨hpp, (mem_sentsWhere.mp hs).2⟩, graphRest_mono _ _ _ (by omega) hrest⟩
      · cases hd
    · -- the left-aligned last arc
      split at hc
      · rename_i hpp
        simp only [List.mem_cons, List.not_mem_nil, or_false] at hc; subst hc
        obtain ⟨c1, c2, c3⟩ := cuts_mem hcm
        have hl1 := List.length_pos_iff.mpr c1
        simp only at hs hf
        injection hf with hf
        have hdropu : g.drop (u + 1) = c.2 := by
          have : u + 1 = c.1.length := by omega
          rw [this, ← c3]; simp
        right
        rw [hdropu]
        simp only [graphRest, Bool.or_eq_true, Bool.and_eq_true, decide_eq_true_eq]
        exact Or.inl ⟨⟨c2, hpp⟩, (mem_sentsWhere.mp hs).2⟩
      · cases hc

/-- **the graph the search runs on accepts exactly what `graphAccept` accepts** -/
theorem acc_iff_graphAccept (sents : List (List (List Bytes))) (s : Nat) (g : List Bytes) :
    PAcc (buildGraph sents g) (g.length - 1) s ↔ graphAccept sents s g = true :=
  ⟨fun h => acc_graphAccept_aux sents g _ s h (Or.inl rfl), graphAccept_acc sents s g⟩

end KV.Filter

namespace KV.Filter

theorem inc_ext : ∀ {l m : List Nat}, Inc l → Inc m → (∀ x, x ∈ l ↔ x ∈ m) → l = m
  | [], [], _, _, _ => rfl
  | [], y :: m, _, _, h => by have := (h y).mpr List.mem_cons_self; cases this
  | x :: l, [], _, _, h => by have := (h x).mp List.mem_cons_self; cases this
  | x :: l, y :: m, hl, hm, h => by
    have hxy : x = y := by
      have h1 := (h x).mp List.mem_cons_self
      have h2 := (h y).mpr List.mem_cons_self
      have a1 := hm.head_le h1
      have a2 := hl.head_le h2
      omega
    subst hxy
    have hl' := List.pairwise_cons.mp hl
    have hm' := List.pairwise_cons.mp hm
    congr 1
    apply inc_ext hl'.2 hm'.2
    intro z
    constructor
    · intro hz
      have := (h z).mp (List.mem_cons_of_mem _ hz)
      rcases List.mem_cons.mp this with e | e
      · have := hl'.1 z hz; omega
      · exact e
    · intro hz
      have := (h z).mpr (List.mem_cons_of_mem _ hz)
      rcases List.mem_cons.mp this with e | e
      · have := hm'.1 z hz; omega
      · exact e

theorem graphAccept_lt {sents : List (List (List Bytes))} {s : Nat} {g : List Bytes} (h : graphAccept sents s g = true) :
    s < sents.length := by
  have := graphAccept_acc sents s g h
  obtain ⟨a, ha, _, hv⟩ := acc_iff_valid.mp this
  have hmem := hv.1
  simp only [buildGraph, List.mem_append, List.mem_filterMap, List.mem_flatMap] at ha
  rcases ha with (⟨c, _, hc⟩ | ha) | ⟨c, _, hc | hc⟩
  · split at hc
    · injection hc with hc; subst hc; simp only at hmem; exact (mem_sentsWhere.mp hmem).1
    · cases hc
  · split at ha
    · simp only [List.mem_cons, List.not_mem_nil, or_false] at ha; subst ha; simp only at hmem; exact (mem_sentsWhere.mp hmem).1
    · cases ha
  · obtain ⟨d, _, hd⟩ := hc
    split at hd
    · injection hd with hd; subst hd; simp only at hmem; exact (mem_sentsWhere.mp hmem).1
    · cases hd
  · split at hc
    · simp only [List.mem_cons, List.not_mem_nil, or_false] at hc; subst hc; simp only at hmem; exact (mem_sentsWhere.mp hmem).1
    · cases hc

/-- the lazy search and the declarative graph model give the same verdict -/
theorem phraseSearch_eq_graph (sents : List (List (List Bytes))) (ws : List Bytes) :
    phraseSearch false sents ws = phraseVerdict sents ws := by
  unfold phraseSearch phraseVerdict
  by_cases hg : phraseWords ws = []
  · simp [hg]
  · simp only [hg, if_false]
    congr 1
    obtain ⟨h1, h2⟩ := multiEval_correct (buildGraph_wf sents (phraseWords ws)) ((phraseWords ws).length - 1)
    apply inc_ext h2 (inc_filter_range _ _)
    intro s
    rw [h1 s, acc_iff_graphAccept]
    simp only [List.mem_filter, List.mem_range]
    exact ⟨fun h => ⟨graphAccept_lt h, h⟩, fun h => h.2⟩

end KV.Filter
