import Model.Format
import Proofs.Format
import Proofs.FormatRead
/-! Helper lemmas for C19 (core only): the characters of the shortest text. -/
namespace KV.Format

/-- characters that may occur in the text of a finite value -/
def NumCh (c : Conv) (ch : Char) : Prop :=
  ch.isDigit = true ∨ ch = '.' ∨ ch = '-' ∨ ch = c.expChar ∨ (ch = '+' ∧ c.emitPositiveExponentSign = true)

theorem digitChar_isDigit : ∀ d, d < 10 → (Nat.digitChar d).isDigit = true := by decide

theorem digitChars_isDigit (ds : List Nat) (hd : ∀ d ∈ ds, d < 10) : ∀ ch ∈ digitChars ds, ch.isDigit = true := by
  intro ch h
  simp only [digitChars, List.mem_map] at h
  obtain ⟨d, hdm, rfl⟩ := h
  exact digitChar_isDigit d (hd d hdm)

theorem pad_zero_isDigit (k : Int) : ∀ ch ∈ pad '0' k, ch.isDigit = true := by
  intro ch h
  simp only [pad, List.mem_replicate] at h
  rw [h.2]; rfl

theorem decRep_chars (c : Conv) (digits : List Nat) (point after : Int) (hd : ∀ d ∈ digits, d < 10) :
    ∀ ch ∈ decRep c digits point after, ch.isDigit = true ∨ ch = '.' ∨ ch = '0' := by
  have hds := digitChars_isDigit digits hd
  have hp := pad_zero_isDigit
  intro ch h
  unfold decRep at h
  simp only [List.mem_append] at h
  rcases h with h | h
  · split at h
    · simp only [List.mem_cons] at h
      rcases h with h | h
      · right; right; exact h
      · split at h
        · simp only [List.mem_cons, List.mem_append] at h
          rcases h with h | (h | h) | h
          · right; left; exact h
          · left; exact hp _ _ h
          · left; exact hds _ h
          · left; exact hp _ _ h
        · simp at h
    · split at h
      · simp only [List.mem_append] at h
        rcases h with (h | h) | h
        · left; exact hds _ h
        · left; exact hp _ _ h
        · split at h
          · simp only [List.mem_cons] at h
            rcases h with h | h
            · right; left; exact h
            · left; exact hp _ _ h
          · simp at h
      · simp only [List.mem_append, List.mem_cons] at h
        rcases h with h | h | h | h
        · left; exact hds _ (List.mem_of_mem_take h)
        · right; left; exact h
        · left; exact hds _ (List.mem_of_mem_drop h)
        · left; exact hp _ _ h
  · split at h
    · simp only [List.mem_append] at h
      rcases h with h | h
      · split at h
        · simp at h; right; left; exact h
        · simp at h
      · split at h
        · simp at h; right; right; exact h
        · simp at h
    · simp at h

theorem expRep_chars (c : Conv) (digits : List Nat) (exponent : Int) (hd : ∀ d ∈ digits, d < 10) :
    ∀ ch ∈ expRep c digits exponent, NumCh c ch := by
  have hds := digitChars_isDigit digits hd
  intro ch h
  unfold expRep at h
  simp only [List.mem_append] at h
  rcases h with ((((h | h) | h) | h) | h) | h
  · left; exact hds _ (List.mem_of_mem_take h)
  · split at h
    · simp only [List.mem_cons] at h
      rcases h with h | h
      · right; left; exact h
      · left; exact hds _ (List.mem_of_mem_drop h)
    · simp at h
  · simp at h; right; right; right; left; exact h
  · split at h
    · simp at h; right; right; left; exact h
    · split at h
      · rename_i hs
        simp at h; right; right; right; right; exact ⟨h, hs⟩
      · simp at h
  · simp only [List.mem_replicate] at h
    left; rw [h.2]; rfl
  · left; exact fmtNat_isDigit _ _ h

theorem fmtShortest_chars (c : Conv) (neg : Bool) (digits : List Nat) (point : Int) (hd : ∀ d ∈ digits, d < 10) :
    ∀ ch ∈ fmtShortest c neg digits point, NumCh c ch := by
  intro ch h
  unfold fmtShortest at h
  simp only [List.mem_append] at h
  rcases h with h | h
  · split at h
    · simp at h; right; right; left; exact h
    · simp at h
  · split at h
    · rcases decRep_chars c digits point _ hd ch h with h | h | h
      · left; exact h
      · right; left; exact h
      · left; rw [h]; rfl
    · exact expRep_chars c digits _ hd ch h

end KV.Format
