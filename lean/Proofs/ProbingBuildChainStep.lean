import Proofs.ProbingBuildChain
/-! One line of `ReadNGrams` with a blank chain of any length `L ≥ 1` over a basis of order `b`, as a closed sequence of
key-level updates (`chainWant`).  Operational half of the general step; see design_notes/C03.md, round 8. -/
namespace KV.ProbingBuild
open KV.Arpa KV.Table KV.Score KV.ProbingLM

/-- the payload of every key (unigrams as keys of length 1) given the stored keys -/
def wantAll (a : Arpa) (u0 : List W) (S : List Key) (k : Key) : W :=
  if k.length = 1 then expU S (k.headD 0) (u0.getD (k.headD 0) default) else wantW a S k

theorem mem_keysOf (S : List Key) (m : Nat) (k : Key) : k ∈ keysOf S m ↔ k ∈ S ∧ k.length = m := by
  simp [keysOf]

theorem stP_of_invG {combine : Nat → Word → Nat} {a : Arpa} {u0 : List W} {N : Nat} {caps : Nat → Nat} {S : List Key} {s : St}
    (inv : InvG combine a u0 N caps S s) : StP combine N caps u0.length s (keysOf S) (wantAll a u0 S) := by
  refine ⟨inv.midlen, ?_, fun m k hk => keysOf_len S m k hk, inv.uni.len, ?_⟩
  · intro m hm2 hmN
    obtain ⟨M, hG⟩ := inv.tabs m hm2 hmN
    refine ⟨M, ordP_congr (ordP_of_G hG) ?_⟩
    intro k hk
    have := keysOf_len S m k hk
    have hne : ¬ k.length = 1 := by omega
    simp [wantAll, hne]
  · intro w
    rw [inv.uni.val w]
    simp [wantAll]

/-- the payloads after a line with a chain: blanks filled bottom-up, marks along the chain, extension mark on the context -/
def chainWant (want1 : Key → W) (p : Key) (b L : Nat) : Key → W :=
  updW (applyUpd (applyUpd want1 (fillUs want1 p L b (-(want1 (p.take b)).mag))) ((chainKeys p b L).map fun k => (k, clr)))
    (p.drop 1)
    (setExtension ((applyUpd (applyUpd want1 (fillUs want1 p L b (-(want1 (p.take b)).mag))) ((chainKeys p b L).map fun k => (k, clr))) (p.drop 1)))

theorem mem_ite_append {α} (c : Prop) [Decidable c] (X : List α) (y x : α) (h : x ∈ X) : x ∈ (if c then X ++ [y] else X) := by
  split
  · exact List.mem_append_left _ h
  · exact h

/-- a line of order `b+L+1` whose suffixes of orders `b+1 .. b+L` are not stored (`L ≥ 1`) and whose suffix of order `b`
is (or `b = 1`): `addLine` succeeds and the tables hold `chainWant` -/
theorem addLine_chain (combine : Nat → Word → Nat) (a : Arpa) (u0 : List W) (N : Nat) (caps : Nat → Nat)
    (S : List Key) (s : St) (inv : InvG combine a u0 N caps S s) (si : SInv a S) (p : Key) (e : Entry)
    (lc : LC combine a u0 N caps S p e) (b L : Nat) (hb : 1 ≤ b) (hL : 1 ≤ L) (hpl : p.length = b + L + 1)
    (hbasis : b = 1 ∨ p.take b ∈ S) (hmiss : ∀ j, b < j → j ≤ b + L → p.take j ∉ S)
    (hcapn : (keysOf S (b + L + 1)).length + 1 < caps (b + L + 1))
    (hcapj : ∀ j, b < j → j ≤ b + L → (keysOf S j).length + 1 < caps j) :
    ∃ s' Ks' want1, addLine combine false N s p e = .ok s' ∧
      (∀ m, Ks' m = if b < m ∧ m ≤ b + L then keysOf (S ++ [p]) m ++ [p.take m] else keysOf (S ++ [p]) m) ∧
      (∀ k, want1 k = if b < k.length ∧ k.length ≤ b + L ∧ k = p.take k.length then blankW
        else updW (wantAll a u0 S) p (lineW e) k) ∧
      StP combine N caps u0.length s' Ks' (chainWant want1 p b L) := by
  have hnN : b + L + 1 ≤ N := by rw [← hpl]; exact lc.nN
  obtain ⟨Mn, semn⟩ := inv.tabs p.length lc.n2 lc.nN
  have hfreshp := lc.fresh p (Or.inr rfl)
  obtain ⟨s1, M', hins, hu1, hml1, hGn, hto⟩ := invG_insert_line combine a N caps S s inv.midlen p e lc.n2 lc.nN Mn semn lc.real
    lc.asc hfreshp (by rw [hpl]; exact hcapn)
  have hpS : p ∉ S := by
    intro hp
    exact hfreshp p ((mem_keysOf S _ p).mpr ⟨hp, rfl⟩) rfl
  -- the state after the insertion
  have h0 := stP_of_invG inv
  have h1 : StP combine N caps u0.length s1 (keysOf (S ++ [p])) (updW (wantAll a u0 S) p (lineW e)) := by
    refine ⟨hml1, ?_, fun m k hk => keysOf_len _ m k hk, by rw [hu1]; exact h0.ulen, ?_⟩
    · intro m hm2 hmN
      by_cases hm : m = p.length
      · subst hm
        refine ⟨M', ordP_congr (ordP_of_G hGn) ?_⟩
        intro k hk
        rw [keysOf_append_same S p _ rfl] at hk
        rcases List.mem_append.mp hk with hk | hk
        · have hkS := keysOf_mem S _ k hk
          have hkl := keysOf_len S _ k hk
          have hne : k ≠ p := fun he => hpS (he ▸ hkS)
          have hn1 : ¬ k.length = 1 := by have := lc.n2; omega
          rw [wantW_append_other a S p k (by omega)]
          simp [updW, hne, wantAll, hn1]
        · simp only [List.mem_singleton] at hk
          subst hk
          rw [wantW_real_new a S k e lc.real lc.asc]
          simp [updW]
      · obtain ⟨M, hP⟩ := h0.tabs m hm2 hmN
        rw [hto m hm hm2, keysOf_append_other S p m (fun he => hm he.symm)]
        refine ⟨M, ordP_congr hP ?_⟩
        intro k hk
        have hkl := keysOf_len S m k hk
        have hne : k ≠ p := by intro he; rw [he] at hkl; exact hm hkl.symm
        simp [updW, hne]
    · intro w
      rw [hu1, h0.uni w]
      have hne : [w] ≠ p := by intro he; have := lc.n2; rw [← he] at this; simp at this
      simp [updW, hne]
  have hK0 : ∀ j, j ≤ b + L → keysOf (S ++ [p]) j = keysOf S j := fun j hj => keysOf_append_other S p j (by omega)
  have hx : p.headD 0 < u0.length := by
    cases p with
    | nil => simp at hpl
    | cons x xs => exact lc.words x (by simp)
  -- FindLower
  obtain ⟨s2, refs, Ks1, want1, hfl, h2, hKs1, hw1, hrl, hden⟩ := findLower_chain combine N caps u0.length p b hb (b + L - 1) s1 _ _ [] h1
    (by omega) (by omega) (by omega)
    (by rcases hbasis with hb1 | hb1
        · exact Or.inl hb1
        · right
          have hbl : b ≤ p.length := by omega
          rw [hK0 b (by omega)]; exact (mem_keysOf S b _).mpr ⟨hb1, by simp [hbl]⟩)
    hx
    (by intro j hj1 hj2
        have hjl : (p.take j).length = j := by simp; omega
        rw [hK0 j (by omega)]
        refine ⟨fun hm => hmiss j hj1 (by omega) (keysOf_mem S j _ hm), ?_, hcapj j hj1 (by omega)⟩
        have := lc.fresh (p.take j) (Or.inl (mem_missing_of_not_mem si p (p.length - 1) (by omega) j (by omega) (by omega)
          (hmiss j hj1 (by omega))))
        rw [hjl] at this; exact this)
  have hf1 : b + L - 1 + 1 = b + L := by omega
  simp only [hf1] at hKs1 hw1
  have hc1 : p.drop 1 ∈ S := lc.ctx (by omega)
  have hctxS : ∀ j, 2 ≤ j → j ≤ b + L → (p.drop 1).take j ∈ S := fun j hj2 hjl =>
    si.take_mem _ hc1 (b + L - j) j (by rw [List.length_drop]; omega) hj2
  -- AdjustLower
  obtain ⟨s3, hadj, h3⟩ := adjustLower_chain combine N caps u0.length p Ks1 b L hb hL hnN s2 want1 h2 refs (by omega)
    (by intro i hi
        have := hden i hi
        rw [show b + L - 1 + 1 - i = b + L - i by omega] at this; exact this)
    (by intro j hj2 hbj hjl
        rw [hKs1 j]
        apply mem_ite_append
        rw [hK0 j (by omega)]
        exact (mem_keysOf S j _).mpr ⟨hctxS j hj2 (by omega), by rw [List.length_take, List.length_drop]; omega⟩)
    (by intro hb1
        match p, hpl, lc.words with
        | x :: y :: rest, _, hw => exact ⟨by simp, hw y (by simp)⟩
        | [_], hpl, _ => simp at hpl; omega
        | [], hpl, _ => simp at hpl)
    (by intro j j' hbj hjl hbj' hjl' he
        have hl := congrArg List.length he
        rw [List.length_take, List.length_take, List.length_drop] at hl
        have hjj : j = j' := by omega
        subst hjj
        exact hmiss j hbj' hjl' (he ▸ hctxS j (by omega) (by omega)))
    (lineW e).rest
  -- Activate
  obtain ⟨ic, hdc, _, hfind⟩ := stP_lookup h3 (b + L) (by omega) (by omega) (p.drop 1)
    (by rw [hKs1 (b + L)]
        apply mem_ite_append
        rw [hK0 _ (Nat.le_refl _)]
        exact (mem_keysOf S _ _).mpr ⟨hc1, by rw [List.length_drop]; omega⟩) blankW
  have h4 := stP_modify h3 _ _ hdc setExtension
  refine ⟨_, Ks1, want1, ?_, hKs1, hw1, h4⟩
  rw [addLine_phases, hins, hpl]
  have he2 : b + L + 1 - 2 = b + L - 1 := by omega
  have he3 : b + L + 1 - 3 = b + L - 2 := by omega
  have hn2 : (b + L + 1 == 2) = false := by simp; omega
  simp only [bind, Except.bind, he2, hfl, List.nil_append, hadj, activate, hn2, Bool.false_eq_true, if_false, he3, hfind]
