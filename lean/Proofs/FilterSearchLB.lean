import Proofs.FilterSearchSpec
/-!
`Arc::LowerBound` and `Vertex::LowerBound` meet their contract (`VSpec`): the state stays `Good`
at the new low-water mark, arcs into higher vertices are untouched, and the value returned is a
lower bound of the accepted sentences `≥ to` that is exact when it equals `to`.
-/
namespace KV.Filter

/-- the contract of `Vertex::LowerBound(to)` at vertex `v` -/
def VSpec (arcs : List PArc) (rec : Nat → Nat → PState → Option Nat × PState) (v : Nat) : Prop :=
  ∀ σ L to, Good arcs σ L → L ≤ to →
    Good arcs (rec v to σ).2 to ∧
    (∀ j b, arcs[j]? = some b → v < b.to → restOf (rec v to σ).2 j = restOf σ j) ∧
    match (rec v to σ).1 with
    | none => ∀ s, to ≤ s → ¬ PAcc arcs v s
    | some c => to ≤ c ∧ (c = to → PAcc arcs v to) ∧ (∀ s, to ≤ s → s < c → ¬ PAcc arcs v s) ∧ (c = to ∨ c ≤ maxSent arcs)

theorem good_set {arcs : List PArc} {σ : PState} {to i : Nat} {a : PArc} {r : List Nat} (hg : Good arcs σ to)
    (ha : arcs[i]? = some a) (hs : r <:+ a.sents) (hk : ∀ s, Valid arcs a s → to ≤ s → s ∈ r) :
    Good arcs (σ.set i r) to := by
  have hil : i < σ.length := by rw [hg.len]; exact idx_lt ha
  refine ⟨by simp [hg.len], ?_, ?_⟩
  · intro j b hb
    rw [restOf_set]
    by_cases hji : j = i
    · subst hji; rw [ha] at hb; injection hb with e; subst e
      simp [hil, hs]
    · simp only [hji, false_and, if_false]; exact hg.suf j b hb
  · intro j b hb s hv hle
    rw [restOf_set]
    by_cases hji : j = i
    · subst hji; rw [ha] at hb; injection hb with e; subst e
      simp only [hil, and_self, if_true]; exact hk s hv hle
    · simp only [hji, false_and, if_false]; exact hg.keep j b hb s hv hle

theorem restOf_set_ne (σ : PState) {i j : Nat} (r : List Nat) (h : j ≠ i) : restOf (σ.set i r) j = restOf σ j := by
  rw [restOf_set]; simp [h]

theorem restOf_set_eq (σ : PState) {i : Nat} (r : List Nat) (h : i < σ.length) : restOf (σ.set i r) i = r := by
  rw [restOf_set]; simp [h]

/-- **`Arc::LowerBound`** -/
theorem arc_spec {arcs : List PArc} (hw : WFG arcs) {rec : Nat → Nat → PState → Option Nat × PState}
    {i : Nat} {a : PArc} (ha : arcs[i]? = some a) (hrec : ∀ u, u < a.to → VSpec arcs rec u)
    {σ : PState} {L to : Nat} (hg : Good arcs σ L) (hl : L ≤ to) :
    Good arcs (arcLB rec false arcs i to σ) to ∧
    (∀ j b, arcs[j]? = some b → a.to ≤ b.to → j ≠ i → restOf (arcLB rec false arcs i to σ) j = restOf σ j) ∧
    (∀ x ∈ restOf (arcLB rec false arcs i to σ) i, to ≤ x) ∧
    (∀ t, restOf (arcLB rec false arcs i to σ) i = to :: t → Valid arcs a to) := by
  have hil : i < σ.length := by rw [hg.len]; exact idx_lt ha
  have hinc : Inc (restOf σ i) := hg.inc hw ha
  have hsuf0 := hg.suf i a ha
  -- the first statement of Arc::LowerBound
  have hr_suf : lowerBound to (restOf σ i) <:+ a.sents := (lowerBound_suffix _ _).trans hsuf0
  have hr_ge : ∀ x ∈ lowerBound to (restOf σ i), to ≤ x := lowerBound_ge hinc
  have hg1 : Good arcs (σ.set i (lowerBound to (restOf σ i))) to :=
    good_set (hg.mono hl) ha hr_suf (fun s hv hle => mem_lowerBound (hg.keep i a ha s hv (Nat.le_trans hl hle)) (by omega))
  have hlen1 : i < (σ.set i (lowerBound to (restOf σ i))).length := by simpa using hil
  unfold arcLB
  simp only [ha]
  cases hf : a.from_ with
  | none =>
    simp only
    refine ⟨hg1, fun j b _ _ hji => restOf_set_ne σ _ hji, ?_, ?_⟩
    · rw [restOf_set_eq σ _ hil]; exact hr_ge
    · intro t ht
      rw [restOf_set_eq σ _ hil] at ht
      exact ⟨hr_suf.subset (by rw [ht]; exact List.mem_cons_self), Or.inl hf⟩
  | some u =>
    have hu : u < a.to := hw.dag a (mem_of_idx ha) u hf
    cases hr : lowerBound to (restOf σ i) with
    | nil =>
      simp only
      rw [hr] at hg1
      refine ⟨hg1, fun j b _ _ hji => restOf_set_ne σ _ hji, ?_, ?_⟩
      · rw [restOf_set_eq σ _ hil]; intro x hx; cases hx
      · intro t ht; rw [restOf_set_eq σ _ hil] at ht; cases ht
    | cons c r' =>
      rw [hr] at hg1 hr_suf hr_ge hlen1
      have hcge : to ≤ c := hr_ge c List.mem_cons_self
      have hincr : Inc (c :: r') := (hw.inc a (mem_of_idx ha)).suffix hr_suf
      simp only [Bool.not_false, Bool.true_and, decide_eq_true_eq, Bool.false_eq_true, if_false]
      by_cases hlt : to < c
      · simp only [hlt, if_true]
        refine ⟨hg1, fun j b _ _ hji => restOf_set_ne σ _ hji, ?_, ?_⟩
        · rw [restOf_set_eq σ _ hil]; exact hr_ge
        · intro t ht; rw [restOf_set_eq σ _ hil] at ht; injection ht with e _; omega
      · simp only [hlt, if_false]
        have hc : c = to := by omega
        subst hc
        obtain ⟨hg2, hfr, hres⟩ := hrec u hu (σ.set i (c :: r')) c c hg1 (Nat.le_refl _)
        have hi2 : restOf (rec u c (σ.set i (c :: r'))).2 i = c :: r' := by
          rw [hfr i a ha hu, restOf_set_eq σ _ hil]
        have hlen2 : i < (rec u c (σ.set i (c :: r'))).2.length := by rw [hg2.len]; exact idx_lt ha
        have hframe : ∀ j b, arcs[j]? = some b → a.to ≤ b.to → j ≠ i →
            restOf (rec u c (σ.set i (c :: r'))).2 j = restOf σ j := by
          intro j b hb hle hji
          rw [hfr j b hb (by omega), restOf_set_ne σ _ hji]
        have hvalid_acc : ∀ s, Valid arcs a s → PAcc arcs u s := by
          intro s hv
          rcases hv.2 with h | ⟨u', h, hacc⟩
          · rw [hf] at h; cases h
          · rw [hf] at h; injection h with h; subst h; exact hacc
        cases hres1 : (rec u c (σ.set i (c :: r'))).1 with
        | none =>
          rw [hres1] at hres
          simp only
          refine ⟨good_set hg2 ha List.nil_suffix ?_, ?_, ?_, ?_⟩
          · intro s hv hle; exact absurd (hvalid_acc s hv) (hres s hle)
          · intro j b hb hle hji; rw [restOf_set_ne _ _ hji]; exact hframe j b hb hle hji
          · rw [restOf_set_eq _ _ hlen2]; intro x hx; cases hx
          · intro t ht; rw [restOf_set_eq _ _ hlen2] at ht; cases ht
        | some fc =>
          rw [hres1] at hres
          obtain ⟨hfge, hfeq, hfno, _⟩ := hres
          simp only
          by_cases hflt : c < fc
          · simp only [hflt, if_true]
            have hincr' : Inc r' := (List.pairwise_cons.mp hincr).2
            refine ⟨good_set hg2 ha (((lowerBound_suffix fc r').trans (List.suffix_cons c r')).trans hr_suf) ?_, ?_, ?_, ?_⟩
            · intro s hv hle
              have hacc := hvalid_acc s hv
              have hsge : fc ≤ s := by
                rcases Nat.lt_or_ge s fc with h | h
                · exact absurd hacc (hfno s hle h)
                · exact h
              have hmem : s ∈ c :: r' := by rw [← hi2]; exact hg2.keep i a ha s hv hle
              rcases List.mem_cons.mp hmem with h | h
              · omega
              · exact mem_lowerBound h (by omega)
            · intro j b hb hle hji; rw [restOf_set_ne _ _ hji]; exact hframe j b hb hle hji
            · rw [restOf_set_eq _ _ hlen2]
              intro x hx; have := lowerBound_ge hincr' x hx; omega
            · intro t ht
              rw [restOf_set_eq _ _ hlen2] at ht
              have := lowerBound_ge hincr' c (by rw [ht]; exact List.mem_cons_self)
              omega
          · simp only [hflt, if_false]
            have hfc : fc = c := by omega
            refine ⟨hg2, hframe, ?_, ?_⟩
            · rw [hi2]; exact hr_ge
            · intro t _
              exact ⟨hr_suf.subset List.mem_cons_self, Or.inr ⟨u, hf, hfeq hfc⟩⟩

end KV.Filter

namespace KV.Filter

/-- arc `j` is in the queue of `v` with a candidate not above `to` -/
def pend (arcs : List PArc) (σ : PState) (v to : Nat) (j : Nat) : Bool :=
  match arcs[j]? with
  | some b => b.to = v && (match restOf σ j with
      | h :: _ => decide (h ≤ to)
      | [] => false)
  | none => false

def pendCount (arcs : List PArc) (σ : PState) (v to : Nat) : Nat :=
  (List.range arcs.length).countP (pend arcs σ v to)

theorem countP_lt_of {l : List Nat} {p q : Nat → Bool} (hsub : ∀ j ∈ l, q j = true → p j = true) {i : Nat}
    (hi : i ∈ l) (hp : p i = true) (hq : q i = false) : l.countP q < l.countP p := by
  induction l with
  | nil => cases hi
  | cons x l ih =>
    have hle : l.countP q ≤ l.countP p := by
      clear ih hi
      induction l with
      | nil => simp
      | cons y l ih2 =>
        have h1 := hsub y (by simp)
        have h2 := ih2 (fun j hj => hsub j (by
          rcases List.mem_cons.mp hj with h | h
          · simp [h]
          · simp [h]))
        simp only [List.countP_cons]
        by_cases hqy : q y = true
        · simp [hqy, h1 hqy]; omega
        · simp [hqy]; split <;> omega
    simp only [List.countP_cons]
    rcases List.mem_cons.mp hi with rfl | hi'
    · simp [hp, hq]; omega
    · have := ih (fun j hj => hsub j (List.mem_cons_of_mem _ hj)) hi'
      by_cases hqx : q x = true
      · have := hsub x List.mem_cons_self hqx
        simp [hqx, this]; omega
      · simp [hqx]; split <;> omega

/-- what `vertexLoop` returns, as a predicate on (result, final state) relative to the state at entry -/
def LoopPost (arcs : List PArc) (v to : Nat) (σ : PState) (res : Option Nat × PState) : Prop :=
  Good arcs res.2 to ∧
  (∀ j b, arcs[j]? = some b → v < b.to → restOf res.2 j = restOf σ j) ∧
  match res.1 with
  | none => ∀ s, to ≤ s → ¬ PAcc arcs v s
  | some c => to ≤ c ∧ (c = to → PAcc arcs v to) ∧ (∀ s, to ≤ s → s < c → ¬ PAcc arcs v s) ∧ (c = to ∨ c ≤ maxSent arcs)

theorem acc_index {arcs : List PArc} {v s : Nat} (h : PAcc arcs v s) :
    ∃ (j : Nat) (b : PArc), arcs[j]? = some b ∧ b.to = v ∧ Valid arcs b s := by
  obtain ⟨a, ha, hto, hv⟩ := acc_iff_valid.mp h
  obtain ⟨j, hj⟩ := List.getElem?_of_mem ha
  exact ⟨j, a, hj, hto, hv⟩

/-- **the loop of `Vertex::LowerBound`** -/
theorem loop_spec {arcs : List PArc} (hw : WFG arcs) {rec : Nat → Nat → PState → Option Nat × PState} {v to : Nat}
    (hrec : ∀ u, u < v → VSpec arcs rec u) :
    ∀ (fuel : Nat) (σ : PState) (L : Nat), Good arcs σ L → L ≤ to → pendCount arcs σ v to < fuel →
      LoopPost arcs v to σ (vertexLoop rec false arcs v to fuel σ)
  | 0, _, _, _, _, hf => by omega
  | f+1, σ, L, hg, hl, hf => by
    have htop := topArc_spec arcs σ v
    simp only [vertexLoop]
    cases ht : topArc arcs σ v with
    | none =>
      rw [ht] at htop
      simp only [BestOf] at htop
      refine ⟨hg.mono hl, fun _ _ _ _ => rfl, ?_⟩
      intro s hs hacc
      obtain ⟨j, b, hj, hbt, hv⟩ := acc_index hacc
      have := hg.keep j b hj s hv (Nat.le_trans hl hs)
      rw [htop j b (idx_lt hj) hj hbt] at this; cases this
    | some p =>
      obtain ⟨i, h⟩ := p
      rw [ht] at htop
      obtain ⟨⟨a, t, _, ha, hato, hri⟩, hmin⟩ := htop
      simp only
      by_cases hlt : to < h
      · simp only [hlt, if_true]
        have hmax : h ≤ maxSent arcs := by
          have hmem : h ∈ a.sents := (hg.suf i a ha).subset (by rw [hri]; exact List.mem_cons_self)
          exact le_maxElem (List.mem_map.mpr ⟨a, mem_of_idx ha, rfl⟩) hmem
        refine ⟨hg.mono hl, fun _ _ _ _ => rfl, Nat.le_of_lt hlt, fun e => by omega, ?_, Or.inr hmax⟩
        intro s hs hsh hacc
        obtain ⟨j, b, hj, hbt, hv⟩ := acc_index hacc
        have hmem := hg.keep j b hj s hv (Nat.le_trans hl hs)
        cases hrj : restOf σ j with
        | nil => rw [hrj] at hmem; cases hmem
        | cons h' t' =>
          have h1 := hmin j b h' t' (idx_lt hj) hj hbt hrj
          have hinc : Inc (h' :: t') := by rw [← hrj]; exact hg.inc hw hj
          rw [hrj] at hmem
          have := hinc.head_le hmem
          omega
      · simp only [hlt, if_false]
        obtain ⟨hg', hfr, hge, hval⟩ := arc_spec hw ha (fun u hu => hrec u (by omega)) hg hl
        -- the arc is no longer pending unless it returns `to`
        have hcount : (∀ t', restOf (arcLB rec false arcs i to σ) i ≠ to :: t') →
            pendCount arcs (arcLB rec false arcs i to σ) v to < pendCount arcs σ v to := by
          intro hne
          apply countP_lt_of (i := i)
          · intro j _ hq
            unfold pend at hq ⊢
            cases hj : arcs[j]? with
            | none => rw [hj] at hq; cases hq
            | some b =>
              rw [hj] at hq
              simp only [Bool.and_eq_true, decide_eq_true_eq] at hq ⊢
              by_cases hji : j = i
              · subst hji
                refine ⟨hq.1, ?_⟩
                rw [hri]; simp; omega
              · rw [hfr j b hj (by omega) hji] at hq; exact hq
          · exact List.mem_range.mpr (idx_lt ha)
          · unfold pend; rw [ha, hri]; simp [hato]; omega
          · unfold pend; rw [ha]
            cases hr' : restOf (arcLB rec false arcs i to σ) i with
            | nil => simp
            | cons h' t' =>
              have h1 := hge h' (by rw [hr']; exact List.mem_cons_self)
              have h2 : h' ≠ to := fun e => hne t' (by rw [hr', e])
              simp; intro _; omega
        have hframe' : ∀ (res : Option Nat × PState), LoopPost arcs v to (arcLB rec false arcs i to σ) res →
            LoopPost arcs v to σ res := by
          intro res ⟨r1, r2, r3⟩
          refine ⟨r1, ?_, r3⟩
          intro j b hj hvb
          rw [r2 j b hj hvb]
          exact hfr j b hj (by omega) (by intro e; subst e; rw [ha] at hj; injection hj with e; subst e; omega)
        cases hr' : restOf (arcLB rec false arcs i to σ) i with
        | nil =>
          simp only
          apply hframe'
          apply loop_spec hw hrec f _ to hg' (Nat.le_refl _)
          have := hcount (by intro t' e; rw [hr'] at e; cases e)
          omega
        | cons h' t' =>
          simp only
          by_cases heq : h' = to
          · simp only [heq, if_true]
            subst heq
            refine ⟨hg', ?_, Nat.le_refl _, fun _ => ?_, fun s h1 h2 => by omega, Or.inl rfl⟩
            · intro j b hj hvb
              exact hfr j b hj (by omega) (by intro e; subst e; rw [ha] at hj; injection hj with e; subst e; omega)
            · exact acc_iff_valid.mpr ⟨a, mem_of_idx ha, hato, hval t' hr'⟩
          · simp only [heq, if_false]
            apply hframe'
            apply loop_spec hw hrec f _ to hg' (Nat.le_refl _)
            have := hcount (by intro t'' e; rw [hr'] at e; injection e with e _; exact heq e)
            omega

theorem pendCount_le (arcs : List PArc) (σ : PState) (v to : Nat) : pendCount arcs σ v to ≤ arcs.length := by
  unfold pendCount
  have := List.countP_le_length (p := pend arcs σ v to) (l := List.range arcs.length)
  simpa using this

/-- **lowerBound_spec**: `Vertex::LowerBound(v, to)` keeps the state `Good`, touches no arc into a
higher vertex, and returns `none` iff no sentence `≥ to` is accepted at `v`, else a value `c ≥ to`
below which (from `to` on) nothing is accepted and which is itself accepted when `c = to`. -/
theorem lowerBound_spec {arcs : List PArc} (hw : WFG arcs) :
    ∀ (d v : Nat), v < d → VSpec arcs (vertexLB false arcs d) v
  | 0, _, h => by omega
  | d+1, v, _ => by
    intro σ L to hg hl
    have hrec : ∀ u, u < v → VSpec arcs (vertexLB false arcs d) u := fun u hu => lowerBound_spec hw d u (by omega)
    have := loop_spec hw hrec (arcs.length + 1) σ L hg hl (by have := pendCount_le arcs σ v to; omega)
    exact this

end KV.Filter
