import Proofs.ScoreClosed
/-! `GetState` post-condition and canonicity of the state returned by `FullScore` (suffix-closed models). -/
namespace KV.Score
open KV.Arpa KV.Table KV.State

/-- what `GetState`'s loop returns for the context `x :: rest`: `c1` more words were found -/
structure GetPost (T : Table) (x : Word) (rest : List Word) (res : Nat × List Rat) (c1 : Nat) : Prop where
  c1_le : c1 ≤ rest.length
  found : T.lookup (x :: rest.take c1) ≠ none
  stop : c1 < rest.length → T.lookup (x :: rest.take (c1+1)) = none
  bo : res.2 = (List.range (c1+1)).map (fun j => T.bo (x :: rest.take j))
  len_le : res.1 ≤ c1 + 1
  unmarked : ∀ j, res.1 ≤ j → j < c1 + 1 → T.xr (x :: rest.take j) = false
  marked : 0 < res.1 → T.xr (x :: rest.take (res.1 - 1)) = true

structure GetInv (T : Table) (x : Word) (rest : List Word) (i : Nat) (node : List Word) (len : Nat) (bo : List Rat) : Prop where
  node_eq : node = x :: rest.take i
  i_le : i ≤ rest.length
  found : T.lookup (x :: rest.take i) ≠ none
  bo : bo = (List.range (i+1)).map (fun j => T.bo (x :: rest.take j))
  len_le : len ≤ i + 1
  unmarked : ∀ j, len ≤ j → j < i + 1 → T.xr (x :: rest.take j) = false
  marked : 0 < len → T.xr (x :: rest.take (len - 1)) = true

theorem get_post (T : Table) (x : Word) (rest : List Word) :
    ∀ (n i : Nat) (node : List Word) (len : Nat) (bo : List Rat), n = rest.length - i →
      GetInv T x rest i node len bo →
      ∃ c1, GetPost T x rest (getStateLoop (tableSearch T) (rest.drop i) i node len bo) c1 := by
  intro n
  induction n with
  | zero =>
    intro i node len bo hn inv
    have hi : rest.length ≤ i := by omega
    rw [List.drop_eq_nil_of_le hi]
    simp only [getStateLoop]
    exact ⟨i, inv.i_le, inv.found, by have := inv.i_le; omega, inv.bo, inv.len_le, inv.unmarked, inv.marked⟩
  | succ n ih =>
    intro i node len bo hn inv
    have hlen := inv.len_le
    obtain ⟨y, rest', hdrop⟩ : ∃ y rest', rest.drop i = y :: rest' := by
      cases h : rest.drop i with
      | nil => have := List.drop_eq_nil_iff.mp h; omega
      | cons y r => exact ⟨y, r, rfl⟩
    obtain ⟨htake, hdrop', hil⟩ := take_succ_of_drop hdrop
    rw [hdrop]
    have hnode : node ++ [y] = x :: rest.take (i+1) := by rw [inv.node_eq, htake]; rfl
    unfold getStateLoop
    cases hl : T.lookup (x :: rest.take (i+1)) with
    | none =>
      have : (tableSearch T).lookupMiddle i y node = (none, node ++ [y]) := by simp [tableSearch, hnode, hl]
      simp only [this]
      exact ⟨i, inv.i_le, inv.found, fun _ => hl, inv.bo, inv.len_le, inv.unmarked, inv.marked⟩
    | some tm =>
      have : (tableSearch T).lookupMiddle i y node = (some (toFound tm), node ++ [y]) := by simp [tableSearch, hnode, hl]
      simp only [this]
      rw [← hdrop']
      apply ih (i+1) (node ++ [y]) _ _ (by omega)
      refine ⟨hnode, by omega, by rw [hl]; simp, ?_, ?_, ?_, ?_⟩
      · simp only [inv.bo, List.range_succ (n := i+1), List.map_append, List.map_cons, List.map_nil, toFound]
        simp [Table.bo, hl]
      · dsimp only [toFound]; by_cases hx : tm.extendsRight = true <;> simp only [hx, if_true, if_false, Bool.false_eq_true] <;> omega
      · intro j h1 h2
        simp only [toFound] at h1
        by_cases hx : tm.extendsRight = true
        · simp [hx] at h1; omega
        · simp [hx] at h1
          by_cases hj : j = i + 1
          · subst hj; simp [Table.xr, hl]; simpa using hx
          · exact inv.unmarked j h1 (by omega)
      · intro hpos
        simp only [toFound] at hpos ⊢
        by_cases hx : tm.extendsRight = true
        · simp [hx, Table.xr, hl]
        · simp [hx] at hpos ⊢; exact inv.marked hpos

theorem getState_table {T : Table} (x : Word) (tl : List Word) (u : TEntry) (hu : T.lookup [x] = some u)
    (hlen : (x :: tl).length ≤ T.order - 1) :
    getState (tableSearch T) (x :: tl) =
      (let res := getStateLoop (tableSearch T) tl 0 [x] (if u.extendsRight then 1 else 0) [u.backoff]
       { length := res.1, words := (x :: tl).take res.1, backoff := res.2 }) := by
  have : (x :: tl).take ((tableSearch T).order - 1) = x :: tl := List.take_of_length_le hlen
  simp only [getState, this]
  simp [tableSearch, hu, toFound]

theorem get_post_init {T : Table} (x : Word) (tl : List Word) (u : TEntry) (hu : T.lookup [x] = some u) :
    ∃ c1, GetPost T x tl (getStateLoop (tableSearch T) tl 0 [x] (if u.extendsRight then 1 else 0) [u.backoff]) c1 := by
  have := get_post T x tl (tl.length - 0) 0 [x] (if u.extendsRight then 1 else 0) [u.backoff] rfl
    ⟨by simp, by omega, by simp [hu], by simp [Table.bo, hu], by split <;> omega,
     by intro j h1 h2
        have : j = 0 := by omega
        subst this
        by_cases hx : u.extendsRight = true
        · simp [hx] at h1
        · simp [Table.xr, hu]; simpa using hx,
     by intro hpos
        by_cases hx : u.extendsRight = true
        · simp [hx, Table.xr, hu]
        · simp [hx] at hpos⟩
  simpa using this

end KV.Score

namespace KV.Score
open KV.Arpa KV.Table KV.State

/-- two lengths satisfying the same "last marked position below the bound" specification coincide -/
theorem last_marked_unique (f : Nat → Bool) (B L₁ L₂ : Nat) (h1 : L₁ ≤ B) (h2 : L₂ ≤ B)
    (u1 : ∀ j, L₁ ≤ j → j < B → f j = false) (m1 : 0 < L₁ → f (L₁ - 1) = true)
    (u2 : ∀ j, L₂ ≤ j → j < B → f j = false) (m2 : 0 < L₂ → f (L₂ - 1) = true) : L₁ = L₂ := by
  rcases Nat.lt_trichotomy L₁ L₂ with h | h | h
  · have := m2 (by omega); rw [u1 (L₂ - 1) (by omega) (by omega)] at this; cases this
  · exact h
  · have := m1 (by omega); rw [u2 (L₁ - 1) (by omega) (by omega)] at this; cases this

/-- **Canonical state** (suffix-closed models): the state `FullScore` returns after `w` equals — on `length`,
`words[0..length)` and `backoff[0..length)` — the state `GetState` computes directly from the history. -/
theorem canonical_out {a : Arpa} (wf : WellFormed a) (sc : SuffixClosed a) (um : List Word → Bool)
    {h : List Word} {s : State} (sf : StateFor a h s) {w : Word} (hw : a.gram [w] ≠ none) :
    let out := (fullScore (tableSearch (build a um)) s w).2
    let gs := getState (tableSearch (build a um)) (w :: h)
    out.length = gs.length ∧ out.words.take out.length = gs.words.take gs.length ∧
      out.backoff.take out.length = gs.backoff.take gs.length := by
  have tf := build_tableFor a wf um
  have ok : TableOK (build a um) := tf.toTableOK
  have hN := wf.order_ge
  have hord : (build a um).order = a.order := rfl
  obtain ⟨c0, acc, post, hfs, hc0s, F1, F3⟩ := fullScore_char wf tf sf hw
  obtain ⟨e, he⟩ := Option.ne_none_iff_exists'.mp hw
  obtain ⟨u, hu, _, _⟩ := tf.real [w] e he
  -- GetState side
  have htk : (w :: h).take ((tableSearch (build a um)).order - 1) = w :: h.take (a.order - 2) := by
    have : (tableSearch (build a um)).order - 1 = (a.order - 2) + 1 := by show a.order - 1 = _; omega
    rw [this]; rfl
  have hgs0 : getState (tableSearch (build a um)) (w :: h) = getState (tableSearch (build a um)) (w :: h.take (a.order - 2)) := by
    simp only [getState, htk]
    have : (w :: h.take (a.order - 2)).take ((tableSearch (build a um)).order - 1) = w :: h.take (a.order - 2) := by
      apply List.take_of_length_le
      show (w :: h.take (a.order - 2)).length ≤ a.order - 1
      simp [List.length_take]; omega
    rw [this]
  have hgs := getState_table (T := build a um) w (h.take (a.order - 2)) u hu
    (by show (w :: h.take (a.order - 2)).length ≤ a.order - 1
        simp [List.length_take]; omega)
  obtain ⟨c1, gp⟩ := get_post_init (T := build a um) w (h.take (a.order - 2)) u hu
  generalize hres : getStateLoop (tableSearch (build a um)) (h.take (a.order - 2)) 0 [w] _ _ = res at gp hgs
  intro out gs
  have hout : out = { length := acc.nextUse, words := w :: (s.words.take s.length).take (acc.nextUse - 1), backoff := acc.backoffOut } := by
    show (fullScore (tableSearch (build a um)) s w).2 = _
    rw [hfs]
  have hgs' : gs = { length := res.1, words := (w :: h.take (a.order - 2)).take res.1, backoff := res.2 } := by
    show getState (tableSearch (build a um)) (w :: h) = _
    rw [hgs0, hgs]
  -- facts about lengths
  have hsh := sf.len_le_h
  have hc0N : c0 ≤ a.order - 1 := post.c0_lt
  obtain ⟨t, ht, _⟩ := post.found
  rw [F1 c0 hc0s] at ht
  have hrl : (h.take (a.order - 2)).length = min (a.order - 2) h.length := List.length_take
  have RT : ∀ j, j ≤ a.order - 2 → (h.take (a.order - 2)).take j = h.take j := by
    intro j hj; rw [List.take_take, Nat.min_eq_left hj]
  have hc1le : c1 ≤ min c0 (a.order - 2) := by
    have h1 := gp.c1_le
    rw [hrl] at h1
    have : c1 ≤ c0 := by
      apply Classical.byContradiction; intro hgt
      have hf := gp.found
      rw [RT c1 (by omega)] at hf
      have hr := closed_lookup_real sc um _ hf
      exact hr (F3 c1 (by omega) (by omega))
    omega
  have hc1ge : min c0 (a.order - 2) ≤ c1 := by
    apply Classical.byContradiction; intro hlt
    have hlt' : c1 < min c0 (a.order - 2) := by omega
    have hst := gp.stop (by rw [hrl]; omega)
    rw [RT (c1+1) (by omega)] at hst
    have := lookup_none_take ok w h (c1+1) c0 (by omega) hst
    rw [this] at ht; cases ht
  have hB : c1 + 1 = min (c0 + 1) ((build a um).order - 1) := by rw [hord]; omega
  have KT : ∀ j, j < c1 + 1 → (s.words.take s.length).take j = (h.take (a.order - 2)).take j := by
    intro j hj; rw [F1 j (by omega), RT j (by omega)]
  have hL : acc.nextUse = res.1 := by
    apply last_marked_unique (fun j => (build a um).xr (w :: h.take j)) (c1 + 1) acc.nextUse res.1
    · have := post.olen_le; omega
    · exact gp.len_le
    · intro j h1 h2
      have := post.unmarked j h1 (by omega)
      rwa [F1 j (by omega)] at this
    · intro hp
      have := post.marked hp
      have hle := post.olen_le
      rwa [F1 _ (by omega)] at this
    · intro j h1 h2
      have := gp.unmarked j h1 h2
      rwa [RT j (by omega)] at this
    · intro hp
      have := gp.marked hp
      have hle := gp.len_le
      rwa [RT _ (by omega)] at this
  have hLle : res.1 ≤ c1 + 1 := gp.len_le
  rw [hout, hgs']
  refine ⟨hL, ?_, ?_⟩
  · show (w :: (s.words.take s.length).take (acc.nextUse - 1)).take acc.nextUse = ((w :: h.take (a.order - 2)).take res.1).take res.1
    have tt : ∀ (l : Nat) (L : List Word), (L.take l).take l = L.take l := fun l L => by rw [List.take_take, Nat.min_self]
    rw [hL, tt]
    cases hr : res.1 with
    | zero => rfl
    | succ l =>
      simp only [List.take_succ_cons, Nat.add_sub_cancel]
      rw [tt, KT l (by omega)]
  · show acc.backoffOut.take acc.nextUse = res.2.take res.1
    rw [hL, post.bo, gp.bo, ← hB]
    congr 1
    apply List.map_congr_left
    intro j hj
    have hj' : j < c1 + 1 := by simpa using hj
    rw [KT j hj']

end KV.Score

namespace KV.Score
open KV.Arpa KV.Table KV.State

theorem forgot_ngramLength {ν : Type} (S : Search ν) (ctx : List Word) (w : Word) :
    (fullScoreForgotState S ctx w).1.ngramLength = (scoreExceptBackoff S (ctx.take (S.order - 1)) w).1.ngramLength := by
  unfold fullScoreForgotState
  simp only
  split
  · rfl
  · split
    · split <;> rfl
    · split <;> rfl

/-- `FullScoreForgotState` reports the longest match too (suffix-closed models) -/
theorem forgot_length_longest {a : Arpa} (wf : WellFormed a) (sc : SuffixClosed a) (um : List Word → Bool)
    (h : List Word) {w : Word} (hw : a.gram [w] ≠ none) :
    (fullScoreForgotState (tableSearch (build a um)) h w).1.ngramLength = longestMatch a h w := by
  have tf := build_tableFor a wf um
  have ok : TableOK (build a um) := tf.toTableOK
  have hN := wf.order_ge
  obtain ⟨e, he⟩ := Option.ne_none_iff_exists'.mp hw
  obtain ⟨u, hu, _, _⟩ := tf.real [w] e he
  rw [forgot_ngramLength]
  have hord : (tableSearch (build a um)).order = a.order := rfl
  rw [hord]
  generalize hc : h.take (a.order - 1) = c
  have hcl : c.length = min (a.order - 1) h.length := by rw [← hc, List.length_take]
  obtain ⟨c0, post⟩ := sxb_post ok c w u hu
  have hsxb := scoreExceptBackoff_table (T := build a um) c w u hu
  generalize hacc : resumeScore (tableSearch (build a um)) c 0 [w] _ = acc at post hsxb
  rw [hsxb]
  show acc.ret.ngramLength = _
  rw [post.len]
  have hc0 := post.c0_le
  have CT : ∀ k, k ≤ a.order - 1 → c.take k = h.take k := by
    intro k hk; rw [← hc, List.take_take, Nat.min_eq_left hk]
  obtain ⟨t, ht, _⟩ := post.found
  have hreal : a.gram (w :: c.take c0) ≠ none := closed_lookup_real sc um _ (by rw [ht]; simp)
  rw [CT c0 (by omega)] at hreal
  have F3 : ∀ k, c0 < k → k ≤ c.length → a.gram (w :: h.take k) = none := by
    intro k h1 h2
    have hstop := post.stop (by omega) (by show c0 < a.order - 1; omega)
    have := lookup_none_take ok w c (c0+1) k (by omega) hstop
    rw [CT k (by omega)] at this
    cases hg : a.gram (w :: h.take k) with
    | none => rfl
    | some e' => obtain ⟨t', ht', _⟩ := tf.real _ e' hg; rw [this] at ht'; cases ht'
  unfold longestMatch
  have hn : min h.length (a.order - 1) = c0 + (min h.length (a.order - 1) - c0) := by omega
  rw [hn]
  exact (longestMatchAt_of_max a h w c0 (Or.inr hreal) _ (fun k h1 h2 => F3 k h1 (by omega))).symm

end KV.Score
