import Proofs.ProbingRestStep
/-! `MaxRestBuild`: the per-line step for a line whose immediate suffix is stored (no blank to hallucinate). -/
namespace KV.ProbingBuild
open KV.Arpa KV.Table KV.Score KV.ProbingLM

/-- the invariant of the `rest = true` run: every table and the unigram array hold `wantT` -/
def InvT (combine : Nat → Word → Nat) (a : Arpa) (nWords : Nat) (caps : Nat → Nat) (S : List Key) (s : St) : Prop :=
  StP combine a.order caps (initUni a nWords).length s (keysOf S) (wantT a (initUni a nWords) S)

theorem wantAll_append (a : Arpa) (u0 : List W) (S : List Key) (g k : Key) :
    wantAll a u0 (S ++ [g]) k = markW (wantAll a u0 S k) (g.length == k.length + 1 && g.take k.length == k)
      (g.length == k.length + 1 && g.drop 1 == k) := by
  unfold wantAll
  by_cases hl : k.length = 1
  · rw [if_pos hl, if_pos hl]
    have hk : [k.headD 0] = k := by
      match k, hl with
      | [w], _ => rfl
    rw [expU_eq_markW, expU_eq_markW, hk, endsInK_append, startsWithK_append, markW_markW]
  · rw [if_neg hl, if_neg hl, wantW_eq_markW, wantW_eq_markW, endsInK_append, startsWithK_append, markW_markW]

theorem wantAll_neg_false (a : Arpa) (u0 : List W) (S : List Key) (k : Key) (h : endsInK S k = true) :
    (wantAll a u0 S k).neg = false := by
  unfold wantAll
  by_cases hl : k.length = 1
  · rw [if_pos hl]
    have hk : [k.headD 0] = k := by
      match k, hl with
      | [w], _ => rfl
    rw [expU_eq_markW, hk, h]; simp [markW]
  · rw [if_neg hl, wantW_eq_markW, h]; simp [markW]



theorem stP_congr_on {combine : Nat → Word → Nat} {N : Nat} {caps : Nat → Nat} {U : Nat} {s : St} {Ks : Nat → List Key} {want want' : Key → W}
    (h : StP combine N caps U s Ks want) (hk : ∀ m, ∀ k ∈ Ks m, want k = want' k) (hu : ∀ w, want [w] = want' [w]) :
    StP combine N caps U s Ks want' := by
  refine ⟨h.midlen, ?_, h.klen, h.ulen, fun w => by rw [h.uni w, hu w]⟩
  intro m h2 hN
  obtain ⟨M, hP⟩ := h.tabs m h2 hN
  exact ⟨M, ordP_congr hP (hk m)⟩

theorem se_mag (w : W) : (setExtension w).mag = w.mag := by unfold setExtension; split <;> rfl
theorem se_neg (w : W) : (setExtension w).neg = w.neg := by unfold setExtension; split <;> rfl
theorem se_rest (w : W) : (setExtension w).rest = w.rest := by unfold setExtension; split <;> rfl
theorem se_xr (w : W) (h : XrOK w) : (setExtension w).xr = true := by
  unfold setExtension
  by_cases hb : w.backoff = 0
  · rw [if_pos hb]
  · rw [if_neg hb]; exact h hb

/-- `rest` of the line itself: nothing stored extends it yet -/
theorem restOf_self_top (a : Arpa) (S : List Key) (p : Key) (hasc : ∀ k ∈ S, k.length ≤ p.length) : restOf a S p = val a p := by
  apply Rat.le_antisymm
  · apply restOf_le
    · exact Rat.le_refl
    · intro k' hk' hp
      have hl := hasc k' hk'
      have : k' = p := by
        have h1 := List.prefix_iff_eq_take.mp hp
        have h2 := hp.length_le
        rw [h1]; symm; apply List.take_of_length_le; omega
      rw [this]; exact Rat.le_refl
  · exact restOf_ge_self a S p


theorem mf_tt (w : W) (hx : XrOK w) (r0 M : Rat) (c : Bool) (hneg : false = (w.neg && !c)) :
    setExtension { ({ w with rest := r0 } : W) with neg := false, rest := M } = { (markW w c true) with rest := M } := by
  have hx' : XrOK { ({ w with rest := r0 } : W) with neg := false, rest := M } := hx
  apply W.ext'
  · rw [se_mag]; rfl
  · rw [se_neg]; exact hneg
  · rw [setExtension_backoff]; rfl
  · rw [se_xr _ hx']; simp [markW]
  · rw [se_rest]
theorem mf_ft (w : W) (r0 M : Rat) (c : Bool) (hneg : false = (w.neg && !c)) :
    { ({ w with rest := r0 } : W) with neg := false, rest := M } = { (markW w c false) with rest := M } := by
  apply W.ext'
  · rfl
  · exact hneg
  · rfl
  · simp [markW]
  · rfl
theorem mf_tf (w : W) (hx : XrOK w) (r0 : Rat) (c : Bool) (hneg : w.neg = (w.neg && !c)) :
    setExtension ({ w with rest := r0 } : W) = { (markW w c true) with rest := r0 } := by
  have hx' : XrOK ({ w with rest := r0 } : W) := hx
  apply W.ext'
  · rw [se_mag]; rfl
  · rw [se_neg]; exact hneg
  · rw [setExtension_backoff]; rfl
  · rw [se_xr _ hx']; simp [markW]
  · rw [se_rest]
theorem mf_ff (w : W) (r0 : Rat) (c : Bool) (hneg : w.neg = (w.neg && !c)) :
    ({ w with rest := r0 } : W) = { (markW w c false) with rest := r0 } := by
  apply W.ext'
  · rfl
  · exact hneg
  · rfl
  · simp [markW]
  · rfl

/-- **the per-line step under `MaxRestBuild`** for a line whose immediate suffix is stored: the line is inserted with
`rest = prob`; `MarkExtends` clears the sign of the suffix and raises its `rest`; `MarkLower` propagates the raise down
to the unigram (early exit justified by monotonicity); the context gets its extension bit -/
theorem step_closedT (combine : Nat → Word → Nat) (a : Arpa) (nWords : Nat) (um : Rat) (ok : ArpaOK' a nWords um) (caps : Nat → Nat)
    (S : List Key) (s : St) (p : Key) (e : Entry) (h : InvT combine a nWords caps S s) (si : SInv a S)
    (lc : LC combine a (initUni a nWords) a.order caps S p e) (hcl : 3 ≤ p.length → p.take (p.length - 1) ∈ S) :
    ∃ s', addLine combine true a.order s p e = .ok s' ∧ InvT combine a nWords caps (addLineKeys S p) s' := by
  obtain ⟨k0, hk0⟩ : ∃ k0, p.length = k0 + 2 := ⟨p.length - 2, by have := lc.n2; omega⟩
  have hN : k0 + 2 ≤ a.order := by rw [← hk0]; exact lc.nN
  have hmissing : missing S p (p.length - 1) = [] := missing_nil_of_mem S p _ (by
    by_cases h3 : 3 ≤ p.length
    · right; exact hcl h3
    · left; omega)
  have hS : addLineKeys S p = S ++ [p] := by simp [addLineKeys, hmissing]
  rw [hS]
  have hfreshp := lc.fresh p (Or.inr rfl)
  have hpS : p ∉ S := fun hp => hfreshp p ((mem_keysOf S _ p).mpr ⟨hp, rfl⟩) rfl
  have hcap : (keysOf S p.length).length + 1 < caps p.length := by
    have := lc.cap p.length
    rw [hS, keysOf_append_same S p _ rfl] at this
    simpa using this
  have hK1 : ∀ {k : Key}, (1 ≤ k.length ∧ k.length ≤ k0 ∧ k = p.take k.length) → p.take (k0 + 1) ∈ S := by
    intro k hL
    have := hcl (by omega)
    rw [hk0] at this
    exact this
  have hK : 1 ≤ k0 → p.take (k0 + 1) ∈ S := by
    intro h1
    have := hcl (by omega)
    rw [hk0] at this
    exact this
  have htl : ∀ j, j ≤ k0 + 2 → (p.take j).length = j := fun j hj => by rw [List.length_take]; omega
  have hpre : ∀ j, 2 ≤ j → j ≤ k0 + 1 → p.take j ∈ S := by
    intro j h2 hj
    have := si.take_mem _ (hK (by omega)) (k0 + 1 - j) j (by rw [htl _ (by omega)]; omega) h2
    rw [List.take_take, Nat.min_eq_left hj] at this
    exact this
  have hx : p.headD 0 < (initUni a nWords).length := by
    cases p with
    | nil => simp at hk0
    | cons x xs => exact lc.words x (by simp)
  have hval : (lineW e).rest = val a p := by
    rw [val_real a p e lc.n2 lc.nN lc.real]
    exact neg_abs_of_nonpos _ (ok.nonpos _ e lc.real)
  -- 1. Insert
  obtain ⟨s1, hins, h1⟩ := stP_insert h p e lc.n2 lc.nN (fun hm => hpS (keysOf_mem S _ p hm)) hfreshp hcap
  have h1' : StP combine a.order caps (initUni a nWords).length s1 (keysOf (S ++ [p]))
      (updW (wantT a (initUni a nWords) S) p (lineW e)) := by
    refine stP_congr h1 (fun m => ?_) (fun _ => rfl)
    by_cases hm : m = p.length
    · rw [if_pos hm, hm, keysOf_append_same S p _ rfl]
    · rw [if_neg hm, keysOf_append_other S p m (fun he => hm he.symm)]
  have hKs : ∀ j, j ≤ k0 + 1 → keysOf (S ++ [p]) j = keysOf S j := fun j hj => keysOf_append_other S p j (by omega)
  -- 2. FindLower: the suffix of order n-1 is found
  obtain ⟨s2, refs, Ks2, want2, hfl, h2, hKs2, hw2, hrl, hden⟩ := findLower_chain combine a.order caps (initUni a nWords).length p
    (k0 + 1) (by omega) k0 s1 _ _ [] h1' (by omega) (by omega) (by omega)
    (by by_cases h0 : k0 = 0
        · left; omega
        · right; rw [hKs _ (Nat.le_refl _)]; exact (mem_keysOf S _ _).mpr ⟨hK (by omega), htl _ (by omega)⟩)
    hx (by intro j h1 h2; omega)
  have h2' : StP combine a.order caps (initUni a nWords).length s2 (keysOf (S ++ [p]))
      (updW (wantT a (initUni a nWords) S) p (lineW e)) :=
    stP_congr h2 (fun m => by rw [hKs2 m, if_neg (by omega)]) (fun k => by rw [hw2 k, if_neg (by omega)])
  obtain ⟨r, hr⟩ : ∃ r, refs = [r] := by
    match refs, hrl with
    | [r], _ => exact ⟨r, rfl⟩
    | [], h => simp at h
    | _ :: _ :: _, h => simp at h
  subst hr
  have hdr : Den a.order (initUni a nWords).length (keysOf (S ++ [p])) r (p.take (k0 + 1)) := by
    have := hden 0 (by simp)
    simp only [List.getElem_cons_zero, Nat.sub_zero] at this
    exact den_congr (fun m => by rw [hKs2 m, if_neg (by omega)]) _ _ this
  -- 3. AdjustLower (single reference): MarkExtends with the line's rest
  have h3 := stP_modify h2' r _ hdr (fun w => (markExtends true w (lineW e).rest).1)
  have hget3 := stP_get h3 r _ hdr
  -- 4. MarkLower
  have hne : ∀ j, j ≤ k0 + 1 → p.take j ≠ p := by
    intro j hj he
    have := congrArg List.length he
    rw [htl j (by omega), hk0] at this; omega
  have hlow3 : ∀ j, j ≤ k0 → updW (updW (wantT a (initUni a nWords) S) p (lineW e)) (p.take (k0 + 1))
      ((fun w => (markExtends true w (lineW e).rest).1) (updW (wantT a (initUni a nWords) S) p (lineW e) (p.take (k0 + 1)))) (p.take j) =
      wantT a (initUni a nWords) S (p.take j) := by
    intro j hj
    have hne1 : p.take j ≠ p.take (k0 + 1) := by
      intro he
      have := congrArg List.length he
      rw [htl j (by omega), htl _ (by omega)] at this; omega
    simp only [updW, hne1, hne j (by omega), if_false]
  have hends : ∀ j, 1 ≤ j → j ≤ k0 → endsInK S (p.take j) = true := by
    intro j h1 hj
    rw [endsInK_true_iff]
    refine ⟨p.take (j + 1), hpre (j + 1) (by omega) (by omega), by rw [htl _ (by omega), htl _ (by omega)], ?_⟩
    rw [htl _ (by omega), List.take_take, Nat.min_eq_left (by omega)]
  obtain ⟨s4, hml, h4⟩ := markLower_chain combine a.order caps (initUni a nWords).length p (keysOf (S ++ [p]))
    (s2.modify r (fun w => (markExtends true w (lineW e).rest).1) |>.get r).rest k0 _ _ h3 (by omega) (by omega)
    (fun j h2 hj => by rw [hKs j (by omega)]; exact (mem_keysOf S j _).mpr ⟨hpre j h2 (by omega), htl j (by omega)⟩)
    (fun _ => hx)
    (fun j h1 hj => by
      rw [hlow3 (j + 1) (by omega), hlow3 j (by omega)]
      simp only [wantT]
      have := restOf_mono a S (p.take (j + 1)) j (Or.inl (hpre (j + 1) (by omega) (by omega)))
      rw [List.take_take, Nat.min_eq_left (by omega)] at this
      exact this)
    (fun j h1 hj => by
      rw [hlow3 j hj]
      simp only [wantT]
      exact wantAll_neg_false a _ S _ (hends j h1 hj))
  -- 5. Activate
  have hdrop : (p.drop 1).length = k0 + 1 := by rw [List.length_drop]; omega
  obtain ⟨s5, hact, h5⟩ : ∃ s5, activate combine p (k0 + 2) s4 = .ok s5 ∧ ∃ r', s5 = s4.modify r' setExtension ∧
      Den a.order (initUni a nWords).length (keysOf (S ++ [p])) r' (p.drop 1) := by
    by_cases h0 : k0 = 0
    · subst h0
      match p, hk0, lc.words with
      | [x, y], _, hw => exact ⟨s4.modify (.uni y) setExtension, by simp [activate], .uni y, rfl, ⟨by simp, hw y (by simp)⟩⟩
    · obtain ⟨ic, hdc, _, hfind⟩ := stP_lookup h4 (k0 + 1) (by omega) (by omega) (p.drop 1)
        (by rw [hKs _ (Nat.le_refl _)]; exact (mem_keysOf S _ _).mpr ⟨lc.ctx (by omega), hdrop⟩) blankW
      have he3 : k0 + 2 - 3 = k0 + 1 - 2 := by omega
      have hn2 : (k0 + 2 == 2) = false := by simp; omega
      exact ⟨_, by simp only [activate, hn2, Bool.false_eq_true, if_false, he3, hfind, bind, Except.bind], _, rfl, hdc⟩
  obtain ⟨r', hs5, hdr'⟩ := h5
  have h5' := stP_modify h4 r' _ hdr' setExtension
  rw [← hs5] at h5'
  refine ⟨s5, ?_, ?_⟩
  · rw [addLine_phasesT, hins, hk0]
    have he2 : k0 + 2 - 2 = k0 := by omega
    have hJ : k0 + 2 - [r].length - 1 = k0 := by simp
    have hgl : ([r] : List Ref).getLastD (.uni 0) = r := rfl
    simp only [bind, Except.bind, he2, hfl, List.nil_append, adjustLower, hJ, hgl]
    rw [hml]
    exact hact
  · have hlr : ((s2.modify r (fun w => (markExtends true w (lineW e).rest).1)).get r).rest =
        max (restOf a S (p.take (k0 + 1))) (val a p) := by
      rw [hget3]
      simp only [updW, if_true, hne _ (Nat.le_refl _), if_false, markExtends_true, wantT, hval]
    rw [hlr] at h5'
    have hmain : ∀ k, 1 ≤ k.length → (k ∈ S ++ [p] ∨ k.length = 1) →
        updW (fun k => if 1 ≤ k.length ∧ k.length ≤ k0 ∧ k = p.take k.length then
            (markExtends true (updW (updW (wantT a (initUni a nWords) S) p (lineW e)) (p.take (k0 + 1))
              ((fun w => (markExtends true w (lineW e).rest).1) (updW (wantT a (initUni a nWords) S) p (lineW e) (p.take (k0 + 1)))) k)
              (max (restOf a S (p.take (k0 + 1))) (val a p))).1
          else updW (updW (wantT a (initUni a nWords) S) p (lineW e)) (p.take (k0 + 1))
              ((fun w => (markExtends true w (lineW e).rest).1) (updW (wantT a (initUni a nWords) S) p (lineW e) (p.take (k0 + 1)))) k)
          (p.drop 1) (setExtension ((fun k => if 1 ≤ k.length ∧ k.length ≤ k0 ∧ k = p.take k.length then
            (markExtends true (updW (updW (wantT a (initUni a nWords) S) p (lineW e)) (p.take (k0 + 1))
              ((fun w => (markExtends true w (lineW e).rest).1) (updW (wantT a (initUni a nWords) S) p (lineW e) (p.take (k0 + 1)))) k)
              (max (restOf a S (p.take (k0 + 1))) (val a p))).1
          else updW (updW (wantT a (initUni a nWords) S) p (lineW e)) (p.take (k0 + 1))
              ((fun w => (markExtends true w (lineW e).rest).1) (updW (wantT a (initUni a nWords) S) p (lineW e) (p.take (k0 + 1)))) k)
            (p.drop 1))) k =
        wantT a (initUni a nWords) (S ++ [p]) k := by
      intro k hk1 _
      have hpD : p ≠ p.drop 1 := by
        intro he; have := congrArg List.length he; rw [hdrop, hk0] at this; omega
      by_cases hkp : k = p
      · -- the line itself
        subst hkp
        have c1 : ¬ (1 ≤ k.length ∧ k.length ≤ k0 ∧ k = k.take k.length) := by omega
        have c2 : k ≠ k.take (k0 + 1) := fun he => hne _ (Nat.le_refl _) he.symm
        simp only [updW, hpD, if_false, c1, c2, if_true]
        have hw : wantAll a (initUni a nWords) (S ++ [k]) k = lineW e := by
          unfold wantAll
          rw [if_neg (by omega)]
          exact wantW_real_new a S k e lc.real lc.asc
        have hr : restOf a (S ++ [k]) k = val a k := restOf_self_top a (S ++ [k]) k (by
          intro k' hk'
          rcases List.mem_append.mp hk' with h' | h'
          · exact lc.asc k' h'
          · simp at h'; rw [h']; exact Nat.le_refl _)
        apply W.ext' <;> simp only [wantT, hw, hr, hval]
      · -- every other key
        have hx := xrOK_wantAll a nWords S k
        have hw1 : ∀ k', k' ≠ p → updW (wantT a (initUni a nWords) S) p (lineW e) k' = wantT a (initUni a nWords) S k' := by
          intro k' h'; simp only [updW, h', if_false]
        -- the marks
        have hmark : (if 1 ≤ k.length ∧ k.length ≤ k0 ∧ k = p.take k.length then
            (markExtends true (updW (updW (wantT a (initUni a nWords) S) p (lineW e)) (p.take (k0 + 1))
              ((fun w => (markExtends true w (lineW e).rest).1) (updW (wantT a (initUni a nWords) S) p (lineW e) (p.take (k0 + 1)))) k)
              (max (restOf a S (p.take (k0 + 1))) (val a p))).1
          else updW (updW (wantT a (initUni a nWords) S) p (lineW e)) (p.take (k0 + 1))
              ((fun w => (markExtends true w (lineW e).rest).1) (updW (wantT a (initUni a nWords) S) p (lineW e) (p.take (k0 + 1)))) k) =
            if k.length ≤ k0 + 1 ∧ k = p.take k.length then
              { (wantT a (initUni a nWords) S k) with neg := false, rest := max (restOf a S k) (val a p) }
            else wantT a (initUni a nWords) S k := by
          by_cases hK : k = p.take (k0 + 1)
          · have hl : k.length = k0 + 1 := by rw [hK]; exact htl _ (by omega)
            rw [if_neg (by omega), if_pos ⟨by omega, by rw [hl]; exact hK⟩]
            simp only [updW, hK, if_true, hne _ (Nat.le_refl _), if_false, markExtends_true, hval, wantT]
          · by_cases hL : 1 ≤ k.length ∧ k.length ≤ k0 ∧ k = p.take k.length
            · rw [if_pos hL, if_pos ⟨by omega, hL.2.2⟩]
              have hKS := hK1 hL
              simp only [updW, hK, if_false, hkp, markExtends_true, wantT]
              have hm := restOf_mono a S (p.take (k0 + 1)) k.length (Or.inl hKS)
              rw [List.take_take, Nat.min_eq_left (by omega), ← hL.2.2] at hm
              have : max (restOf a S k) (max (restOf a S (p.take (k0 + 1))) (val a p)) = max (restOf a S k) (val a p) := by grind
              rw [this]
            · rw [if_neg hL, if_neg]
              · simp only [updW, hK, if_false, hkp]
              · rintro ⟨c1, c2⟩
                by_cases hl : k.length = k0 + 1
                · rw [hl] at c2; exact hK c2
                · exact hL ⟨hk1, by omega, c2⟩
        -- the target
        have hE : (p.length == k.length + 1 && p.take k.length == k) = decide (k.length = k0 + 1 ∧ k = p.take k.length) := by
          rw [hk0]
          by_cases hc : k.length = k0 + 1 ∧ k = p.take k.length
          · rw [decide_eq_true hc]
            simp only [Bool.and_eq_true, beq_iff_eq]
            exact ⟨by omega, hc.2.symm⟩
          · rw [decide_eq_false hc]
            by_cases hl : k.length = k0 + 1
            · have : ¬ (p.take k.length = k) := fun he => hc ⟨hl, he.symm⟩
              simp [this]
            · have : (k0 + 2 == k.length + 1) = false := by simp; omega
              rw [this]; rfl
        have hSx : (p.length == k.length + 1 && p.drop 1 == k) = decide (k = p.drop 1) := by
          by_cases hc : k = p.drop 1
          · rw [decide_eq_true hc, hc, hdrop, hk0]; simp
          · rw [decide_eq_false hc]
            have hB : (p.drop 1 == k) = false := by
              cases hb : (p.drop 1 == k) with
              | false => rfl
              | true => exact absurd (beq_iff_eq.mp hb).symm hc
            rw [hB, Bool.and_false]
        have hpre : k.isPrefixOf p = decide (k.length ≤ k0 + 1 ∧ k = p.take k.length) := by
          apply Bool.eq_iff_iff.mpr
          rw [List.isPrefixOf_iff_prefix, List.prefix_iff_eq_take, decide_eq_true_iff]
          constructor
          · intro he
            refine ⟨?_, he⟩
            have hle : k.length ≤ k0 + 2 := by
              have := congrArg List.length he
              rw [List.length_take, hk0] at this; omega
            by_cases hl : k.length = k0 + 2
            · exfalso; apply hkp; rw [he, hl, ← hk0, List.take_length]
            · omega
          · exact fun hc => hc.2
        have hT : wantT a (initUni a nWords) (S ++ [p]) k =
            { (markW (wantAll a (initUni a nWords) S k) (decide (k.length = k0 + 1 ∧ k = p.take k.length)) (decide (k = p.drop 1))) with
              rest := if decide (k.length ≤ k0 + 1 ∧ k = p.take k.length) = true then max (restOf a S k) (val a p) else restOf a S k } := by
          unfold wantT
          rw [wantAll_append, restOf_append, hE, hSx, hpre]
        rw [hT]
        have hnegP : (k.length ≤ k0 + 1 ∧ k = p.take k.length) → ¬ k.length = k0 + 1 →
            (wantAll a (initUni a nWords) S k).neg = false := by
          intro hc hl
          have := hends k.length hk1 (by omega)
          rw [← hc.2] at this
          exact wantAll_neg_false a _ S k this
        unfold updW
        unfold updW at hmark
        have hkk : decide (k = k) = true := by simp
        by_cases hD : k = p.drop 1
        · rw [if_pos hD, ← hD]
          dsimp only at hmark ⊢
          rw [hmark, hkk]
          by_cases hP : k.length ≤ k0 + 1 ∧ k = p.take k.length
          · have hl : k.length = k0 + 1 := by rw [hD]; exact hdrop
            rw [if_pos hP, decide_eq_true hP, decide_eq_true (⟨hl, hP.2⟩ : k.length = k0 + 1 ∧ k = p.take k.length), if_pos rfl]
            exact mf_tt _ hx _ _ true (by simp)
          · have hdc : decide (k.length = k0 + 1 ∧ k = p.take k.length) = false :=
              decide_eq_false (fun hc => hP ⟨by omega, hc.2⟩)
            rw [if_neg hP, decide_eq_false hP, hdc, if_neg (by simp)]
            exact mf_tf _ hx _ false (by simp)
        · rw [if_neg hD]
          dsimp only at hmark ⊢
          rw [hmark, decide_eq_false hD]
          by_cases hP : k.length ≤ k0 + 1 ∧ k = p.take k.length
          · rw [if_pos hP, decide_eq_true hP, if_pos rfl]
            by_cases hl : k.length = k0 + 1
            · rw [decide_eq_true (⟨hl, hP.2⟩ : k.length = k0 + 1 ∧ k = p.take k.length)]
              exact mf_ft _ _ _ true (by simp)
            · have hdc : decide (k.length = k0 + 1 ∧ k = p.take k.length) = false :=
                decide_eq_false (fun hc => hl hc.1)
              rw [hdc]
              exact mf_ft _ _ _ false (by rw [hnegP hP hl]; rfl)
          · have hdc : decide (k.length = k0 + 1 ∧ k = p.take k.length) = false :=
              decide_eq_false (fun hc => hP ⟨by omega, hc.2⟩)
            rw [if_neg hP, decide_eq_false hP, hdc, if_neg (by simp)]
            exact mf_ff _ _ false (by simp)
    exact stP_congr_on h5' (fun m k hk => hmain k (by
        have := keysOf_mem _ _ _ hk
        rcases List.mem_append.mp this with h' | h'
        · have := si.len2 k h'; omega
        · simp at h'; rw [h', hk0]; omega) (Or.inl (keysOf_mem _ _ _ hk)))
      (fun w => hmain [w] (by simp) (Or.inr rfl))

end KV.ProbingBuild
