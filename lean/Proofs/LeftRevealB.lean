import Proofs.LeftReveal
/-! `RevealBefore` (`lm/partial.hh:81-106`): revealing the right state of a preceding fragment `B` to a fragment `M`,
one word at a time and finally `reveal_full`, accumulates exactly  whole − parts. -/
namespace KV.Left
open KV.Arpa KV.Table KV.State KV.Score

variable {a : Arpa} {T : Table}

/-! ### sums -/

theorem dsum_congr {f g : Nat → Rat} : ∀ (n i : Nat), (∀ j, i ≤ j → j < i + n → f j = g j) → dsum f i n = dsum g i n := by
  intro n
  induction n with
  | zero => intro i _; rfl
  | succ n ih =>
    intro i h
    simp only [dsum]
    rw [h i (Nat.le_refl _) (by omega), ih (i+1) (fun j h1 h2 => h j (by omega) (by omega))]

theorem dsum_sub (f g : Nat → Rat) : ∀ (n i : Nat), dsum (fun j => f j - g j) i n = dsum f i n - dsum g i n := by
  intro n
  induction n with
  | zero => intro i; simp [dsum] <;> grind
  | succ n ih => intro i; simp only [dsum]; rw [ih (i+1)]; grind

/-- Σ_{i<L} R(w_0 … w_i preceded by the included context Q) -/
def psum (R : Ptr → Rat) (F Q : List Word) (L : Nat) : Rat := dsum (fun i => R (pre F i ++ Q)) 0 L

theorem specSeq_drop_split (F Q : List Word) : ∀ (n Lw : Nat), Lw + n ≤ F.length →
    specSeq a (gm1 F Lw ++ Q) (F.drop Lw) =
      dsum (fun i => score a (gm1 F i ++ Q) (F.getD i 0)) Lw n + specSeq a (gm1 F (Lw + n) ++ Q) (F.drop (Lw + n)) := by
  intro n
  induction n with
  | zero => intro Lw _; simp [dsum]; grind
  | succ n ih =>
    intro Lw h
    have hlt : Lw < F.length := by omega
    rw [drop_eq_cons F Lw hlt]
    simp only [specSeq, dsum]
    have e : F[Lw] :: (gm1 F Lw ++ Q) = gm1 F (Lw+1) ++ Q := by
      rw [gm1_succ F Lw hlt, pre_eq_cons F Lw hlt]; rfl
    rw [e, ih (Lw+1) (by omega), getD_getElem _ _ hlt]
    have e2 : Lw + 1 + n = Lw + (n + 1) := by omega
    rw [e2]; grind

/-- a state for any history: keep as many words as the order allows -/
theorem stateFor_exists (H : Hyp a T) (h : List Word) : ∃ s, StateFor a h s ∧ NormS s := by
  let n := min h.length (a.order - 1)
  refine ⟨{ length := n, words := h.take n, backoff := (List.range n).map (fun j => a.boW (h.take (j+1))) },
    ⟨Nat.min_le_left _ _, Nat.min_le_right _ _, by simp [List.take_take], by rw [List.take_of_length_le (by simp)], ?_⟩, ⟨by simp [n], by simp⟩⟩
  intro k hk1 hk2 hl
  have hk1' : n < k := hk1
  obtain ⟨e, he, hor⟩ := hl
  have hlen := H.wf.len_le _ (by simp [he] : a.gram (h.take k) ≠ none)
  have hN := H.wf.order_ge
  simp only [List.length_take] at hlen
  have hkN : k = a.order := by simp only [n] at hk1'; omega
  have hlen' : (h.take k).length = a.order := by simp only [List.length_take]; omega
  rcases hor with hb | ⟨x, hx⟩
  · exact hb (H.wf.top_bo _ e he hlen')
  · have := H.wf.len_le _ hx
    simp only [List.length_cons] at this
    omega

/-- reason (a) relative to an included context `Q`: the first word after the left state receives the back-offs of the
newly revealed contexts, the words after it nothing -/
theorem tail_aP (H : Hyp a T) (F Q h : List Word) (L nu : Nat) (hL : L < F.length) (hLN : L + Q.length + nu ≤ a.order - 1)
    (hnu : nu ≤ h.length)
    (hx : ∀ x, T.lookup (pre F L ++ Q ++ [x]) = none)
    (hD : ∀ k, nu < k → k ≤ h.length → ¬ live a (gm1 F L ++ Q ++ h.take k)) :
    specSeq a (gm1 F L ++ Q ++ h) (F.drop L) = specSeq a (gm1 F L ++ Q) (F.drop L) +
      rsum (fun j => a.boW (gm1 F L ++ Q ++ h.take (j+1))) 0 nu := by
  have hgl : (gm1 F L ++ Q).length = L + Q.length := by rw [List.length_append, gm1_length F L (by omega)]
  have hpc := pre_cons_P F Q L hL
  have hne : pre F L ++ Q ≠ [] := by rw [hpc]; simp
  rw [drop_eq_cons F L hL]
  simp only [specSeq]
  have htail : specSeq a (F[L] :: (gm1 F L ++ Q ++ h)) (F.drop (L+1)) = specSeq a (F[L] :: (gm1 F L ++ Q)) (F.drop (L+1)) := by
    have e : F[L] :: (gm1 F L ++ Q ++ h) = (pre F L ++ Q) ++ h := by rw [hpc]; simp
    rw [e, ← hpc]
    apply specSeq_dead H
    intro k hk1 hk2
    have := H.dead_of_no_ext hne hx [] (h.take k) (take_ne_nil hk1 hk2)
    simpa using this
  rw [htail]
  have hloc := score_local (a := a) F[L] (gm1 F L ++ Q) h (by rw [hgl]; omega) (by
    intro k hk1 hk2
    have := H.not_real_of_no_ext hne hx [] (h.take k) (take_ne_nil hk1 hk2)
    rw [hpc] at this
    simpa using this)
  rw [hloc, hgl]
  have hsplit : min h.length (a.order - 1 - (L + Q.length)) = nu + (min h.length (a.order - 1 - (L + Q.length)) - nu) := by omega
  rw [hsplit]
  have hz := rsum_zero_tail (f := fun j => a.boW (gm1 F L ++ Q ++ h.take (j+1))) (lo := 0) (d := nu)
    (e := min h.length (a.order - 1 - (L + Q.length)) - nu) (by
      intro j h1 h2
      exact boW_zero_of_dead (hD (j+1) (by omega) (by omega)))
  rw [hz]
  grind


theorem dsum_snoc (f : Nat → Rat) (L : Nat) : dsum f 0 (L+1) = dsum f 0 L + f L := by
  rw [dsum_add f L 1 0]
  simp only [Nat.zero_add, dsum]; grind

theorem psum_nil (R : Ptr → Rat) (F : List Word) : ∀ L, psum R F [] L = restSum R F L := by
  intro L
  induction L with
  | zero => rfl
  | succ L ih =>
    unfold psum at ih ⊢
    rw [dsum_snoc, ih]
    simp [restSum]

/-- why `M`'s left state is complete, relative to the included context `P` -/
def ClosedP (T : Table) (M P : List Word) (Lk : Nat) : Prop :=
  (Lk < M.length ∧ ∀ y, T.lookup (pre M Lk ++ P ++ [y]) = none) ∨
  (Lk = M.length ∧ ∃ j, 1 ≤ j ∧ j ≤ M.length + P.length ∧ T.xr ((M.reverse ++ P).take j) = false) ∨
  (Lk = M.length ∧ Lk + P.length = T.order - 1)

/-- protocol invariant after `k` words of `B`'s right state (`bw = B.reverse`) have been revealed to `M` -/
structure PB (a : Arpa) (T : Table) (R : Ptr → Rat) (M : List Word) (pM : Rat) (bw : List Word) (k Lk : Nat)
    (left : LeftSt) (right : State) (acc : Rat) : Prop where
  ptrs : left.pointers = (List.range Lk).map (fun i => pre M i ++ bw.take k)
  xl : ∀ i, i < Lk → T.xl (pre M i ++ bw.take k) = true
  Lk_le : Lk ≤ M.length
  bound : Lk + k ≤ a.order - 1
  score : pM + acc = psum R M (bw.take k) Lk + specSeq a (gm1 M Lk ++ bw.take k) (M.drop Lk)
  open_ : left.full = false → Lk = M.length ∧ right.length = M.length + k ∧
    right.words.take right.length = M.reverse ++ bw.take k ∧
    right.backoff.take right.length = (List.range (M.length + k)).map (fun j => a.boW ((M.reverse ++ bw.take k).take (j+1)))
  closed : left.full = true → ClosedP T M (bw.take k) Lk

theorem PB.init (R : Ptr → Rat) {M : List Word} {Lm : Nat} {cM : Chart} {pM : Rat} (GM : FragC a T R M Lm cM pM) (bw : List Word) :
    PB a T R M pM bw 0 Lm cM.left cM.right 0 := by
  have sf := GM.right_for
  refine ⟨by rw [GM.ptrs]; simp, fun i hi => by simpa using GM.ptr_xl i hi, GM.L_le, by have := GM.L_lt; omega, ?_, ?_, ?_⟩
  · rw [GM.prob_eq]; simp only [List.take_zero, List.append_nil, psum_nil, gm1]; grind
  · intro hf
    obtain ⟨h1, h2⟩ := GM.open_ hf
    refine ⟨h1, by omega, ?_, ?_⟩
    · rw [sf.words, h2, List.take_of_length_le (by simp)]; simp
    · rw [sf.backoff, h2]; simp
  · intro hf
    rcases GM.closed hf with ⟨h1, h2⟩ | ⟨h1, _, j, hj1, hj2, h3⟩ | ⟨h1, h2⟩
    · left; exact ⟨h1, by simpa using h2⟩
    · right; left; exact ⟨h1, j, hj1, by simpa using hj2, by simpa using h3⟩
    · right; right; exact ⟨h1, by simpa using h2⟩

/-- the closure witness of the write loop, as closure relative to the longer included context -/
theorem closedP_of_cn (H : Hyp a T) (M P : List Word) (x : Word) (Lw : Nat) (hLw : Lw ≤ M.length)
    (hcn : CN T M P [x] Lw) : ClosedP T M (P ++ [x]) Lw := by
  rcases hcn with ⟨h1, h2⟩ | ⟨h1, h2⟩
  · left; exact ⟨h1, fun y => by have := h2 y; simpa only [List.append_assoc] using this⟩
  · by_cases hlt : Lw < M.length
    · left
      refine ⟨hlt, ?_⟩
      intro y
      have hgm : gm1 M Lw = pre M (Lw - 1) := by
        cases Lw with
        | zero => omega
        | succ n => simp [gm1_succ M n (by omega)]
      have hg : pre M Lw = M[Lw] :: pre M (Lw - 1) := by
        rw [pre_eq_cons M Lw hlt, hgm]
      have hne : pre M (Lw-1) ++ P ++ [x] ≠ [] := by simp
      have hnone : T.lookup (M[Lw] :: (pre M (Lw-1) ++ P ++ [x])) = none := by
        apply Classical.byContradiction; intro hc
        have := H.marks _ M[Lw] hne hc
        rw [h2] at this; cases this
      have := lookup_none_extend H.ok [y] _ (by simp) hnone
      rw [hg]
      simpa only [List.cons_append, List.append_assoc] using this
    · right; left
      have hLwe : Lw = M.length := by omega
      refine ⟨hLwe, M.length + (P ++ [x]).length, by simp; omega, Nat.le_refl _, ?_⟩
      rw [List.take_of_length_le (by simp)]
      have : pre M (Lw - 1) = M.reverse := by
        unfold pre
        rw [List.take_of_length_le (by omega)]
      rw [this] at h2
      simpa only [List.append_assoc] using h2

end KV.Left
