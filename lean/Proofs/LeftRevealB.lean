import Proofs.LeftReveal
/-! `RevealBefore` (`lm/partial.hh:81-106`): revealing the right state of a preceding fragment `B` to a fragment `M`,
one word at a time and finally `reveal_full`, accumulates exactly  whole − parts. -/
namespace KV.Left
open KV.Arpa KV.Table KV.State KV.Score

variable {a : Arpa} {T : Table}

/-! ### sums -/

theorem dsum_congr {f g : Nat → Rat} : ∀ (n i : Nat), (∀ j, i ≤ j → j < i + n → f j = g j) → dsum f i n = dsum g i n := by
  intro n
  induction n with
  | zero => intro i _; rfl
  | succ n ih =>
    intro i h
    simp only [dsum]
    rw [h i (Nat.le_refl _) (by omega), ih (i+1) (fun j h1 h2 => h j (by omega) (by omega))]

theorem dsum_sub (f g : Nat → Rat) : ∀ (n i : Nat), dsum (fun j => f j - g j) i n = dsum f i n - dsum g i n := by
  intro n
  induction n with
  | zero => intro i; simp [dsum] <;> grind
  | succ n ih => intro i; simp only [dsum]; rw [ih (i+1)]; grind

/-- Σ_{i<L} R(w_0 … w_i preceded by the included context Q) -/
def psum (R : Ptr → Rat) (F Q : List Word) (L : Nat) : Rat := dsum (fun i => R (pre F i ++ Q)) 0 L

theorem specSeq_drop_split (F Q : List Word) : ∀ (n Lw : Nat), Lw + n ≤ F.length →
    specSeq a (gm1 F Lw ++ Q) (F.drop Lw) =
      dsum (fun i => score a (gm1 F i ++ Q) (F.getD i 0)) Lw n + specSeq a (gm1 F (Lw + n) ++ Q) (F.drop (Lw + n)) := by
  intro n
  induction n with
  | zero => intro Lw _; simp [dsum]; grind
  | succ n ih =>
    intro Lw h
    have hlt : Lw < F.length := by omega
    rw [drop_eq_cons F Lw hlt]
    simp only [specSeq, dsum]
    have e : F[Lw] :: (gm1 F Lw ++ Q) = gm1 F (Lw+1) ++ Q := by
      rw [gm1_succ F Lw hlt, pre_eq_cons F Lw hlt]; rfl
    rw [e, ih (Lw+1) (by omega), getD_getElem _ _ hlt]
    have e2 : Lw + 1 + n = Lw + (n + 1) := by omega
    rw [e2]; grind

/-- a state for any history: keep as many words as the order allows -/
theorem stateFor_exists (H : Hyp a T) (h : List Word) : ∃ s, StateFor a h s ∧ NormS s := by
  let n := min h.length (a.order - 1)
  refine ⟨{ length := n, words := h.take n, backoff := (List.range n).map (fun j => a.boW (h.take (j+1))) },
    ⟨Nat.min_le_left _ _, Nat.min_le_right _ _, by simp [List.take_take], by rw [List.take_of_length_le (by simp)], ?_⟩, ⟨by simp [n], by simp⟩⟩
  intro k hk1 hk2 hl
  have hk1' : n < k := hk1
  obtain ⟨e, he, hor⟩ := hl
  have hlen := H.wf.len_le _ (by simp [he] : a.gram (h.take k) ≠ none)
  have hN := H.wf.order_ge
  simp only [List.length_take] at hlen
  have hkN : k = a.order := by simp only [n] at hk1'; omega
  have hlen' : (h.take k).length = a.order := by simp only [List.length_take]; omega
  rcases hor with hb | ⟨x, hx⟩
  · exact hb (H.wf.top_bo _ e he hlen')
  · have := H.wf.len_le _ hx
    simp only [List.length_cons] at this
    omega

/-- reason (a) relative to an included context `Q`: the first word after the left state receives the back-offs of the
newly revealed contexts, the words after it nothing -/
theorem tail_aP (H : Hyp a T) (F Q h : List Word) (L nu : Nat) (hL : L < F.length) (hLN : L + Q.length + nu ≤ a.order - 1)
    (hnu : nu ≤ h.length)
    (hx : ∀ x, T.lookup (pre F L ++ Q ++ [x]) = none)
    (hD : ∀ k, nu < k → k ≤ h.length → ¬ live a (gm1 F L ++ Q ++ h.take k)) :
    specSeq a (gm1 F L ++ Q ++ h) (F.drop L) = specSeq a (gm1 F L ++ Q) (F.drop L) +
      rsum (fun j => a.boW (gm1 F L ++ Q ++ h.take (j+1))) 0 nu := by
  have hgl : (gm1 F L ++ Q).length = L + Q.length := by rw [List.length_append, gm1_length F L (by omega)]
  have hpc := pre_cons_P F Q L hL
  have hne : pre F L ++ Q ≠ [] := by rw [hpc]; simp
  rw [drop_eq_cons F L hL]
  simp only [specSeq]
  have htail : specSeq a (F[L] :: (gm1 F L ++ Q ++ h)) (F.drop (L+1)) = specSeq a (F[L] :: (gm1 F L ++ Q)) (F.drop (L+1)) := by
    have e : F[L] :: (gm1 F L ++ Q ++ h) = (pre F L ++ Q) ++ h := by rw [hpc]; simp
    rw [e, ← hpc]
    apply specSeq_dead H
    intro k hk1 hk2
    have := H.dead_of_no_ext hne hx [] (h.take k) (take_ne_nil hk1 hk2)
    simpa using this
  rw [htail]
  have hloc := score_local (a := a) F[L] (gm1 F L ++ Q) h (by rw [hgl]; omega) (by
    intro k hk1 hk2
    have := H.not_real_of_no_ext hne hx [] (h.take k) (take_ne_nil hk1 hk2)
    rw [hpc] at this
    simpa using this)
  rw [hloc, hgl]
  have hsplit : min h.length (a.order - 1 - (L + Q.length)) = nu + (min h.length (a.order - 1 - (L + Q.length)) - nu) := by omega
  rw [hsplit]
  have hz := rsum_zero_tail (f := fun j => a.boW (gm1 F L ++ Q ++ h.take (j+1))) (lo := 0) (d := nu)
    (e := min h.length (a.order - 1 - (L + Q.length)) - nu) (by
      intro j h1 h2
      exact boW_zero_of_dead (hD (j+1) (by omega) (by omega)))
  rw [hz]
  grind


theorem dsum_snoc (f : Nat → Rat) (L : Nat) : dsum f 0 (L+1) = dsum f 0 L + f L := by
  rw [dsum_add f L 1 0]
  simp only [Nat.zero_add, dsum]; grind

theorem psum_nil (R : Ptr → Rat) (F : List Word) : ∀ L, psum R F [] L = restSum R F L := by
  intro L
  induction L with
  | zero => rfl
  | succ L ih =>
    unfold psum at ih ⊢
    rw [dsum_snoc, ih]
    simp [restSum]

/-- why `M`'s left state is complete, relative to the included context `P` -/
def ClosedP (T : Table) (M P : List Word) (Lk : Nat) : Prop :=
  (Lk < M.length ∧ ∀ y, T.lookup (pre M Lk ++ P ++ [y]) = none) ∨
  (Lk = M.length ∧ ∃ j, 1 ≤ j ∧ j ≤ M.length + P.length ∧ T.xr ((M.reverse ++ P).take j) = false) ∨
  (Lk = M.length ∧ Lk + P.length = T.order - 1)

/-- protocol invariant after `k` words of `B`'s right state (`bw = B.reverse`) have been revealed to `M` -/
structure PB (a : Arpa) (T : Table) (R : Ptr → Rat) (M : List Word) (pM : Rat) (bw : List Word) (k Lk : Nat)
    (left : LeftSt) (right : State) (acc : Rat) : Prop where
  ptrs : left.pointers = (List.range Lk).map (fun i => pre M i ++ bw.take k)
  xl : ∀ i, i < Lk → T.xl (pre M i ++ bw.take k) = true
  Lk_le : Lk ≤ M.length
  bound : Lk + k ≤ a.order - 1
  score : pM + acc = psum R M (bw.take k) Lk + specSeq a (gm1 M Lk ++ bw.take k) (M.drop Lk)
  open_ : left.full = false → Lk = M.length ∧ right.length = M.length + k ∧
    right.words.take right.length = M.reverse ++ bw.take k ∧
    right.backoff.take right.length = (List.range (M.length + k)).map (fun j => a.boW ((M.reverse ++ bw.take k).take (j+1)))
  closed : left.full = true → ClosedP T M (bw.take k) Lk

theorem PB.init (R : Ptr → Rat) {M : List Word} {Lm : Nat} {cM : Chart} {pM : Rat} (GM : FragC a T R M Lm cM pM) (bw : List Word) :
    PB a T R M pM bw 0 Lm cM.left cM.right 0 := by
  have sf := GM.right_for
  refine ⟨by rw [GM.ptrs]; simp, fun i hi => by simpa using GM.ptr_xl i hi, GM.L_le, by have := GM.L_lt; omega, ?_, ?_, ?_⟩
  · rw [GM.prob_eq]; simp only [List.take_zero, List.append_nil, psum_nil, gm1]; grind
  · intro hf
    obtain ⟨h1, h2⟩ := GM.open_ hf
    refine ⟨h1, by omega, ?_, ?_⟩
    · rw [sf.words, h2, List.take_of_length_le (by simp)]; simp
    · rw [sf.backoff, h2]; simp
  · intro hf
    rcases GM.closed hf with ⟨h1, h2⟩ | ⟨h1, _, j, hj1, hj2, h3⟩ | ⟨h1, h2⟩
    · left; exact ⟨h1, by simpa using h2⟩
    · right; left; exact ⟨h1, j, hj1, by simpa using hj2, by simpa using h3⟩
    · right; right; exact ⟨h1, by simpa using h2⟩

/-- the closure witness of the write loop, as closure relative to the longer included context -/
theorem closedP_of_cn (H : Hyp a T) (M P : List Word) (x : Word) (Lw : Nat) (hLw : Lw ≤ M.length)
    (hcn : CN T M P [x] Lw) : ClosedP T M (P ++ [x]) Lw := by
  rcases hcn with ⟨h1, h2⟩ | ⟨h1, h2⟩
  · left; exact ⟨h1, fun y => by have := h2 y; simpa only [List.append_assoc] using this⟩
  · by_cases hlt : Lw < M.length
    · left
      refine ⟨hlt, ?_⟩
      intro y
      have hgm : gm1 M Lw = pre M (Lw - 1) := by
        cases Lw with
        | zero => omega
        | succ n => simp [gm1_succ M n (by omega)]
      have hg : pre M Lw = M[Lw] :: pre M (Lw - 1) := by
        rw [pre_eq_cons M Lw hlt, hgm]
      have hne : pre M (Lw-1) ++ P ++ [x] ≠ [] := by simp
      have hnone : T.lookup (M[Lw] :: (pre M (Lw-1) ++ P ++ [x])) = none := by
        apply Classical.byContradiction; intro hc
        have := H.marks _ M[Lw] hne hc
        rw [h2] at this; cases this
      have := lookup_none_extend H.ok [y] _ (by simp) hnone
      rw [hg]
      simpa only [List.cons_append, List.append_assoc] using this
    · right; left
      have hLwe : Lw = M.length := by omega
      refine ⟨hLwe, M.length + (P ++ [x]).length, by simp; omega, Nat.le_refl _, ?_⟩
      rw [List.take_of_length_le (by simp)]
      have : pre M (Lw - 1) = M.reverse := by
        unfold pre
        rw [List.take_of_length_le (by omega)]
      rw [this] at h2
      simpa only [List.append_assoc] using h2


theorem take_succ_snoc (bw : List Word) (k : Nat) (hk : k < bw.length) : bw.take (k+1) = bw.take k ++ [bw[k]] :=
  List.take_succ_eq_append_getElem hk

/-- **one `RevealBefore` call** (word `k` of the preceding fragment's right state, `reveal_full = false`) -/
theorem revealBefore_step (H : Hyp a T) (R : Ptr → Rat) {B M : List Word} {Lb : Nat} {cB : Chart} {pB pM : Rat}
    (GB : FragC a T R B Lb cB pB) {k Lk : Nat} {left : LeftSt} {right : State} {acc : Rat}
    (I : PB a T R M pM B.reverse k Lk left right acc) (hk : k < cB.right.length) :
    ∃ Lk', PB a T R M pM B.reverse (k+1) Lk'
      (revealBefore T R { cB.right with length := k + 1 } k false left right).2.1
      (revealBefore T R { cB.right with length := k + 1 } k false left right).2.2
      (acc + (revealBefore T R { cB.right with length := k + 1 } k false left right).1) := by
  have hord : T.order = a.order := H.tf.order_eq
  have hN2 := H.wf.order_ge
  have sfB := GB.right_for
  generalize hbw : B.reverse = bw at I sfB ⊢
  have hnb : cB.right.length ≤ bw.length := sfB.len_le_h
  have hnbN : cB.right.length ≤ a.order - 1 := sfB.len_le_N
  have hkb : k < bw.length := by omega
  have hP' : bw.take (k+1) = bw.take k ++ [bw[k]] := take_succ_snoc bw k hkb
  have hPl : (bw.take k).length = k := by rw [List.length_take]; omega
  have hwords : cB.right.words.take (k+1) = bw.take (k+1) := by
    have e : cB.right.words.take (k+1) = (cB.right.words.take cB.right.length).take (k+1) := by
      rw [List.take_take, Nat.min_eq_left (by omega)]
    rw [e, sfB.words, List.take_take, Nat.min_eq_left (by omega)]
  have hbacks : (cB.right.backoff.take (k+1)).drop k = [a.boW (bw.take (k+1))] := by
    have e : cB.right.backoff.take (k+1) = (cB.right.backoff.take cB.right.length).take (k+1) := by
      rw [List.take_take, Nat.min_eq_left (by omega)]
    rw [e, sfB.backoff, ← List.map_take, List.take_range, Nat.min_eq_left (by omega), List.range_succ, List.map_append,
      List.drop_append_of_le_length (by simp), List.drop_of_length_le (by simp)]
    rfl
  generalize hx : bw[k] = x at hP'
  -- the revealed word and its back-off
  have hadd : (({ cB.right with length := k + 1 } : State).words.take (k+1)).drop k = [x] := by
    show (cB.right.words.take (k+1)).drop k = [x]
    rw [hwords, hP', List.drop_append_of_le_length (by omega), List.drop_of_length_le (by omega)]
    rfl
  have hbo : (({ cB.right with length := k + 1 } : State).backoff.take (k+1)).drop k = [a.boW (bw.take (k+1))] := hbacks
  have C : LoopCtx a T M (bw.take k) [x] Lk 1 :=
    ⟨I.Lk_le, I.xl, by rw [hPl]; exact I.bound, by simp⟩
  have I0 : InvL a M (bw.take k) [x] 1 0 { nextUse := 1, backIn := [a.boW (bw.take (k+1))].take 1 } := by
    refine ⟨Nat.le_refl _, by rw [hPl]; show 0 + k + 1 + 1 ≤ a.order; omega, ?_, fun kk h1 h2 => by
      have h1' : 1 < kk := h1
      simp at h2; omega⟩
    show ([a.boW (bw.take (k+1))].take 1).take 1 = _
    simp [gm1, hP']
  obtain ⟨Lw, s1, s2, s3, s4, s5, s6, s7, s8, s9⟩ :=
    extendLoop_sem H R C k 0 (by rw [hPl]; simp) (Nat.zero_le _) [a.boW (bw.take (k+1))] I0 true (fun _ => by simp)
  have hptrs0 : left.pointers = ((List.range Lk).map (fun i => pre M i ++ (bw.take k))).drop 0 := by rw [I.ptrs]; rfl
  unfold revealBefore
  dsimp only
  rw [hadd, hbo, hptrs0]
  simp only [Bool.not_false]
  have htk : ([x] : List Word).take 1 = [x] := rfl
  rw [htk] at s4 s7 s8 s9
  generalize extendLoop T R k [x] [a.boW (bw.take (k+1))] (((List.range Lk).map (fun i => pre M i ++ (bw.take k))).drop 0) true = v
    at s4 s7 s8 s9 ⊢
  simp only [Bool.false_eq_true, if_false]
  have hext : ∀ i, pre M i ++ (bw.take k) ++ [x] = pre M i ++ bw.take (k+1) := by intro i; rw [hP', List.append_assoc]
  have hwritten : v.written = (List.range Lw).map (fun i => pre M i ++ bw.take (k+1)) := by
    rw [s4]; simp only [List.drop_zero]
    apply List.map_congr_left; intro i _; exact hext i
  have hxl' : ∀ i, i < Lw → T.xl (pre M i ++ bw.take (k+1)) = true := by
    intro i hi; rw [← hext i]; exact s5 i (Nat.zero_le _) hi
  have hbound' : Lw + (k+1) ≤ a.order - 1 := by
    by_cases hpos : 0 < Lw
    · have := s6 hpos; rw [hPl] at this; simp only [List.length_singleton] at this; omega
    · omega
  have hLwM : Lw ≤ M.length := by have := I.Lk_le; omega
  have hnu1 : v.nextUse ≤ 1 := s7.nu_le
  -- the score bookkeeping, up to the part after the old left state
  have hscore : ∀ tailAdj : Rat,
      specSeq a (gm1 M Lk ++ (bw.take k)) (M.drop Lk) + tailAdj = specSeq a (gm1 M Lk ++ bw.take (k+1)) (M.drop Lk) →
      pM + (acc + (v.adjust + tailAdj)) = psum R M (bw.take (k+1)) Lw + specSeq a (gm1 M Lw ++ bw.take (k+1)) (M.drop Lw) := by
    intro tailAdj htail
    have hsp := specSeq_drop_split (a := a) M (bw.take (k+1)) (Lk - Lw) Lw (by have := I.Lk_le; omega)
    have e1 : Lw + (Lk - Lw) = Lk := by omega
    rw [e1] at hsp
    rw [hsp, ← htail, s8]
    have hsc := I.score
    have hps : psum R M (bw.take k) Lk = dsum (fun i => R (pre M i ++ (bw.take k))) 0 Lw + dsum (fun i => R (pre M i ++ (bw.take k))) Lw (Lk - Lw) := by
      unfold psum
      have := dsum_add (fun i => R (pre M i ++ (bw.take k))) Lw (Lk - Lw) 0
      rw [e1, Nat.zero_add] at this
      exact this
    have ho : dsum (openTerm R M (bw.take k) [x]) 0 (Lw - 0) = psum R M (bw.take (k+1)) Lw - dsum (fun i => R (pre M i ++ (bw.take k))) 0 Lw := by
      unfold psum
      rw [Nat.sub_zero, ← dsum_sub]
      apply dsum_congr
      intro j _ _
      simp only [openTerm, hext]
    have hd : dsum (doneTerm a R M (bw.take k) [x]) Lw (Lk - Lw) =
        dsum (fun i => score a (gm1 M i ++ bw.take (k+1)) (M.getD i 0)) Lw (Lk - Lw) - dsum (fun i => R (pre M i ++ (bw.take k))) Lw (Lk - Lw) := by
      rw [← dsum_sub]
      apply dsum_congr
      intro j _ _
      simp only [doneTerm, hP', List.append_assoc]
    rw [ho, hd]
    have hsc' : pM + acc = psum R M (bw.take k) Lk + specSeq a (gm1 M Lk ++ (bw.take k)) (M.drop Lk) := hsc
    rw [hps] at hsc'
    grind
  have hLkdrop : Lk = M.length → ∀ ctx, specSeq a ctx (M.drop Lk) = 0 := by
    intro h1 ctx; rw [h1, List.drop_eq_nil_of_le (Nat.le_refl _)]; rfl
  by_cases hfull : left.full = true
  · -- complete already: the back-offs of the new contexts go to the first word after the left state
    simp only [hfull, if_true]
    have hback : (v.backIn.take v.nextUse).sum = rsum (fun j => a.boW (gm1 M Lk ++ (bw.take k) ++ [x].take (j+1))) 0 v.nextUse := by
      rw [s7.back, sum_range_map]
    have htail : specSeq a (gm1 M Lk ++ (bw.take k)) (M.drop Lk) + (v.backIn.take v.nextUse).sum =
        specSeq a (gm1 M Lk ++ bw.take (k+1)) (M.drop Lk) := by
      rw [hback, hP', ← List.append_assoc]
      rcases I.closed hfull with ⟨h1, h2⟩ | ⟨h1, j, hj1, hj2, h3⟩ | ⟨h1, h2⟩
      · exact (tail_aP H M (bw.take k) [x] Lk v.nextUse h1 (by have := s7.hN; omega) (by simpa using hnu1) h2 s7.dead).symm
      · rw [hLkdrop h1, hLkdrop h1]
        have hz : rsum (fun j => a.boW (gm1 M Lk ++ (bw.take k) ++ [x].take (j+1))) 0 v.nextUse = 0 := by
          apply rsum_zero
          intro i _ hi
          apply boW_zero_of_dead
          have hg : gm1 M Lk = M.reverse := by unfold gm1; rw [h1, List.take_of_length_le (Nat.le_refl _)]
          rw [hg]
          have hne : (M.reverse ++ (bw.take k)).take j ≠ [] := take_ne_nil hj1 (by simpa using hj2)
          have := H.dead_of_not_xr hne h3 ((M.reverse ++ (bw.take k)).drop j ++ [x].take (i+1))
          rwa [← List.append_assoc, List.take_append_drop] at this
        rw [hz]; grind
      · have : v.nextUse = 0 := by have := s7.hN; rw [hord] at h2; omega
        rw [this, hLkdrop h1, hLkdrop h1]; simp [rsum] <;> grind
    have hcl : ClosedP T M (bw.take (k+1)) Lw := by
      rw [hP']
      rcases s9 with ⟨m1, m2⟩ | ⟨_, _, m3⟩
      · obtain ⟨m3, _⟩ := m2 rfl
        -- every pointer was extended by the whole new word: the old reason carries over
        rw [m3]
        rcases I.closed hfull with ⟨h1, h2⟩ | ⟨h1, j, hj1, hj2, h3⟩ | ⟨h1, h2⟩
        · left
          refine ⟨h1, fun y => ?_⟩
          have := lookup_none_extend H.ok [y] _ (by rw [pre_cons_P M (bw.take k) Lk h1]; simp) (h2 x)
          simpa only [List.append_assoc] using this
        · right; left
          refine ⟨h1, j, hj1, by simp; omega, ?_⟩
          rw [← List.append_assoc, List.take_append_of_le_length (by simpa using hj2)]; exact h3
        · rw [hord] at h2
          by_cases hpos : 0 < Lw
          · have := s6 hpos; rw [hPl] at this; simp at this; omega
          · omega
      · exact closedP_of_cn H M (bw.take k) x Lw hLwM m3.toCN
    refine ⟨Lw, ⟨hwritten, hxl', hLwM, hbound', hscore _ htail, (fun hc => by cases hc), fun _ => hcl⟩⟩
  · have hopen : left.full = false := by simpa using hfull
    obtain ⟨o1, o2, o3, o4⟩ := I.open_ hopen
    simp only [hopen, Bool.false_eq_true, if_false]
    have htail : specSeq a (gm1 M Lk ++ (bw.take k)) (M.drop Lk) + 0 = specSeq a (gm1 M Lk ++ bw.take (k+1)) (M.drop Lk) := by
      rw [hLkdrop o1, hLkdrop o1]; grind
    have hsc := hscore 0 htail
    refine ⟨Lw, ⟨hwritten, hxl', hLwM, hbound', by rw [← hsc]; grind, ?_, ?_⟩⟩
    · intro hc
      have hc' : ((v.makeFull || v.written.length == T.order - 1) || (right.length + v.nextUse) == T.order - 1) = false := hc
      simp only [Bool.or_eq_false_iff] at hc'
      obtain ⟨⟨hc1, _⟩, _⟩ := hc'
      rcases s9 with ⟨_, m2⟩ | ⟨m1, _⟩
      · obtain ⟨m3, m4⟩ := m2 rfl
        have hg : gm1 M Lk = M.reverse := by unfold gm1; rw [o1, List.take_of_length_le (Nat.le_refl _)]
        have hb1 : v.backIn.take 1 = [a.boW (M.reverse ++ bw.take (k+1))] := by
          have := s7.back
          rw [m4, hg] at this
          rw [this, hP']; simp
        refine ⟨by omega, by show right.length + v.nextUse = _; rw [m4, o2]; omega, ?_, ?_⟩
        · show (right.words.take right.length ++ [x].take v.nextUse).take (right.length + v.nextUse) = _
          rw [m4, o3, hP']
          have hl : (M.reverse ++ (bw.take k) ++ [x].take 1).length = right.length + 1 := by simp [hPl, o2]; omega
          rw [List.take_of_length_le (by omega)]; simp
        · show (right.backoff.take right.length ++ v.backIn.take v.nextUse).take (right.length + v.nextUse) = _
          rw [m4, o4, hb1]
          have hlenfull : (M.reverse ++ bw.take (k+1)).length = M.length + k + 1 := by
            rw [hP']; simp only [List.length_append, List.length_reverse, hPl, List.length_singleton]; omega
          have hl : ((List.range (M.length + k)).map (fun j => a.boW ((M.reverse ++ bw.take k).take (j+1))) ++
              [a.boW (M.reverse ++ bw.take (k+1))]).length = right.length + 1 := by simp [o2]
          rw [List.take_of_length_le (by omega)]
          have hsame : ∀ j, j < M.length + k →
              (M.reverse ++ bw.take (k+1)).take (j+1) = (M.reverse ++ bw.take k).take (j+1) := by
            intro j hj
            rw [hP', ← List.append_assoc, List.take_append_of_le_length (by
              simp only [List.length_append, List.length_reverse, hPl]; omega)]
          have hlast : (M.reverse ++ bw.take (k+1)).take (M.length + k + 1) = M.reverse ++ bw.take (k+1) :=
            List.take_of_length_le (by omega)
          have e : M.length + (k+1) = (M.length + k) + 1 := by omega
          rw [e, List.range_succ, List.map_append]
          congr 1
          · apply List.map_congr_left
            intro j hj
            have hj' : j < M.length + k := by simpa using hj
            rw [hsame j hj']
          · simp only [List.map_cons, List.map_nil]
            rw [hlast]
      · rw [m1] at hc1; cases hc1
    · intro hc
      have hc' : ((v.makeFull || v.written.length == T.order - 1) || (right.length + v.nextUse) == T.order - 1) = true := hc
      rw [hP']
      rcases s9 with ⟨m1, m2⟩ | ⟨_, _, m3⟩
      · obtain ⟨m3, m4⟩ := m2 rfl
        right; right
        refine ⟨by omega, ?_⟩
        rw [m1, hwritten] at hc'
        simp only [Bool.false_or, Bool.or_eq_true, beq_iff_eq, List.length_map, List.length_range] at hc'
        simp only [List.length_append, hPl, List.length_singleton]
        rcases hc' with hc' | hc'
        · rw [hord] at hc'
          have := hbound'
          omega
        · rw [m4, o2] at hc'; omega
      · exact closedP_of_cn H M (bw.take k) x Lw hLwM m3.toCN


theorem hSum_eq_psum (R : Ptr → Rat) (F h : List Word) : ∀ L, hSum R F h L = psum R F h L := by
  intro L
  induction L with
  | zero => rfl
  | succ L ih =>
    unfold psum at ih ⊢
    rw [dsum_snoc]
    simp only [hSum, ih]

theorem revealBeforeLoop_inv (H : Hyp a T) (R : Ptr → Rat) {B M : List Word} {Lb : Nat} {cB : Chart} {pB pM : Rat}
    (GB : FragC a T R B Lb cB pB) :
    ∀ (fuel k Lk : Nat) (left : LeftSt) (right : State) (acc : Rat), k + fuel = cB.right.length →
      PB a T R M pM B.reverse k Lk left right acc →
      ∃ Lk', PB a T R M pM B.reverse cB.right.length Lk'
        (revealBeforeLoop T R cB.right fuel k (left, right, acc)).1
        (revealBeforeLoop T R cB.right fuel k (left, right, acc)).2.1
        (revealBeforeLoop T R cB.right fuel k (left, right, acc)).2.2 := by
  intro fuel
  induction fuel with
  | zero =>
    intro k Lk left right acc hk I
    have : k = cB.right.length := by omega
    subst this
    exact ⟨Lk, I⟩
  | succ fuel ih =>
    intro k Lk left right acc hk I
    obtain ⟨Lk', I'⟩ := revealBefore_step H R GB I (by omega)
    simp only [revealBeforeLoop]
    exact ih (k+1) Lk' _ _ _ (by omega) I'

/-- **RevealBefore, whole protocol**: after revealing all words of the preceding fragment's right state (and
`reveal_full` if its left state is full) `M`'s left pointers are the remaining left pointers of the concatenation and the
accumulated adjustment is  whole − parts. -/
theorem revealBeforeAll_frag (H : Hyp a T) (R : Ptr → Rat) {B M : List Word} {Lb Lm : Nat} {cB cM : Chart} {pB pM : Rat}
    (GB : FragC a T R B Lb cB pB) (GM : FragC a T R M Lm cM pM) :
    ∃ L' c', c'.left.pointers = cB.left.pointers ++ (revealBeforeAll T R cB cM).1.pointers ∧
      FragC a T R (B ++ M) L' c' (pB + pM + (revealBeforeAll T R cB cM).2.2) := by
  have hord : T.order = a.order := H.tf.order_eq
  have hN2 := H.wf.order_ge
  have sfB := GB.right_for
  have hrev : (B ++ M).reverse = M.reverse ++ B.reverse := List.reverse_append
  obtain ⟨Lk, I⟩ := revealBeforeLoop_inv H R GB (M := M) (pM := pM) cB.right.length 0 Lm cM.left cM.right 0 (by omega)
    (PB.init R GM B.reverse)
  unfold revealBeforeAll
  generalize revealBeforeLoop T R cB.right cB.right.length 0 (cM.left, cM.right, 0) = st at I
  obtain ⟨l, r, acc⟩ := st
  simp only at I
  have hnb : cB.right.length ≤ B.reverse.length := sfB.len_le_h
  by_cases hfB : cB.left.full = true
  · -- `reveal_full`: everything still pending is finalised
    simp only [hfB, if_true]
    let P := B.reverse.take cB.right.length
    have hPl : P.length = cB.right.length := by simp only [P, List.length_take]; omega
    have C : LoopCtx a T M P [] Lk 0 := ⟨I.Lk_le, I.xl, by rw [hPl]; exact I.bound, Nat.le_refl _⟩
    have I0 : InvL a M P [] 0 0 { nextUse := 0, backIn := ([] : List Rat).take 0 } := by
      refine ⟨Nat.le_refl _, by rw [hPl]; show 0 + cB.right.length + 1 + 0 ≤ a.order; have := sfB.len_le_N; omega, by simp,
        fun kk h1 h2 => by simp at h2; omega⟩
    obtain ⟨Lw, s1, s2, s3, s4, s5, s6, s7, s8, s9⟩ :=
      extendLoop_sem H R C cB.right.length 0 (by rw [hPl]; simp) (Nat.zero_le _) [] I0 false (fun hc => by cases hc)
    have hLw : Lw = 0 := s3 rfl
    have hadd : (cB.right.words.take cB.right.length).drop cB.right.length = [] :=
      List.drop_eq_nil_of_le (by simp; exact Nat.min_le_left _ _)
    have hbo : (cB.right.backoff.take cB.right.length).drop cB.right.length = [] :=
      List.drop_eq_nil_of_le (by simp; exact Nat.min_le_left _ _)
    have hptrs0 : l.pointers = ((List.range Lk).map (fun i => pre M i ++ P)).drop 0 := by rw [I.ptrs]; rfl
    have hres : (revealBefore T R cB.right cB.right.length true l r).2.1.pointers = [] ∧
        (revealBefore T R cB.right cB.right.length true l r).1 =
          (extendLoop T R cB.right.length [] [] (((List.range Lk).map (fun i => pre M i ++ P)).drop 0) false).adjust +
            ((extendLoop T R cB.right.length [] [] (((List.range Lk).map (fun i => pre M i ++ P)).drop 0) false).backIn.take
              (extendLoop T R cB.right.length [] [] (((List.range Lk).map (fun i => pre M i ++ P)).drop 0) false).nextUse).sum * (if l.full then 1 else 0) := by
      unfold revealBefore
      dsimp only
      rw [hadd, hbo, hptrs0]
      cases hl : l.full <;> simp <;> grind
    have htk : ([] : List Word).take 0 = [] := rfl
    rw [htk] at s7 s8
    have hnu0 : (extendLoop T R cB.right.length [] [] (((List.range Lk).map (fun i => pre M i ++ P)).drop 0) false).nextUse = 0 := by
      have := s7.nu_le; omega
    have hadj : (revealBefore T R cB.right cB.right.length true l r).1 = dsum (doneTerm a R M P []) 0 Lk := by
      rw [hres.2, s8, hLw, hnu0]
      simp [dsum] <;> grind
    -- the total
    have hsplit := specSeq_drop_split (a := a) M P Lk 0 (by have := I.Lk_le; omega)
    simp only [Nat.zero_add, List.drop_zero] at hsplit
    have hg0 : gm1 M 0 = [] := by simp [gm1]
    rw [hg0, List.nil_append] at hsplit
    have hd : dsum (doneTerm a R M P []) 0 Lk =
        dsum (fun i => score a (gm1 M i ++ P) (M.getD i 0)) 0 Lk - psum R M P Lk := by
      unfold psum
      rw [← dsum_sub]
      apply dsum_congr
      intro j _ _
      simp only [doneTerm, List.append_nil]
    have htot : pM + (acc + (revealBefore T R cB.right cB.right.length true l r).1) = specSeq a B.reverse M := by
      have hsc : pM + acc = psum R M P Lk + specSeq a (gm1 M Lk ++ P) (M.drop Lk) := I.score
      have hdead : specSeq a (P ++ B.reverse.drop cB.right.length) M = specSeq a P M := by
        apply specSeq_dead H
        intro kk hk1 hk2
        have : P ++ (B.reverse.drop cB.right.length).take kk = B.reverse.take (cB.right.length + kk) := by
          simp only [P]; rw [List.take_add]
        rw [this]
        simp only [List.length_drop] at hk2
        exact sfB.dead _ (by omega) (by omega)
      have hPB : P ++ B.reverse.drop cB.right.length = B.reverse := List.take_append_drop _ _
      rw [hPB] at hdead
      rw [hdead, hsplit, hadj, hd]
      grind
    obtain ⟨sR, hsR1, hsR2⟩ := stateFor_exists H (B ++ M).reverse
    refine ⟨Lb, { left := cB.left, right := sR }, by rw [hres.1]; simp, ⟨hsR1, hsR2, by simp; have := GB.L_le; omega, GB.L_lt, ?_, ?_, ?_,
      (fun hc => by rw [hfB] at hc; cases hc), fun _ => (GB.closed hfB).append H M⟩⟩
    · show cB.left.pointers = _
      rw [GB.ptrs]
      apply List.map_congr_left
      intro i hi
      have : i < Lb := by simpa using hi
      rw [pre_append B M (by have := GB.L_le; omega)]
    · intro i hi; rw [pre_append B M (by have := GB.L_le; omega)]; exact GB.ptr_xl i hi
    · have : pB + pM + (acc + (revealBefore T R cB.right cB.right.length true l r).1) = pB + specSeq a B.reverse M := by
        rw [← htot]; grind
      show pB + pM + (acc + (revealBefore T R cB.right cB.right.length true l r).1) = _
      rw [this, GB.prob_eq, restSum_append R B M Lb GB.L_le, List.take_append_of_le_length GB.L_le,
        List.drop_append_of_le_length GB.L_le, specSeq_append]
      have : (B.drop Lb).reverse ++ (B.take Lb).reverse = B.reverse := by
        rw [← List.reverse_append, List.take_append_drop]
      rw [this]; grind
  · -- the preceding fragment is open: all its words were revealed
    have hfB' : cB.left.full = false := by simpa using hfB
    simp only [hfB', Bool.false_eq_true, if_false]
    obtain ⟨hLb, hnbB⟩ := GB.open_ hfB'
    have hP : B.reverse.take cB.right.length = B.reverse := List.take_of_length_le (by rw [hnbB]; simp)
    have hpB : pB = restSum R B B.length := by
      rw [GB.prob_eq, hLb, List.drop_eq_nil_of_le (Nat.le_refl _)]; simp only [specSeq]; grind
    have hbound : B.length + Lk ≤ a.order - 1 := by have := I.bound; omega
    -- the right state of the description
    have hright : ∃ sR, StateFor a (B ++ M).reverse sR ∧ NormS sR ∧ (l.full = false → sR.length = (B ++ M).length) := by
      by_cases hl : l.full = true
      · obtain ⟨sR, h1, h2⟩ := stateFor_exists H (B ++ M).reverse
        exact ⟨sR, h1, h2, fun hc => by rw [hl] at hc; cases hc⟩
      · obtain ⟨o1, o2, o3, o4⟩ := I.open_ (by simpa using hl)
        rw [hP] at o3 o4
        have hsf : StateFor a (B ++ M).reverse r := by
          rw [hrev]
          refine ⟨by rw [o2]; simp; omega, by rw [o2, hnbB]; omega, ?_, ?_, ?_⟩
          · rw [o3, o2, hnbB, List.take_of_length_le (by simp)]
          · rw [o4, o2, hnbB]
          · intro kk hk1 hk2
            rw [o2, hnbB] at hk1
            simp only [List.length_append, List.length_reverse] at hk2
            omega
        obtain ⟨hn1, hn2⟩ := normS_of_stateFor hsf
        exact ⟨normS r, hn2, hn1, fun _ => by show r.length = _; rw [o2, hnbB]; simp; omega⟩
    obtain ⟨sR, hsR1, hsR2, hsR3⟩ := hright
    refine ⟨B.length + Lk, { left := { pointers := cB.left.pointers ++ l.pointers, full := l.full }, right := sR }, rfl,
      ⟨hsR1, hsR2, by simp; have := I.Lk_le; omega, hbound, ?_, ?_, ?_, ?_, ?_⟩⟩
    · show cB.left.pointers ++ l.pointers = _
      rw [GB.ptrs, hLb, I.ptrs, hP]
      exact ptrs_concat B M Lk I.Lk_le
    · intro i hi
      by_cases hlt : i < B.length
      · rw [pre_append B M hlt]; exact GB.ptr_xl i (by omega)
      · obtain ⟨i', rfl⟩ : ∃ i', i = B.length + i' := ⟨i - B.length, by omega⟩
        rw [pre_concat B M i' (by have := I.Lk_le; omega)]
        have := I.xl i' (by omega)
        rwa [hP] at this
    · have hsc : pM + acc = psum R M B.reverse Lk + specSeq a (gm1 M Lk ++ B.reverse) (M.drop Lk) := by
        have := I.score; rwa [hP] at this
      rw [restSum_concat R B M Lk I.Lk_le, take_append_len, List.reverse_append, hSum_eq_psum]
      have : (B ++ M).drop (B.length + Lk) = M.drop Lk := by rw [List.drop_append]; simp
      rw [this, hpB]
      unfold gm1 at hsc
      grind
    · intro hc
      exact ⟨by have := (I.open_ hc).1; simp; omega, hsR3 hc⟩
    · intro hc
      have hcl := I.closed hc
      rw [hP] at hcl
      rcases hcl with ⟨h1, h2⟩ | ⟨h1, j, hj1, hj2, h3⟩ | ⟨h1, h2⟩
      · left
        exact ⟨by simp; omega, by rw [pre_concat B M Lk h1]; exact h2⟩
      · right; left
        refine ⟨by simp; omega, by simp only [List.length_reverse] at hj2; omega, j, hj1, by simp only [List.length_reverse] at hj2; simp; omega, ?_⟩
        rw [hrev]; exact h3
      · right; right
        simp only [List.length_reverse] at h2
        exact ⟨by simp; omega, by omega⟩

end KV.Left
