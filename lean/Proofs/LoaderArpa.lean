import Model.LoaderArpa
/-! Lemmas about the ARPA loader model (`KV.LoaderArpa`): what every accepted file looks like.
Core-only (no Mathlib). -/
namespace KV.LoaderArpa
open KV.Arpa

/-- a stored probability is never positive (the loader clamps) -/
def PVal.nonPos : PVal → Prop
  | .fin q _ => q ≤ 0
  | .negInf => True

theorem probOf_nonPos (n : Num) : (probOf n).nonPos := by
  cases n with
  | fin q neg =>
    unfold probOf
    by_cases h : q > 0
    · simp [h, PVal.nonPos]
    · simp only [h, ↓reduceIte, PVal.nonPos]
      exact Rat.not_lt.mp h
  | inf neg => cases neg <;> simp [probOf, PVal.nonPos]
  | nan => simp [probOf, PVal.nonPos]

/-- what the loader guarantees about one stored n-gram: key length, ids below the vocabulary bound,
clamped probability, no back-off on the highest order -/
structure EntryOK (bound n : Nat) (top : Bool) (e : LE) : Prop where
  len : e.1.length = n
  ids : ∀ w ∈ e.1, w < bound
  prob : e.2.1.nonPos
  topbo : top = true → e.2.2 = 0

theorem EntryOK.mono {bound bound' n : Nat} {top : Bool} {e : LE} (h : EntryOK bound n top e) (hb : bound ≤ bound') :
    EntryOK bound' n top e :=
  ⟨h.len, fun w hw => Nat.lt_of_lt_of_le (h.ids w hw) hb, h.prob, h.topbo⟩

theorem readBackoff_top (s : Bytes) (b : Rat) (s' : Bytes) (h : readBackoff true s = .ok (b, s')) : b = 0 := by
  unfold readBackoff at h
  split at h
  · simp at h
  · split at h
    · simp at h
    · simp only [↓reduceIte] at h
      split at h
      · split at h
        · simp at h
        · simp only [Except.ok.injEq, Prod.mk.injEq] at h; exact h.1.symm
      · simp at h
  · simp only [Except.ok.injEq, Prod.mk.injEq] at h; exact h.1.symm
  · simp only [Except.ok.injEq, Prod.mk.injEq] at h; exact h.1.symm
  · simp at h
  · simp at h

/-! ### unigrams -/

theorem read1Gram_spec (s : Bytes) (v v' : Vocab) (e : LE) (s' : Bytes) (hv : v.words ≠ [])
    (h : read1Gram s v = .ok (v', e, s')) :
    EntryOK v'.words.length 1 false e ∧ v.words.length ≤ v'.words.length ∧ v'.words ≠ [] := by
  unfold read1Gram at h
  split at h
  · simp at h
  · split at h
    · simp at h
    · split at h
      · simp at h
      · split at h
        · simp at h
        · split at h
          · simp only [Except.ok.injEq, Prod.mk.injEq] at h
            obtain ⟨rfl, rfl, _⟩ := h
            refine ⟨⟨rfl, ?_, probOf_nonPos _, by simp⟩, Nat.le_refl _, hv⟩
            intro w hw
            simp only [List.mem_singleton] at hw
            subst hw
            exact List.length_pos_iff.mpr hv
          · simp only [Except.ok.injEq, Prod.mk.injEq] at h
            obtain ⟨rfl, rfl, _⟩ := h
            refine ⟨⟨rfl, ?_, probOf_nonPos _, by simp⟩, by simp, by simp⟩
            intro w hw
            simp only [List.mem_singleton] at hw
            subst hw
            simp
    · simp at h

theorem read1Grams_spec : ∀ (k : Nat) (s : Bytes) (v v' : Vocab) (es : List LE) (s' : Bytes), v.words ≠ [] →
    read1Grams k s v = .ok (v', es, s') →
    es.length = k ∧ (∀ e ∈ es, EntryOK v'.words.length 1 false e) ∧ v.words.length ≤ v'.words.length ∧ v'.words ≠ [] := by
  intro k
  induction k with
  | zero =>
    intro s v v' es s' hv h
    simp only [read1Grams, Except.ok.injEq, Prod.mk.injEq] at h
    obtain ⟨rfl, rfl, _⟩ := h
    exact ⟨rfl, by simp, Nat.le_refl _, hv⟩
  | succ k ih =>
    intro s v v' es s' hv h
    unfold read1Grams at h
    split at h
    · simp at h
    · rename_i v1 e1 s1 h1
      split at h
      · simp at h
      · rename_i v2 es2 s2 h2
        simp only [Except.ok.injEq, Prod.mk.injEq] at h
        obtain ⟨rfl, rfl, _⟩ := h
        have a := read1Gram_spec s v v1 e1 s1 hv h1
        have b := ih s1 v1 v2 es2 s2 a.2.2 h2
        refine ⟨by simp [b.1], ?_, Nat.le_trans a.2.1 b.2.2.1, b.2.2.2⟩
        intro e he
        rcases List.mem_cons.mp he with rfl | he
        · exact a.1.mono b.2.2.1
        · exact b.2.1 e he

/-! ### higher orders -/

theorem posOf_le (w : Bytes) : ∀ ws : List Bytes, posOf w ws ≤ ws.length
  | [] => by simp [posOf]
  | x :: xs => by
    unfold posOf
    split
    · simp
    · have := posOf_le w xs
      simp only [List.length_cons]; omega

theorem wordId_lt (words : List Bytes) (w : Bytes) (h : words ≠ []) : wordId words w < words.length := by
  unfold wordId
  have hp : 0 < words.length := List.length_pos_iff.mpr h
  split
  · exact hp
  · simp only
    split
    · assumption
    · exact hp

theorem readWords_spec (words : List Bytes) (hw : words ≠ []) : ∀ (k : Nat) (s : Bytes) (acc g : List Word) (s' : Bytes),
    readWords words k s acc = .ok (g, s') → (∀ w ∈ acc, w < words.length) →
    g.length = acc.length + k ∧ ∀ w ∈ g, w < words.length := by
  intro k
  induction k with
  | zero =>
    intro s acc g s' h ha
    simp only [readWords, Except.ok.injEq, Prod.mk.injEq] at h
    obtain ⟨rfl, _⟩ := h
    exact ⟨rfl, ha⟩
  | succ k ih =>
    intro s acc g s' h ha
    unfold readWords at h
    split at h
    · simp at h
    · rename_i w s1 _
      simp only at h
      split at h
      · simp at h
      · have := ih s1 (wordId words w :: acc) g s' h (by
          intro x hx
          rcases List.mem_cons.mp hx with rfl | hx
          · exact wordId_lt words w hw
          · exact ha x hx)
        refine ⟨by rw [this.1]; simp only [List.length_cons]; omega, this.2⟩

theorem readNGram_spec (words : List Bytes) (hw : words ≠ []) (n : Nat) (top : Bool) (s : Bytes) (e : LE) (s' : Bytes)
    (h : readNGram words n top s = .ok (e, s')) : EntryOK words.length n top e := by
  unfold readNGram at h
  split at h
  · simp at h
  · split at h
    · simp at h
    · rename_i g s2 hg
      split at h
      · simp at h
      · rename_i b s3 hb
        simp only [Except.ok.injEq, Prod.mk.injEq] at h
        obtain ⟨rfl, _⟩ := h
        have := readWords_spec words hw n _ [] g s2 hg (by simp)
        refine ⟨by simpa using this.1, this.2, probOf_nonPos _, ?_⟩
        intro ht
        subst ht
        exact readBackoff_top _ _ _ hb

theorem readNGrams_spec (words : List Bytes) (hw : words ≠ []) (n : Nat) (top : Bool) :
    ∀ (k : Nat) (s : Bytes) (es : List LE) (s' : Bytes), readNGrams words n top k s = .ok (es, s') →
      es.length = k ∧ ∀ e ∈ es, EntryOK words.length n top e := by
  intro k
  induction k with
  | zero =>
    intro s es s' h
    simp only [readNGrams, Except.ok.injEq, Prod.mk.injEq] at h
    obtain ⟨rfl, _⟩ := h
    exact ⟨rfl, by simp⟩
  | succ k ih =>
    intro s es s' h
    unfold readNGrams at h
    split at h
    · simp at h
    · rename_i e1 s1 h1
      split at h
      · simp at h
      · rename_i es2 s2 h2
        simp only [Except.ok.injEq, Prod.mk.injEq] at h
        obtain ⟨rfl, _⟩ := h
        have a := readNGram_spec words hw n top s e1 s1 h1
        have b := ih s1 es2 s2 h2
        refine ⟨by simp [b.1], ?_⟩
        intro e he
        rcases List.mem_cons.mp he with rfl | he
        · exact a
        · exact b.2 e he

/-- sections `n, n+1, …`: one list per remaining count, with exactly that many entries, each of the
section's order; the highest order (`n + i = order`) carries no back-off -/
theorem readOrders_spec (words : List Bytes) (hw : words ≠ []) (order : Nat) :
    ∀ (cs : List Nat) (n : Nat) (s : Bytes) (ess : List (List LE)) (s' : Bytes),
      readOrders words order cs n s = .ok (ess, s') →
      ess.map List.length = cs ∧
      ∀ i es, ess[i]? = some es → ∀ e ∈ es, EntryOK words.length (n + i) (n + i == order) e := by
  intro cs
  induction cs with
  | nil =>
    intro n s ess s' h
    simp only [readOrders, Except.ok.injEq, Prod.mk.injEq] at h
    obtain ⟨rfl, _⟩ := h
    exact ⟨rfl, by simp⟩
  | cons c cs ih =>
    intro n s ess s' h
    unfold readOrders at h
    split at h
    · simp at h
    · rename_i s1 _
      split at h
      · simp at h
      · rename_i es s2 h2
        split at h
        · simp at h
        · rename_i ess2 s3 h3
          simp only [Except.ok.injEq, Prod.mk.injEq] at h
          obtain ⟨rfl, _⟩ := h
          have a := readNGrams_spec words hw n (n == order) c s1 es s2 h2
          have b := ih (n + 1) s2 ess2 s3 h3
          refine ⟨by simp [a.1, b.1], ?_⟩
          intro i es' hi e he
          cases i with
          | zero =>
            simp only [List.getElem?_cons_zero, Option.some.injEq] at hi
            subst hi
            simpa using a.2 e he
          | succ i =>
            simp only [List.getElem?_cons_succ] at hi
            have := b.2 i es' hi e he
            have hn : n + 1 + i = n + (i + 1) := by omega
            rw [hn] at this
            exact this

end KV.LoaderArpa

namespace KV.LoaderArpa
open KV.Arpa

/-- the vocabulary grows by at most one word per unigram line: ids stay below `count + 1`, the size of the
unigram arrays (`Unigram::Size(count) = (count + 1) * sizeof(Weights)`, `(count + 2)` for the trie) -/
theorem read1Gram_grow (s : Bytes) (v v' : Vocab) (e : LE) (s' : Bytes) (h : read1Gram s v = .ok (v', e, s')) :
    v'.words.length ≤ v.words.length + 1 := by
  unfold read1Gram at h
  split at h
  · simp at h
  · split at h
    · simp at h
    · split at h
      · simp at h
      · split at h
        · simp at h
        · split at h
          · simp only [Except.ok.injEq, Prod.mk.injEq] at h
            obtain ⟨rfl, _, _⟩ := h
            simp
          · simp only [Except.ok.injEq, Prod.mk.injEq] at h
            obtain ⟨rfl, _, _⟩ := h
            simp
    · simp at h

theorem read1Grams_grow : ∀ (k : Nat) (s : Bytes) (v v' : Vocab) (es : List LE) (s' : Bytes),
    read1Grams k s v = .ok (v', es, s') → v'.words.length ≤ v.words.length + k := by
  intro k
  induction k with
  | zero =>
    intro s v v' es s' h
    simp only [read1Grams, Except.ok.injEq, Prod.mk.injEq] at h
    obtain ⟨rfl, _, _⟩ := h
    simp
  | succ k ih =>
    intro s v v' es s' h
    unfold read1Grams at h
    split at h
    · simp at h
    · rename_i v1 e1 s1 h1
      split at h
      · simp at h
      · rename_i v2 es2 s2 h2
        simp only [Except.ok.injEq, Prod.mk.injEq] at h
        obtain ⟨rfl, _, _⟩ := h
        have a := read1Gram_grow s v v1 e1 s1 h1
        have b := ih s1 v1 v2 es2 s2 h2
        omega

end KV.LoaderArpa

namespace KV.LoaderArpa
open KV.Arpa

/-- one unigram line either is `<unk>` (key `[0]`, vocabulary unchanged, `sawUnk` set) or appends a word whose id
is the key -/
theorem read1Gram_cases (s : Bytes) (v v' : Vocab) (e : LE) (s' : Bytes) (h : read1Gram s v = .ok (v', e, s')) :
    (e.1 = [0] ∧ v'.words = v.words ∧ v'.sawUnk = true) ∨
    (e.1 = [v.words.length] ∧ v'.words.length = v.words.length + 1 ∧ v'.sawUnk = v.sawUnk) := by
  unfold read1Gram at h
  split at h
  · simp at h
  · split at h
    · simp at h
    · split at h
      · simp at h
      · split at h
        · simp at h
        · split at h
          · simp only [Except.ok.injEq, Prod.mk.injEq] at h
            obtain ⟨rfl, rfl, _⟩ := h
            exact Or.inl ⟨rfl, rfl, rfl⟩
          · simp only [Except.ok.injEq, Prod.mk.injEq] at h
            obtain ⟨rfl, rfl, _⟩ := h
            exact Or.inr ⟨rfl, by simp, rfl⟩
    · simp at h

/-- every id handed out while reading the unigram section has a unigram entry; `sawUnk` is set only by an entry `[0]` -/
theorem read1Grams_cover : ∀ (k : Nat) (s : Bytes) (v v' : Vocab) (es : List LE) (s' : Bytes),
    read1Grams k s v = .ok (v', es, s') →
    (∀ id, v.words.length ≤ id → id < v'.words.length → [id] ∈ es.map (·.1)) ∧
    (v'.sawUnk = true → v.sawUnk = true ∨ [0] ∈ es.map (·.1)) := by
  intro k
  induction k with
  | zero =>
    intro s v v' es s' h
    simp only [read1Grams, Except.ok.injEq, Prod.mk.injEq] at h
    obtain ⟨rfl, rfl, _⟩ := h
    exact ⟨fun id h1 h2 => by omega, fun h => Or.inl h⟩
  | succ k ih =>
    intro s v v' es s' h
    unfold read1Grams at h
    split at h
    · simp at h
    · rename_i v1 e1 s1 h1
      split at h
      · simp at h
      · rename_i v2 es2 s2 h2
        simp only [Except.ok.injEq, Prod.mk.injEq] at h
        obtain ⟨rfl, rfl, _⟩ := h
        have c := read1Gram_cases s v v1 e1 s1 h1
        have b := ih s1 v1 v2 es2 s2 h2
        constructor
        · intro id hlo hhi
          simp only [List.map_cons, List.mem_cons]
          rcases c with ⟨_, hw, _⟩ | ⟨hk, hl, _⟩
          · right
            exact b.1 id (by rw [hw]; exact hlo) hhi
          · by_cases hid : id = v.words.length
            · left; rw [hk, hid]
            · right
              exact b.1 id (by omega) hhi
        · intro hs
          simp only [List.map_cons, List.mem_cons]
          rcases b.2 hs with h1s | hmem
          · rcases c with ⟨hk, _, _⟩ | ⟨_, _, hsu⟩
            · right; left; exact hk.symm
            · left; rw [← hsu]; exact h1s
          · right; right; exact hmem

end KV.LoaderArpa
