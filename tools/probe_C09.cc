// Constant probe for C09: the binary-format header as the loader sees it.  The structs live in an
// anonymous namespace of lm/binary_format.cc, so the translation unit is included.
#include "lm/binary_format.cc"
#include <cstdio>
#include <cstring>

int main() {
  using namespace lm::ngram;
  Sanity s = Sanity();
  s.SetToReference();
  const unsigned char *p = reinterpret_cast<const unsigned char*>(&s);
  std::printf("sizeofSanity : Nat := %zu\n", sizeof(Sanity));
  std::printf("sizeofFixed : Nat := %zu\n", sizeof(FixedWidthParameters));
  std::printf("sanityBytes : Array Nat := #[");
  for (std::size_t i = 0; i < sizeof(Sanity); ++i) std::printf("%s%u", i ? ", " : "", p[i]);
  std::printf("]\n");
  std::printf("magicIncomplete : Array Nat := #[");
  for (std::size_t i = 0; i < std::strlen(kMagicIncomplete); ++i) std::printf("%s%u", i ? ", " : "", (unsigned char)kMagicIncomplete[i]);
  std::printf("]\n");
  std::printf("magicBytesLen : Nat := %zu\n", sizeof(kMagicBytes));
  std::printf("magicVersion : Nat := %ld\n", kMagicVersion);
  std::printf("maxOrder : Nat := %d\n", KENLM_MAX_ORDER);
  std::printf("totalHeaderSizeMax : Nat := %zu\n", TotalHeaderSize(KENLM_MAX_ORDER));
  std::printf("offOrder : Nat := %zu\n", offsetof(FixedWidthParameters, order));
  std::printf("offMultiplier : Nat := %zu\n", offsetof(FixedWidthParameters, probing_multiplier));
  std::printf("offModelType : Nat := %zu\n", offsetof(FixedWidthParameters, model_type));
  std::printf("offHasVocab : Nat := %zu\n", offsetof(FixedWidthParameters, has_vocabulary));
  std::printf("offSearchVersion : Nat := %zu\n", offsetof(FixedWidthParameters, search_version));
  return 0;
}
