// Constant probe for C01/C02/C03: values the L0/L1 models depend on, read from the real headers.
#include "lm/max_order.hh"
#include "lm/blank.hh"
#include "lm/config.hh"
#include "lm/config.cc"
#include "lm/state.hh"
#include "lm/word_index.hh"
#include <cstdio>
#include <cstring>
static unsigned bits(float f) { unsigned u; memcpy(&u, &f, 4); return u; }
int main() {
  lm::ngram::Config c;
  printf("kMaxOrder : Nat := %d\n", (int)KENLM_MAX_ORDER);
  printf("kNoExtensionBackoffBits : Nat := %u\n", bits(lm::ngram::kNoExtensionBackoff));
  printf("kExtensionBackoffBits : Nat := %u\n", bits(lm::ngram::kExtensionBackoff));
  printf("unknownMissingLogprobNum : Int := %d\n", (int)c.unknown_missing_logprob);
  printf("unknownMissingIsInt : Bool := %s\n", ((float)(int)c.unknown_missing_logprob == c.unknown_missing_logprob) ? "true" : "false");
  printf("defaultProbBits : Nat := %u\n", (unsigned)c.prob_bits);
  printf("defaultBackoffBits : Nat := %u\n", (unsigned)c.backoff_bits);
  printf("sizeofWordIndex : Nat := %u\n", (unsigned)sizeof(lm::WordIndex));
  printf("stateWords : Nat := %u\n", (unsigned)(sizeof(((lm::ngram::State*)0)->words) / sizeof(lm::WordIndex)));
  lm::ngram::State s; memset(&s, 0, sizeof s);
  printf("hasExtensionOfPlusZero : Bool := %s\n", lm::ngram::HasExtension(0.0f) ? "true" : "false");
  printf("hasExtensionOfMinusZero : Bool := %s\n", lm::ngram::HasExtension(-0.0f) ? "true" : "false");
  return 0;
}
