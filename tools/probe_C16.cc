// Constant probe for C16: runs the *real* util::swap(SizedProxy, SizedProxy) on a two-record buffer
// [0, 1, ..., 2*size-1] for 27 record sizes in 1..64 and prints the resulting buffers as a Lean table.
// The theorem KV.C16.swap_matches_code re-checks the byte-level model `sizedSwap` against this table on
// every run (lake build), so a change of the swap (e.g. word-wise) breaks a proof obligation.
#include "util/sized_iterator.hh"
#include "util/pool.cc"
#include "util/exception.cc"
#include "util/scoped.cc"
#include "util/integer_to_string.cc"
#include <cstdio>
#include <vector>
#include <stdint.h>

int main() {
  printf("swapCases : List (Nat × List Nat) := [");
  // all small sizes (every residue mod 4 and mod 8 several times) and the large / specialised ones
  static const std::size_t kSizes[] = {1,2,3,4,5,6,7,8,9,10,11,12,13,15,16,17,18,20,23,24,28,31,32,33,47,63,64};
  bool first = true;
  for (std::size_t si = 0; si < sizeof(kSizes) / sizeof(kSizes[0]); ++si) {
    const std::size_t size = kSizes[si];
    std::vector<uint8_t> buf(2 * size);
    for (std::size_t i = 0; i < buf.size(); ++i) buf[i] = (uint8_t)i;
    util::FreePool pool(size);
    util::swap(util::SizedProxy(&buf[0], pool), util::SizedProxy(&buf[size], pool));
    printf("%s(%zu, [", first ? "" : ", ", size);
    first = false;
    for (std::size_t i = 0; i < buf.size(); ++i) printf("%s%u", i ? ", " : "", (unsigned)buf[i]);
    printf("])");
  }
  printf("]\n");
  // sizes for which SizedSort has a std::sort-over-structs specialisation (informational)
  printf("maxRecordSize : Nat := 64\n");
  return 0;
}
