#!/usr/bin/env python3
"""Run registered checks against a seeded breaking change.

  tools/run_seeded.py seeded/<id>            # property from meta.json, quick tier
  tools/run_seeded.py seeded/<id> --checks C01,C03 --tier thorough --in-repo

Default: the patch is applied in a scratch worktree of /repo (VERIF_REPO points there) so
that nothing else using /repo is disturbed; --in-repo applies it to /repo itself
(git -C /repo apply) and undoes it straight afterwards (git -C /repo checkout -- .).
Writes seeded/<id>/result.json: which checks reported VIOLATION.
"""
import argparse
import json
import os
import subprocess
import sys
import time

V = os.path.dirname(os.path.dirname(os.path.abspath(__file__)))


def sh(cmd, **kw):
    return subprocess.run(cmd, shell=isinstance(cmd, str), capture_output=True, text=True, **kw)


def main():
    ap = argparse.ArgumentParser()
    ap.add_argument("seed_dir")
    ap.add_argument("--checks", default=None)
    ap.add_argument("--tier", default="quick")
    ap.add_argument("--in-repo", action="store_true")
    ap.add_argument("--seeds", default="1")
    a = ap.parse_args()
    sd = os.path.abspath(a.seed_dir)
    meta = json.load(open(os.path.join(sd, "meta.json")))
    checks = a.checks.split(",") if a.checks else [meta["property"]]
    patch = os.path.join(sd, "patch.diff")
    env = dict(os.environ)
    if a.in_repo:
        tree = "/repo"
        r = sh(["git", "-C", "/repo", "status", "--porcelain", "--untracked-files=no"])
        if r.stdout.strip():
            sys.exit("/repo has local modifications; refusing")
    else:
        tree = "/var/tmp/rw/seedrun_%d" % os.getpid()
        sh(["git", "-C", "/repo", "worktree", "remove", "--force", tree])
        r = sh(["git", "-C", "/repo", "worktree", "add", "--detach", tree, "HEAD"])
        if r.returncode != 0:
            sys.exit("worktree add failed: " + r.stderr)
        env["VERIF_REPO"] = tree
    results = {}
    try:
        r = sh(["git", "-C", tree, "apply", patch])
        if r.returncode != 0:
            sys.exit("patch does not apply: " + r.stderr)
        for c in checks:
            for seed in a.seeds.split(","):
                env["VERIF_SEED"] = seed
                t0 = time.time()
                r = subprocess.run([sys.executable, os.path.join(V, "check.py"), c, "--tier", a.tier],
                                   cwd=V, env=env, capture_output=True, text=True)
                vio = [l for l in r.stdout.splitlines() if l.startswith("VIOLATION")]
                results["%s@seed%s" % (c, seed)] = {"exit": r.returncode, "violations": vio[:5],
                                                    "wall_s": round(time.time() - t0, 1)}
                print("%s seed=%s tier=%s -> exit %d %s" % (c, seed, a.tier, r.returncode, vio[:2]), flush=True)
    finally:
        if a.in_repo:
            sh(["git", "-C", "/repo", "checkout", "--", "."])
        else:
            sh(["git", "-C", "/repo", "worktree", "remove", "--force", tree])
    out = {"tier": a.tier, "mode": "in-repo" if a.in_repo else "scratch-worktree", "results": results,
           "caught": any(v["exit"] == 1 and v["violations"] for v in results.values())}
    with open(os.path.join(sd, "result_%s.json" % a.tier), "w") as f:
        json.dump(out, f, indent=1)
    print("caught" if out["caught"] else "MISSED")


if __name__ == "__main__":
    main()
