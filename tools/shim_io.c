/* LD_PRELOAD shim for C15 (fault injection) and C09 (trace + snapshots).  Lives in /verif;
 * no hook in the kenlm sources.
 *
 * Environment
 *   SHIM_LOG=<file>            append-only log: `FIRED <class> <k> <errno>` at the instant a hard fault is
 *                              injected, and at normal exit `COUNT <class> <n>` per class plus
 *                              `TRANSIENT eintr=<n> short=<n>`.
 *   SHIM_FAULT=<class>:<k>:<errno>   fail the k-th (1-based) call of the class on a *data* descriptor.
 *                              classes: write pwrite ftruncate fsync msync read pread open mkstemp
 *                                       fwrite fread fflush fclose fseek rewind
 *                              errno -1 ("SHORT") on write/pwrite/read/pread: the k-th call transfers only half of what was
 *                              asked (a hard-coded short transfer at an exact call, for the retry loops' callers).
 *                              Optional 4th field <hexoffset>: only calls whose return address is <main executable base +
 *                              offset> are counted (fault enumeration focused on one call site).
 *   SHIM_SITES=1               log `SITE <class> <module> <hexoffset> <count>` per calling site at exit; `FIRED` lines
 *                              carry the module and offset of the faulted call (resolved with addr2line by the check).
 *   SHIM_TRANSIENT=<seed>:<pEINTR>:<pSHORT>   percentages; read/write/pread/pwrite on data descriptors
 *                              randomly return EINTR or transfer fewer bytes than asked.
 *   SHIM_TRACE_DIR=<dir> SHIM_TRACE_PATH=<suffix>   C09: every open/ftruncate/write/pwrite/mmap/munmap/
 *                              msync/fsync/close on the file whose path ends in <suffix> is appended to
 *                              <dir>/trace.txt as `<k> <name> <args> ret=<r>`, and the file is copied to
 *                              <dir>/pre_<k> (before the call, only while a writable shared mapping
 *                              exists: stores since the previous event) and <dir>/post_<k> (after it).
 *
 * A data descriptor is anything but stderr, the shim's own files and paths under
 * /proc /sys /dev /etc /usr /lib (pipes and regular files count).
 *
 * glibc's stdio reaches the kernel through internal symbols, so FILE* I/O is faulted at the
 * fwrite/fread/fflush/fclose/fseek/rewind level.  A faulted `rewind` models a failing flush inside
 * rewind(): the pending output is dropped (__fpurge) and, as the C standard says, no error is
 * reported and the error indicator is cleared.
 */
#define _GNU_SOURCE
#include <dlfcn.h>
#include <link.h>
#include <errno.h>
#include <fcntl.h>
#include <stdarg.h>
#include <stdio.h>
#include <stdio_ext.h>
#include <stdlib.h>
#include <string.h>
#include <unistd.h>
#include <sys/mman.h>
#include <sys/stat.h>
#include <sys/syscall.h>
#include <sys/types.h>

enum { C_WRITE, C_PWRITE, C_FTRUNCATE, C_FSYNC, C_MSYNC, C_READ, C_PREAD, C_OPEN, C_MKSTEMP,
       C_FWRITE, C_FREAD, C_FFLUSH, C_FCLOSE, C_FSEEK, C_REWIND, C_N };
static const char *kNames[C_N] = {"write", "pwrite", "ftruncate", "fsync", "msync", "read", "pread", "open",
                                  "mkstemp", "fwrite", "fread", "fflush", "fclose", "fseek", "rewind"};
static long counts[C_N];
static int inited = 0;
static int log_fd = -1;
static int fault_cls = -1, fault_errno = EIO;
static long fault_k = -1;
static unsigned long fault_site = 0;     /* 0 = any site */
static int sites_on = 0;
static unsigned long exe_base = 0;
#define MAXSITES 2048
static struct { int cls; unsigned long pc; long n; } sites[MAXSITES];
static int nsites = 0;
static volatile int sites_lock = 0;
static int tr_on = 0;
static unsigned long long tr_seed = 0;
static int tr_peintr = 0, tr_pshort = 0;
static long tr_eintr = 0, tr_short = 0;
/* trace state */
static char trace_dir[512];
static char trace_suffix[512];
static char trace_path[1024];
static int trace_fd = -1;
static int trace_log_fd = -1;
static long trace_k = 0;
#define MAXMAPS 16
static struct { void *addr; size_t len; long long off; int writable; } maps[MAXMAPS];
static int nmaps = 0;

static long raw_write(int fd, const void *b, size_t n) { return syscall(SYS_write, fd, b, n); }

static void logf_fd(int fd, const char *fmt, ...) {
  if (fd < 0) return;
  char buf[512];
  va_list ap;
  va_start(ap, fmt);
  int n = vsnprintf(buf, sizeof(buf), fmt, ap);
  va_end(ap);
  if (n > 0) raw_write(fd, buf, (size_t)n);
}

static void init(void) {
  if (inited) return;
  inited = 1;
  const char *l = getenv("SHIM_LOG");
  if (l) log_fd = (int)syscall(SYS_open, l, O_WRONLY | O_CREAT | O_APPEND | O_CLOEXEC, 0644);
  const char *f = getenv("SHIM_FAULT");
  if (f) {
    char name[32];
    long k; int e;
    unsigned long site = 0;
    if (sscanf(f, "%31[^:]:%ld:%d:%lx", name, &k, &e, &site) >= 3) {
      for (int i = 0; i < C_N; ++i) if (!strcmp(name, kNames[i])) fault_cls = i;
      fault_k = k; fault_errno = e; fault_site = site;
    }
  }
  sites_on = getenv("SHIM_SITES") != NULL;
  {
    /* load base of the main executable = first object reported by dl_iterate_phdr */
    extern int shim_phdr_cb(struct dl_phdr_info *, size_t, void *);
    dl_iterate_phdr(shim_phdr_cb, NULL);
  }
  const char *t = getenv("SHIM_TRANSIENT");
  if (t && sscanf(t, "%llu:%d:%d", &tr_seed, &tr_peintr, &tr_pshort) == 3) tr_on = 1;
  const char *d = getenv("SHIM_TRACE_DIR"), *p = getenv("SHIM_TRACE_PATH");
  if (d && p) {
    snprintf(trace_dir, sizeof(trace_dir), "%s", d);
    snprintf(trace_suffix, sizeof(trace_suffix), "%s", p);
    char tp[700];
    snprintf(tp, sizeof(tp), "%s/trace.txt", trace_dir);
    trace_log_fd = (int)syscall(SYS_open, tp, O_WRONLY | O_CREAT | O_APPEND | O_CLOEXEC, 0644);
  }
}

static int excluded_path(const char *p) {
  static const char *kEx[] = {"/proc/", "/sys/", "/dev/", "/etc/", "/usr/", "/lib", "socket:", "anon_inode:", 0};
  for (int i = 0; kEx[i]; ++i) if (!strncmp(p, kEx[i], strlen(kEx[i]))) return 1;
  return 0;
}

static int is_data_fd(int fd) {
  if (fd < 0 || fd == 2 || fd == log_fd || fd == trace_log_fd) return 0;
  char link[64], path[1024];
  snprintf(link, sizeof(link), "/proc/self/fd/%d", fd);
  long n = syscall(SYS_readlink, link, path, sizeof(path) - 1);
  if (n <= 0) return 1;
  path[n] = 0;
  return !excluded_path(path);
}

int shim_phdr_cb(struct dl_phdr_info *info, size_t size, void *data) {
  (void)size; (void)data;
  exe_base = (unsigned long)info->dlpi_addr;
  return 1;   /* stop after the first object: the executable */
}

static void site_desc(unsigned long pc, char *mod, size_t modlen, unsigned long *off) {
  Dl_info di;
  if (dladdr((void *)pc, &di) && di.dli_fbase) {
    const char *b = di.dli_fname ? strrchr(di.dli_fname, '/') : NULL;
    snprintf(mod, modlen, "%s", (unsigned long)di.dli_fbase == exe_base ? "exe" : (b ? b + 1 : "?"));
    *off = pc - (unsigned long)di.dli_fbase;
  } else {
    snprintf(mod, modlen, "?");
    *off = pc;
  }
}

static void site_count(int cls, unsigned long pc) {
  while (__sync_lock_test_and_set(&sites_lock, 1)) {}
  int i;
  for (i = 0; i < nsites; ++i) if (sites[i].cls == cls && sites[i].pc == pc) break;
  if (i == nsites && nsites < MAXSITES) { sites[i].cls = cls; sites[i].pc = pc; sites[i].n = 0; ++nsites; }
  if (i < nsites) ++sites[i].n;
  __sync_lock_release(&sites_lock);
}

/* returns 1 when this call must fail with fault_errno (or be shortened when fault_errno == -1) */
static int hit_pc(int cls, unsigned long pc) {
  init();
  if (sites_on) site_count(cls, pc);
  long n;
  if (fault_site) {
    static long focus_n;
    if (cls != fault_cls || pc - exe_base != fault_site) { __sync_add_and_fetch(&counts[cls], 1); return 0; }
    __sync_add_and_fetch(&counts[cls], 1);
    n = __sync_add_and_fetch(&focus_n, 1);
  } else {
    n = __sync_add_and_fetch(&counts[cls], 1);
  }
  if (cls == fault_cls && n == fault_k) {
    char mod[64]; unsigned long off;
    site_desc(pc, mod, sizeof(mod), &off);
    logf_fd(log_fd, "FIRED %s %ld %d %s %lx\n", kNames[cls], n, fault_errno, mod, off);
    return 1;
  }
  return 0;
}
#define hit(cls) hit_pc((cls), (unsigned long)__builtin_return_address(0))
/* for the data calls: 0 = go on, 1 = fail with errno, 2 = transfer only *len bytes */
static int fault_kind(int cls, unsigned long pc, size_t *len) {
  if (!hit_pc(cls, pc)) return 0;
  if (fault_errno == -1) { if (*len >= 2) *len = *len / 2; return 2; }
  return 1;
}

static unsigned long long mix(unsigned long long x) {
  x ^= x >> 33; x *= 0xff51afd7ed558ccdULL; x ^= x >> 33; x *= 0xc4ceb9fe1a85ec53ULL; x ^= x >> 33;
  return x;
}
/* transient decision for call number n of class cls: 0 = none, 1 = EINTR, 2 = shorten to *len */
static int transient(int cls, size_t *len) {
  if (!tr_on) return 0;
  static long tn[C_N];
  long n = __sync_add_and_fetch(&tn[cls], 1);
  unsigned long long h = mix(tr_seed * 1000003ULL + (unsigned long long)cls * 7919ULL + (unsigned long long)n);
  int r = (int)(h % 100);
  if (r < tr_peintr) { __sync_add_and_fetch(&tr_eintr, 1); return 1; }
  if (r < tr_peintr + tr_pshort && *len > 1) {
    *len = 1 + (size_t)((h >> 20) % (*len - 1));
    __sync_add_and_fetch(&tr_short, 1);
    return 2;
  }
  return 0;
}

__attribute__((destructor)) static void fin(void) {
  init();
  if (trace_log_fd >= 0 && trace_path[0]) {
    /* final image */
    extern void shim_snapshot(const char *kind, long k);
    logf_fd(trace_log_fd, "%ld exit ret=0\n", trace_k);
    shim_snapshot("post", trace_k);
    ++trace_k;
  }
  if (log_fd < 0) return;
  for (int i = 0; i < C_N; ++i) logf_fd(log_fd, "COUNT %s %ld\n", kNames[i], counts[i]);
  if (tr_on) logf_fd(log_fd, "TRANSIENT eintr=%ld short=%ld\n", tr_eintr, tr_short);
  if (sites_on) for (int i = 0; i < nsites; ++i) {
    char mod[64]; unsigned long off;
    site_desc(sites[i].pc, mod, sizeof(mod), &off);
    logf_fd(log_fd, "SITE %s %s %lx %ld\n", kNames[sites[i].cls], mod, off, sites[i].n);
  }
}

/* ------------------------------------------------------------------ C09 trace helpers */
void shim_snapshot(const char *kind, long k) {
  if (!trace_path[0]) return;
  char out[800];
  snprintf(out, sizeof(out), "%s/%s_%ld", trace_dir, kind, k);
  int in = (int)syscall(SYS_open, trace_path, O_RDONLY | O_CLOEXEC, 0);
  int o = (int)syscall(SYS_open, out, O_WRONLY | O_CREAT | O_TRUNC | O_CLOEXEC, 0644);
  if (in >= 0 && o >= 0) {
    static char buf[1 << 16];
    long n;
    while ((n = syscall(SYS_read, in, buf, sizeof(buf))) > 0) raw_write(o, buf, (size_t)n);
  }
  if (in >= 0) syscall(SYS_close, in);
  if (o >= 0) syscall(SYS_close, o);
}
static int writable_map(void) {
  for (int i = 0; i < nmaps; ++i) if (maps[i].writable) return 1;
  return 0;
}
static long trace_begin(void) {
  long k = trace_k++;
  if (writable_map()) shim_snapshot("pre", k);
  return k;
}
static void trace_end(long k, long ret, const char *fmt, ...) {
  char buf[400];
  va_list ap;
  va_start(ap, fmt);
  vsnprintf(buf, sizeof(buf), fmt, ap);
  va_end(ap);
  logf_fd(trace_log_fd, "%ld %s ret=%ld\n", k, buf, ret);
  shim_snapshot("post", k);
}
static int traced(int fd) { return trace_log_fd >= 0 && fd >= 0 && fd == trace_fd; }
static int path_matches(const char *p) {
  if (trace_log_fd < 0 || !p) return 0;
  size_t lp = strlen(p), ls = strlen(trace_suffix);
  return ls && lp >= ls && !strcmp(p + lp - ls, trace_suffix);
}

/* ------------------------------------------------------------------ interposed calls */
#define REAL(name, type) static type real_##name; if (!real_##name) real_##name = (type)dlsym(RTLD_NEXT, #name)

typedef ssize_t (*write_t)(int, const void *, size_t);
ssize_t write(int fd, const void *b, size_t n) {
  REAL(write, write_t);
  init();
  if (traced(fd)) {
    long long off = (long long)syscall(SYS_lseek, fd, 0, SEEK_CUR);
    long k = trace_begin();
    ssize_t r = real_write(fd, b, n);
    trace_end(k, (long)r, "write %lld %zu", off, n);
    return r;
  }
  if (!is_data_fd(fd)) return real_write(fd, b, n);
  size_t len = n;
  int fk = fault_kind(C_WRITE, (unsigned long)__builtin_return_address(0), &len);
  if (fk == 1) { errno = fault_errno; return -1; }
  if (fk == 2) return real_write(fd, b, len);
  int t = transient(C_WRITE, &len);
  if (t == 1) { errno = EINTR; return -1; }
  return real_write(fd, b, len);
}

typedef ssize_t (*pwrite_t)(int, const void *, size_t, off_t);
static ssize_t pwrite_common(int fd, const void *b, size_t n, off_t o, unsigned long pc) {
  REAL(pwrite, pwrite_t);
  init();
  if (traced(fd)) {
    long k = trace_begin();
    ssize_t r = real_pwrite(fd, b, n, o);
    trace_end(k, (long)r, "pwrite %lld %zu", (long long)o, n);
    return r;
  }
  if (!is_data_fd(fd)) return real_pwrite(fd, b, n, o);
  size_t len = n;
  int fk = fault_kind(C_PWRITE, pc, &len);
  if (fk == 1) { errno = fault_errno; return -1; }
  if (fk == 2) return real_pwrite(fd, b, len, o);
  int t = transient(C_PWRITE, &len);
  if (t == 1) { errno = EINTR; return -1; }
  return real_pwrite(fd, b, len, o);
}
ssize_t pwrite(int fd, const void *b, size_t n, off_t o) { return pwrite_common(fd, b, n, o, (unsigned long)__builtin_return_address(0)); }
ssize_t pwrite64(int fd, const void *b, size_t n, off_t o) { return pwrite_common(fd, b, n, o, (unsigned long)__builtin_return_address(0)); }

typedef ssize_t (*read_t)(int, void *, size_t);
ssize_t read(int fd, void *b, size_t n) {
  REAL(read, read_t);
  init();
  if (!is_data_fd(fd)) return real_read(fd, b, n);
  size_t len = n;
  int fk = fault_kind(C_READ, (unsigned long)__builtin_return_address(0), &len);
  if (fk == 1) { errno = fault_errno; return -1; }
  if (fk == 2) return real_read(fd, b, len);
  int t = transient(C_READ, &len);
  if (t == 1) { errno = EINTR; return -1; }
  return real_read(fd, b, len);
}

typedef ssize_t (*pread_t)(int, void *, size_t, off_t);
static ssize_t pread_common(int fd, void *b, size_t n, off_t o, unsigned long pc) {
  REAL(pread, pread_t);
  init();
  if (!is_data_fd(fd)) return real_pread(fd, b, n, o);
  size_t len = n;
  int fk = fault_kind(C_PREAD, pc, &len);
  if (fk == 1) { errno = fault_errno; return -1; }
  if (fk == 2) return real_pread(fd, b, len, o);
  int t = transient(C_PREAD, &len);
  if (t == 1) { errno = EINTR; return -1; }
  return real_pread(fd, b, len, o);
}
ssize_t pread(int fd, void *b, size_t n, off_t o) { return pread_common(fd, b, n, o, (unsigned long)__builtin_return_address(0)); }
ssize_t pread64(int fd, void *b, size_t n, off_t o) { return pread_common(fd, b, n, o, (unsigned long)__builtin_return_address(0)); }

typedef int (*ftruncate_t)(int, off_t);
static int ftruncate_common(int fd, off_t l, unsigned long pc) {
  REAL(ftruncate, ftruncate_t);
  init();
  if (traced(fd)) {
    long k = trace_begin();
    int r = real_ftruncate(fd, l);
    trace_end(k, r, "ftruncate %lld", (long long)l);
    return r;
  }
  if (!is_data_fd(fd)) return real_ftruncate(fd, l);
  if (hit_pc(C_FTRUNCATE, pc)) { errno = fault_errno; return -1; }
  return real_ftruncate(fd, l);
}
int ftruncate(int fd, off_t l) { return ftruncate_common(fd, l, (unsigned long)__builtin_return_address(0)); }
int ftruncate64(int fd, off_t l) { return ftruncate_common(fd, l, (unsigned long)__builtin_return_address(0)); }

typedef int (*fsync_t)(int);
int fsync(int fd) {
  REAL(fsync, fsync_t);
  init();
  if (traced(fd)) {
    long k = trace_begin();
    int r = real_fsync(fd);
    trace_end(k, r, "fsync");
    return r;
  }
  if (!is_data_fd(fd)) return real_fsync(fd);
  if (hit(C_FSYNC)) { errno = fault_errno; return -1; }
  return real_fsync(fd);
}
int fdatasync(int fd) {
  REAL(fdatasync, fsync_t);
  init();
  if (traced(fd)) {
    long k = trace_begin();
    int r = real_fdatasync(fd);
    trace_end(k, r, "fsync");
    return r;
  }
  if (!is_data_fd(fd)) return real_fdatasync(fd);
  if (hit(C_FSYNC)) { errno = fault_errno; return -1; }
  return real_fdatasync(fd);
}

typedef int (*msync_t)(void *, size_t, int);
int msync(void *a, size_t l, int f) {
  REAL(msync, msync_t);
  init();
  for (int i = 0; i < nmaps; ++i) {
    if ((char *)a >= (char *)maps[i].addr && (char *)a < (char *)maps[i].addr + maps[i].len) {
      long k = trace_begin();
      int r = real_msync(a, l, f);
      trace_end(k, r, "msync %lld %zu", maps[i].off + (long long)((char *)a - (char *)maps[i].addr), l);
      return r;
    }
  }
  if (hit(C_MSYNC)) { errno = fault_errno; return -1; }
  return real_msync(a, l, f);
}

typedef void *(*mmap_t)(void *, size_t, int, int, int, off_t);
static void *mmap_common(void *a, size_t l, int prot, int flags, int fd, off_t off) {
  REAL(mmap, mmap_t);
  init();
  if (traced(fd) && !(flags & MAP_ANONYMOUS)) {
    long k = trace_begin();
    void *r = real_mmap(a, l, prot, flags, fd, off);
    int w = (prot & PROT_WRITE) && (flags & MAP_SHARED);
    if (r != MAP_FAILED && nmaps < MAXMAPS) {
      maps[nmaps].addr = r; maps[nmaps].len = l; maps[nmaps].off = (long long)off; maps[nmaps].writable = w;
      ++nmaps;
    }
    trace_end(k, r == MAP_FAILED ? -1 : 0, "mmap %lld %zu %s", (long long)off, l, w ? "w" : "r");
    return r;
  }
  return real_mmap(a, l, prot, flags, fd, off);
}
void *mmap(void *a, size_t l, int prot, int flags, int fd, off_t off) { return mmap_common(a, l, prot, flags, fd, off); }
void *mmap64(void *a, size_t l, int prot, int flags, int fd, off_t off) { return mmap_common(a, l, prot, flags, fd, off); }

typedef int (*munmap_t)(void *, size_t);
int munmap(void *a, size_t l) {
  REAL(munmap, munmap_t);
  init();
  for (int i = 0; i < nmaps; ++i) {
    if (maps[i].addr == a) {
      long k = trace_begin();
      long long off = maps[i].off;
      int r = real_munmap(a, l);
      maps[i] = maps[nmaps - 1];
      --nmaps;
      trace_end(k, r, "munmap %lld %zu", off, l);
      return r;
    }
  }
  return real_munmap(a, l);
}

typedef int (*close_t)(int);
int close(int fd) {
  REAL(close, close_t);
  init();
  if (traced(fd)) {
    long k = trace_begin();
    int r = real_close(fd);
    trace_fd = -1;
    trace_end(k, r, "close");
    return r;
  }
  return real_close(fd);
}

typedef int (*open_t)(const char *, int, ...);
static int open_common(const char *path, int flags, mode_t mode, unsigned long pc) {
  REAL(open, open_t);
  init();
  if (path_matches(path) && (flags & (O_WRONLY | O_RDWR))) {
    /* resolve to an absolute path before the file exists or not */
    int r = real_open(path, flags, mode);
    if (r >= 0) {
      char link[64];
      snprintf(link, sizeof(link), "/proc/self/fd/%d", r);
      long n = syscall(SYS_readlink, link, trace_path, sizeof(trace_path) - 1);
      if (n > 0) trace_path[n] = 0; else snprintf(trace_path, sizeof(trace_path), "%s", path);
      trace_fd = r;
      long k = trace_k++;
      trace_end(k, r, "open %s%s", (flags & O_CREAT) ? "creat" : "", (flags & O_TRUNC) ? "+trunc" : "");
    }
    return r;
  }
  if (path && !excluded_path(path) && hit_pc(C_OPEN, pc)) { errno = fault_errno; return -1; }
  return real_open(path, flags, mode);
}
int open(const char *path, int flags, ...) {
  mode_t mode = 0;
  if (flags & (O_CREAT | O_TMPFILE)) { va_list ap; va_start(ap, flags); mode = va_arg(ap, mode_t); va_end(ap); }
  return open_common(path, flags, mode, (unsigned long)__builtin_return_address(0));
}
int open64(const char *path, int flags, ...) {
  mode_t mode = 0;
  if (flags & (O_CREAT | O_TMPFILE)) { va_list ap; va_start(ap, flags); mode = va_arg(ap, mode_t); va_end(ap); }
  return open_common(path, flags, mode, (unsigned long)__builtin_return_address(0));
}

typedef FILE *(*fopen_t)(const char *, const char *);
FILE *fopen(const char *path, const char *mode) {
  REAL(fopen, fopen_t);
  init();
  if (path && !excluded_path(path) && hit(C_OPEN)) { errno = fault_errno; return NULL; }
  return real_fopen(path, mode);
}
FILE *fopen64(const char *path, const char *mode) {
  REAL(fopen64, fopen_t);
  init();
  if (path && !excluded_path(path) && hit(C_OPEN)) { errno = fault_errno; return NULL; }
  return real_fopen64(path, mode);
}

typedef int (*mkstemp_t)(char *);
int mkstemp(char *t) {
  REAL(mkstemp, mkstemp_t);
  if (hit(C_MKSTEMP)) { errno = fault_errno; return -1; }
  return real_mkstemp(t);
}
int mkstemp64(char *t) {
  REAL(mkstemp64, mkstemp_t);
  if (hit(C_MKSTEMP)) { errno = fault_errno; return -1; }
  return real_mkstemp64(t);
}

/* ------------------------------------------------------------------ stdio */
static int data_file(FILE *f) { return f && f != stderr && is_data_fd(fileno(f)); }

typedef size_t (*fwrite_t)(const void *, size_t, size_t, FILE *);
size_t fwrite(const void *p, size_t s, size_t n, FILE *f) {
  REAL(fwrite, fwrite_t);
  if (data_file(f) && hit(C_FWRITE)) { errno = fault_errno; f->_flags |= 0x20 /* _IO_ERR_SEEN */; return 0; }
  return real_fwrite(p, s, n, f);
}
typedef size_t (*fread_t)(void *, size_t, size_t, FILE *);
size_t fread(void *p, size_t s, size_t n, FILE *f) {
  REAL(fread, fread_t);
  if (data_file(f) && hit(C_FREAD)) { errno = fault_errno; f->_flags |= 0x20; return 0; }
  return real_fread(p, s, n, f);
}
typedef int (*fflush_t)(FILE *);
int fflush(FILE *f) {
  REAL(fflush, fflush_t);
  /* a flush with nothing pending cannot fail (e.g. the fflush(stdout) behind every std::cerr <<) */
  if (f && data_file(f) && __fpending(f) > 0 && hit(C_FFLUSH)) { errno = fault_errno; f->_flags |= 0x20; return EOF; }
  return real_fflush(f);
}
int fclose(FILE *f) {
  REAL(fclose, fflush_t);
  /* only a close that still has output to flush is faulted (the flush inside fclose fails: data lost) */
  if (data_file(f) && __fpending(f) > 0 && hit(C_FCLOSE)) { __fpurge(f); real_fclose(f); errno = fault_errno; return EOF; }
  return real_fclose(f);
}
typedef int (*fseek_t)(FILE *, long, int);
int fseek(FILE *f, long o, int w) {
  REAL(fseek, fseek_t);
  if (data_file(f) && hit(C_FSEEK)) { errno = fault_errno; return -1; }
  return real_fseek(f, o, w);
}
typedef int (*fseeko_t)(FILE *, off_t, int);
int fseeko(FILE *f, off_t o, int w) {
  REAL(fseeko, fseeko_t);
  if (data_file(f) && hit(C_FSEEK)) { errno = fault_errno; return -1; }
  return real_fseeko(f, o, w);
}
int fseeko64(FILE *f, off_t o, int w) {
  REAL(fseeko64, fseeko_t);
  if (data_file(f) && hit(C_FSEEK)) { errno = fault_errno; return -1; }
  return real_fseeko64(f, o, w);
}
typedef void (*rewind_t)(FILE *);
void rewind(FILE *f) {
  REAL(rewind, rewind_t);
  if (data_file(f) && __fpending(f) > 0 && hit(C_REWIND)) { __fpurge(f); }
  real_rewind(f);
}
