#!/usr/bin/env python3
"""Validate evidence/*.json against /root/.vp/EVIDENCE.schema.json (run with python3-vt)."""
import glob, json, os, sys
import jsonschema
V = os.path.dirname(os.path.dirname(os.path.abspath(__file__)))
schema = json.load(open("/root/.vp/EVIDENCE.schema.json"))
bad = 0
for f in sorted(glob.glob(os.path.join(V, "evidence", "*.json"))):
    try:
        jsonschema.validate(json.load(open(f)), schema)
        print("ok  ", os.path.basename(f))
    except Exception as e:
        bad += 1
        print("BAD ", os.path.basename(f), str(e)[:300])
sys.exit(1 if bad else 0)
