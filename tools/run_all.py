#!/usr/bin/env python3
"""Run every registered check (MANIFEST.json) on /repo as it is: `tools/run_all.py [--tier quick] [--seeds 1,2] [--jobs 3] [--only C01,C02]`.
Prints one line per (check, seed); exit 1 if any check exits non-zero."""
import argparse, json, os, subprocess, sys, time
from concurrent.futures import ThreadPoolExecutor
V = os.path.dirname(os.path.dirname(os.path.abspath(__file__)))
ap = argparse.ArgumentParser()
ap.add_argument("--tier", default="quick"); ap.add_argument("--seeds", default="1"); ap.add_argument("--jobs", type=int, default=1)
ap.add_argument("--only", default=None)
a = ap.parse_args()
man = json.load(open(os.path.join(V, "MANIFEST.json")))
ids = [c["property_id"] for c in man["checks"]]
if a.only:
    ids = [i for i in ids if i in a.only.split(",")]
def one(job):
    pid, seed = job
    env = dict(os.environ, VERIF_SEED=str(seed))
    t0 = time.time()
    r = subprocess.run([sys.executable, os.path.join(V, "check.py"), pid, "--tier", a.tier], cwd=V, env=env, capture_output=True, text=True)
    vio = [l for l in r.stdout.splitlines() if l.startswith("VIOLATION")]
    kf = len([l for l in r.stdout.splitlines() if l.startswith("KNOWN-FINDING")])
    line = "%s seed=%s tier=%s exit=%d wall=%.0fs known=%d %s" % (pid, seed, a.tier, r.returncode, time.time() - t0, kf, vio[:2])
    print(line, flush=True)
    return r.returncode
jobs = [(p, s) for s in a.seeds.split(",") for p in ids]
with ThreadPoolExecutor(a.jobs) as ex:
    rcs = list(ex.map(one, jobs))
sys.exit(1 if any(rcs) else 0)
