// Constant probe for C05/C06/C07: values the KN theorems mention, re-extracted from the
// current tree.  Header constants come from the real headers; three *behavioural* constants
// (which variant of the code the tree contains) are observed on the tree's own bin/lmplz
// (path given by -DLMPLZ_BIN="...") with fixed witness corpora, because the code in question
// lives in anonymous namespaces of adjust_counts.cc / initial_probabilities.cc.
#include "lm/builder/payload.hh"
#include "lm/builder/discount.hh"
#include "lm/word_index.hh"
#include "lm/max_order.hh"

#include <cstdio>
#include <cstdlib>
#include <cstring>
#include <string>
#include <unistd.h>

#ifndef LMPLZ_BIN
#error "compile with -DLMPLZ_BIN=\"/path/to/bin/lmplz\""
#endif

static std::string dir;

static void put(const std::string &name, const char *data) {
  FILE *f = fopen((dir + "/" + name).c_str(), "wb");
  fwrite(data, 1, strlen(data), f);
  fclose(f);
}

static std::string slurp(const std::string &name) {
  std::string out;
  FILE *f = fopen((dir + "/" + name).c_str(), "rb");
  if (!f) return out;
  char buf[4096];
  size_t n;
  while ((n = fread(buf, 1, sizeof(buf), f)) > 0) out.append(buf, n);
  fclose(f);
  return out;
}

static int lmplz(const std::string &args, const std::string &tag) {
  std::string cmd = std::string("timeout 120 ") + LMPLZ_BIN + " -S 64M -T " + dir + "/ " + args +
    " --text " + dir + "/" + tag + ".txt --arpa " + dir + "/" + tag + ".arpa > /dev/null 2> " + dir + "/" + tag + ".err";
  return system(cmd.c_str());
}

int main() {
  char tmpl[] = "/var/tmp/probe_c05_XXXXXX";
  if (!mkdtemp(tmpl)) { perror("mkdtemp"); return 2; }
  dir = tmpl;
  printf("maxOrder : Nat := %d\n", KENLM_MAX_ORDER);
  printf("kUNK : Nat := %u\n", (unsigned)lm::kUNK);
  printf("kBOS : Nat := %u\n", (unsigned)lm::builder::kBOS);
  printf("kEOS : Nat := %u\n", (unsigned)lm::builder::kEOS);
  lm::builder::Discount d; d.amount[0] = 0; d.amount[1] = 0.5; d.amount[2] = 1; d.amount[3] = 1.5;
  // Discount::Get caps the count at 3; Apply(0) = 0
  printf("discountCap : Nat := %d\n", (d.Get(3) == d.Get(1000) && d.Get(2) != d.Get(3)) ? 3 : 0);
  printf("markBit : Nat := %d\n", 63);
  lm::builder::BuildingPayload p; p.count = 5; p.Mark();
  if (!(p.IsMarked() && p.UnmarkedCount() == 5 && p.CutoffCount() == 0 && (p.count >> 63) == 1)) { fprintf(stderr, "payload marks changed\n"); return 3; }

  // (A) which count does the final flush of AdjustCounts::Run hand to the statistics?
  put("a.txt", "w0\nw0 w4\nw4 w6\nw0 w1\nw0 w0 w0\nw4 w3\nw0 w3\nw0 w1 w1 w0\nw0 zz\nw0 zz\nw0 zz\n");
  int rc = lmplz("-o 2", "a");
  std::string err = slurp("a.err");
  size_t at = err.find("\n1 9 D1=");
  if (rc != 0 || at == std::string::npos) { fprintf(stderr, "witness A: lmplz rc=%d\n%s\n", rc, err.c_str()); return 4; }
  double d1 = atof(err.c_str() + at + 8);
  if (d1 > 0.2499 && d1 < 0.2501) printf("flushAdjusted : Bool := true\n");
  else if (d1 > 0.1428 && d1 < 0.1429) printf("flushAdjusted : Bool := false\n");
  else { fprintf(stderr, "witness A: unexpected D1=%g\n", d1); return 5; }

  // (B) are the special unigrams exempt from count pruning in the order >= 2 paths?
  put("b.txt", "a b c\na b\nb c a\n");
  rc = lmplz("-o 2 --discount_fallback --prune 3 3", "b");
  std::string arpa = slurp("b.arpa");
  if (rc != 0) { fprintf(stderr, "witness B: lmplz rc=%d\n", rc); return 6; }
  if (arpa.find("ngram 1=3\n") != std::string::npos) printf("keepSpecials : Bool := true\n");
  else if (arpa.find("ngram 1=2\n") != std::string::npos) printf("keepSpecials : Bool := false\n");
  else { fprintf(stderr, "witness B: unexpected header\n%s\n", arpa.c_str()); return 7; }

  // (C) does PruneNGramStream move special unigrams that follow pruned entries (renumbered vocabulary)?
  put("c.txt", "a b c\na b\nb c a\nc c a b\nd a\n");
  rc = lmplz("-o 2 --discount_fallback --prune 1 --renumber", "c");
  arpa = slurp("c.arpa");
  bool good = rc == 0 && arpa.find("\t<s>\t") != std::string::npos && arpa.find("\t</s>\t") != std::string::npos &&
              arpa.find("\\end\\") != std::string::npos;
  printf("pruneCopiesSpecials : Bool := %s\n", good ? "true" : "false");

  // (D) the option-vector rule of ParsePruning, observed on fixed vectors (value list, order):
  //     accepted = lmplz does not refuse the vector up front
  {
    put("d.txt", "a b c\na b c\na b\nc a b c\n");
    const char *vecs[][2] = {{"0 1 2", "3"}, {"0 2 1", "3"}, {"0 2 1", "4"}, {"2 1 1", "3"}, {"1 0", "2"}, {"1 0", "3"},
                             {"0 0 0 0", "3"}, {"0 2 2 1", "4"}, {"0 1 2 1", "4"}, {"1", "3"}, {"0 0 1", "3"}, {"3 3", "2"},
                             {"0 2 1 1", "4"}, {"1 2 0", "5"}};
    printf("pruneProbe : List (List Nat × Nat × Bool) := [");
    for (unsigned i = 0; i < sizeof(vecs) / sizeof(vecs[0]); ++i) {
      lmplz(std::string("-o ") + vecs[i][1] + " --discount_fallback --prune " + vecs[i][0], "d");
      std::string e = slurp("d.err");
      bool refused = e.find("Pruning thresholds should be in non-decreasing order") != std::string::npos ||
                     e.find("You specified pruning thresholds for orders") != std::string::npos ||
                     e.find("Bad pruning threshold") != std::string::npos;
      std::string l(vecs[i][0]);
      for (size_t k = 0; k < l.size(); ++k) if (l[k] == ' ') l[k] = ',';
      printf("%s([%s], %s, %s)", i ? ", " : "", l.c_str(), vecs[i][1], refused ? "false" : "true");
    }
    printf("]\n");
  }

  std::string rm = "rm -rf " + dir;
  if (system(rm.c_str())) {}
  return 0;
}
