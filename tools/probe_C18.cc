// Constant probe for C18: values the FilePiece model and theorems depend on, re-extracted from
// the current tree on every run (lines `name : Type := value`).
// The real sources are part of this translation unit (vlib.lean.regenerate compiles one file).
#define private public
#include "util/file_piece.hh"
#undef private
#include "util/file_piece.cc"
#include "util/read_compressed.cc"
#include "util/file.cc"
#include "util/mmap.cc"
#include "util/exception.cc"
#include "util/ersatz_progress.cc"
#include "util/spaces.cc"
#include "util/scoped.cc"
#include "util/parallel_read.cc"
#include "util/integer_to_string.cc"
#include <cstdio>
#include <fcntl.h>

int main() {
  printf("kSpaces : List Nat := [");
  bool first = true;
  for (int i = 0; i < 256; ++i) if (util::kSpaces[i]) { printf("%s%d", first ? "" : ", ", i); first = false; }
  printf("]\n");
  printf("pageSize : Nat := %lu\n", (unsigned long)util::SizePage());
  printf("kMagicSize : Nat := %lu\n", (unsigned long)util::ReadCompressed::kMagicSize);
  // default min_buffer, observed through default_map_size_ of a FilePiece built with default arguments
  int fd = open("/dev/null", O_RDONLY);
  util::FilePiece f(fd);
  printf("defaultMapSize : Nat := %lu\n", (unsigned long)f.default_map_size_);
  int fd2 = open("/dev/null", O_RDONLY);
  util::FilePiece g(fd2, "x", NULL, 0);
  printf("minMapSize : Nat := %lu\n", (unsigned long)g.default_map_size_);
  return 0;
}
