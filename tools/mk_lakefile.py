#!/usr/bin/env python3
"""Regenerate lean/lakefile.toml: fixed libs + one lean_exe drv_<X> per lean/Driver/<X>.lean."""
import os
V = os.path.dirname(os.path.dirname(os.path.abspath(__file__)))
head = '''name = "kv"
version = "0.1.0"
defaultTargets = ["Model", "Generated", "Proofs", "Properties", "Driver"]

# Model: Mathlib-free executable models (core + Std only) so drivers link natively.
[[lean_lib]]
name = "Model"
globs = ["Model.+"]

# Generated: constants re-extracted from /repo on every check run.
[[lean_lib]]
name = "Generated"
globs = ["Generated.+"]

# Proofs: helper lemmas (may import single Mathlib modules).
[[lean_lib]]
name = "Proofs"
globs = ["Proofs.+"]

# Properties: the property theorems, one file per property.
[[lean_lib]]
name = "Properties"
globs = ["Properties.+"]

# Drivers: one native executable per correspondence stream (imports Model only).
[[lean_lib]]
name = "Driver"
globs = ["Driver.+"]
'''
out = [head]
for fn in sorted(os.listdir(os.path.join(V, "lean", "Driver"))):
    if fn.endswith(".lean"):
        x = fn[:-5]
        src = open(os.path.join(V, "lean", "Driver", fn)).read()
        if "def main" not in src:
            continue
        out.append('[[lean_exe]]\nname = "drv_%s"\nroot = "Driver.%s"\n' % (x, x))
open(os.path.join(V, "lean", "lakefile.toml"), "w").write("\n".join(out))
print("lakefile: %d drivers" % (len(out) - 1))
