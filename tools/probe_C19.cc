// Constant probe for C19: prints, from the *current* tree, every constant the theorems in
// lean/Properties/C19.lean depend on, as lines `name : Type := value`.
//   * ToStringBuf<T>::kBytes for every T, kToStringMaxBytes          (util/*_to_string.hh)
//   * the DoubleToStringConverter configuration of util::kConverter  (util/float_to_string.cc)
//   * FileStream's minimum buffer (FileStream(-1, 0): end_ - current_) (util/file_stream.hh)
//   * whether the SSE2 code path of integer_to_string.cc is compiled
// Private members are read by compiling the kenlm/double-conversion headers with
// private/protected made public (standard headers are included before that).
#include <algorithm>
#include <cassert>
#include <climits>
#include <cmath>
#include <cstddef>
#include <cstdio>
#include <cstdlib>
#include <cstring>
#include <exception>
#include <iostream>
#include <limits>
#include <sstream>
#include <string>
#include <vector>
#include <stdint.h>
#include <inttypes.h>

#define private public
#define protected public
#include "util/double-conversion/double-conversion.h"
#include "util/double-conversion/utils.h"
#include "util/float_to_string.cc"   // defines util::(anonymous)::kConverter and util::ToString(float/double)
#include "util/file_stream.hh"
#undef private
#undef protected

static void str(const char *name, const char *s) {
  if (!s) { printf("%sIsNull : Bool := true\n", name); s = ""; }
  else printf("%sIsNull : Bool := false\n", name);
  printf("%s : String := \"", name);
  for (; *s; ++s) {
    unsigned char c = (unsigned char)*s;
    if (c == '"' || c == '\\') printf("\\%c", c);
    else if (c < 32 || c > 126) printf("\\x%02x", c);
    else putchar(c);
  }
  printf("\"\n");
}

int main() {
  using namespace util;
  printf("kBytesBool : Nat := %u\n", (unsigned)ToStringBuf<bool>::kBytes);
  printf("kBytesU16 : Nat := %u\n", (unsigned)ToStringBuf<uint16_t>::kBytes);
  printf("kBytesI16 : Nat := %u\n", (unsigned)ToStringBuf<int16_t>::kBytes);
  printf("kBytesU32 : Nat := %u\n", (unsigned)ToStringBuf<uint32_t>::kBytes);
  printf("kBytesI32 : Nat := %u\n", (unsigned)ToStringBuf<int32_t>::kBytes);
  printf("kBytesU64 : Nat := %u\n", (unsigned)ToStringBuf<uint64_t>::kBytes);
  printf("kBytesI64 : Nat := %u\n", (unsigned)ToStringBuf<int64_t>::kBytes);
  printf("kBytesPtr : Nat := %u\n", (unsigned)ToStringBuf<const void*>::kBytes);
  printf("kBytesFloat : Nat := %u\n", (unsigned)ToStringBuf<float>::kBytes);
  printf("kBytesDouble : Nat := %u\n", (unsigned)ToStringBuf<double>::kBytes);
  printf("kToStringMaxBytes : Nat := %u\n", (unsigned)kToStringMaxBytes);
  printf("pointerBits : Nat := %u\n", (unsigned)(sizeof(void*) * 8));

  // the StringBuilder sizes handed to double-conversion by util::ToString are the same kBytes
  // (float_to_string.cc passes ToStringBuf<T>::kBytes); the converter itself:
  const double_conversion::DoubleToStringConverter &c = kConverter;
  printf("convFlags : Nat := %d\n", c.flags_);
  str("infSymbol", c.infinity_symbol_);
  str("nanSymbol", c.nan_symbol_);
  printf("expChar : Nat := %u\n", (unsigned)(unsigned char)c.exponent_character_);
  printf("decimalLow : Int := %d\n", c.decimal_in_shortest_low_);
  printf("decimalHigh : Int := %d\n", c.decimal_in_shortest_high_);
  printf("minExponentWidth : Nat := %d\n", c.min_exponent_width_ < 0 ? 0 : c.min_exponent_width_);
  printf("base10MaximalLength : Nat := %d\n", double_conversion::DoubleToStringConverter::kBase10MaximalLength);
  printf("base10MaximalLengthSingle : Nat := %d\n", double_conversion::DoubleToStringConverter::kBase10MaximalLengthSingle);

  {
    FileStream f(-1, 0);
    printf("fileStreamMinBuffer : Nat := %zu\n", (size_t)(f.end_ - f.current_));
  }
  {
    FileStream f(-1, 8192);
    printf("fileStreamDefaultBuffer : Nat := %zu\n", (size_t)(f.end_ - f.current_));
  }
#if defined(__amd64) || defined(_M_X64) || (defined(__SSE2__) && (defined(_M_IX86) || defined(i386)))
  printf("sse2Path : Bool := true\n");
#else
  printf("sse2Path : Bool := false\n");
#endif
  return 0;
}
