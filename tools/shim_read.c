/* LD_PRELOAD shim forcing short read()s and mmap() failures (C18: "every way the operating system splits the data
 * into reads").  Only descriptors >= fdmin (default 3) are affected, so stdin/stdout protocols
 * stay intact.  The size of a read is a function of (mode, seed, number of bytes this descriptor
 * has delivered so far) and nothing else, so lean/Driver/C18.lean can reproduce it exactly:
 *   mode 0  off
 *   mode 1  1 byte
 *   mode 2  span bytes (use page-1 = 4095)
 *   mode 3  1 + mix(seed, delivered) % span
 * Configure with KV_SHIM="<mode>:<seed>:<span>[:<fdmin>]" or, from inside the process, through
 * kv_shim_config() (looked up with dlsym by harness/c18.cc).  A read never returns 0 unless the
 * real read did, never more than requested, never fails on its own.  "Delivered so far" is the
 * file position for seekable descriptors (so it stays meaningful after FilePiece seeks when it
 * falls back from mmap to read) and a per-descriptor byte counter for pipes.
 * kv_shim_mmap_fail_from(T): every file-backed mmap() of a descriptor >= fdmin at file offset >= T
 * fails with ENOMEM (T < 0: never) - exercises MMapShift's fall back to read().
 */
#define _GNU_SOURCE
#include <dlfcn.h>
#include <stdint.h>
#include <stdlib.h>
#include <string.h>
#include <unistd.h>
#include <errno.h>
#include <sys/mman.h>
#include <sys/types.h>

#define KV_MAXFD 4096
static int kv_mode = 0, kv_fdmin = 3, kv_inited = 0;
static uint64_t kv_seed = 0, kv_span = 1;
static uint64_t kv_delivered[KV_MAXFD];
static uint64_t kv_calls = 0, kv_shortened = 0;

void kv_shim_config(int mode, uint64_t seed, uint64_t span, int fdmin) {
  kv_mode = mode; kv_seed = seed; kv_span = span ? span : 1; kv_fdmin = fdmin; kv_inited = 1;
}
static long long kv_mmap_fail_from = -1;
void kv_shim_mmap_fail_from(long long t) { kv_mmap_fail_from = t; }
void kv_shim_reset(int fd) { if (fd >= 0 && fd < KV_MAXFD) kv_delivered[fd] = 0; }
uint64_t kv_shim_calls(void) { return kv_calls; }
uint64_t kv_shim_shortened(void) { return kv_shortened; }

/* the same function is written in Lean (Driver/C18.lean `shimMix`) */
uint64_t kv_shim_mix(uint64_t seed, uint64_t pos) {
  uint64_t x = pos * 6364136223846793005ULL + seed * 1442695040888963407ULL + 1013904223ULL;
  x ^= x >> 29;
  x *= 0xBF58476D1CE4E5B9ULL;
  x ^= x >> 32;
  return x;
}

static void kv_init(void) {
  if (kv_inited) return;
  kv_inited = 1;
  const char *c = getenv("KV_SHIM");
  if (!c) return;
  char *e;
  kv_mode = (int)strtol(c, &e, 10);
  if (*e == ':') kv_seed = strtoull(e + 1, &e, 10);
  if (*e == ':') kv_span = strtoull(e + 1, &e, 10);
  if (*e == ':') kv_fdmin = (int)strtol(e + 1, &e, 10);
  if (!kv_span) kv_span = 1;
}

ssize_t read(int fd, void *buf, size_t n) {
  static ssize_t (*real)(int, void *, size_t);
  if (!real) real = (ssize_t (*)(int, void *, size_t))dlsym(RTLD_NEXT, "read");
  kv_init();
  size_t want = n;
  if (kv_mode && fd >= kv_fdmin && fd < KV_MAXFD && n > 0) {
    uint64_t lim;
    if (kv_mode == 1) lim = 1;
    else if (kv_mode == 2) lim = kv_span;
    else {
      off_t here = lseek(fd, 0, SEEK_CUR);
      lim = 1 + kv_shim_mix(kv_seed, here >= 0 ? (uint64_t)here : kv_delivered[fd]) % kv_span;
    }
    if (lim < want) { want = (size_t)lim; ++kv_shortened; }
    ++kv_calls;
  }
  ssize_t r = real(fd, buf, want);
  if (r > 0 && fd >= 0 && fd < KV_MAXFD) kv_delivered[fd] += (uint64_t)r;
  return r;
}

int close(int fd) {
  static int (*real)(int);
  if (!real) real = (int (*)(int))dlsym(RTLD_NEXT, "close");
  if (fd >= 0 && fd < KV_MAXFD) kv_delivered[fd] = 0;
  return real(fd);
}

void *mmap(void *addr, size_t len, int prot, int flags, int fd, off_t off) {
  static void *(*real)(void *, size_t, int, int, int, off_t);
  if (!real) real = (void *(*)(void *, size_t, int, int, int, off_t))dlsym(RTLD_NEXT, "mmap");
  if (fd >= kv_fdmin && kv_mmap_fail_from >= 0 && (long long)off >= kv_mmap_fail_from) { errno = ENOMEM; return MAP_FAILED; }
  return real(addr, len, prot, flags, fd, off);
}
void *mmap64(void *addr, size_t len, int prot, int flags, int fd, off_t off) { return mmap(addr, len, prot, flags, fd, off); }
