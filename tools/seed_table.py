#!/usr/bin/env python3
"""Emit the markdown table of seeded breaking changes and which checks catch them (for DESIGN.md §11)."""
import glob, json, os
V = os.path.dirname(os.path.dirname(os.path.abspath(__file__)))
rows = []
for d in sorted(glob.glob(os.path.join(V, "seeded", "*"))):
    n = os.path.basename(d)
    try:
        m = json.load(open(os.path.join(d, "meta.json")))
    except Exception:
        continue
    caught_by = []
    missed_by = []
    for tier in ("quick", "thorough"):
        p = os.path.join(d, "result_%s.json" % tier)
        if os.path.exists(p):
            r = json.load(open(p))
            for k, v in r["results"].items():
                c = k.split("@")[0]
                (caught_by if (v["exit"] == 1 and v["violations"]) else missed_by).append("%s/%s" % (c, tier))
    extra = m.get("also_caught_by", [])
    hist = m.get("history", "")
    files = ", ".join(os.path.basename(f) for f in m.get("files", []))[:60]
    what = (m.get("breaks", "") or "").replace("\n", " ").replace("|", "/")[:150]
    needs = (m.get("needs", "") or "").replace("\n", " ").replace("|", "/")[:150]
    rows.append("| %s | %s | %s | %s | %s | %s |" % (n, files, what, needs, ", ".join(sorted(set(caught_by + extra))) or "—",
                                                  hist or (", ".join(sorted(set(missed_by) - set(caught_by))) and "missed: " + ", ".join(sorted(set(missed_by) - set(caught_by)))) or ""))
print("| seed | files | breaks | needs | caught by | notes |")
print("|------|-------|--------|-------|-----------|-------|")
print("\n".join(rows))
