// Constant probe for C04 (binary file format).  Includes the real .cc files so that the
// anonymous-namespace structs / magic strings / version bytes are the ones the code uses now.
// Linked against the cmake build of the same tree (vlib.repo.build) for the util symbols.
// Prints `name : Type := value` lines -> lean/Generated/C04.lean (namespace KV.Gen.C04).
#include "lm/binary_format.cc"
#include "lm/bhiksha.cc"
#include "lm/quantize.cc"
#include "lm/vocab.cc"
#include "lm/search_hashed.hh"
#include "lm/search_trie.hh"
#include "lm/model.hh"
#include "lm/value.hh"
#include "lm/config.hh"

#include <cstddef>
#include <cstdio>
#include <cstring>

using namespace lm::ngram;

static void Nat(const char *name, unsigned long long v) { std::printf("%s : Nat := %llu\n", name, v); }
static void Bytes(const char *name, const void *p, std::size_t n) {
  std::printf("%s : List Nat := [", name);
  const unsigned char *c = static_cast<const unsigned char*>(p);
  for (std::size_t i = 0; i < n; ++i) std::printf("%s%u", i ? ", " : "", (unsigned)c[i]);
  std::printf("]\n");
}
static unsigned FloatBits(float f) { unsigned u; std::memcpy(&u, &f, 4); return u; }

int main() {
  // --- magic strings -------------------------------------------------------------------
  Bytes("magicBytes", kMagicBytes, sizeof(kMagicBytes));              // includes both NULs
  Bytes("magicIncomplete", kMagicIncomplete, std::strlen(kMagicIncomplete));
  Bytes("magicBeforeVersion", kMagicBeforeVersion, std::strlen(kMagicBeforeVersion));
  Nat("magicVersion", kMagicVersion);
  // --- Sanity --------------------------------------------------------------------------
  Sanity s = Sanity();
  s.SetToReference();
  Nat("sizeofSanity", sizeof(Sanity));
  Bytes("sanityRef", &s, sizeof(Sanity));
  Nat("sanityMagicField", sizeof(s.magic));
  Nat("offZeroF", offsetof(Sanity, zero_f));
  Nat("offOneF", offsetof(Sanity, one_f));
  Nat("offMinusHalfF", offsetof(Sanity, minus_half_f));
  Nat("offOneWordIndex", offsetof(Sanity, one_word_index));
  Nat("offMaxWordIndex", offsetof(Sanity, max_word_index));
  Nat("offPaddingTo8", offsetof(Sanity, padding_to_8));
  Nat("offOneUint64", offsetof(Sanity, one_uint64));
  Nat("sizeofWordIndex", sizeof(lm::WordIndex));
  Nat("bitsOneF", FloatBits(1.0f));
  Nat("bitsMinusHalfF", FloatBits(-0.5f));
  // --- FixedWidthParameters ------------------------------------------------------------
  Nat("sizeofFixed", sizeof(FixedWidthParameters));
  Nat("offOrder", offsetof(FixedWidthParameters, order));
  Nat("offMultiplier", offsetof(FixedWidthParameters, probing_multiplier));
  Nat("offModelType", offsetof(FixedWidthParameters, model_type));
  Nat("offHasVocab", offsetof(FixedWidthParameters, has_vocabulary));
  Nat("offSearchVersion", offsetof(FixedWidthParameters, search_version));
  Nat("sizeofModelType", sizeof(ModelType));
  Nat("sizeofBool", sizeof(bool));
  Nat("sizeofSearchVersion", sizeof(unsigned int));
  Nat("sizeofCount", sizeof(uint64_t));
  {
    std::printf("totalHeaderSizes : List Nat := [");
    for (unsigned o = 0; o <= KENLM_MAX_ORDER; ++o) std::printf("%s%zu", o ? ", " : "", TotalHeaderSize(o));
    std::printf("]\n");
  }
  Nat("maxOrder", KENLM_MAX_ORDER);
  // --- model types and versions --------------------------------------------------------
  Nat("tProbing", PROBING); Nat("tRestProbing", REST_PROBING); Nat("tTrie", TRIE);
  Nat("tQuantTrie", QUANT_TRIE); Nat("tArrayTrie", ARRAY_TRIE); Nat("tQuantArrayTrie", QUANT_ARRAY_TRIE);
  Nat("quantAdd", kQuantAdd); Nat("arrayAdd", kArrayAdd);
  Nat("numModelNames", sizeof(kModelNames) / sizeof(const char *));
  Nat("typeOfProbingModel", ProbingModel::kModelType);
  Nat("typeOfRestProbingModel", RestProbingModel::kModelType);
  Nat("typeOfTrieModel", TrieModel::kModelType);
  Nat("typeOfQuantTrieModel", QuantTrieModel::kModelType);
  Nat("typeOfArrayTrieModel", ArrayTrieModel::kModelType);
  Nat("typeOfQuantArrayTrieModel", QuantArrayTrieModel::kModelType);
  Nat("hashedSearchVersion", detail::HashedSearch<BackoffValue>::kVersion);
  Nat("restHashedSearchVersion", detail::HashedSearch<RestValue>::kVersion);
  Nat("trieSearchVersion", trie::TrieSearch<DontQuantize, trie::DontBhiksha>::kVersion);
  Nat("probingVocabVersion", kProbingVocabularyVersion);
  Nat("arrayBhikshaVersion", trie::kArrayBhikshaVersion);
  Nat("separatelyQuantizeVersion", (unsigned char)kSeparatelyQuantizeVersion);
  // --- entry sizes ---------------------------------------------------------------------
  Nat("sizeofProbBackoff", sizeof(lm::ProbBackoff));
  Nat("sizeofRestWeights", sizeof(lm::RestWeights));
  Nat("sizeofProb", sizeof(lm::Prob));
  Nat("sizeofBackoffProbingEntry", sizeof(BackoffValue::ProbingEntry));
  Nat("sizeofRestProbingEntry", sizeof(RestValue::ProbingEntry));
  Nat("sizeofProbEntry", sizeof(detail::ProbEntry));
  Nat("sizeofProbingVocabEntry", sizeof(ProbingVocabularyEntry));
  Nat("sizeofProbingVocabHeader", sizeof(detail::ProbingVocabularyHeader));
  Nat("offVocabHeaderVersion", offsetof(detail::ProbingVocabularyHeader, version));
  Nat("offVocabHeaderBound", offsetof(detail::ProbingVocabularyHeader, bound));
  Nat("sizeofTrieUnigramValue", sizeof(trie::UnigramValue));
  Nat("sizeofFloat", sizeof(float));
  Nat("sizeofUint64", sizeof(uint64_t));
  // --- trie bit widths -----------------------------------------------------------------
  Config c;
  Nat("dontQuantMiddleBits", DontQuantize::MiddleBits(c));
  Nat("dontQuantLongestBits", DontQuantize::LongestBits(c));
  Nat("quantHeaderBytes", SeparatelyQuantize::Size(2, c) - ((1ull << c.prob_bits) * sizeof(float)));
  Nat("defaultMultiplierBits", FloatBits(c.probing_multiplier));
  Nat("defaultProbBits", c.prob_bits);
  Nat("defaultBackoffBits", c.backoff_bits);
  Nat("defaultBhikshaBits", c.pointer_bhiksha_bits);
  // ArrayBhiksha::Size(max_offset=1, max_next=0) = 8 * (1 + 1) + slack
  Nat("arrayBhikshaSlack", trie::ArrayBhiksha::Size(1, 0, c) - 16);
  // BaseSize slack: BitPackedLongest::Size(quant_bits=0, entries=0, max_vocab=0) = (0+7)/8 + slack
  Nat("bitPackedSlack", trie::BitPackedLongest::Size(0, 0, 0));
  Nat("sortedVocabSize0", SortedVocabulary::Size(0, c));
  Nat("sortedVocabSize1", SortedVocabulary::Size(1, c));
  return 0;
}
