// Constant probe for C11: the highest n-gram order the tools are built for (the phrase-mode
// generators produce n-grams up to this order and phrases at least this long).
#include "lm/max_order.hh"
#include <cstdio>
int main() {
  std::printf("kenlmMaxOrder : Nat := %d\n", (int)KENLM_MAX_ORDER);
  return 0;
}
