#!/usr/bin/env python3
"""Regenerate /verif/MANIFEST.json from the MANIFEST dicts of checks/Cxx.py and validate it."""
import importlib
import json
import os
import sys

V = os.path.dirname(os.path.dirname(os.path.abspath(__file__)))
sys.path.insert(0, V)

props = [json.loads(l)["id"] for l in open(os.path.join(V, "properties.jsonl"))]
checks, na = [], []
for pid in props:
    path = os.path.join(V, "checks", pid + ".py")
    m = None
    if os.path.exists(path):
        mod = importlib.import_module("checks." + pid)
        m = getattr(mod, "MANIFEST", None)
    if not m:
        na.append({"property_id": pid, "reason": "not yet built: the Lean model, theorems and correspondence for this "
                   "property are designed in DESIGN.md §5 but no check is registered yet (work in progress, not a "
                   "limit of the technique)"})
        continue
    if m.get("not_applicable"):
        na.append({"property_id": pid, "reason": m["not_applicable"]})
        continue
    c = {
        "property_id": pid,
        "quick_cmd": "python3 check.py %s --tier quick" % pid,
        "thorough_cmd": "python3 check.py %s --tier thorough" % pid,
        "evidence_file": "/verif/evidence/%s.json" % pid,
        "replay_cmd_template": "python3 check.py %s --replay {path}" % pid,
        "engine": "lean4-proof+correspondence",
        "level_claimed": {"category": m.get("category", "proof"), "text": m["text"], "design_ref": "DESIGN.md §5 " + pid},
        "level_note": m["note"],
        "technique": m["technique"],
    }
    checks.append(c)

man = {
    "version": 1,
    "setup_cmd": "bash /verif/setup.sh",
    "hooks": {
        "guard": "KPU_KENLM_VERIF",
        "enable": "checks build /repo's working tree in /var/tmp/kpu-kenlm-verif/build/<treehash>/ with -DKPU_KENLM_VERIF "
                  "in CMAKE_CXX_FLAGS (vlib/repo.py) and compile header-only harnesses with -DKPU_KENLM_VERIF",
        "baseline_off_cmd": "cmake -S /repo -B /repo/_build -G Ninja -DCOMPILE_TESTS=ON -DCMAKE_BUILD_TYPE=RelWithDebInfo "
                            "&& cmake --build /repo/_build -j16 && ctest --test-dir /repo/_build -j8 --timeout 900",
        "source_commits": json.load(open(os.path.join(V, "hooks.json")))["source_commits"],
        "add_only": True,
    },
    "engines": [{
        "name": "lean4-proof+correspondence",
        "path": "/verif/check.py",
        "serves_properties": [c["property_id"] for c in checks],
        "kind_free_text": "Lean 4 theorems over executable models (lean/Model, lean/Properties), constants regenerated "
                          "from /repo on every run (lean/Generated), differential correspondence between the compiled Lean "
                          "drivers (lean/Driver) and C++ harnesses / CLI tools built from /repo's working tree",
    }],
    "checks": checks,
    "not_applicable": na,
    "notes": "See DESIGN.md. known findings: /verif/known_findings.jsonl. Seeded breaking changes: /verif/seeded/.",
}
LEVELS = {"exploration", "fault_enumeration", "model_checking", "proof", "translation_validation", "other"}
for c in checks:
    if c["level_claimed"]["category"] not in LEVELS:
        sys.exit("check %s: category %r is not a schema level" % (c["property_id"], c["level_claimed"]["category"]))
try:
    import jsonschema
    jsonschema.validate(man, json.load(open("/root/.vp/MANIFEST.schema.json")))   # validate BEFORE writing
    note = "valid"
except ImportError:
    note = "jsonschema not available; categories checked only"
json.dump(man, open(os.path.join(V, "MANIFEST.json"), "w"), indent=1)
print("MANIFEST.json %s: %d checks, %d not_applicable" % (note, len(checks), len(na)))
