#!/usr/bin/env python3
"""Confirm a seeded breaking change delivered by an independent sub-agent, before keeping it.

  tools/confirm_seed.py /tmp/seed/out/C20-1 [--keep-as C20-1]

In a scratch worktree of /repo (removed afterwards):
  1. the patch applies to HEAD and the tree compiles (cmake+ninja with tests);
  2. the existing test-suite passes with the patch (ctest; the known-flaky
     backoff_reunification_test is ignored);
  3. demo.sh exits 0 on the unchanged tree and non-zero with the patch.
On success copies patch.diff, demo files and meta.json (+ confirmation record) to
/verif/seeded/<name>/.
"""
import argparse
import json
import os
import shutil
import subprocess
import sys

V = os.path.dirname(os.path.dirname(os.path.abspath(__file__)))


def sh(cmd, timeout=3600, **kw):
    try:
        return subprocess.run(cmd, shell=isinstance(cmd, str), capture_output=True, text=True, timeout=timeout, **kw)
    except subprocess.TimeoutExpired as e:
        class R:
            returncode = 124
            stdout = (e.stdout or b"").decode("utf-8", "replace") if isinstance(e.stdout, bytes) else (e.stdout or "")
            stderr = "timeout"
        return R()


def build(tree, bdir):
    r = sh(["cmake", "-S", tree, "-B", bdir, "-G", "Ninja", "-DCOMPILE_TESTS=ON", "-DCMAKE_BUILD_TYPE=RelWithDebInfo"])
    if r.returncode != 0:
        return False, r.stdout + r.stderr
    r = sh(["cmake", "--build", bdir, "-j", "12"])
    return r.returncode == 0, (r.stdout + r.stderr)[-3000:]


def main():
    ap = argparse.ArgumentParser()
    ap.add_argument("src")
    ap.add_argument("--keep-as", default=None)
    a = ap.parse_args()
    src = os.path.abspath(a.src)
    name = a.keep_as or os.path.basename(src)
    meta = json.load(open(os.path.join(src, "meta.json")))
    base = "/var/tmp/rw/confirm_%s" % name
    head = sh(["git", "-C", "/repo", "rev-parse", "--short", "HEAD"]).stdout.strip()
    # the unchanged tree + its build are shared between confirmations of the same /repo HEAD
    clean, mut = "/var/tmp/rw/confirm_clean_%s" % head, base + "_mut"
    rec = {"name": name}
    import fcntl
    os.makedirs("/var/tmp/rw", exist_ok=True)
    lockf = open("/var/tmp/rw/.confirm_clean.lock", "w")
    fcntl.flock(lockf, fcntl.LOCK_EX)      # one process at a time prepares/builds the shared clean tree
    if not os.path.exists(os.path.join(clean, "build", ".ok")):
        sh(["git", "-C", "/repo", "worktree", "remove", "--force", clean])
        shutil.rmtree(clean, ignore_errors=True)
        sh(["git", "-C", "/repo", "worktree", "prune"])
        r = sh(["git", "-C", "/repo", "worktree", "add", "--detach", clean, "HEAD"])
        if r.returncode != 0:
            sys.exit("worktree: " + r.stderr)
        b1, l1 = build(clean, clean + "/build")
        if not b1:
            sys.exit("clean build failed: " + l1[-1500:])
        open(os.path.join(clean, "build", ".ok"), "w").write("ok")
    fcntl.flock(lockf, fcntl.LOCK_UN)
    for t in (clean, mut):
        if t == clean and os.path.exists(os.path.join(clean, "build", ".ok")):
            continue
        sh(["git", "-C", "/repo", "worktree", "remove", "--force", t])
        r = sh(["git", "-C", "/repo", "worktree", "add", "--detach", t, "HEAD"])
        if r.returncode != 0:
            sys.exit("worktree: " + r.stderr)
    ok = False
    try:
        r = sh(["git", "-C", mut, "apply", os.path.join(src, "patch.diff")])
        rec["applies"] = r.returncode == 0
        if r.returncode != 0:
            print("patch does not apply:", r.stderr)
            return
        if os.path.exists(os.path.join(clean, "build", ".ok")):
            b1, l1 = True, "cached"
        else:
            b1, l1 = build(clean, clean + "/build")
            if b1:
                open(os.path.join(clean, "build", ".ok"), "w").write("ok")
        b2, l2 = build(mut, mut + "/build")
        rec["compiles"] = b2
        if not (b1 and b2):
            print("build failed", l1[-500:] if not b1 else "", l2[-1500:] if not b2 else "")
            return
        r = sh(["ctest", "--test-dir", mut + "/build", "-j", "8", "--timeout", "900"])
        failed = [l for l in r.stdout.splitlines() if "***Failed" in l or "***Timeout" in l or "(Failed)" in l]
        failed = [l for l in failed if "backoff_reunification" not in l.lower()]
        rec["tests_pass"] = not failed
        rec["ctest_tail"] = r.stdout.splitlines()[-4:]
        if failed:
            print("existing tests FAIL with the patch:", failed[:5])
            return
        demo = os.path.join(src, "demo.sh")
        r1 = sh(["bash", demo, clean, clean + "/build"], timeout=1200, cwd=src)
        r2 = sh(["bash", demo, mut, mut + "/build"], timeout=1200, cwd=src)
        rec["demo_clean_exit"] = r1.returncode
        rec["demo_mutated_exit"] = r2.returncode
        rec["demo_mutated_tail"] = (r2.stdout + r2.stderr)[-600:]
        print("demo: clean exit %s, mutated exit %s" % (r1.returncode, r2.returncode))
        if r1.returncode != 0:
            print("demo fails on the CLEAN tree:", (r1.stdout + r1.stderr)[-800:])
            return
        if r2.returncode == 0:
            print("demo passes on the MUTATED tree")
            return
        ok = True
    finally:
        for t in (mut,):
            sh(["git", "-C", "/repo", "worktree", "remove", "--force", t])
            shutil.rmtree(t, ignore_errors=True)
        rec["confirmed"] = ok
        print(json.dumps(rec, indent=1))
    if ok:
        dst = os.path.join(V, "seeded", name)
        shutil.rmtree(dst, ignore_errors=True)
        shutil.copytree(src, dst)
        meta["confirmation"] = rec
        meta["repo_base"] = sh(["git", "-C", "/repo", "rev-parse", "--short", "HEAD"]).stdout.strip()
        json.dump(meta, open(os.path.join(dst, "meta.json"), "w"), indent=1)
        print("kept as", dst)


if __name__ == "__main__":
    main()
