#!/usr/bin/env python3
"""Call-site inventory for C15, regenerated from the CURRENT tree with clang-query-14 (AST matchers).

Lists every call, in lm/ and util/ sources and headers, to the raw I/O entry points the property names
(write pwrite read pread ftruncate fsync fdatasync msync mkstemp open fopen fdopen fwrite fread fflush fclose
fseek fseeko rewind mmap munmap close lseek) with file, line, enclosing function and how the result is consumed:

  throw      the call is (part of) the condition of an `if` whose branch throws (UTIL_THROW_IF & co.)
  abort      … whose branch calls abort/exit/terminate
  returned   the value is returned to the caller
  assigned   the value is stored in a variable (what happens next is reviewed by hand: the retry loops)
  compared   the call is part of some other condition
  void       the callee returns void (rewind): a failure CANNOT be seen
  ignored    none of the above: the value is dropped

and every `catch` handler in those files that does not rethrow (`swallow` / `abort` when the handler ends the process).

The AST JSON dump route was measured and rejected: 146-250 MB of JSON per translation unit (83 units);
clang-query parses a unit in 1-3 s and the matchers only report nodes expanded in project files.

usage: c15_callsites.py <repo> [out.json]        (as a module: inventory(repo, jobs))
"""
import json
import os
import re
import subprocess
import sys
from concurrent.futures import ThreadPoolExecutor

NAMES = ["write", "pwrite", "pwrite64", "read", "pread", "pread64", "ftruncate", "ftruncate64", "fsync", "fdatasync",
         "msync", "mkstemp", "mkstemp64", "open", "open64", "fopen", "fopen64", "fdopen", "fwrite", "fread", "fflush",
         "fclose", "fseek", "fseeko", "rewind", "mmap", "mmap64", "munmap", "close", "lseek", "lseek64", "fallocate"]
ENDERS = ["abort", "exit", "_exit", "_Exit", "quick_exit", "std::terminate", "terminate"]

QUERY = r"""
set bind-root false
let IO callExpr(callee(functionDecl(hasAnyName(%(names)s)).bind("callee")), isExpansionInFileMatching("%(root)s/(lm|util)/"))
let ENDS callExpr(callee(functionDecl(hasAnyName(%(enders)s))))
set output dump
match callExpr(IO, hasAncestor(functionDecl().bind("encl"))).bind("call")
set output diag
match ifStmt(hasCondition(anyOf(IO.bind("call"), forEachDescendant(IO.bind("call")))), anyOf(hasThen(anyOf(cxxThrowExpr(), hasDescendant(cxxThrowExpr()))), hasElse(anyOf(cxxThrowExpr(), hasDescendant(cxxThrowExpr())))))
match ifStmt(hasCondition(anyOf(IO.bind("call"), forEachDescendant(IO.bind("call")))), anyOf(hasThen(anyOf(ENDS, hasDescendant(ENDS))), hasElse(anyOf(ENDS, hasDescendant(ENDS)))))
match returnStmt(anyOf(hasReturnValue(ignoringParenImpCasts(IO.bind("call"))), forEachDescendant(IO.bind("call"))))
match binaryOperator(isAssignmentOperator(), hasRHS(anyOf(ignoringParenImpCasts(IO.bind("call")), forEachDescendant(IO.bind("call")))))
match varDecl(hasInitializer(anyOf(ignoringParenImpCasts(IO.bind("call")), forEachDescendant(IO.bind("call")))))
match stmt(anyOf(ifStmt(hasCondition(anyOf(IO.bind("call"), forEachDescendant(IO.bind("call"))))), whileStmt(hasCondition(anyOf(IO.bind("call"), forEachDescendant(IO.bind("call"))))), doStmt(hasCondition(anyOf(IO.bind("call"), forEachDescendant(IO.bind("call"))))), forStmt(hasCondition(anyOf(IO.bind("call"), forEachDescendant(IO.bind("call"))))), conditionalOperator(hasCondition(anyOf(IO.bind("call"), forEachDescendant(IO.bind("call")))))))
set output dump
match cxxCatchStmt(isExpansionInFileMatching("%(root)s/(lm|util)/"), unless(hasDescendant(cxxThrowExpr())), hasAncestor(functionDecl().bind("encl"))).bind("catch")
set output diag
match cxxCatchStmt(isExpansionInFileMatching("%(root)s/(lm|util)/"), unless(hasDescendant(cxxThrowExpr())), hasDescendant(ENDS)).bind("catch")
match cxxCatchStmt(isExpansionInFileMatching("%(root)s/(lm|util)/"), unless(hasDescendant(cxxThrowExpr())), hasDescendant(returnStmt(hasReturnValue(ignoringParenImpCasts(integerLiteral(unless(equals(0)))))))).bind("catch")
"""
KINDS = ["all", "throw", "abort", "returned", "assigned", "assigned", "compared", "catch", "catch_ends", "catch_ret"]
PRIORITY = ["throw", "abort", "returned", "assigned", "compared"]


def sources(repo):
    out = []
    for d in ("lm", "lm/builder", "lm/common", "lm/filter", "lm/interpolate", "util", "util/stream"):
        p = os.path.join(repo, d)
        if not os.path.isdir(p):
            continue
        for fn in sorted(os.listdir(p)):
            if fn.endswith(".cc") and not fn.endswith("_test.cc") and "benchmark" not in fn:
                out.append(os.path.join(d, fn))
    return out


LOC = re.compile(r"<(?:(/[^:>]+):)?(?:line:)?(\d+):(\d+)")


def parse_dump_blocks(text, root):
    """yield dict(binding name -> first line of its dump) per match"""
    cur, name = None, None
    for ln in text.splitlines():
        if ln.startswith("Match #"):
            if cur:
                yield cur
            cur, name = {}, None
        elif ln.startswith('Binding for "'):
            name = ln.split('"')[1]
        elif cur is not None and name and name not in cur and ln and not ln.startswith((" ", "|", "`")):
            cur[name] = ln
        elif cur is not None and name and name in cur and (name + "_2") not in cur and ln.startswith(("|-", "`-")):
            cur[name + "_2"] = ln
    if cur:
        yield cur


def run_unit(repo, rel, extra_flags):
    root = os.path.realpath(repo)
    q = QUERY % {"names": ", ".join('"::%s"' % n for n in NAMES), "enders": ", ".join('"::%s"' % n for n in ENDERS),
                 "root": re.escape(root).replace("\\/", "/")}
    qf = "/tmp/c15_cq_%d_%s.txt" % (os.getpid(), rel.replace("/", "_"))
    open(qf, "w").write(q)
    cmd = ["clang-query-14", "-f", qf, os.path.join(root, rel), "--", "-std=gnu++11", "-w", "-I", root,
           "-I", "/usr/include/eigen3", "-DKENLM_MAX_ORDER=6", "-DHAVE_ZLIB", "-DHAVE_BZLIB", "-DHAVE_XZLIB"] + list(extra_flags)
    try:
        p = subprocess.run(cmd, capture_output=True, timeout=300)
        out = p.stdout.decode("utf-8", "replace")
        err = p.stderr.decode("utf-8", "replace")
    except subprocess.TimeoutExpired:
        return rel, None, "timeout"
    finally:
        try:
            os.unlink(qf)
        except OSError:
            pass
    if re.search(r"\berror: ", out + err) and "matches." not in out and "match." not in out:
        return rel, None, (out + err)[-600:]
    # split the output into the blocks of the successive `match` commands
    blocks, cur = [], []
    for ln in out.splitlines():
        cur.append(ln)
        if re.match(r"^\d+ match(es)?\.$", ln):
            blocks.append("\n".join(cur))
            cur = []
    if len(blocks) != len(KINDS):
        return rel, None, "unexpected clang-query output (%d blocks): %s" % (len(blocks), (out + err)[-400:])
    fatal = [l for l in (out + err).splitlines() if " fatal error: " in l or re.search(r": error: ", l)]
    res = {"calls": {}, "kinds": {}, "catches": {}, "catch_ends": set(), "catch_ret": set(), "errors": fatal[:3]}

    def relpath(p):
        return os.path.relpath(p, root) if p.startswith(root) else p

    last_file = [None]

    def loc_of(line):
        m = LOC.search(line)
        if not m:
            return None
        f = m.group(1) or last_file[0]
        return (relpath(f) if f else None, int(m.group(2)), int(m.group(3)))

    for b in parse_dump_blocks(blocks[0], root):
        if "call" not in b or "callee" not in b:
            continue
        loc = loc_of(b["call"])
        mname = re.search(r" (?:used |referenced )?([~\w]+|operator\S+) '", b.get("encl", ""))
        cal = re.search(r" (?:used |referenced )?(\w+) '", b["callee"])
        void = bool(re.search(r"' *\w* *$", b["callee"])) and "'void (" in b["callee"]
        if loc and loc[0]:
            res["calls"][loc] = {"callee": cal.group(1) if cal else "?", "function": mname.group(1) if mname else "?", "void": void}
    for kind, blk in zip(KINDS[1:7], blocks[1:7]):
        for m in re.finditer(r'^(/[^:\n]+):(\d+):(\d+): note: "call" binds here', blk, re.M):
            res["kinds"].setdefault((relpath(m.group(1)), int(m.group(2)), int(m.group(3))), []).append(kind)
    for b in parse_dump_blocks(blocks[7], root):
        if "catch" not in b:
            continue
        loc = loc_of(b["catch"])
        mname = re.search(r" (?:used |referenced )?([~\w]+|operator\S+) '", b.get("encl", ""))
        mt = re.search(r"'([^']*)'", b.get("catch_2", ""))
        caught = mt.group(1) if (mt and "VarDecl" in b.get("catch_2", "")) else "..."
        if loc and loc[0]:
            res["catches"][loc] = {"function": mname.group(1) if mname else "?", "caught": caught}
    for m in re.finditer(r'^(/[^:\n]+):(\d+):(\d+): note: "catch" binds here', blocks[8], re.M):
        res["catch_ends"].add((relpath(m.group(1)), int(m.group(2)), int(m.group(3))))
    for m in re.finditer(r'^(/[^:\n]+):(\d+):(\d+): note: "catch" binds here', blocks[9], re.M):
        res["catch_ret"].add((relpath(m.group(1)), int(m.group(2)), int(m.group(3))))
    return rel, res, None


def inventory(repo, jobs=12, extra_flags=()):
    """Returns dict(sites=[...], catches=[...], errors=[...]); each site has a line-independent key
    `<file>::<function>::<callee>#<ordinal>`."""
    root = os.path.realpath(repo)
    units = sources(root)
    calls, kinds, catches, catch_ends, catch_ret, errors = {}, {}, {}, set(), set(), []
    with ThreadPoolExecutor(max_workers=jobs) as ex:
        for rel, res, err in ex.map(lambda r: run_unit(root, r, extra_flags), units):
            if res is None:
                errors.append("%s: %s" % (rel, err))
                continue
            for e in res["errors"]:
                errors.append("%s: %s" % (rel, e))
            calls.update(res["calls"])
            for k, v in res["kinds"].items():
                kinds.setdefault(k, set()).update(v)
            catches.update(res["catches"])
            catch_ends |= res["catch_ends"]
            catch_ret |= res["catch_ret"]
    sites = []
    ordinal = {}
    for loc in sorted(calls):
        c = calls[loc]
        ks = kinds.get(loc, set())
        how = next((p for p in PRIORITY if p in ks), None)
        if how is None:
            how = "void" if c["void"] else "ignored"
        callee = re.sub(r"64$", "", c["callee"])
        base = "%s::%s::%s" % (loc[0], c["function"], callee)
        ordinal[base] = ordinal.get(base, 0) + 1
        sites.append({"key": "%s#%d" % (base, ordinal[base]), "file": loc[0], "line": loc[1], "function": c["function"],
                      "callee": callee, "consumed": how})
    cs = []
    ordinal = {}
    for loc in sorted(catches):
        base = "%s::%s::catch" % (loc[0], catches[loc]["function"])
        ordinal[base] = ordinal.get(base, 0) + 1
        cs.append({"key": "%s#%d" % (base, ordinal[base]), "file": loc[0], "line": loc[1], "function": catches[loc]["function"],
                   "caught": catches[loc]["caught"],
                   "handler": "ends-process" if loc in catch_ends else ("returns-nonzero" if loc in catch_ret else
                                                                        ("eof-only" if "EndOfFileException" in catches[loc]["caught"] else "swallow"))})
    return {"sites": sites, "catches": cs, "errors": errors, "units": len(units)}


if __name__ == "__main__":
    inv = inventory(sys.argv[1])
    if len(sys.argv) > 2:
        json.dump(inv, open(sys.argv[2], "w"), indent=1)
    for s in inv["sites"]:
        print("%-9s %-10s %s:%d  %s" % (s["consumed"], s["callee"], s["file"], s["line"], s["function"]))
    for c in inv["catches"]:
        print("%-15s catch (%s)  %s:%d  %s" % (c["handler"], c["caught"], c["file"], c["line"], c["function"]))
    print("%d sites, %d non-rethrowing catch handlers, %d units, %d errors" % (len(inv["sites"]), len(inv["catches"]), inv["units"], len(inv["errors"])))
    for e in inv["errors"][:10]:
        print("ERROR", e[:300])
