// Constant probe for C14: the delimiter table that lm::base::ScoreSentence tokenises with
// (util/spaces.cc: util::kSpaces) as a 256-entry list, plus the facts about the state
// memory the facade copies.  Prints `name : Type := value` lines (vlib/lean.py regenerate).
#include "util/spaces.cc"
#include "lm/state.hh"
#include "lm/max_order.hh"
#include <cstdio>

int main() {
  std::printf("kSpaces : List Bool := [");
  for (unsigned i = 0; i < 256; ++i) std::printf("%s%s", i ? ", " : "", util::kSpaces[i] ? "true" : "false");
  std::printf("]\n");
  std::printf("kSpacesSize : Nat := %zu\n", sizeof(util::kSpaces) / sizeof(util::kSpaces[0]));
  std::printf("stateSize : Nat := %zu\n", sizeof(lm::ngram::State));
  std::printf("maxOrder : Nat := %d\n", KENLM_MAX_ORDER);
  return 0;
}
