// Constant probe for C10 (loader robustness): the values the header-acceptance model (Model/LoaderBin.lean) and the
// ARPA loader model (Model/LoaderArpa.lean) depend on, printed from the real sources.
// Includes lm/binary_format.cc so that the anonymous-namespace Sanity struct and magic strings are the ones the code
// uses now; linked against the cmake build of the same tree for the util symbols.
#include "lm/binary_format.cc"
#include "lm/vocab.cc"
#include "lm/model.cc"
#include "lm/model.hh"
#include "lm/read_arpa.hh"
#include "lm/max_order.hh"
#include "util/file_piece.hh"
#include "util/bit_packing.hh"
#include <cstddef>
#include <cstdio>
#include <cstring>
#include <limits>
#include <unistd.h>
#include <stdlib.h>

using namespace lm::ngram;

static void Nat(const char *name, unsigned long long v) { std::printf("%s : Nat := %llu\n", name, v); }
static void Bytes(const char *name, const void *p, std::size_t n) {
  std::printf("%s : List Nat := [", name);
  const unsigned char *c = static_cast<const unsigned char*>(p);
  for (std::size_t i = 0; i < n; ++i) std::printf("%s%u", i ? ", " : "", (unsigned)c[i]);
  std::printf("]\n");
}
static void Table(const char *name, const bool *t) {
  std::printf("%s : List Nat := [", name);
  bool first = true;
  for (unsigned i = 0; i < 256; ++i) if (t[i]) { std::printf("%s%u", first ? "" : ", ", i); first = false; }
  std::printf("]\n");
}
static unsigned FloatBits(float f) { unsigned u; std::memcpy(&u, &f, 4); return u; }

// behavioural probes: what the current tree does with a binary header whose order is k (CheckCounts is what the
// constructor calls before it touches counts[0]) and with a NaN probing multiplier (ReadHeader).
static bool CheckCountsRejects(unsigned k) {
  std::vector<uint64_t> c(k, 1);
  try { lm::ngram::detail::CheckCounts(c); } catch (const std::exception &) { return true; }
  return false;
}
static bool ReadHeaderRejectsMultiplier(unsigned bits) {
  char name[] = "/tmp/probe_c10_XXXXXX";
  int fd = mkstemp(name);
  if (fd < 0) return false;
  unlink(name);
  Sanity s = Sanity(); s.SetToReference();
  FixedWidthParameters f; std::memset(&f, 0, sizeof f);
  f.order = 2; std::memcpy(&f.probing_multiplier, &bits, 4); f.model_type = PROBING; f.has_vocabulary = false; f.search_version = 0;
  uint64_t counts[2] = {1, 1};
  bool ok = write(fd, &s, sizeof s) == (ssize_t)sizeof s && write(fd, &f, sizeof f) == (ssize_t)sizeof f && write(fd, counts, sizeof counts) == (ssize_t)sizeof counts;
  bool rejected = false;
  if (ok) { Parameters p; try { ReadHeader(fd, p); } catch (const std::exception &) { rejected = true; } }
  close(fd);
  return rejected;
}

int main() {
  Bytes("magicIncomplete", kMagicIncomplete, std::strlen(kMagicIncomplete));
  Bytes("magicBeforeVersion", kMagicBeforeVersion, std::strlen(kMagicBeforeVersion));
  Nat("magicVersion", kMagicVersion);
  Sanity s = Sanity();
  s.SetToReference();
  Nat("sizeofSanity", sizeof(Sanity));
  Bytes("sanityRef", &s, sizeof(Sanity));
  Nat("sizeofFixed", sizeof(FixedWidthParameters));
  Nat("offOrder", offsetof(FixedWidthParameters, order));
  Nat("offMultiplier", offsetof(FixedWidthParameters, probing_multiplier));
  Nat("offModelType", offsetof(FixedWidthParameters, model_type));
  Nat("offHasVocab", offsetof(FixedWidthParameters, has_vocabulary));
  Nat("offSearchVersion", offsetof(FixedWidthParameters, search_version));
  Nat("sizeofOrder", sizeof(((FixedWidthParameters*)0)->order));
  Nat("sizeofModelType", sizeof(ModelType));
  Nat("sizeofSearchVersion", sizeof(unsigned int));
  Nat("sizeofCount", sizeof(uint64_t));
  Nat("headerSize2", TotalHeaderSize(2));
  Nat("headerSize6", TotalHeaderSize(6));
  Nat("bitsOneF", FloatBits(1.0f));
  Nat("maxOrder", KENLM_MAX_ORDER);
  Nat("numModelNames", sizeof(kModelNames) / sizeof(const char *));
  Nat("typeP", ProbingModel::kModelType);
  Nat("typeR", RestProbingModel::kModelType);
  Nat("typeT", TrieModel::kModelType);
  Nat("typeQ", QuantTrieModel::kModelType);
  Nat("typeA", ArrayTrieModel::kModelType);
  Nat("typeB", QuantArrayTrieModel::kModelType);
  Nat("versionP", detail::HashedSearch<BackoffValue>::kVersion);
  Nat("versionR", detail::HashedSearch<RestValue>::kVersion);
  Nat("versionT", trie::TrieSearch<DontQuantize, trie::DontBhiksha>::kVersion);
  Nat("versionQ", trie::TrieSearch<SeparatelyQuantize, trie::DontBhiksha>::kVersion);
  Nat("versionA", trie::TrieSearch<DontQuantize, trie::ArrayBhiksha>::kVersion);
  Nat("versionB", trie::TrieSearch<SeparatelyQuantize, trie::ArrayBhiksha>::kVersion);
  {
    unsigned k = 0;
    while (k < 8 && CheckCountsRejects(k)) ++k;
    Nat("checkCountsMinOrder", k);               // smallest order CheckCounts lets through
    std::printf("checkCountsRejectsAboveMax : Bool := %s\n", CheckCountsRejects(KENLM_MAX_ORDER + 1) ? "true" : "false");
    std::printf("readHeaderRejectsNaN : Bool := %s\n", (ReadHeaderRejectsMultiplier(0x7fc00000u) && ReadHeaderRejectsMultiplier(0xffc00000u) && ReadHeaderRejectsMultiplier(0x7f800001u)) ? "true" : "false");
    std::printf("readHeaderRejectsBelowOne : Bool := %s\n", (ReadHeaderRejectsMultiplier(0x3f7fffffu) && ReadHeaderRejectsMultiplier(0u) && ReadHeaderRejectsMultiplier(0xbf800000u) && ReadHeaderRejectsMultiplier(0x80000000u)) ? "true" : "false");
    std::printf("readHeaderAcceptsOne : Bool := %s\n", (!ReadHeaderRejectsMultiplier(0x3f800000u) && !ReadHeaderRejectsMultiplier(0x3fc00000u) && !ReadHeaderRejectsMultiplier(0x7f800000u)) ? "true" : "false");
  }
  Nat("sizeofProbingVocabHeader", sizeof(detail::ProbingVocabularyHeader));
  Nat("offVocabHeaderBound", offsetof(detail::ProbingVocabularyHeader, bound));
  Nat("sizeofVocabBound", sizeof(lm::WordIndex));
  Bytes("unkCheck", "<unk>", 6);
  // text side
  Table("arpaSpaces", lm::kARPASpaces);
  Table("utilSpaces", util::kSpaces);
  Nat("sizeofWordIndex", sizeof(lm::WordIndex));
  // trie bit packing: slack of BaseSize and the width of the unaligned reads it protects
  Nat("bitPackedSlack", trie::BitPackedLongest::Size(0, 0, 0));
  Nat("readOffBytes", sizeof(uint64_t));
  Nat("maxFieldBits57", 57);
  Nat("requiredBitsOfMaxU64", util::RequiredBits(std::numeric_limits<uint64_t>::max()));
  return 0;
}
