// Constant probe for C15: the reservation sizes of FileStream's in-place writes and the
// buffer floor, from the real headers.  Lines: `name : Type := value`.
#include "util/file_stream.hh"
#include "util/float_to_string.hh"
#include "util/integer_to_string.hh"
#include <cerrno>
#include <cstdio>
#include <stdint.h>

int main() {
  std::printf("kToStringMaxBytes : Nat := %u\n", (unsigned)util::kToStringMaxBytes);
  std::printf("kBytesList : List Nat := [%u, %u, %u, %u, %u, %u, %u, %u, %u, %u]\n",
      (unsigned)util::ToStringBuf<bool>::kBytes, (unsigned)util::ToStringBuf<uint16_t>::kBytes,
      (unsigned)util::ToStringBuf<int16_t>::kBytes, (unsigned)util::ToStringBuf<uint32_t>::kBytes,
      (unsigned)util::ToStringBuf<int32_t>::kBytes, (unsigned)util::ToStringBuf<uint64_t>::kBytes,
      (unsigned)util::ToStringBuf<int64_t>::kBytes, (unsigned)util::ToStringBuf<const void*>::kBytes,
      (unsigned)util::ToStringBuf<float>::kBytes, (unsigned)util::ToStringBuf<double>::kBytes);
  std::printf("errnoEINTR : Nat := %d\n", EINTR);
  std::printf("errnoENOSPC : Nat := %d\n", ENOSPC);
  std::printf("errnoEIO : Nat := %d\n", EIO);
  std::printf("errnoENOMEM : Nat := %d\n", ENOMEM);
  return 0;
}
