// Constant probe for C08: capacities of the chart state the model relies on, read from the real headers.
#include "lm/max_order.hh"
#include "lm/state.hh"
#include "lm/left.hh"
#include "lm/partial.hh"
#include <cstdio>
int main() {
  lm::ngram::ChartState c;
  printf("kMaxOrder : Nat := %d\n", (int)KENLM_MAX_ORDER);
  printf("leftPointers : Nat := %u\n", (unsigned)(sizeof(c.left.pointers) / sizeof(c.left.pointers[0])));
  printf("rightWords : Nat := %u\n", (unsigned)(sizeof(c.right.words) / sizeof(c.right.words[0])));
  printf("rightBackoffs : Nat := %u\n", (unsigned)(sizeof(c.right.backoff) / sizeof(c.right.backoff[0])));
  printf("pointerBytes : Nat := %u\n", (unsigned)sizeof(c.left.pointers[0]));
  return 0;
}
