// Store-order probe for C09: regenerates, from the current source, the ORDER in which
// lm::ngram::WriteHeader (anonymous namespace of lm/binary_format.cc, reached by including the
// translation unit) stores into its target.  The target is a read-only page: every store faults
// (SIGSEGV), the handler makes the page writable and sets the x86 trap flag, the store executes,
// the single-step trap (SIGTRAP) records which bytes changed and protects the page again.
// Two passes with complementary fill patterns make "stored the value that was already there"
// impossible to miss.  Output: `order <n>` then one line per store, in program order:
//   store <offset> <length>      (offset relative to the header start; length = bytes written by that instruction)
// and finally `rewrites <0|1>` (1 if some byte was stored more than once).
// usage: probe_C09_storeorder <order>
#define _GNU_SOURCE 1
#include "lm/binary_format.cc"

#include <csignal>
#include <cstdio>
#include <cstdlib>
#include <cstring>
#include <vector>
#include <sys/mman.h>
#include <ucontext.h>
#include <unistd.h>

namespace {
unsigned char *page = 0;
unsigned char shadow[4096];
const long kPage = 4096;
struct Rec { int lo, hi; };          // [lo, hi) changed by one instruction
Rec recs[2][4096];
int nrec[2] = {0, 0};
int pass = 0;
volatile int stepping = 0;

void OnSegv(int, siginfo_t *info, void *ctx) {
  unsigned char *a = static_cast<unsigned char*>(info->si_addr);
  if (a < page || a >= page + kPage) _exit(3);
  mprotect(page, kPage, PROT_READ | PROT_WRITE);
  static_cast<ucontext_t*>(ctx)->uc_mcontext.gregs[REG_EFL] |= 0x100;   // TF: trap after the store
  stepping = 1;
}
void OnTrap(int, siginfo_t *, void *ctx) {
  if (!stepping) return;
  stepping = 0;
  int lo = -1, hi = -1;
  for (int i = 0; i < kPage; ++i) if (page[i] != shadow[i]) { if (lo < 0) lo = i; hi = i + 1; shadow[i] = page[i]; }
  if (lo >= 0 && nrec[pass] < 4096) { recs[pass][nrec[pass]].lo = lo; recs[pass][nrec[pass]].hi = hi; ++nrec[pass]; }
  static_cast<ucontext_t*>(ctx)->uc_mcontext.gregs[REG_EFL] &= ~0x100L;
  mprotect(page, kPage, PROT_READ);
}
} // namespace

int main(int argc, char **argv) {
  int order = argc > 1 ? std::atoi(argv[1]) : 3;
  page = static_cast<unsigned char*>(mmap(0, kPage, PROT_READ | PROT_WRITE, MAP_PRIVATE | MAP_ANONYMOUS, -1, 0));
  if (page == MAP_FAILED) return 2;
  struct sigaction sa;
  std::memset(&sa, 0, sizeof(sa));
  sa.sa_flags = SA_SIGINFO;
  sa.sa_sigaction = OnSegv; sigaction(SIGSEGV, &sa, 0);
  sa.sa_sigaction = OnTrap; sigaction(SIGTRAP, &sa, 0);
  lm::ngram::Parameters params = lm::ngram::Parameters();
  std::memset(&params.fixed, 0, sizeof(params.fixed));
  params.fixed.order = order;
  params.fixed.probing_multiplier = 1.5;
  params.fixed.model_type = lm::ngram::QUANT_ARRAY_TRIE;
  params.fixed.has_vocabulary = true;
  params.fixed.search_version = 0x01020304;
  for (int i = 0; i < order; ++i) params.counts.push_back(0x1111111111111111ULL * (i + 1));
  for (pass = 0; pass < 2; ++pass) {
    std::memset(page, pass ? 0x5A : 0xA5, kPage);
    std::memcpy(shadow, page, kPage);
    mprotect(page, kPage, PROT_READ);
    lm::ngram::WriteHeader(page, params);
    mprotect(page, kPage, PROT_READ | PROT_WRITE);
  }
  // merge the two passes: same instruction sequence, union of the changed ranges
  if (nrec[0] != nrec[1]) {
    // an instruction whose whole store equalled the fill of one pass is missing there: align greedily by overlap
    std::fprintf(stderr, "pass lengths differ: %d vs %d\n", nrec[0], nrec[1]);
  }
  int n = nrec[0] > nrec[1] ? nrec[0] : nrec[1];
  int longer = nrec[0] >= nrec[1] ? 0 : 1;
  std::printf("order %d\n", order);
  std::vector<int> seen(kPage, 0);
  int rewrites = 0;
  for (int i = 0; i < n; ++i) {
    int lo = recs[longer][i].lo, hi = recs[longer][i].hi;
    if (nrec[0] == nrec[1]) {
      if (recs[1 - longer][i].lo < lo) lo = recs[1 - longer][i].lo;
      if (recs[1 - longer][i].hi > hi) hi = recs[1 - longer][i].hi;
    }
    for (int b = lo; b < hi; ++b) { if (seen[b]) rewrites = 1; seen[b] = 1; }
    std::printf("store %d %d\n", lo, hi - lo);
  }
  std::printf("rewrites %d\n", rewrites);
  return 0;
}
