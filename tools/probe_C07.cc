// Constant probe for C07: the geometry of the adder chain between AddRight and MergeRight
// (initial_probabilities.cc; sizes set in lmplz_main.cc).  The generator "huge context at an
// adder-block boundary" places a context so that its sums entry is the last one of a block.
// The structs live in an anonymous namespace of the .cc file, so the file itself is included
// (nothing of it is called; link with -Wl,--unresolved-symbols=ignore-all).
#include "lm/builder/initial_probabilities.cc"
#include "lm/builder/hash_gamma.hh"

#include <cstdio>
#include <cstdlib>
#include <cstring>
#include <string>

#ifndef REPO_DIR
#error "compile with -DREPO_DIR=\"/path/to/tree\""
#endif

static long find_number(const std::string &text, const char *key) {
  size_t at = text.find(key);
  if (at == std::string::npos) return -1;
  at += strlen(key);
  while (at < text.size() && (text[at] == ' ' || text[at] == '=')) ++at;
  return atol(text.c_str() + at);
}

int main() {
  printf("bufferEntryBytes : Nat := %zu\n", sizeof(lm::builder::BufferEntry));
  printf("hashBufferEntryBytes : Nat := %zu\n", sizeof(lm::builder::HashBufferEntry));
  printf("hashGammaBytes : Nat := %zu\n", sizeof(lm::builder::HashGamma));
  std::string path = std::string(REPO_DIR) + "/lm/builder/lmplz_main.cc";
  FILE *f = fopen(path.c_str(), "rb");
  if (!f) { perror(path.c_str()); return 2; }
  std::string text; char buf[4096]; size_t n;
  while ((n = fread(buf, 1, sizeof(buf), f)) > 0) text.append(buf, n);
  fclose(f);
  long total = find_number(text, "initial.adder_out.total_memory");
  long blocks = find_number(text, "initial.adder_out.block_count");
  if (total <= 0 || blocks <= 0) { fprintf(stderr, "adder_out configuration not found in lmplz_main.cc\n"); return 3; }
  printf("adderOutTotalMemory : Nat := %ld\n", total);
  printf("adderOutBlockCount : Nat := %ld\n", blocks);
  return 0;
}
