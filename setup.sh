#!/bin/bash
# Build the whole Lean project (models, proofs, property theorems, drivers) offline.
set -e
cd "$(dirname "$0")/lean"
lake build
exes=$(grep -A1 '^\[\[lean_exe\]\]' lakefile.toml | sed -n 's/^name = "\(.*\)"/\1/p')
lake build $exes
