"""C13 — Log-linear interpolation is the normalised weighted product of its inputs."""
import itertools
import json
import math
import os
import shutil

from vlib import flow, lean, repo, stream
from vlib.common import REPO, fresh_scratch, log
from vlib.common import run as sh
from checks import interpgen as G

MANIFEST = {
    "text": "Lean theorems over an executable model of lm/interpolate, all unbounded (any number of components, orders, "
            "vocabulary, context length): (1) functional level - union vocabulary + renumbering, per-component longest-suffix "
            "score with back-offs charged below each component's top order, the incremental normaliser of normalize.cc, the "
            "written ARPA table: telescoping identity Z_incremental(c) = sum over V minus <s> of the unnormalised product "
            "(induction on the context); back-off recursion over the written entries = defining formula for every context and "
            "word, also with <unk>-mapped component scores; per-context normalisation; union n-gram set; single-model identity; "
            "over any field with an exponential-like E and instantiated at the reals (Real.rpow / logb); (2) code level - pass-1 "
            "record (longest suffix + from) with pass-2 charging = back-off recursion (LowerProb needs suffix closure, witness); "
            "one generic stream recursion instantiated for pass 1 (HandleSuffix on SuffixOrder-sorted merged n-gram streams "
            "writes exactly the longest-suffix probabilities and from levels) and pass 2 (Recurse::SameContext/ExtendContext on "
            "ContextOrder-sorted streams consumes every record and writes exactly the functional values); sorted streams are "
            "proved to have the grouped shape the recursion needs; pass 1 also with the component streams kept apart "
            "(NGramHandler::active_, the minimum loop: picks the head of the merged stream, contributors = exactly the "
            "components that have the n-gram, under their own model numbers; decide-witness that the seeded wrong-index "
            "change breaks it); BackoffMatrix Enter/Exit/Get per component and level and the charging loop = the "
            "functional charge (decide-witness for Get(m,found)); MergeVocab's universal ids for any hash values and tie "
            "order (same id iff same hash/word); BackoffManager queue + "
            "pass-3 zip: the back-off stream of each order is the SuffixOrder-sorted list of n-grams that get a record, aligned "
            "with the probability stream iff nothing is stuck and strictly shorter otherwise (the abort of finding K is derived; "
            "equal orders never hit it; machine-checked witness for mixed orders); BoundedSequenceEncoding round trip for any "
            "bounds / any number of 64-bit words, and exactly when it shifts by 64 (UB witness). "
            "PARTIAL: BackoffManager's heap over per-model streams (modelled on the merged queue), MergeVocab's heap (pops "
            "taken as any non-decreasing sequence), util::stream (sort, chains, RewindableStream), threads, MergeVocab's hash order and float32/long-double rounding "
            "are tied only through the final ARPA output of bin/interpolate compared "
            "with the compiled Lean driver on seeded tuples of lmplz --intermediate models (tolerance 1e-5), and the real "
            "bounded_sequence_encoding header in-process (ASan/UBSan). String lifetime in MergeVocab (StringPiece into a "
            "FilePiece window) is outside the model; it is exercised by the bigvocab stream (two components over >= 140k "
            "shared word types, .vocab of several MB) against the Python oracle.",
    "note": "Trusted: Lean kernel + propext/Classical.choice/Quot.sound; statements in lean/Properties/C13.lean; Mathlib's "
            "Real.rpow/logb; the Python comparator/generators (checks/C13.py, checks/interpgen.py), lean/Driver/C13.lean (Float "
            "10^x / log10), harness/c13_bse.cc; lmplz as producer of the inputs. Hypotheses of the theorems (prefix/suffix "
            "closure, no n-gram predicting <s>, p(<s>)=1, <unk> only as a unigram with zero back-off, words of n-grams have "
            "unigrams, finite values) are decidable and checked on every generated model. Tolerance 1e-5 absolute on log10 values "
            "(observed max 8.2e-7). Known findings: abort for unequal orders (unequal-orders-ngram-without-backoff-record); "
            "uint64 shift by 64 in BoundedSequenceEncoding (bse-zero-width-field-shift-64, repair in repo_patches/).",
    "technique": "Lean 4 proof (induction / refinement over an executable model, abstract exponential + real instantiation) + "
                 "differential correspondence of bin/interpolate and the real encoding header with the compiled Lean driver and "
                 "an independent Python oracle",
}

REQUIRED = ["KV.C13.z_incremental", "KV.C13.normalised", "KV.C13.formula", "KV.C13.ngram_union",
            "KV.C13.single_identity", "KV.C13.spec_eq_tool", "KV.C13.formula_spec", "KV.C13.pass12_refines",
            "KV.C13.vocab_union", "KV.C13.ngram_union_renumbered", "KV.C13.pass1_on_sorted_streams", "KV.C13.pass1_kway", "KV.C13.kway_selects_head", "KV.C13.c13_3_wrong_model_index",
            "KV.C13.backoff_matrix_get", "KV.C13.charging_loop", "KV.C13.c13_5_wrong_level", "KV.C13.merge_vocab_ids", "KV.C13.pass1_record_values", "KV.C13.pass2_stream_refines", "KV.C13.pass2_on_sorted_streams", "KV.C13.visited_contexts", "KV.C13.pass3_zip", "KV.C13.bse_roundtrip", "KV.C13.bse_no_ub", "KV.C13.bse_shift64_witness", "KV.C13.equal_orders_not_stuck", "KV.C13.abort_witness",
            "KV.C13.termination_fails_mixed_orders", "KV.C13.formula_real", "KV.C13.normalised_real",
            "KV.C13.interp_nonpos", "KV.C13.z_incremental_real"]

# Weight vectors with ADJACENT negative weights at every position pattern (command-line pre-processing of negative
# numbers, MungeWeightArgs): pair at the end, pair in the middle, three in a row, leading pair, all negative.
# Magnitudes are jittered per run; one tuple per pattern in every run.
NEG_WEIGHT_PATTERNS = [
    [1.4, -0.2, -0.2], [1.2, -0.3, -0.2, 0.3], [1.9, -0.3, -0.3, -0.3], [-0.2, -0.2, 1.4], [-0.5, -0.3, -0.2],
    [0.0, -0.25, -0.25, 1.5],
]

# the concrete witness of theorem KV.C13.abort_witness, replayed on the real tool in every run
WITNESS_CASE = {"kind": "witness", "comps": [("a\n", 2), ("b\n", 3)], "weights": [0.5, 0.5], "setting": (None, None)}

TOL = 1e-5
KNOWN_KEY = "unequal-orders-ngram-without-backoff-record"
ABORT_MSG = "Streams were not the same size during merging"

# (-S, --sort_block); a bare number means KILObytes in kenlm's size options, so bytes need the 'b' suffix.
# All of these satisfy S >= 4 * sort_block (the tool's own requirement, util/stream/sort.hh) and sort_block >= 64b
# (the smallest round value at which every chain still holds one record of order <= 5): the tool must accept them.
SETTINGS = [
    (None, None), ("40M", "1M"), ("4M", "64K"), ("1M", "4K"), ("64M", "8M"), ("1M", "64b"),
    ("256b", "64b"), ("512b", "128b"), ("1K", "128b"), ("1K", "256b"), ("2K", "512b"), ("4K", "1K"), ("64K", "1K"),
    ("16K", "4K"),
]
TINY_SETTINGS = [("256b", "64b"), ("512b", "128b"), ("1K", "128b"), ("1K", "256b"), ("2K", "512b"), ("4K", "1K"), ("1M", "64b")]
# Settings the tool is entitled to refuse (S < 4 * sort_block): a clean exit 1 with the documented message is accepted
# (and the same tuple must then succeed with default memory); a hang or abort is not.
REJECT_SETTINGS = [("2K", "64K"), ("1K", "1K")]
REJECT_MSG = "is too small for four buffers"
REJECT_KEY = "config-rejection-deadlock"

WEIGHT_CHOICES = {
    1: [[1.0], [1.0], [0.5], [2.0], [-1.0], [0.0], [1.25]],
    2: [[0.3, 0.7], [0.5, 0.5], [1.0, 0.0], [0.0, 1.0], [1.5, -0.5], [-0.25, 1.25], [0.9, 0.9], [2.0, 1.0],
        [0.1, 0.2], [0.0, 0.0], [1.0, 1.0]],
    3: [[0.2, 0.3, 0.5], [1.0, 0.0, 0.0], [0.6, 0.6, -0.2], [0.3333, 0.3333, 0.3334], [1.5, 0.25, -0.75],
        [0.0, 0.5, 0.5], [1.0, 1.0, 1.0]],
}


# ------------------------------------------------------------------------------------ case generation
def gen_case(rng, kind=None, n_force=None, sizes_force=None):
    """A case = list of (corpus text, order) + weights + settings.  Kinds:
    single | same-order | same-corpus-mixed | nested-mixed | diff-mixed"""
    kind = kind or rng.choice(["single", "same-order", "same-order", "same-corpus-mixed", "nested-mixed",
                               "diff-mixed", "same-order", "disjoint", "disjoint", "deep"])
    n = 1 if kind == "single" else rng.choice([2, 2, 3])
    if n_force:
        n = n_force
    comps = []
    if kind == "deep":
        # order >= 4 models from different corpora over a shared vocabulary: components that back off two or more
        # levels below the context (long charging loops over the back-off matrix)
        n = rng.choice([2, 3])
        order = rng.choice([4, 4, 5])
        v = ["w%d" % j for j in range(rng.choice([4, 5, 6]))]
        for i in range(n):
            comps.append((G.gen_corpus(rng, v, rng.choice([6, 12, 25]), rng.choice([5, 8])), order))
    elif kind == "many":
        # >= 22 components of order >= 4: the from-vector of a record needs more than one 64-bit word
        n = rng.choice([22, 23, 25])
        order = rng.choice([4, 5])
        v = ["w%d" % j for j in range(4)]
        for i in range(n):
            comps.append((G.gen_corpus(rng, v + ["x%d" % (i % 3)], rng.choice([2, 4]), 5), order))
    elif kind == "disjoint":
        # (nearly) disjoint vocabularies of different sizes: the union vocabulary is much larger than any component's,
        # contexts (<s>, a hub word) with very many successors, smallest block sizes
        n = rng.choice([3, 3, 2])
        sizes = [rng.choice([4, 8, 12, 18, 26]) for _ in range(n)]
        if sizes_force:
            sizes, n = list(sizes_force), len(sizes_force)
        order = rng.choice([2, 3, 3, 4]) if sum(sizes) <= 36 else rng.choice([2, 3])
        shared_word = rng.random() < 0.3
        for i, sz in enumerate(sizes):
            v = ["%s%d" % ("pqr"[i], j) for j in range(sz)] + (["hub"] if shared_word else [])
            comps.append((G.gen_corpus_wide(rng, v, rng.choice([0, 4, 10]), rng.choice([3, 5])), order))
        if rng.random() < 0.2 and order > 2:
            t, o = comps[0]
            comps[0] = (t, o - 1)          # the known mixed-order class on top
    elif kind in ("single", "same-order", "diff-mixed"):
        base_order = rng.choice([2, 3, 3, 4, 5])
        shared = None
        for i in range(n):
            v = G.gen_vocab(rng, shared)
            shared = shared or v
            ns = rng.choice([3, 8, 20, 40])
            text = G.gen_corpus(rng, v, ns, rng.choice([3, 5, 8]))
            if kind == "diff-mixed":
                order = rng.choice([2, 3, 4, 5])
            else:
                order = base_order
            comps.append((text, order))
        if kind == "diff-mixed" and len({o for _, o in comps}) == 1:
            t, o = comps[-1]
            comps[-1] = (t, o + 1 if o < 5 else o - 1)
        if rng.random() < 0.3:
            # lmplz variants: pruned models (larger corpus so that something survives), uninterpolated unigrams
            j = rng.randrange(len(comps))
            t, o = comps[j]
            if rng.random() < 0.6:
                t = G.gen_corpus(rng, G.gen_vocab(rng, shared), rng.choice([60, 120]), rng.choice([4, 7]))
                thr = ["0"] + [str(rng.choice([0, 1, 1, 2])) for _ in range(o - 1)]
                comps[j] = (t, o, ["--prune"] + thr)
            else:
                comps[j] = (t, o, ["--interpolate_unigrams", "0"])
    elif kind == "same-corpus-mixed":
        v = G.gen_vocab(rng)
        text = G.gen_corpus(rng, v, rng.choice([5, 15, 40]), rng.choice([3, 5, 8]))
        orders = rng.sample([2, 3, 4, 5], n)
        comps = [(text, o) for o in orders]
    else:  # nested-mixed: the shorter model's corpus is a subset of the longest model's corpus
        v = G.gen_vocab(rng)
        big = G.gen_corpus(rng, v, rng.choice([10, 30]), rng.choice([4, 6]))
        lines = big.splitlines()
        orders = sorted(rng.sample([2, 3, 4, 5], n), reverse=True)
        comps = [(big, orders[0])]
        for o in orders[1:]:
            k = rng.randint(1, len(lines))
            comps.append(("\n".join(lines[:k]) + "\n", o))
        rng.shuffle(comps)
    if kind == "single" and rng.random() < 0.6:
        weights = [1.0]
    elif n > 3:
        weights = [round(rng.uniform(-0.2, 0.3), 3) for _ in range(n)]
    else:
        weights = list(rng.choice(WEIGHT_CHOICES[n]))
        if rng.random() < 0.25:
            weights = [round(rng.uniform(-1.0, 2.0), 3) for _ in range(n)]
    if n > 3:
        # records grow with the number of components (from-vector): keep blocks >= 1K, a block smaller than two
        # records is refused by util::stream::Chain (and, thrown mid-pipeline, hangs like config-rejection-deadlock)
        setting = rng.choice([(None, None), ("40M", "1M"), ("4M", "64K"), ("64K", "1K"), ("4K", "1K")])
    else:
        setting = rng.choice(TINY_SETTINGS if (kind == "disjoint" or rng.random() < 0.3) else SETTINGS)
    return {"kind": kind, "comps": comps, "weights": weights, "setting": setting}


# ------------------------------------------------------------------------------------ hypotheses of the theorems
def check_hypotheses(m):
    """The explicit hypotheses of the Lean theorems, per generated component.  Returns list of broken ones."""
    g = G.model_grams(m)
    bad = []
    for ws, (p, b) in g.items():
        if not (math.isfinite(p) and math.isfinite(b)):
            # e.g. lmplz --discount_fallback on a degenerate corpus writes backoff(<s>) = -inf (C05/C06 territory)
            bad.append("non-finite value in the input model: %r %r %r" % (ws, p, b))
        if len(ws) >= 2:
            if ws[:-1] not in g:
                bad.append("not prefix-closed: %r" % (ws,))
            if ws[1:] not in g:
                bad.append("not suffix-closed: %r" % (ws,))
            if "<unk>" in ws:
                bad.append("<unk> inside an n-gram: %r" % (ws,))
            if ws[-1] == "<s>":
                bad.append("n-gram predicting <s>: %r" % (ws,))
        if len(ws) == m["order"] and b != 0.0:
            bad.append("top-order back-off not zero: %r" % (ws,))
    if g.get(("<s>",), (None,))[0] != 0.0:
        bad.append("log p(<s>) != 0")
    if ("<unk>",) not in g or g[("<unk>",)][1] != 0.0:
        bad.append("<unk> missing or with back-off")
    if m["vocab"][0] != "<unk>":
        bad.append("vocab[0] != <unk>")
    return bad[:5]


def py_stuck(models):
    """Independent (Python) evaluation of the abort class: union n-grams below the maximal order with no
    extension in the union that no component holds below its own top order."""
    gs = [set(G.model_grams(m).keys()) for m in models]
    union = set().union(*gs)
    maxo = max(m["order"] for m in models)
    ctxs = {g[:-1] for g in union if len(g) >= 2}
    out = []
    for g in union:
        if len(g) < maxo and g not in ctxs:
            if not any(g in s and len(g) < m["order"] for s, m in zip(gs, models)):
                out.append(g)
    return sorted(out)


# ------------------------------------------------------------------------------------ one case
class CaseResult:
    def __init__(self):
        self.status = None      # ok | known | violation
        self.what = ""
        self.detail = {}
        self.maxerr = 0.0
        self.no_input = False
        self.known_key = KNOWN_KEY


def build_models(case, lmplz, wd):
    models = []
    for i, comp in enumerate(case["comps"]):
        text, order = comp[0], comp[1]
        base = os.path.join(wd, "m%d" % i)
        rc, err = G.lmplz_build(lmplz, text, order, base, extra=comp[2] if len(comp) > 2 else ())
        if rc != 0:
            return None, "lmplz failed rc=%s: %s" % (rc, err[-300:])
        models.append(G.read_intermediate(base))
    return models, ""


def contexts_for(rng, uv, union_grams, maxorder, cap):
    words = list(uv)
    allc = [()]
    total = 1
    full = True
    for k in range(1, maxorder):
        total += len(words) ** k
        if total > cap:
            full = False
            break
    if full:
        for k in range(1, maxorder):
            allc += list(itertools.product(words, repeat=k))
        # one over-long context (must be truncated by every component and by the output)
        allc.append(tuple(rng.choice(words) for _ in range(maxorder)))
        return allc, True
    cs = {()}
    for g in union_grams:
        if len(g) < maxorder:
            cs.add(g)
        cs.add(g[:-1])
    cs = sorted(cs)
    if len(cs) > cap * 2 // 3:
        cs = rng.sample(cs, cap * 2 // 3)
    extra = set()
    for _ in range(cap):
        if len(extra) + len(cs) >= cap:
            break
        k = rng.randint(1, maxorder)
        extra.add(tuple(rng.choice(words) for _ in range(k)))
    return [()] + [c for c in cs if c != ()] + sorted(extra - set(cs)), False


def run_case(ctx, case, bins, dexe, wd, cap_ctx):
    """Returns CaseResult.  Does not call ctx.violation itself (so that it can be used by the shrinker)."""
    r = CaseResult()
    lmplz, interp = bins
    shutil.rmtree(wd, ignore_errors=True)
    os.makedirs(wd)
    models, err = build_models(case, lmplz, wd)
    if models is None:
        r.status, r.what = "skip", err
        return r
    for i, m in enumerate(models):
        bad = check_hypotheses(m)
        if bad:
            r.status, r.what = "skip", "component %d breaks a stated hypothesis (generator problem): %s" % (i, bad)
            return r
    wbits = [G.f32bits(w) for w in case["weights"]]
    lambdas = [G.f32(b) for b in wbits]
    maxo = max(m["order"] for m in models)
    orders = [m["order"] for m in models]
    # ---- driver: build, vocab, stuck, entries
    ops = G.driver_ops(models, wbits) + ["entries %d" % k for k in range(1, maxo + 1)]
    rc2, o2, e2 = stream.run_lines(dexe, ops, timeout=600)
    if rc2 != 0 or len(o2) != len(ops) or any(l.startswith("bad-op") for l in o2):
        r.status, r.what = "violation", "Lean driver failed on the case (rc=%s) %s" % (rc2, e2[-300:])
        r.detail = {"stream": "driver"}
        return r
    nb = len(ops) - maxo - 4
    built, uv_line, stuck_line, stream_line = o2[nb], o2[nb + 1], o2[nb + 2], o2[nb + 3]
    uv = uv_line.split(" ")
    m_stuck = sorted(tuple(s.split(" ")) for s in stuck_line.split("\t") if s)
    p_stuck = py_stuck(models)
    r.detail = {"union_vocab": len(uv), "vocab_ratio": len(uv) / float(max(len(m["vocab"]) for m in models)),
                "built": built, "orders": orders, "weights": case["weights"], "setting": case["setting"],
                "kind": case["kind"], "stuck_model": [" ".join(g) for g in m_stuck[:5]]}
    # stream model of pass 2 (sameCtx/extendCtx on the ContextOrder-sorted union) vs the functional model: the sorted
    # streams must have the grouped shape assumed by theorem pass2_stream_refines, every record must be consumed, one
    # probability per record of order >= 2, values equal to the output table
    sf = dict(kv.split("=") for kv in stream_line.split(" ")[1:])
    n_high = sum(len(m["entries"].get(k, [])) for m in models for k in range(2, maxo + 1))
    r.detail["stream"] = stream_line
    if not (sf.get("shape") == "true" and sf.get("consumed") == "true" and G.f64_from_bits(sf["maxdev"]) <= 1e-9
            and sf.get("p1shape") == "true" and sf.get("p1ok") == "true" and sf.get("matok") == "true"):
        r.status, r.what = "violation", "Lean stream model of pass 2 disagrees with the functional model: " + stream_line
        r.no_input = True
        return r
    if (sf.get("zip") == "true") != (not m_stuck):
        r.status, r.what = "violation", ("Lean model: the stream-level zip of pass 3 (backoffStream = probStream3) "
                                         "disagrees with the stuck predicate: " + stream_line)
        r.no_input = True
        return r
    if m_stuck != p_stuck:
        r.status, r.what = "violation", "Lean model's stuck set differs from the Python evaluation of the same predicate"
        r.detail["stuck_python"] = [" ".join(g) for g in p_stuck[:5]]
        return r
    # ---- the real tool
    cmd = [interp, "-m"] + [m["base"] for m in models] + ["-w"] + [repr(w) for w in case["weights"]]
    cmd += ["-T", os.path.join(wd, "tmp_")]
    S, sb = case["setting"]
    if S:
        cmd += ["-S", S, "--sort_block", sb]
    expect_reject = bool(case.get("expect_reject"))
    rc, out, err = sh(cmd, timeout=15 if expect_reject else 90)
    r.detail["cmd"] = " ".join(cmd)
    r.detail["rc"] = rc
    if expect_reject and rc != 0:
        r.detail["stderr"] = err[-600:]
        if rc == 1 and REJECT_MSG in err:
            # clean, documented configuration exception: accepted; the tuple itself must work with default memory
            r.detail["config_rejected"] = True
            cmd = [c for c in cmd]
            i = cmd.index("-S")
            del cmd[i:i + 4]
            rc, out, err = sh(cmd, timeout=90)
            r.detail["rc_default_memory"] = rc
        elif rc == "timeout":
            r.status = "known"
            r.known_key = REJECT_KEY
            r.what = ("interpolate hangs instead of reporting the configuration error for -S %s --sort_block %s "
                      "(S < 4 x sort_block): BadSortConfig is thrown in the main thread while pass-1 threads are blocked"
                      % (S, sb))
            return r
    if rc != 0:
        r.detail["stderr"] = err[-600:]
        unequal = len(set(orders)) > 1
        if rc == -6 and ABORT_MSG in err and unequal and m_stuck:
            r.status = "known"
            r.what = ("interpolate aborts (%s) on models of unequal orders %s: n-gram %r of the union has no back-off "
                      "record" % (ABORT_MSG, orders, " ".join(m_stuck[0])))
            return r
        r.status = "violation"
        r.what = "interpolate did not terminate successfully: rc=%s, %s" % (rc, (err.strip().splitlines() or ["?"])[-1][:200])
        return r
    if m_stuck:
        # The model (mirroring the unchanged code) predicts the abort but the tool succeeded: the property itself is
        # what counts, so the output is checked against the defining formula below like any other success
        # (a repair of finding K lands here; the known-finding entry is then stale).
        r.detail["predicted_abort_but_succeeded"] = True
    try:
        counts, grams = G.parse_arpa(out)
    except ValueError as ex:
        r.status, r.what = "violation", "interpolate wrote a malformed ARPA: %s" % ex
        return r
    # ---- ngram_union + entry-by-entry correspondence with the model's output
    comp_grams = [G.model_grams(m) for m in models]
    union = set()
    for g in comp_grams:
        union |= set(g.keys())
    if set(grams.keys()) != union:
        d = sorted(set(grams.keys()) ^ union)[:5]
        r.status, r.what = "violation", "output n-gram set is not the union of the inputs: %r" % d
        return r
    if sorted(w[0] for w in grams if len(w) == 1) != sorted(uv):
        r.status, r.what = "violation", "model's union vocabulary differs from the output unigrams"
        return r
    worst = 0.0
    # ---- defining formula over contexts x union vocabulary
    vocab_nobos = [w for w in uv if w != "<s>"]
    ctxs, full = contexts_for(ctx.rng, uv, union, maxo, cap_ctx)
    ops2 = G.driver_ops(models, wbits) + ["ctx " + " ".join(c) for c in ctxs]
    rc3, o3, e3 = stream.run_lines(dexe, ops2, timeout=900)
    if rc3 != 0 or len(o3) != len(ops2):
        r.status, r.what = "violation", "Lean driver failed on ctx ops (rc=%s) %s" % (rc3, e3[-300:])
        return r
    comps_py = list(zip(comp_grams, orders))
    npairs = 0
    for ci, c in enumerate(ctxs):
        f = o3[len(ops2) - len(ctxs) + ci].split(" ")
        lzd, lzi = G.f64_from_bits(f[0]), G.f64_from_bits(f[1])
        if not abs(lzd - lzi) <= TOL:
            r.status, r.what = "violation", "model: log Zinc %r != log Zdirect %r at context %r" % (lzi, lzd, c)
            return r
        tot = 0.0
        pyf = None
        if ci % 7 == 0:
            pyf, _ = G.formula(comps_py, lambdas, vocab_nobos, c)
        for wi, w in enumerate(vocab_nobos):
            spec = G.f64_from_bits(f[2 + 2 * wi])
            mtool = G.f64_from_bits(f[3 + 2 * wi])
            impl = G.arpa_score(grams, c[-(maxo - 1):] if maxo > 1 else (), w)
            tot += 10.0 ** impl
            npairs += 1
            for a, which in ((spec, "defining formula (Lean driver)"), (mtool, "model output back-off recursion"),
                             (pyf[w] if pyf else None, "defining formula (Python oracle)")):
                if a is None:
                    continue
                d = abs(impl - a)
                if not (d <= TOL):
                    r.status = "violation"
                    r.what = "log p(%s | %s): interpolate output %r, %s %r" % (w, " ".join(c), impl, which, a)
                    r.detail["context"] = list(c)
                    r.detail["word"] = w
                    return r
                worst = max(worst, d)
        if not abs(tot - 1.0) <= 1e-4:
            r.status, r.what = "violation", "context %r of the output sums to %r" % (" ".join(c), tot)
            return r
    # ---- entry-by-entry correspondence with the model's output table (after the property oracle)
    mod_entries = {}
    for k in range(1, maxo + 1):
        line = o2[nb + 3 + k]
        for rec in (line.split("\t") if line else []):
            f = rec.split(" ")
            mod_entries[tuple(f[:k])] = (G.f64_from_bits(f[k]), G.f64_from_bits(f[k + 1]))
    if set(mod_entries.keys()) != union:
        r.status, r.what = "violation", "model's union n-gram set differs from the union of the inputs"
        return r
    for g, (p, b) in grams.items():
        mp, mb = mod_entries[g]
        if g == ("<s>",):
            mp = p     # the <s> unigram probability is outside the property (excluded word)
        for a, bb, which in ((p, mp, "prob"), (b, mb, "backoff")):
            d = abs(a - bb)
            if not (d <= TOL):
                r.status = "violation"
                r.what = ("correspondence: ARPA %s of %r: tool %r, model %r (the defining formula held on all %d evaluated "
                          "pairs)" % (which, " ".join(g), a, bb, npairs))
                r.no_input = True
                return r
            worst = max(worst, d)
    # ---- single model, weight one: the input is reproduced
    if len(models) == 1 and case["weights"] == [1.0]:
        for g, (p, b) in comp_grams[0].items():
            if g == ("<s>",):
                continue
            op, ob = grams[g]
            if not (abs(op - p) <= TOL and abs(ob - b) <= TOL):
                r.status, r.what = "violation", "single model, weight 1: %r has %r/%r, input %r/%r" % (g, op, ob, p, b)
                return r
            worst = max(worst, abs(op - p), abs(ob - b))
    r.status = "ok"
    r.maxerr = worst
    r.detail["pairs"] = npairs
    r.detail["contexts"] = len(ctxs)
    r.detail["all_contexts"] = full
    r.detail["ngrams"] = len(union)
    return r


# ------------------------------------------------------------------------------------ shrinking
def shrink_case(ctx, case, bins, dexe, wd, cap_ctx, status, budget=40):
    """ddmin over the sentences of each corpus, keeping the failure class."""
    import time
    t_end = time.time() + 150

    def fails(c):
        if time.time() > t_end:
            return False
        rr = run_case(ctx, c, bins, dexe, wd, cap_ctx)
        return rr.status == status
    cur = dict(case)
    tests = [0]
    for i in range(len(case["comps"])):
        text, order = cur["comps"][i][0], cur["comps"][i][1]
        extra = tuple(cur["comps"][i][2:])
        lines = text.splitlines()

        def f(ls):
            if tests[0] >= budget or not ls:
                return False
            tests[0] += 1
            c2 = dict(cur)
            cc = list(cur["comps"])
            cc[i] = ("\n".join(ls) + "\n", order) + extra
            c2["comps"] = cc
            return fails(c2)
        small = stream.ddmin(lines, f, max_tests=budget)
        cc = list(cur["comps"])
        cc[i] = ("\n".join(small) + "\n", order) + extra
        cur["comps"] = cc
    return cur


def case_json(case):
    return {"kind": case["kind"],
            "comps": [{"corpus": c[0], "order": c[1], "lmplz_extra": list(c[2]) if len(c) > 2 else []} for c in case["comps"]],
            "weights": case["weights"], "setting": list(case["setting"]), "expect_reject": bool(case.get("expect_reject"))}


def case_from_json(j):
    return {"kind": j["kind"],
            "comps": [(c["corpus"], c["order"]) + ((c["lmplz_extra"],) if c.get("lmplz_extra") else ()) for c in j["comps"]],
            "weights": j["weights"], "setting": tuple(j["setting"]), "expect_reject": bool(j.get("expect_reject"))}


def handle(ctx, case, r, bins, dexe, wd, cap_ctx):
    """Book-keeping for one evaluated case.  Returns True if a (non-known) violation was reported."""
    orders = [c[1] for c in case["comps"]]
    ctx.hist("kind", case["kind"])
    ctx.hist("lmplz", "+".join(sorted({(c[2][0] if len(c) > 2 else "default") for c in case["comps"]})))
    ctx.hist("models", len(orders))
    ctx.hist("orders", "-".join(str(o) for o in orders))
    ctx.hist("setting", "%s/%s" % tuple(case["setting"]))
    ctx.hist("sort_block", str(case["setting"][1]))
    if r.detail.get("vocab_ratio") is not None:
        vr = r.detail["vocab_ratio"]
        ctx.hist("union_vocab/max_component_vocab", "<1.2" if vr < 1.2 else "<1.6" if vr < 1.6 else "<2" if vr < 2 else
                 "<2.5" if vr < 2.5 else ">=2.5")
        ctx.hist("union_vocab_size", min(r.detail["union_vocab"] // 10 * 10, 100))
    if r.detail.get("config_rejected"):
        ctx.hist("config_rejected_cleanly", "%s/%s" % tuple(case["setting"]))
    ctx.hist("outcome", r.status)
    if r.status == "skip":
        log("  skipped case: " + r.what)
        return False
    nontrivial = len(case["comps"]) >= 2 or r.detail.get("ngrams", 0) >= 10
    ctx.count(("case", json.dumps(case_json(case), sort_keys=True)), nontrivial=nontrivial,
              n=max(1, r.detail.get("pairs", 1)))
    if r.status == "ok":
        if r.detail.get("predicted_abort_but_succeeded"):
            ctx.notes["predicted_abort_but_succeeded"] = ctx.notes.get("predicted_abort_but_succeeded", 0) + 1
        ctx.notes["max_abs_error"] = max(ctx.notes.get("max_abs_error", 0.0), r.maxerr)
        ctx.sample({"kind": case["kind"], "orders": orders, "weights": case["weights"], "built": r.detail.get("built"),
                    "pairs": r.detail.get("pairs"), "maxerr": r.maxerr})
        return False
    replay = {"stream": "interpolate", "case": case_json(case), "detail": r.detail, "what": r.what}
    if r.status == "known":
        # exactly the listed input class: unequal orders AND abort with that message AND model-level predicate
        if ctx.violation(r.what, replay, key=r.known_key):
            return True
        ctx.notes["known_finding_cases"] = ctx.notes.get("known_finding_cases", 0) + 1
        return False
    small = shrink_case(ctx, case, bins, dexe, wd, cap_ctx, r.status)
    rs = run_case(ctx, small, bins, dexe, wd, cap_ctx)
    if rs.status == r.status:
        replay = {"stream": "interpolate", "case": case_json(small), "detail": rs.detail, "what": rs.what,
                  "unshrunk_case": case_json(case)}
        r = rs
    ctx.violation(r.what, replay, no_input=r.no_input)
    return True


# ------------------------------------------------------------------------------------ stream `bse`
def py_bse_length(bounds):
    """independent evaluation of byte_length_ (bit fields never cross a 64-bit word)"""
    full, shift = 0, 0
    for b in bounds:
        ln = 0 if b <= 1 else b.bit_length()
        if shift + ln > 64:
            full += 1
            shift = 0
        shift += ln
    return full * 8 + (shift + 7) // 8


def py_bse_shift64(bounds):
    """does some entry get shift == 64 (a zero-width field right after a completely full word)?"""
    shift = 0
    for b in bounds:
        ln = 0 if b <= 1 else b.bit_length()
        if shift + ln > 64:
            shift = 0
        if shift >= 64:
            return True
        shift += ln
    return False


BSE_KEY = "bse-zero-width-field-shift-64"
BSE_WITNESS = "bse " + " ".join(["2"] * 32 + ["1"]) + " | " + " ".join(["1"] * 32 + ["0"])


def bse_stream(ctx, n_cases):
    """BoundedSequenceEncoding: real header in-process (ASan/UBSan, exact-size heap buffer) vs the Lean model;
    oracle: Decode(Encode(v)) = v for in-contract values and EncodedLength as computed independently.
    Bound vectors that make the code shift by 64 (UB; theorem bse_shift64_witness) are run one by one: they must
    either behave (repaired tree) or die exactly with UBSan's 'shift exponent 64' (known finding)."""
    ok, hexe, lg = repo.harness("c13_bse.cc", extra=[REPO + "/lm/interpolate/bounded_sequence_encoding.cc",
                                                     REPO + "/util/exception.cc", REPO + "/util/scoped.cc",
                                                     REPO + "/util/integer_to_string.cc"])
    if not ok:
        return [lg], False
    dexe = lean.driver_path("drv_C13")
    rng = ctx.rng
    ops, meta = [], []
    ub_ops = [(BSE_WITNESS, [2] * 32 + [1], [1] * 32 + [0])]
    for _ in range(n_cases):
        n = rng.choice([0, 1, 2, 3, 3, 5, 8, 9, 16, 22, 33, 40, rng.randrange(0, 70)])
        style = rng.choice(["orders", "orders", "orders2", "mixed", "big", "ones"])
        if style == "orders":
            bounds = [rng.randint(1, 6) for _ in range(n)]
        elif style == "orders2":
            bounds = [rng.randint(2, 6) for _ in range(n)]
        elif style == "mixed":
            bounds = [rng.choice([0, 1, 2, 3, 4, 7, 8, 15, 16, 127, 128, 255]) for _ in range(n)]
        elif style == "big":
            bounds = [rng.choice([127, 128, 200, 255]) for _ in range(n)]
        else:
            bounds = [1] * n
        contract = rng.random() < 0.85
        if contract:
            # contract of the class: value < 2^bits(bound) (the caller passes from < bound)
            vals = [rng.choice([0, b, max(b - 1, 0), rng.randint(0, b)]) if b >= 2 else 0 for b in bounds]
        else:
            vals = [rng.randint(0, 255) for _ in bounds]
        op = "bse %s | %s" % (" ".join(map(str, bounds)), " ".join(map(str, vals)))
        if py_bse_shift64(bounds):
            if contract and len(ub_ops) < 12:
                ub_ops.append((op, bounds, vals))
            continue
        ops.append(op)
        meta.append((bounds, vals, contract))
    found = False
    (rc1, o1, e1), (rc2, o2, e2) = stream.both(hexe, dexe, ops)
    if rc1 != 0 or len(o1) != len(ops):
        small = stream.ddmin(ops, lambda l: stream.run_lines(hexe, l)[0] != 0)
        ctx.violation("BoundedSequenceEncoding harness died (rc=%s): %s" % (rc1, e1[-600:]),
                      {"stream": "bse", "ops": small[:20], "stderr": e1[-2000:]})
        return [], True
    for i, (bounds, vals, contract) in enumerate(meta):
        ctx.count(("bse", ops[i]), nontrivial=len(bounds) >= 2)
        ctx.hist("bse.n", min(len(bounds), 64) // 8 * 8)
        ctx.hist("bse.contract", contract)
        if not contract:
            continue        # out of contract: only "does not crash / no sanitizer report" is observed
        f = o1[i].split(" ")
        want_len = py_bse_length(bounds)
        if int(f[0]) != want_len or [int(x) for x in f[2:]] != vals:
            ctx.violation("BoundedSequenceEncoding: Decode(Encode(v)) != v or wrong EncodedLength",
                          {"stream": "bse", "ops": [ops[i]], "impl": o1[i], "expected_len": want_len, "expected": vals})
            found = True
            continue
        if i >= len(o2) or o1[i] != o2[i]:
            ctx.violation("model and implementation disagree on BoundedSequenceEncoding",
                          {"stream": "bse", "ops": [ops[i]], "impl": o1[i], "model": o2[i] if i < len(o2) else None},
                          no_input=not found)
            found = True
    # ---- the shift-by-64 class, one process per case
    for op, bounds, vals in ub_ops:
        rc, o, e = stream.run_lines(hexe, [op])
        ctx.count(("bse", op), nontrivial=True)
        ctx.hist("bse.shift64", "ubsan" if rc != 0 else "clean")
        if rc != 0:
            if "shift exponent 64" in e and "bounded_sequence_encoding.hh" in e:
                if ctx.violation("BoundedSequenceEncoding shifts a uint64_t by 64 (undefined behaviour) for bounds %s"
                                 % " ".join(map(str, bounds)),
                                 {"stream": "bse", "ops": [op], "stderr": e[-800:]}, key=BSE_KEY):
                    found = True
            else:
                ctx.violation("BoundedSequenceEncoding harness died (rc=%s): %s" % (rc, e[-400:]),
                              {"stream": "bse", "ops": [op], "stderr": e[-2000:]})
                found = True
            continue
        f = o[0].split(" ")
        if int(f[0]) != py_bse_length(bounds) or [int(x) for x in f[2:]] != vals:
            ctx.violation("BoundedSequenceEncoding: Decode(Encode(v)) != v or wrong EncodedLength",
                          {"stream": "bse", "ops": [op], "impl": o[0], "expected": vals})
            found = True
    return [], found


# ------------------------------------------------------------------------------------ stream `bigvocab`
def bigvocab_case(ctx, bins, wd, idx):
    """Two order-2 components over (almost) the same >= 140k word types with long-ish spellings: every <base>.vocab is
    1.8-3 MB, several FilePiece windows, so MergeVocab runs across window shifts with the word at the shift shared
    between the components.  Too large for the list-based Lean driver: tool vs the independent Python oracle only
    (union vocabulary = distinct words, no duplicate n-gram, header counts, n-gram set = union, defining formula and
    normalisation on a sample of contexts over the WHOLE vocabulary).  Returns True if a violation was reported."""
    import time
    lmplz, interp = bins
    rng = ctx.rng
    t0 = time.time()
    shutil.rmtree(wd, ignore_errors=True)
    os.makedirs(wd)
    n = rng.choice([140000, 150000, 165000])
    pad = rng.choice([7, 11, 15])
    words = ["w%07d_%s" % (i, "abcdefghij"[i % 10] * (i % pad)) for i in range(n)]
    texts = []
    for name in "AB":
        ws = words + ["only%s%d" % (name, i) for i in range(rng.choice([0, 30]))]
        rng.shuffle(ws)
        texts.append("\n".join(" ".join(ws[i:i + 10]) for i in range(0, len(ws), 10)) + "\n")
    replay = {"stream": "bigvocab", "n_words": n, "pad": pad, "seed_note": "regenerate with the same VERIF_SEED"}
    models = []
    for name, text in zip("AB", texts):
        base = os.path.join(wd, name)
        rc, o, e = sh([lmplz, "-o", "2", "--intermediate", base, "-S", "200M", "--discount_fallback"],
                      timeout=300, input=text.encode("utf-8"))
        if rc != 0:
            log("  bigvocab: lmplz failed (%s), instance skipped" % rc)
            return False
        models.append(G.read_intermediate(base))
    weights = rng.choice([[0.5, 0.5], [0.2, 0.8], [1.3, -0.3]])
    vbytes = max(os.path.getsize(m["base"] + ".vocab") for m in models)
    ctx.hist("bigvocab.vocab_MB", round(vbytes / 1e6, 1))
    cmd = [interp, "-m"] + [m["base"] for m in models] + ["-w"] + [repr(w) for w in weights] + ["-T", os.path.join(wd, "t_")]
    rc, out, err = sh(cmd, timeout=300)
    replay["cmd"] = " ".join(cmd)
    ctx.count(("bigvocab", idx, n, pad), nontrivial=True)
    if rc != 0:
        ctx.violation("interpolate did not terminate successfully on a large shared vocabulary (%d words, .vocab %.1f MB): "
                      "rc=%s %s" % (n, vbytes / 1e6, rc, (err.strip().splitlines() or ["?"])[-1][:200]), replay)
        return True
    try:
        counts, grams = G.parse_arpa(out)      # raises on duplicate n-grams and on header counts != entries
    except ValueError as ex:
        ctx.violation("large shared vocabulary (%d words): malformed ARPA: %s" % (n, ex), replay)
        return True
    comp_grams = [G.model_grams(m) for m in models]
    union = set(comp_grams[0]) | set(comp_grams[1])
    if set(grams) != union:
        d = sorted(set(grams) ^ union)[:4]
        ctx.violation("large shared vocabulary (%d words): output n-gram set is not the union of the inputs "
                      "(%d vs %d n-grams), e.g. %r" % (n, len(grams), len(union), d), replay)
        return True
    uv = [g[0] for g in grams if len(g) == 1]
    distinct = set(models[0]["vocab"]) | set(models[1]["vocab"])
    if len(uv) != len(distinct) or set(uv) != distinct:
        ctx.violation("large shared vocabulary: %d unigrams for %d distinct words" % (len(uv), len(distinct)), replay)
        return True
    vocab_nobos = [w for w in uv if w != "<s>"]
    lambdas = [G.f32(G.f32bits(w)) for w in weights]
    comps_py = list(zip(comp_grams, [2, 2]))
    some = rng.sample(words, 2)
    ctxs = [(), ("<s>",), (some[0],), (some[1],)] + ([("onlyA0",)] if ("onlyA0",) in grams else [])
    worst = 0.0
    for c in ctxs[:(4 if ctx.tier == "quick" else 5)]:
        pyf, _ = G.formula(comps_py, lambdas, vocab_nobos, c)
        tot = 0.0
        for w in vocab_nobos:
            impl = G.arpa_score(grams, c, w)
            tot += 10.0 ** impl
            d = abs(impl - pyf[w])
            if not d <= TOL:
                ctx.violation("large shared vocabulary: log p(%s | %s): interpolate output %r, defining formula (Python "
                              "oracle) %r" % (w, " ".join(c), impl, pyf[w]), replay)
                return True
            worst = max(worst, d)
        ctx.count(None, n=len(vocab_nobos))
        if not abs(tot - 1.0) <= 1e-3:
            ctx.violation("large shared vocabulary: context %r sums to %r" % (" ".join(c), tot), replay)
            return True
    ctx.notes["bigvocab_max_abs_error"] = max(ctx.notes.get("bigvocab_max_abs_error", 0.0), worst)
    ctx.notes["bigvocab_seconds"] = round(ctx.notes.get("bigvocab_seconds", 0.0) + time.time() - t0, 1)
    return False


def build_tools():
    """repo.build with retries: the shared build cache is pruned by concurrent checks of other trees, which can
    delete a build directory while ninja is still writing into it."""
    for attempt in range(3):
        ok, bdir, lg = repo.build("tools", targets=["lmplz", "interpolate"])
        if ok and os.path.exists(os.path.join(bdir, "bin", "interpolate")) and os.path.exists(os.path.join(bdir, "bin", "lmplz")):
            return ok, bdir, lg
        if ok:
            # stamp present but binaries gone (pruned): force a rebuild
            shutil.rmtree(bdir, ignore_errors=True)
            ok, lg = False, "build directory was pruned concurrently"
        log("  build attempt %d failed, retrying: %s" % (attempt + 1, lg[-200:]))
    return ok, bdir, lg


def run(ctx):
    problems, consts = flow.proof_phase(ctx, "C13", required=REQUIRED, drivers=["drv_C13"])
    bse_problems, found_bse = bse_stream(ctx, 300 if ctx.tier == "quick" else 5000)
    problems += bse_problems
    ok, bdir, lg = build_tools()
    if not ok:
        problems.append(lg)
        flow.report_obligation_failures(ctx, problems, found_bse)
        return
    bins = (os.path.join(bdir, "bin", "lmplz"), os.path.join(bdir, "bin", "interpolate"))
    dexe = lean.driver_path("drv_C13")
    wd = fresh_scratch("c13_%d_%d" % (ctx.seed, os.getpid()))
    found = found_bse
    try:
        quick = ctx.tier == "quick"
        n = 16 if quick else 300
        cap_ctx = 120 if quick else 400
        # fixed coverage first: every kind once, then random kinds
        for bi in range(1 if quick else 4):
            found |= bigvocab_case(ctx, bins, os.path.join(wd, "big"), bi)
        # union vocabulary about three times every component's, smallest blocks: the pass-2 RewindableStream must be sized
        # from the UNION vocabulary (one fixed tuple per run for each of two block sizes)
        for sizes, st in (((12, 12, 12), ("256b", "64b")), ((20, 19, 20), ("1K", "256b"))):
            case = gen_case(ctx.rng, "disjoint", sizes_force=sizes)
            case["comps"] = [(c[0], 3) for c in case["comps"]]        # equal orders: never the known mixed-order abort
            case["setting"] = st
            r = run_case(ctx, case, bins, dexe, os.path.join(wd, "case"), 60 if quick else cap_ctx)
            found |= handle(ctx, case, r, bins, dexe, os.path.join(wd, "case"), cap_ctx)
        for pat in NEG_WEIGHT_PATTERNS:
            for attempt in range(4):
                case = gen_case(ctx.rng, "same-order", n_force=len(pat))
                case["kind"] = "neg-weights"
                case["comps"] = [(c[0], min(c[1], 3)) + tuple(c[2:]) for c in case["comps"]]   # keep these cheap
                case["weights"] = [round(w * ctx.rng.choice([1.0, 0.5, 1.25]), 3) if w < 0 else w for w in pat]
                if len(pat) > 3:
                    case["setting"] = ctx.rng.choice([(None, None), ("40M", "1M"), ("64K", "1K")])
                r = run_case(ctx, case, bins, dexe, os.path.join(wd, "case"), 60 if quick else cap_ctx)
                if r.status != "skip":
                    break
            ctx.hist("neg_weight_pattern", " ".join("-" if w < 0 else ("0" if w == 0 else "+") for w in pat))
            found |= handle(ctx, case, r, bins, dexe, os.path.join(wd, "case"), cap_ctx)
        kinds = ["single", "disjoint", "deep", "same-order", "same-corpus-mixed", "nested-mixed", "diff-mixed",
                 "disjoint", "deep", "same-order", "disjoint"]
        if not quick:
            kinds = ["many", "many"] + kinds
        # settings the tool may refuse: must be refused cleanly (exit 1 + message), never by hanging or aborting
        for st in REJECT_SETTINGS:
            case = gen_case(ctx.rng, "disjoint")
            case["comps"] = [(c[0], 3) for c in case["comps"]]
            case["setting"] = st
            case["expect_reject"] = True
            r = run_case(ctx, case, bins, dexe, os.path.join(wd, "case"), cap_ctx)
            found |= handle(ctx, case, r, bins, dexe, os.path.join(wd, "case"), cap_ctx)
        r = run_case(ctx, WITNESS_CASE, bins, dexe, os.path.join(wd, "case"), cap_ctx)
        found |= handle(ctx, WITNESS_CASE, r, bins, dexe, os.path.join(wd, "case"), cap_ctx)
        if r.status == "known":
            ctx.notes["witness_replay"] = "KV.C13.abort_witness reproduced on bin/interpolate (rc=%s, stuck %s)" % (
                r.detail.get("rc"), r.detail.get("stuck_model"))
        elif r.status == "ok":
            ctx.notes["witness_replay"] = ("the witness of KV.C13.abort_witness no longer aborts and its output satisfies the "
                                           "formula: finding K appears repaired, known_findings entry is stale")
            log("  note: " + ctx.notes["witness_replay"])
        for i in range(n):
            for attempt in range(4):   # a generated tuple that breaks a stated hypothesis is replaced, not counted
                case = gen_case(ctx.rng, kinds[i] if i < len(kinds) else None)
                r = run_case(ctx, case, bins, dexe, os.path.join(wd, "case"), cap_ctx)
                if r.status != "skip":
                    break
                ctx.hist("skipped", r.what.split(":")[0][:60])
            found |= handle(ctx, case, r, bins, dexe, os.path.join(wd, "case"), cap_ctx)
            if len(ctx.violations) >= 3:
                break
    finally:
        shutil.rmtree(wd, ignore_errors=True)
    ctx.cov["rule"] = ("one evaluation = one (context, word) pair of the union vocabulary whose log10 p in the ARPA written by "
                       "bin/interpolate was compared with the defining formula (plus one per aborting/failed tuple); a case "
                       "(tuple of corpora x orders x weights x memory/block setting) is non-trivial when it has >= 2 components "
                       "or >= 10 union n-grams; distinct by the full case")
    ctx.assumptions += [
        "tolerance 1e-5 absolute on log10 values (tool: float32 accumulation, long double pow/log10; driver: double)",
        "the <s> unigram probability of the output is outside the property (excluded word, as in C06)",
        "inputs are lmplz --intermediate models (prefix/suffix closed, <unk> only as unigram, log p(<s>) = 0); hypotheses checked per model",
        "three-pass streaming pipeline tied through the final ARPA output only (label: partial)",
    ]
    flow.report_obligation_failures(ctx, problems, found)


def replay(ctx, path):
    j = json.load(open(path))
    if "case" not in j:
        print(json.dumps(j, indent=1)[:3000])
        return 1
    ok, bdir, lg = build_tools()
    lean.lake_build(["drv_C13"])
    bins = (os.path.join(bdir, "bin", "lmplz"), os.path.join(bdir, "bin", "interpolate"))
    wd = fresh_scratch("c13_replay_%d" % os.getpid())
    try:
        r = run_case(ctx, case_from_json(j["case"]), bins, lean.driver_path("drv_C13"), os.path.join(wd, "case"), 400)
    finally:
        shutil.rmtree(wd, ignore_errors=True)
    print("replay: status=%s %s" % (r.status, r.what))
    print(json.dumps(r.detail, indent=1, default=str)[:3000])
    return 0 if r.status == "ok" else 1
