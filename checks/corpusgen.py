"""Corpus / option generators for the lmplz streams (C05, C06, C07).

Every random choice comes from the `rng` handed in (derived from VERIF_SEED by the check)."""

SPECIALS = [b"<s>", b"</s>", b"<unk>"]
ODD_WORDS = [b"\xc3\xa9t\xc3\xa9", b"a\x0bb", b"\xff\xfe", b"<S>", b"<unk", b"</s", b"0", b"-1.5", b"\\data\\",
             b"ngram", b"w\x7f", b"\xe2\x80\x8b"]


def zipf_words(rng, V):
    words = [b"w%d" % i for i in range(V)]
    # a few odd byte strings as words
    for i in range(min(V, rng.choice([0, 0, 1, 3]))):
        words[rng.randrange(V)] = rng.choice(ODD_WORDS) + (b"%d" % i)
    wts = [1.0 / (i + 1) ** rng.choice([0.7, 1.0, 1.0, 1.3]) for i in range(V)]
    return words, wts


def gen_sentences(rng, V, S, maxlen):
    words, wts = zipf_words(rng, V)
    pool = []
    sents = []
    p_repeat = rng.choice([0.0, 0.1, 0.3, 0.6])
    p_empty = rng.choice([0.0, 0.02, 0.1])
    for _ in range(S):
        r = rng.random()
        if pool and r < p_repeat:
            sents.append(list(rng.choice(pool)))
        elif r < p_repeat + p_empty:
            sents.append([])
        else:
            s = rng.choices(words, wts, k=rng.randint(1, maxlen))
            sents.append(s)
            if len(pool) < 50:
                pool.append(s)
    return sents, words


def render(rng, sents, skip_symbols, odd_seps):
    """sentences -> corpus bytes (always newline-terminated)."""
    out = []
    for s in sents:
        toks = list(s)
        if skip_symbols and rng.random() < 0.15:
            toks.insert(rng.randrange(len(toks) + 1), rng.choice(SPECIALS))
        line = b""
        if odd_seps and rng.random() < 0.1:
            line += rng.choice([b" ", b"\t", b"\r", b"\0", b"  "])
        for i, t in enumerate(toks):
            if i:
                if odd_seps and rng.random() < 0.2:
                    line += rng.choice([b"\t", b"\r", b"\0", b"  ", b" \t ", b"\r\0"])
                else:
                    line += b" "
            line += t
        if odd_seps and rng.random() < 0.15:
            line += rng.choice([b" ", b"\t", b"\r", b"\0 ", b"\r"])
        out.append(line + b"\n")
    return b"".join(out)


def gen_prune(rng, order):
    k = rng.randint(1, order)
    vals = sorted(rng.choice([0, 0, 0, 1, 1, 2, 3]) for _ in range(k))
    if rng.random() < 0.6:
        vals[0] = 0
    return vals


def gen_illegal_prune(rng, order):
    """An option vector ParsePruning must refuse (or an unusual spelling it accepts): returns list of str."""
    kind = rng.choice(["dec-last", "dec-last", "dec-any", "too-many", "garbage", "plus", "minus"])
    if kind in ("dec-last", "dec-any"):
        k = rng.randint(2, max(2, order))
        vals = sorted(rng.choice([0, 1, 1, 2, 2, 3, 5]) for _ in range(k))
        j = k - 1 if kind == "dec-last" else rng.randint(1, k - 1)
        if vals[j - 1] == 0:
            for i in range(j - 1, k):
                vals[i] += 1 + (i >= j)
            vals = sorted(vals)
        vals[j] = vals[j - 1] - 1
        if kind == "dec-last":          # the only decrease is the last pair
            for i in range(1, j):
                vals[i] = max(vals[i], vals[i - 1])
        return [str(v) for v in vals]
    if kind == "too-many":
        return [str(v) for v in sorted(rng.choice([0, 0, 1, 2]) for _ in range(order + rng.randint(1, 2)))]
    if kind == "garbage":
        vals = [str(v) for v in sorted(rng.choice([0, 1, 2]) for _ in range(rng.randint(1, order)))]
        vals[rng.randrange(len(vals))] = rng.choice(["abc", "1.5", "0x1", "99999999999999999999", "18446744073709551616", "1e3", "2,", "+-1"])
        return vals
    if kind == "plus":
        vals = [str(v) for v in sorted(rng.choice([0, 1, 2]) for _ in range(rng.randint(1, order)))]
        i = rng.randrange(len(vals))
        vals[i] = rng.choice(["+", "0", "00"]) + vals[i]
        return vals
    # lexical_cast<uint64_t>("-1") = UINT64_MAX (prunes everything but the specials); only as the single value
    # directly after --prune: later tokens starting with '-' are taken for options by boost::program_options
    return ["-1"] if rng.random() < 0.5 else ["18446744073709551615"]


def gen_case(rng, tier="quick", small=False, big=False):
    """One lmplz case: dict(corpus=bytes, order, prune, limit (bytes or None), interp, fallback, renumber,
    skip, label)."""
    if small:
        V = rng.choice([3, 5, 6, 8])
        S = rng.randint(2, 14)
        maxlen = rng.choice([3, 4, 6])
    elif big:
        V = rng.choice([200, 400])
        S = rng.choice([5000, 20000])
        maxlen = 12
    else:
        V = rng.choice([5, 8, 14, 14, 30, 60, 120, 400])
        S = rng.choice([10, 30, 60, 120, 300])
        maxlen = rng.choice([4, 7, 12])
    sents, words = gen_sentences(rng, V, S, maxlen)
    tail = rng.random() < 0.5
    if tail:
        # a frequent word introduced last: the last n-gram of every lower order then has
        # adjusted count != true count (it is what the final flush of AdjustCounts sees)
        k = rng.randint(2, 6)
        zz = b"zz"
        sents += [[rng.choice(words), zz] if rng.random() < 0.8 else [zz]] * k
    skip = rng.random() < 0.25
    odd = rng.random() < 0.4
    corpus = render(rng, sents, skip, odd)
    order = rng.choice([1, 2, 2, 3, 3, 3, 4, 5, 6])
    if small:
        order = rng.choice([1, 2, 3, 3, 4])
    if big:
        order = rng.choice([3, 5])
    prune = gen_prune(rng, order) if rng.random() < 0.45 else None
    if order >= 2 and not big and rng.random() < 0.12:
        prune = gen_illegal_prune(rng, order)
    limit = None
    if rng.random() < 0.2:
        allowed = [w for w in words if rng.random() < 0.7] + [b"neverseen"]
        if rng.random() < 0.3:
            allowed.append(b"zz")
        limit = b"\n".join(allowed) + b"\n"
    r = rng.random()
    if r < 0.65:
        fallback = "default"
    elif r < 0.85:
        fallback = rng.choice([("0.4", "0.9", "1.2"), ("0.75",), ("0", "0", "0"), ("1", "2", "3"), ("0.5", "1.25")])
    else:
        fallback = None
    return dict(corpus=corpus, order=order, prune=prune, limit=limit, interp=rng.random() < 0.8,
                fallback=fallback, renumber=rng.random() < 0.3, skip=skip, tail=tail,
                label="V%d S%d o%d" % (V, len(sents), order))


# the 3-sentence witness of Properties/C05.lean `stats_eq_unfixed_false`, as a corpus
WITNESS = dict(corpus=b"a b\nb\nb\n", order=2, prune=None, limit=None, interp=True, fallback="default",
               renumber=False, skip=False, tail=True, label="witness")
