"""C03 — All model data structures are observationally equivalent."""
import os
import copy

from vlib import flow, lean, repo, stream
from vlib.common import REPO, fresh_scratch, log
from vlib.common import run as sh

from . import lmgen
from . import C01_lmq as lmq
from . import C01 as c01

MANIFEST = {
    "text": "Corollaries of the C01/C02 theorems: the query algorithm is proved over *any* table that represents the ARPA "
            "model (interface TableFor), so two structures that both represent it return the same probability for every "
            "state/history/word, and structural results depend only on found/not-found and the two marks, never on the "
            "stored values (quantisation). Tied to the code by a six-way differential run (Probing, RestProbing, Trie, "
            "ArrayTrie, QuantTrie, QuantArrayTrie on identical queries, pairwise) and a configuration sweep "
            "(probing_multiplier, pointer_bhiksha_bits, prob/backoff bits, building_memory, write method via "
            "bin/build_binary and loading the binary file).",
    "note": "Trusted: Lean kernel + standard axioms; statements in lean/Properties/C03.lean; harness c01_lmquery.cc, "
            "bin/build_binary of the scratch build, comparator. Quantised values are compared only when every order's "
            "value count fits the bins (pre-observation D). Structure across the probing/trie families is compared only "
            "on suffix-closed models (pre-observation G, owned by C08).",
    "technique": "Lean 4 proof (corollaries of the refinement interface) + differential correspondence with the real code",
}

REQUIRED = ["KV.C03.search_refinement", "KV.C03.probing_refines", "KV.C03.probing_prob", "KV.C03.prob_independent_of_table", "KV.C03.forgot_prob_independent_of_table",
            "KV.C03.trie_mark_loss_harmless", "KV.C03.quant_bin_singleton", "KV.C03.quant_exact", "KV.C03.quant_equal_multiplicity_lossless",
            "KV.C03.quant_distinct_fails", "KV.C03.quant_backoff_one_bit_overflows", "KV.C03.quant_centre_underflow_witness"]

REQUIRED_BUILD = ["KV.C03ProbingBuild.probing_build_represents", "KV.C03ProbingBuild.probing_end_to_end",
                  "KV.C03ProbingBuild.probingBuildRepresents_holds", "KV.C03ProbingBuild.demoPruned_represents",
                  "KV.C03ProbingBuild.demoPruned_end_to_end", "KV.C03ProbingBuild.demoPruned_ok", "KV.C03ProbingBuild.demoPruned_caps",
                  "KV.C03ProbingBuild.insert_capacity_probingSize", "KV.C03ProbingBuild.findOrInsert_capacity_probingSize",
                  "KV.C03ProbingBuild.insert_below_capacity", "KV.C03ProbingBuild.missing_context_format",
                  "KV.C03ProbingBuild.build_bigram", "KV.C03ProbingBuild.build_bigram_capacity",
                  "KV.C03ProbingBuild.probing_end_to_end_partial",
                  "KV.C03ProbingBuild.probing_build_represents_closed", "KV.C03ProbingBuild.probing_end_to_end_closed",
                  "KV.C03ProbingBuild.demoClosed_ok", "KV.C03ProbingBuild.blank_invariant_closed_line",
                  "KV.C03ProbingBuild.probing_blank1_step_partial",
                  "KV.C03ProbingBuild.probing_build_represents_blank1", "KV.C03ProbingBuild.probing_end_to_end_blank1",
                  "KV.C03ProbingBuild.probing_build_represents_single", "KV.C03ProbingBuild.probing_end_to_end_single",
                  "KV.C03ProbingBuild.probing_chain_line_partial", "KV.C03ProbingBuild.chain_updates_eval",
                  "KV.C03ProbingBuild.probing_rest_build_closed_partial", "KV.C03ProbingBuild.probing_rest_payload",
                  "KV.C03ProbingBuild.probing_rest_unigram", "KV.C03ProbingBuild.restOf_is_max",
                  "KV.C03ProbingBuild.probing_rest_build_represents_closed", "KV.C03ProbingBuild.probing_rest_refines",
                  "KV.C03ProbingBuild.probing_rest_end_to_end_closed", "KV.C03ProbingBuild.probing_rest_is_maxRest",
                  "KV.C03ProbingBuild.probing_rest_chain_adjust_partial",
                  "KV.C03ProbingBuild.probing_rest_chain_line_partial", "KV.C03ProbingBuild.probing_rest_chain_nonrest_partial"]

KEY_QUANT = "quant-distinct-values-but-count-exceeds-bins"
KEY_BB1 = "quant-backoff-bits-1-overflow"
KEY_PZ = "probing-unigram-plus-zero-independent-left"
KEY_SUBN = "quant-backoff-centre-negative-zero"


def has_subnormal_backoff(case):
    """some non-zero back-off of an order >= 2 lies in the float32 sub-normal range (|b| < 2^-126)"""
    for n, tab in case.grams.items():
        if n < 2:
            continue
        for g, (p, b) in tab.items():
            if b is not None:
                v = abs(lmgen.float_round(b))
                if 0.0 < v < 2.0 ** -126:
                    return True
    return False


def explained_by_sign_quirk(A, B, M):
    """every structural difference between a probing-family result A and a trie-family result B is the
    left-independence flag at a position where the Lean model with the probing sign-bit quirk predicts it"""
    for qa, qb, qm in zip(A, B, M):
        for ra, rb, rm in zip(qa, qb, qm):
            sa, sb = list(rec_struct(ra)), list(rec_struct(rb))
            if sa == sb:
                continue
            if rm.qF != rm.F["indep"] and sa[1] == rm.qF and sb[1] == rm.F["indep"]:
                sa[1] = sb[1]
            if rm.qG != rm.G["indep"] and sa[5] == rm.qG and sb[5] == rm.G["indep"]:
                sa[5] = sb[5]
            if sa != sb:
                return False
    return True


def rec_struct(r):
    return (r.F["len"], r.F["indep"], r.F["out"][0], tuple(r.F["out"][1]),
            r.G["len"], r.G["indep"], r.G["out"][0], tuple(r.G["out"][1]), r.S[0], tuple(r.S[1]))


def rec_all(r):
    return (r.F, r.G, r.S)


def parse_all(case, lines):
    """-> {cls: [[Rec per word] per query]}"""
    out = {}
    for qi in range(len(case.queries)):
        I = lmq.parse_impl_line(lines[1 + qi]) if 1 + qi < len(lines) else {}
        for c, recs in I.items():
            out.setdefault(c, []).append(recs)
    return out


def first_mismatch(A, B, proj):
    for qi, (qa, qb) in enumerate(zip(A, B)):
        if len(qa) != len(qb):
            return (qi, -1, None, None)
        for pos, (ra, rb) in enumerate(zip(qa, qb)):
            if proj(ra) != proj(rb):
                return (qi, pos, proj(ra), proj(rb))
    if len(A) != len(B):
        return (min(len(A), len(B)), -1, None, None)
    return None


def values_close(A, B, M, count):
    """probabilities of two classes within the float32 tolerance of the spec (both), per word"""
    for qi, (qa, qb, qm) in enumerate(zip(A, B, M)):
        for pos, (ra, rb, rm) in enumerate(zip(qa, qb, qm)):
            t = lmq.tol(rm)
            for nm in ("F", "G"):
                pa = lmq.fbits(getattr(ra, nm)["prob"])
                pb = lmq.fbits(getattr(rb, nm)["prob"])
                if getattr(ra, nm)["prob"] != getattr(rb, nm)["prob"]:
                    count["prob_bits_differ"] = count.get("prob_bits_differ", 0) + 1
                if abs(pa - pb) > 2 * t:
                    return (qi, pos, float(pa), float(pb), float(t))
    return None


def sweep_case(ctx, case, hexe, dexe, bb, work, ci, quick):
    found = False
    path = lmq.write_case(case, work, "c%d" % ci)
    ops = lmq.make_ops(path, case)
    (rc1, o1, e1), (rc2, o2, e2) = lmq.run_both(hexe, dexe, ops)
    if rc1 != 0 or rc2 != 0:
        ctx.violation("harness or driver died", {"stream": "six-way", "ops": ops[:20], "stderr": (e1 + e2)[-1500:],
                                                   "arpa": case.arpa.decode("utf-8", "replace")})
        return True
    info = lmq.parse_info(o2[0])
    if "error" in info or not info["ctx"] or not info["distinct"] or not info["proper"]:
        ctx.hist("c03.skipped", "outside-input-class")
        return False
    closed = bool(info["closed"])
    M = [lmq.parse_model_line(l) for l in o2[1:1 + len(case.queries)]]
    base = parse_all(case, o1)
    nwords = sum(len(ws) for _, ws in case.queries)
    ctx.count(("six-way", case.arpa, tuple(map(str, case.queries))), nontrivial=info["entries"] > info["real"][0], n=nwords)
    cnt = {}

    def report(what, extra, key=None):
        nonlocal found
        if key:
            ctx.hist("c03.known." + key, True)
        if ctx.violation(what, dict({"stream": "six-way", "arpa": case.arpa.decode("utf-8", "replace"),
                                     "queries": case.queries, "options": {"mult": case.mult, "abits": case.abits},
                                     "meta": case.meta}, **extra), key=key):
            found = True

    # ---- 1. pairwise across the six classes
    pairs = [("P", "R", True), ("T", "A", True), ("T", "Q", True), ("A", "B", True), ("P", "T", True), ("R", "A", True)]
    for x, y, structural in pairs:
        if x not in base or y not in base:
            continue
        if structural:
            mm = first_mismatch(base[x], base[y], rec_struct)
            if mm:
                key = None      # (the probing unigram sign-bit quirk is repaired by repo patch 60)
                quirk = x in "PR" and y in "TA" and explained_by_sign_quirk(base[x], base[y], M)
                report("six-way: %s and %s differ structurally" % (lmq.NAMES[x], lmq.NAMES[y]),
                       {"pair": [x, y], "query": mm[0], "pos": mm[1], "a": mm[2], "b": mm[3],
                        "explained_by_unigram_sign_quirk": quirk}, key=key)
                if not key:
                    continue
        quant = (x in "QB") != (y in "QB")
        if not quant or lmq.quant_fits(info):
            vm = values_close(base[x], base[y], M, cnt)
            if vm:
                report("six-way: %s and %s differ in probability beyond float32 rounding" % (lmq.NAMES[x], lmq.NAMES[y]),
                       {"pair": [x, y], "query": vm[0], "pos": vm[1], "a": vm[2], "b": vm[3], "tol": vm[4]})
    ctx.hist("c03.prob_bits_differ_unquantised", min(cnt.get("prob_bits_differ", 0), 1))
    # ---- 2. configuration sweep: results must not depend on the parameters
    fan = case.meta.get("kind") == "fanout"
    nsweep = (4 if fan else 2) if quick else (10 if fan else 5)
    fan_abits = [1, 2, 3, 4, 6, 9, 22, 25, 64, 255]
    ctx.rng.shuffle(fan_abits)
    for si in range(nsweep):
        mult = ctx.rng.choice([1.0001, 1.2, 1.5, 2.0, 10.0, 1.0 + ctx.rng.random() * 3])
        abits = fan_abits[si % len(fan_abits)] if fan else ctx.rng.randrange(0, 26)
        pbits = ctx.rng.randrange(1, 26) if ctx.rng.random() < 0.6 else ctx.rng.randrange(1, 6)
        bbits = ctx.rng.randrange(2, 26) if ctx.rng.random() < 0.6 else ctx.rng.randrange(1, 6)
        mem = ctx.rng.choice([0, 1, 1 << 16, 1 << 20, 1 << 26])
        c2 = copy.copy(case)
        c2.mult, c2.abits = mult, abits
        ops2 = lmq.make_ops(path, c2, extra=" pbits=%d bbits=%d mem=%d" % (pbits, bbits, mem))
        rc, o, e = stream.run_lines(hexe, ops2, 300)
        ctx.hist("c03.sweep.abits", abits)
        ctx.hist("c03.sweep.qbits", "%d" % (min(pbits, bbits) // 5 * 5))
        if rc != 0:
            report("harness died in the configuration sweep (rc=%s)" % rc, {"ops": ops2[:3], "stderr": e[-1500:]})
            continue
        load2 = lmq.parse_load(o[0])
        load1 = lmq.parse_load(o1[0])
        var = parse_all(c2, o)
        for c in lmq.CLASSES:
            if load1.get(c) != "ok" or load2.get(c) != "ok":
                if load1.get(c) != load2.get(c) and not (c in "PR" and "probing-size" in (load1.get(c), load2.get(c))) \
                        and not (c in "QB" and load2.get(c) == "config"):
                    report("load verdict of %s depends on the configuration" % lmq.NAMES[c],
                           {"cls": c, "base": load1.get(c), "variant": load2.get(c), "ops": ops2[:1]})
                continue
            proj = rec_struct if c in "QB" else rec_all
            mm = first_mismatch(base[c], var[c], proj)
            if mm:
                report("%s: results depend on the configuration (mult=%s abits=%d pbits=%d bbits=%d mem=%d)" %
                       (lmq.NAMES[c], mult, abits, pbits, bbits, mem),
                       {"cls": c, "query": mm[0], "pos": mm[1], "base": mm[2], "variant": mm[3], "ops": ops2[:1]},
                       key=KEY_BB1 if (c in "QB" and bbits == 1) else
                       (KEY_SUBN if (c in "QB" and has_subnormal_backoff(case)) else None))
                continue
            if c in "QB":
                fits = lmq.quant_fits(info, pbits, bbits)
                vm = values_close(var[c], base["T"], M, {}) if "T" in base else None
                if vm and bbits == 1:
                    report("%s: values differ with backoff_bits=1" % lmq.NAMES[c], {"cls": c, "ops": ops2[:1]}, key=KEY_BB1)
                elif vm and fits:
                    report("%s: quantised values differ from the trie although every order's value count fits the bins" % lmq.NAMES[c],
                           {"cls": c, "query": vm[0], "pos": vm[1], "quant": vm[2], "trie": vm[3], "tol": vm[4], "ops": ops2[:1]})
                elif vm and not fits:
                    ctx.hist("c03.quant_lossy_as_expected", True)
                    # the property text speaks of *distinct* values: is this an instance of the known deviation?
                    if distinct_fits(case, info, pbits, bbits):
                        report("%s: lossy although no order has more distinct values than bins (count exceeds bins)" % lmq.NAMES[c],
                               {"cls": c, "query": vm[0], "pos": vm[1], "quant": vm[2], "trie": vm[3], "pbits": pbits, "bbits": bbits,
                                "ops": ops2[:1]}, key=KEY_QUANT)
    # ---- 3. binary files: build_binary (write method, options) then load the binary
    nbin = 1 if quick else 3
    combos = [(ctx.rng.choice(["probing", "trie", "trie-a", "trie-q", "trie-qa"]), ctx.rng.choice(["mmap", "after"]))
              for _ in range(nbin)]
    if case.meta.get("unk") == "absent":     # the missing-<unk> fix-up must reach the file with either write method
        combos = [(t, w) for t in ("probing", "trie") for w in ("after", "mmap")]
    for typ, wm in combos:
        mult = ctx.rng.choice([1.2, 1.5, 2.0, 5.0])
        abits = ctx.rng.randrange(1, 26)
        pbits = ctx.rng.randrange(4, 26)
        bbits = ctx.rng.randrange(4, 26)
        cls = {"probing": "P", "trie": "T", "trie-a": "A", "trie-q": "Q", "trie-qa": "B"}[typ]
        out = os.path.join(work, "c%d.%s.bin" % (ci, typ))
        cmd = [bb, "-s", "-i", "-w", wm, "-p", str(mult), "-S", ctx.rng.choice(["1M", "64M", "1K"])]
        if "a" in typ.split("-")[-1] and typ != "trie":
            cmd += ["-a", str(abits)]
        if "q" in typ.split("-")[-1]:
            cmd += ["-q", str(pbits), "-b", str(bbits)]
        cmd += ["probing" if typ == "probing" else "trie", path, out]
        rc, so, se = sh(cmd, timeout=120)
        ctx.hist("c03.binary", "%s/%s" % (typ, wm))
        load1 = lmq.parse_load(o1[0])
        if rc != 0:
            if load1.get(cls) != "ok":
                continue
            if cls in "PR" and "probing" in se.lower() and "multiplier" in se.lower():
                ctx.hist("c03.binary_probing_size", True)
                continue
            report("build_binary failed (rc=%s) on a model the class loads from ARPA" % rc, {"cmd": cmd, "stderr": se[-1200:]})
            continue
        opsb = ["bin %s %s" % (out, cls)] + ops[1:]
        rc, o, e = stream.run_lines(hexe, opsb, 300)
        if rc != 0 or lmq.parse_load(o[0]).get(cls) != "ok":
            report("binary file written by build_binary does not load as %s" % lmq.NAMES[cls],
                   {"cmd": cmd, "load": o[:1], "stderr": e[-1200:]})
            continue
        var = parse_all(case, o)
        ref = "T" if cls in "QB" else cls      # quantised: structure vs trie
        if ref not in base or cls not in var:
            continue
        proj = rec_struct if cls in "QB" or (cls == "A") else rec_all
        mm = first_mismatch(base[ref], var[cls], proj)
        if mm:
            report("%s loaded from its binary file (%s, -w %s) answers differently from the ARPA-loaded model" % (lmq.NAMES[cls], typ, wm),
                   {"cls": cls, "cmd": cmd, "query": mm[0], "pos": mm[1], "arpa": None, "from_arpa": mm[2], "from_binary": mm[3]})
        elif cls == "A":
            vm = first_mismatch(base["A"], var["A"], rec_all)
            if vm:
                report("ArrayTrieModel from binary differs in values", {"cmd": cmd, "query": vm[0], "pos": vm[1], "a": vm[2], "b": vm[3]})
        try:
            os.unlink(out)
        except OSError:
            pass
    return found


def distinct_fits(case, info, pbits, bbits):
    """no order has more *distinct* parsed values than bins (the property's wording), on real n-grams without blanks"""
    if sum(info["blank"]) != 0:
        return False
    N = info["order"]
    for n in range(2, N + 1):
        ps = set()
        bs = set()
        for g, (p, b) in case.grams[n].items():
            ps.add(lmgen.float_round(p))
            if b is not None and lmgen.float_round(b) != 0.0:
                bs.add(lmgen.float_round(b))
        if len(ps) > (1 << pbits) or (n < N and len(bs) > (1 << bbits) - 2):
            return False
    return True


def quant_witness(ctx, hexe, work):
    """Replay of the Lean witness `quant_distinct_fails` on the real code: values {-0.25 x3, -0.75}, 1 prob bit = 2 bins."""
    arpa = ("\\data\\\nngram 1=4\nngram 2=4\n\n\\1-grams:\n-1\t<unk>\n-1\t<s>\t-0.5\n-1\ta\t-0.5\n-1\tb\t-0.5\n\n"
            "\\2-grams:\n-0.25\t<s> a\n-0.25\ta a\n-0.25\ta b\n-0.75\tb b\n\n\\end\\\n").encode()
    path = os.path.join(work, "quantwitness.arpa")
    open(path, "wb").write(arpa)
    ops = ["arpa %s classes=TQ pbits=1 bbits=2" % path, "q N b b", "q N a b"]
    rc, o, e = stream.run_lines(hexe, ops, 60)
    if rc != 0 or len(o) < 3:
        ctx.violation("quantisation witness could not be replayed", {"ops": ops, "stderr": e[-800:]}, no_input=True)
        return True
    I = lmq.parse_impl_line(o[1])
    pt = lmgen.float_from_bits(I["T"][1].F["prob"])
    pq = lmgen.float_from_bits(I["Q"][1].F["prob"])
    ctx.notes["quant_witness"] = {"arpa_values": "2-gram probs {-0.25,-0.25,-0.25,-0.75}, 2 bins (-q 1)", "p(b|b) trie": pt, "p(b|b) quant": pq}
    ctx.count(("quant-witness",), nontrivial=True)
    if abs(pq - pt) > 1e-6:
        # two distinct values, two bins, still lossy: exactly the model's prediction (-0.5 = mean of {-0.25,-0.75})
        return ctx.violation("QuantTrieModel is lossy although the order has 2 distinct values and 2 bins (p(b|b)=%g instead of %g)" % (pq, pt),
                             {"stream": "quant-witness", "arpa": arpa.decode(), "ops": ops, "trie": pt, "quant": pq}, key=KEY_QUANT)
    # the code no longer shows the deviation the model predicts: the model is stale
    ctx.violation("model predicts a lossy quantisation for the witness but the implementation is exact (model stale)",
                  {"stream": "quant-witness", "ops": ops, "trie": pt, "quant": pq})
    return True


def equalmult_stream(ctx, hexe, work, quick):
    """k = 2^q distinct values, each with the same multiplicity (>= 2000 copies) in every quantised order, bins = k:
    the quantised tries must reproduce the unquantised trie BIT-EXACTLY (theorem quant_equal_multiplicity_lossless)."""
    found = False
    configs = [(3, 2000)] if quick else [(3, 2000), (2, 6000), (4, 2500), (3, 30000)]
    for q, m in configs:
        case = lmgen.gen_equalmult_case(ctx.rng, q=q, m=m)
        path = lmq.write_case(case, work, "eq%d_%d" % (q, m))
        ops = lmq.make_ops(path, case, classes="TQB", extra=" pbits=%d bbits=%d" % (q, q))
        rc, o, e = stream.run_lines(hexe, ops, 600)
        ctx.hist("c03.equalmult", "q=%d,copies=%d" % (q, m))
        ctx.count(("equalmult", case.arpa[:2000], q, m), nontrivial=True, n=sum(len(ws) for _, ws in case.queries))
        if rc != 0 or lmq.parse_load(o[0]) != {"T": "ok", "Q": "ok", "B": "ok"}:
            ctx.violation("equal-multiplicity model does not load in the trie classes", {"stream": "equalmult", "meta": case.meta,
                          "load": o[:1], "stderr": e[-800:]})
            found = True
            continue
        res = parse_all(case, o)
        for cls in "QB":
            mm = first_mismatch(res["T"], res[cls], rec_all)
            if mm:
                q_, pos = mm[0], mm[1]
                ctx.violation("%s is not lossless although every order has exactly 2^%d distinct values of equal multiplicity "
                              "(bit-exact comparison with TrieModel)" % (lmq.NAMES[cls], q),
                              {"stream": "equalmult", "meta": case.meta, "generator": "lmgen.gen_equalmult_case(q=%d, m=%d)" % (q, m),
                               "query": case.queries[q_], "pos": pos, "trie": str(mm[2])[:600], "quant": str(mm[3])[:600],
                               "options": "pbits=%d bbits=%d abits=%d" % (q, q, case.abits)})
                found = True
                break
    return found


def run(ctx):
    problems, hexe, dexe = c01.setup(ctx, "C03", REQUIRED, extra_targets=["Properties.C03ProbingBuild"])
    # second audited file: the probing builder theorems
    if not problems:
        o1, d1, names1 = ctx.cov.get("obligations", 0), ctx.cov.get("discharged", 0), list(ctx.cov.get("theorems", []))
        problems += lean.audit(ctx, "C03ProbingBuild", REQUIRED_BUILD)
        ctx.cov["obligations"] += o1
        ctx.cov["discharged"] += d1
        ctx.cov["theorems"] = names1 + ctx.cov.get("theorems", [])
    if hexe is None:
        flow.report_obligation_failures(ctx, problems, False)
        return
    ok, bdir, lg = repo.build("tools")
    bb = os.path.join(bdir, "bin", "build_binary")
    if not ok or not os.path.exists(bb):
        problems.append("bin/build_binary missing: " + lg[-500:])
        flow.report_obligation_failures(ctx, problems, False)
        return
    quick = ctx.tier == "quick"
    work = fresh_scratch("c03_%d" % os.getpid())
    found = quant_witness(ctx, hexe, work)
    found = equalmult_stream(ctx, hexe, work, quick) or found
    n = 25 if quick else 500
    forces = [{"kind": "fanout"}, {"kind": "fanout"}, {"kind": "pruned", "chains": True, "order": 6},
              {"kind": "corpus", "chains": True, "order": 5}, {"kind": "corpus", "shared": True, "order": 4},
              {"kind": "pruned", "shared": True, "order": 5}, {"kind": "corpus", "unk": "absent", "order": 3},
              {"kind": "corpus", "unk": "absent", "unk_in_ngrams": True, "order": 3}] + ([] if quick else [{"kind": "fanout"}] * 8)
    for ci in range(n):
        size = "small" if quick or ctx.rng.random() < 0.8 else "medium"
        force = forces[ci] if ci < len(forces) else ({"kind": "fanout"} if ctx.rng.random() < 0.03 else None)
        case = lmgen.gen_case(ctx.rng, size=size, max_vocab=30 if quick else 60, force=force)
        if case.meta["kind"] == "fanout":
            ctx.hist("c03.fanout.buckets_spanned_min", case.meta["buckets_spanned_min"])
            ctx.cov["fanout_max_buckets_spanned"] = max(ctx.cov.get("fanout_max_buckets_spanned", 0), case.meta["buckets_spanned_min"])
        for (b, L) in getattr(case, "chains", []):
            ctx.hist("c03.blankchain", "basis=%d,len=%d" % (b, L))
        for (sl, lv, nh) in getattr(case, "shared", []):
            ctx.hist("c03.sharedblanks", "suffix=%d,levels=%d,heads=%d" % (sl, lv, nh))
        ctx.hist("lm.order", case.meta["order"])
        ctx.hist("lm.kind", case.meta["kind"])
        try:
            found = sweep_case(ctx, case, hexe, dexe, bb, work, ci, quick) or found
        except Exception:
            import traceback
            ctx.violation("six-way: output of the harness could not be parsed/compared for this case (malformed result line)",
                          {"stream": "six-way", "arpa": case.arpa.decode("utf-8", "replace"), "queries": case.queries,
                           "options": {"mult": case.mult, "abits": case.abits}, "traceback": traceback.format_exc()[-1500:]})
            found = True
    ctx.cov["rule"] = ("six-way: one evaluation = one scored word compared pairwise across the six classes, across the sampled "
                       "configurations and across ARPA-vs-binary loading; distinct by ARPA bytes + queries; non-trivial when the "
                       "model has n-grams of order >= 2")
    ctx.assumptions += ["float32 tolerance as in C01", "hash injectivity as in C01",
                        "structure of probing vs trie family compared on suffix-closed models only (pre-observation G, C08)"]
    flow.report_obligation_failures(ctx, problems, found)
