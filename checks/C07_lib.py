"""Helpers of checks/C07.py: memory-configuration grid for lmplz, scheduling wrappers, byte
comparison of the --arpa / --intermediate outputs, error classes, corpus shrinking.

Every random choice comes from the `rng` handed in (derived from VERIF_SEED by the check)."""
import os
import shutil
import stat

from checks import C05_lib as L

UNITS = {"b": 1, "K": 1 << 10, "M": 1 << 20, "G": 1 << 30}


def mem_bytes(s):
    return int(s[:-1]) * UNITS[s[-1]]


def classify(rc, err):
    """C05_lib.classify plus the configuration rejections that come from the chain constructor."""
    c = L.classify(rc, err)
    if c.startswith("abort") or c == "timeout":
        if "Chain configured with block count zero" in err or "total memory, too small for" in err \
                or "zero-size entries" in err:
            return "config"
    return c


def token_count(corpus):
    return sum(len(s) + 1 for s in L.tokenize(corpus, True)[0])


# ------------------------------------------------------------------------------ scheduling wrappers
def make_wrappers(lmplz, bindir, rng):
    """Shell wrappers around the real binary that change how the OS schedules its threads:
    all threads on one CPU, on two CPUs, lowest priority.  (run_lmplz takes the program path.)"""
    ncpu = os.cpu_count() or 1
    w = {"plain": lmplz}

    def script(name, prefix):
        p = os.path.join(bindir, "lmplz_" + name)
        with open(p, "w") as f:
            f.write("#!/bin/sh\nexec %s %s \"$@\"\n" % (prefix, lmplz))
        os.chmod(p, os.stat(p).st_mode | stat.S_IXUSR | stat.S_IXGRP | stat.S_IXOTH)
        w[name] = p

    if shutil.which("taskset"):
        c = rng.randrange(ncpu)
        script("1cpu", "taskset -c %d" % c)
        if ncpu >= 2:
            script("2cpu", "taskset -c %d,%d" % (c, (c + 1) % ncpu))
    if shutil.which("nice"):
        script("nice", "nice -n 19")
    return w


# ------------------------------------------------------------------------------ configurations
SMALL_MEM = ["512b", "1K", "2K", "3K", "4K", "6K", "8K", "16K", "40K", "64K", "100K"]
MID_MEM = ["256K", "1M", "7M", "33M", "64M"]
BIG_MEM = ["200M", "1G"]


def gen_config(rng, order, force=None):
    """One memory configuration: dict(mem, opts [list], tkind, sched).  Biased towards accepted ones;
    some are rejected on purpose (error classes)."""
    r = rng.random()
    mem = force or (rng.choice(SMALL_MEM) if r < 0.55 else rng.choice(MID_MEM) if r < 0.9 else rng.choice(BIG_MEM))
    mb = mem_bytes(mem)
    opts = []
    # vocabulary estimate: small values force GrowableVocab to double several times; the default (1e6) needs ~30 MB
    if mb < (40 << 20):
        ve = rng.choice([0, 1, 2, 4, 10, 10, 100, 100, 1000]) if rng.random() < 0.93 else None
        if ve is not None and mb <= 2048:
            ve = rng.choice([0, 1, 2, 4, 10])
    else:
        ve = rng.choice([None, None, 1, 10, 1000, 100000, 1000000, 3000000])
    if ve is not None:
        opts += ["--vocab_estimate", str(ve)]
    bc = rng.choice([1, 2, 2, 2, 3, 3, 8]) if rng.random() < 0.95 else rng.choice([0, 64])
    if bc != 2 or rng.random() < 0.3:
        opts += ["--block_count", str(bc)]
    if mb <= (100 << 10):
        minb = rng.choice(["32b", "32b", "40b", "64b", "100b"])
        sortb = rng.choice(["256b", "256b", "300b", "1K", "4K"])
        if rng.random() < 0.06:
            minb = rng.choice(["1K", "8K"])          # likely rejected
    else:
        minb = rng.choice([None, None, "32b", "100b", "1K", "8K"])
        sortb = rng.choice([None, "256b", "1K", "4K", "64K", "1M", "64M"])
        if minb is None and sortb is not None and mem_bytes(sortb) < 8192:
            minb = "32b"
    if minb is not None:
        opts += ["--minimum_block", minb]
    if sortb is not None:
        opts += ["--sort_block", sortb]
    return dict(mem=mem, opts=opts, tkind=rng.choice(["dir", "dir", "prefix", "space", "shm"]),
                sched=rng.choice(["plain", "plain", "plain", "1cpu", "2cpu", "nice"]))


TINY = ["--vocab_estimate", "4", "--minimum_block", "32b", "--sort_block", "256b"]


def fixed_configs():
    """Always part of the grid: everything in RAM, the default-ish one, a spilling one, the repetitions."""
    return [dict(mem="1G", opts=[], tkind="dir", sched="plain"),
            dict(mem="64M", opts=[], tkind="dir", sched="plain"),
            dict(mem="64K", opts=["--vocab_estimate", "100", "--minimum_block", "32b", "--sort_block", "256b"],
                 tkind="dir", sched="plain"),
            dict(mem="4K", opts=TINY + ["--block_count", "1"], tkind="prefix", sched="1cpu")]


def temp_prefix(cfg, wd, tag):
    k = cfg["tkind"]
    if k == "shm" and os.path.isdir("/dev/shm") and os.access("/dev/shm", os.W_OK):
        d = os.path.join("/dev/shm", "kv_c07_%d_%s" % (os.getpid(), tag))
        os.makedirs(d, exist_ok=True)
        return d + "/", d
    if k == "prefix":
        d = os.path.join(wd, "tp_" + tag)
        os.makedirs(d, exist_ok=True)
        return os.path.join(d, "pre."), None
    if k == "space":
        d = os.path.join(wd, "t p_" + tag)
        os.makedirs(d, exist_ok=True)
        return d + "/", None
    d = os.path.join(wd, "td_" + tag)
    os.makedirs(d, exist_ok=True)
    return d + "/", None


def run_cfg(wrappers, case, wd, tag, cfg, intermediate, timeout=300):
    """One run of the tool under configuration `cfg`.  Returns run_lmplz's dict + files {name: bytes}."""
    tp, cleanup = temp_prefix(cfg, wd, tag)
    prog = wrappers.get(cfg["sched"], wrappers["plain"])
    try:
        t = L.run_lmplz(prog, case, wd, tag, mem=cfg["mem"], extra=list(cfg["opts"]) + ["-T", tp],
                        intermediate=intermediate, timeout=timeout)
    finally:
        if cleanup:
            left = os.listdir(cleanup) if os.path.isdir(cleanup) else []
            shutil.rmtree(cleanup, ignore_errors=True)
        else:
            left = []
    t["cls"] = classify(t["rc"], t["stderr"])
    t["tmp_left"] = left
    files = {}
    if t["cls"] == "ok":
        files["arpa"] = t["arpa"]
        if intermediate:
            names = ["%d" % n for n in range(1, case["order"] + 1)] + ["vocab", "kenlm_intermediate"]
            for n in names:
                p = t["inter"] + "." + n
                files["inter." + n] = open(p, "rb").read() if os.path.exists(p) else None
    t["files"] = files
    return t


def smallest_memory(wrappers, case, wd, extra, timeout=120):
    """Smallest accepted -S in bytes for the given other options (bisection over 64 b .. 64 KB;
    rejected runs exit before reading the corpus).  None if even 64 KB is rejected."""
    cfg = lambda b: dict(mem="%db" % b, opts=list(extra), tkind="dir", sched="plain")
    lo, hi = 64, 64 << 10
    if run_cfg(wrappers, case, wd, "smin", cfg(hi), False, timeout=timeout)["cls"] != "ok":
        return None
    steps = 0
    while hi - lo > 16 and steps < 14:
        mid = (lo + hi) // 2
        steps += 1
        c = run_cfg(wrappers, case, wd, "smin", cfg(mid), False, timeout=timeout)["cls"]
        if c == "ok":
            hi = mid
        elif c == "config":
            lo = mid
        else:
            return hi       # crash / hang: not a rejection; the grid runs at `hi` and around it report it
    return hi


# ------------------------------------------------------------------------------ comparison
def first_diff(a, b):
    """(name, offset) of the first differing byte between two {name: bytes} dicts, or None."""
    for k in sorted(set(a) | set(b)):
        x, y = a.get(k), b.get(k)
        if x == y:
            continue
        if x is None or y is None:
            return k, -1
        n = min(len(x), len(y))
        for i in range(n):
            if x[i] != y[i]:
                return k, i
        return k, n
    return None


def context(b, off, width=60):
    if b is None:
        return None
    s = max(0, off - width)
    return b[s:off + width].decode("latin-1")


def shrink_lines(case, differs, budget=60):
    """ddmin over corpus lines keeping `differs(case)` true."""
    lines = case["corpus"].split(b"\n")[:-1]

    def mk(ls):
        c = dict(case)
        c["corpus"] = b"".join(l + b"\n" for l in ls)
        return c

    n = 2
    tests = 0
    while len(lines) >= 2 and tests < budget:
        chunk = max(1, len(lines) // n)
        red = False
        for i in range(0, len(lines), chunk):
            cand = lines[:i] + lines[i + chunk:]
            tests += 1
            if cand and differs(mk(cand)):
                lines = cand
                n = max(n - 1, 2)
                red = True
                break
            if tests >= budget:
                break
        if not red:
            if chunk == 1:
                break
            n = min(len(lines), n * 2)
    return mk(lines)


def cmdline(t):
    return " ".join("'%s'" % a if (" " in a or not a) else a for a in t["cmd"])
