"""C10 — Loaders reject malformed input with an exception and never misbehave."""
import os
import struct
from concurrent.futures import ThreadPoolExecutor

from vlib import flow, lean, repo, stream
from vlib.common import fresh_scratch, log, run

from . import lmgen
from . import C01_lmq as lmq
from . import C10_mutate as mut

LEVEL = "proof"

MANIFEST = {
    "text": "Lean model of the loaders as they are on arbitrary bytes: the ARPA front end (lm/read_arpa.cc over FilePiece and "
            "double-conversion's longest-prefix number grammar, count lines via strtol/istream, vocabulary ids), the checks of "
            "the two search builders (probing: blanks, context-so-far, ProbingSizeException; trie: context must be a real "
            "n-gram) and the binary-header acceptance path (IsBinaryFormat, ReadHeader, MatchCheck, CheckCounts, size check, "
            "ReadWords) with constants and two behavioural facts regenerated from the sources. Theorems: everything accepted "
            "is well formed (counts = entries, word ids below the vocabulary bound, key lengths, order range, finite values "
            "or -inf), each error class is returned exactly under its condition, every header mismatch is a FormatLoadException, "
            "no index computed by the lookups leaves its region (probing bucket, interpolation-search probes, bit-field reads "
            "incl. the 8-byte slack). Tied to the code by the loader-fuzz stream: structured mutants of valid ARPA files and of "
            "binaries of all six types are loaded by the real library (ASan+UBSan, asserts on, one forked process per mutant): "
            "never crash/hang/sanitizer report; accept/reject equals the model's verdict; accepted models answer 200 "
            "in-vocabulary queries cleanly and, inside the C01 grammar, with the probabilities of the ARPA recursion.",
    "note": "partial: memory safety of the C++ is OBSERVED with sanitizers (supporting evidence, not proof); totality, error "
            "classes and in-range indices are proved on the model. Trusted: Lean kernel + propext/Classical.choice/Quot.sound; "
            "statements in lean/Properties/C10.lean; probe, harness, driver, mutators, comparator; counts are bounded so that "
            "the requested allocation is feasible; strtod rounding / hash collisions as in C01.",
    "technique": "Lean 4 proof over an executable loader model + sanitizer-instrumented differential fuzzing of the real loaders",
    "category": "proof",
}

REQUIRED = ["KV.C10.loader_probing_verdict_eq_build", "KV.C10.loader_probing_ok_iff_build_ok", "KV.C10.parsed_lines_sorted",
            "KV.C10.parsed_ngramLines_keys", "KV.C10.probing_accept_wellformed", "KV.C10.probing_accept_wellformed_prefixClosed", "KV.C10.parsed_core",
            "KV.C10.trie_reject_of_buildTable_missingContext", "KV.C10.buildTable_not_ok_of_trie_reject",
            "KV.C10.duplicate_keys_of_buildTable_duplicate", "KV.C10.loader_probing_verdict_eq_build_partial", "KV.C10.tabInv_initial",
            "KV.C10.probing_accept_has_empty_bucket", "KV.C10.trie_duplicate_iff", "KV.C10.mapAndVocab_ok", "KV.C10.constants_ok", "KV.C10.accepted_wellformed", "KV.C10.build_total", "KV.C10.trie_error_iff",
            "KV.C10.probing_error_classes", "KV.C10.trie_accept_wellformed", "KV.C10.trie_accept_wellformed_full",
            "KV.C10.parse_unigramsCover", "KV.C10.header_accept_sound", "KV.C10.lookups_in_range",
            "KV.C10.header_mismatch", "KV.C10.header_no_ub"]

KEY_SIZE_PARAMS = "binary-header-size-parameters-edited"
KEY_ENUM_LOAD = "binary-header-field-outside-type-range"
KEY_UNK_NGRAM = "unk-in-ngram-without-unk-unigram"
SIZE_PARAM_KINDS = ("bin-count-edit", "bin-order-raise", "bin-order-lower", "bin-multiplier")
DIGEST_KINDS = ("bin-trunc-boundary", "bin-trunc-random", "bin-extend", "bin-has-vocab-flip", "bin-fixed-padding", "bin-order-same",
                "bin-enumerate-without-vocab")

ENV = {"ASAN_OPTIONS": "detect_leaks=0:exitcode=77:allocator_may_return_null=1:abort_on_error=0",
       "UBSAN_OPTIONS": "exitcode=78:print_stacktrace=1"}
WORKERS = 6


# ------------------------------------------------------------------------------------------------ running

MULTS = [1.0001, 1.2, 1.5, 1.5, 2.0]


def fbits(x):
    return struct.unpack("<I", struct.pack("<f", x))[0]


def run_driver(dexe, ops, timeout=900):
    """the Lean driver with an unlimited stack (the loader model recurses once per n-gram line)"""
    return stream.run_lines("/bin/sh", ops, timeout=timeout, args=["-c", "ulimit -s unlimited 2>/dev/null; exec '%s'" % dexe])


def run_jobs(hexe, jobs, limit=10):
    """jobs: list of job lines.  -> {id: (status, detail-dict)}; status in ok|exc|crash|hang|lost"""
    if not jobs:
        return {}
    chunks = [jobs[i::WORKERS] for i in range(WORKERS)]
    chunks = [c for c in chunks if c]

    def one(chunk):
        rc, out, err = stream.run_lines(hexe, chunk, timeout=60 + limit * len(chunk), env=ENV, args=[str(limit)])
        return rc, out, err

    res = {}
    with ThreadPoolExecutor(len(chunks)) as ex:
        for rc, out, err in ex.map(one, chunks):
            for ln in out:
                t = ln.split()
                if len(t) < 2:
                    continue
                jid, st = t[0], t[1]
                d = {"raw": ln}
                if st == "ok":
                    for kv in t[2:]:
                        if "=" in kv:
                            k, v = kv.split("=", 1)
                            d[k] = v
                elif st == "exc":
                    d["cls"] = t[2] if len(t) > 2 else "?"
                elif st == "crash":
                    d["how"] = " ".join(t[2:])
                prev = res.get(jid)
                if prev and prev[0] in ("crash", "hang"):
                    continue
                if prev and st not in ("crash", "hang"):
                    continue
                res[jid] = (st, d)
    for j in jobs:
        jid = j.split()[0]
        if jid not in res:
            res[jid] = ("lost", {})
    return res


def outcome(r):
    st, d = r
    if st == "exc":
        return "exc-" + d.get("cls", "?")
    return st


def err_text(work, jid):
    p = os.path.join(work, jid + ".err")
    try:
        return open(p, "rb").read().decode("utf-8", "replace")[:6000]
    except OSError:
        return ""


def parse_kv(line):
    d = {}
    for kv in line.split()[1:]:
        if "=" in kv:
            k, v = kv.split("=", 1)
            d[k] = v
    return d


# ------------------------------------------------------------------------------------------------ ARPA side

def family(cls):
    return "P" if cls in "PR" else "T"


def arpa_signature(hexe, dexe, work, data, cls, tag="shr", mult=1.5, mem=0, limit=10, nq=200, seed=1):
    """(real outcome class ok|exc|crash|hang, model verdict ok|error) of one file for one class"""
    path = os.path.join(work, tag + ".arpa")
    with open(path, "wb") as f:
        f.write(data)
    r = run_jobs(hexe, ["%s %s %s tmp=%s nq=%d seed=%d mult=%r%s" % (tag, cls, path, work, nq, seed, mult, " mem=%d" % mem if mem else "")], limit=limit)[tag]
    rc, out, _ = run_driver(dexe, ["arpa %s %d %d" % (path, fbits(mult), mem or (1 << 30))], 120)
    m = parse_kv(out[0]) if out else {}
    mv = m.get(family(cls), "?")
    return r[0], ("ok" if mv == "ok" else "error"), m


SHRINK_BUDGET = [3]      # only the first few violations of a run are shrunk (a broken tree produces hundreds)


def shrink_arpa(hexe, dexe, work, data, cls, want, mult=1.5, seed=1):
    """ddmin over lines keeping the (real, model) signature; a hang is re-tested with a 3 s limit"""
    if SHRINK_BUDGET[0] <= 0 or len(data) > 200000:
        return data
    SHRINK_BUDGET[0] -= 1
    lines = data.split(b"\n")
    hang = want[0] == "hang"

    def fails(ls):
        d = b"\n".join(ls)
        real, model, m = arpa_signature(hexe, dexe, work, d, cls, mult=mult, limit=3 if hang else 10, seed=seed)
        return (real, model) == want

    try:
        small = stream.ddmin(lines, fails, max_tests=40 if hang else 120)
    except Exception:
        return data
    return b"\n".join(small)


def evaluate_arpa(ctx, hexe, dexe, c01h, c01d, work, items, oracle_budget, tag="arpa", limit=10):
    """items: dicts {id, kind, path, data, mult, mem, classes, queries(optional), abits}.  Runs the model and the real
    loader on every item and applies the three comparators.  Returns True if a violation was reported."""
    found = False
    if not items:
        return False
    rc, mout, merr = run_driver(dexe, ["arpa %s %d %d" % (it["path"], fbits(it["mult"]), it["mem"] or (1 << 30)) for it in items], timeout=1200)
    if rc != 0 or len(mout) != len(items):
        ctx.violation("driver drv_C10 died on the ARPA mutants (rc=%s, %d of %d lines)" % (rc, len(mout), len(items)),
                      {"stream": "loader-fuzz", "stderr": merr[-2000:]}, no_input=True)
        return True
    jobs = []
    for it, l in zip(items, mout):
        it["model"] = parse_kv(l)
        it["seeds"] = {}
        for c in it["classes"]:
            sd = ctx.rng.randrange(1 << 30)
            it["seeds"][c] = sd
            jobs.append("%s.%s %s %s tmp=%s nq=200 seed=%d enum=%d mult=%r%s" % (
                it["id"], c, c, it["path"], work, sd, ctx.rng.randrange(2), it["mult"], " mem=%d" % it["mem"] if it["mem"] else ""))
    real = run_jobs(hexe, jobs, limit=limit)
    oracle_left = oracle_budget
    for it in items:
        m, kind, data, jid = it["model"], it["kind"], it["data"], it["id"]
        kind0 = kind.split("+")[0]
        feasible = it.get("big") or m.get("maxcount", "-") == "-" or int(m["maxcount"]) <= mut.MAX_COUNT + 1100
        small_enough = len(data) <= 200000
        shown = data.decode("latin-1") if small_enough else data[:2000].decode("latin-1") + "...[%d bytes; regenerate with the seed]" % len(data)
        for c in it["classes"]:
            r = real.get("%s.%s" % (jid, c), ("lost", {}))
            oc = outcome(r)
            mv = m.get(family(c), "?")
            mclass = "ok" if mv == "ok" else "error"
            ctx.hist(tag + ".kind_x_outcome", "%s|%s" % (kind0, oc))
            ctx.hist(tag + ".model_x_real", "%s|%s" % (mv, oc))
            ctx.hist(tag + ".class", c)
            ctx.hist(tag + ".mult", it["mult"])
            nontrivial = r[0] == "ok" or (m.get("parse") == "ok") or oc not in ("exc-format",)
            ctx.count((tag, data, c, it["mult"]), nontrivial=nontrivial)
            if not feasible:
                ctx.hist(tag + ".skipped", "infeasible-count")
                continue
            base = {"stream": "loader-fuzz", "kind": kind, "class": c, "mult": it["mult"], "building_memory": it["mem"], "query_seed": it["seeds"][c],
                    "arpa_encoding": "latin-1", "model": m,
                    "replay": "python3 check.py C10 --replay <this file>   (or: echo 'x %s f tmp=/tmp mult=%r%s' | harness c10_load)" % (
                        c, it["mult"], " mem=%d" % it["mem"] if it["mem"] else "")}
            # (i) the property oracle
            if r[0] in ("crash", "hang", "lost"):
                small = data
                if small_enough and SHRINK_BUDGET[0] > 0:
                    real0, model0, _ = arpa_signature(hexe, dexe, work, data, c, mult=it["mult"], mem=it["mem"], seed=it["seeds"][c])
                    if real0 in ("crash", "hang"):
                        small = shrink_arpa(hexe, dexe, work, data, c, (real0, model0), mult=it["mult"], seed=it["seeds"][c])
                ctx.violation("loader-fuzz: %s %s on a mutated ARPA file (%s, multiplier %r)" % (lmq.NAMES[c], oc, kind, it["mult"]),
                              dict(base, outcome=r[1], arpa=small.decode("latin-1") if small_enough else shown,
                                   stderr=err_text(work, "%s.%s" % (jid, c))))
                found = True
                continue
            # (ii) accept/reject agrees with the model
            rclass = "ok" if r[0] == "ok" else "error"
            if rclass != mclass:
                small = shrink_arpa(hexe, dexe, work, data, c, (r[0], mclass), mult=it["mult"], seed=it["seeds"][c]) if small_enough else data
                ctx.violation("loader-fuzz: %s %s but the loader model says %s (%s)" % (lmq.NAMES[c], oc, mv, kind),
                              dict(base, real=oc, arpa=small.decode("latin-1") if small_enough else shown))
                found = True
        # (iii) accepted and inside the C01 grammar: probabilities equal the L0 oracle
        strict_ok = m.get("strict") == "ok" and m.get("same") == "1" and m.get("ctx") == "1" and m.get("distinct") == "1"
        any_ok = any(real.get("%s.%s" % (jid, c), ("lost", {}))[0] == "ok" for c in it["classes"])
        if m.get("parse") == "ok" and m.get("strict") == "ok" and m.get("same") == "0" and m.get("finite") == "1":
            ctx.violation("loader model and C01 grammar accept the same bytes but produce different models (%s)" % kind,
                          {"stream": "loader-fuzz", "kind": kind, "model": m, "arpa": shown, "arpa_encoding": "latin-1"})
            found = True
        item_bad = any(real.get("%s.%s" % (jid, c), ("lost", {}))[0] in ("crash", "hang", "lost") for c in it["classes"])
        if strict_ok and any_ok and oracle_left > 0 and feasible and it.get("queries") and not item_bad and len(ctx.violations) < 20:
            oracle_left -= 1
            ctx.hist(tag + ".oracle", "run")
            case2 = lmgen.Case()
            case2.arpa, case2.queries, case2.mult, case2.abits = data, it["queries"][:8], it["mult"], it.get("abits", 22)
            ops = lmq.make_ops(it["path"], case2)
            (rc1, o1, e1), (rc2, o2, e2) = lmq.run_both(c01h, c01d, ops, timeout=30)
            if rc1 != 0 or rc2 != 0 or not o1 or not o2:
                ctx.violation("lm-query harness or driver died on an accepted ARPA mutant (%s; rc %s/%s)" % (kind, rc1, rc2),
                              {"stream": "loader-fuzz", "kind": kind, "arpa": shown, "arpa_encoding": "latin-1",
                               "stderr": (e1 + e2)[-1500:]})
                found = True
                continue
            probs, st = lmq.compare(case2, o1, o2, want=("oracle",))
            probs = [p for p in probs if not p.get("known_key") and p["kind"] in ("oracle-prob", "model-vs-spec", "load-verdict")]
            # load-verdict of the six-way harness: classes the loader-fuzz harness did not try
            lv = [p for p in probs if p["kind"] == "load-verdict" and not (p["cls"] in "PR" and m.get("P") != "ok")]
            probs = [p for p in probs if p["kind"] != "load-verdict"] + lv
            ctx.hist(tag + ".oracle_words", min(st.get("words", 0), 1000) // 50 * 50)
            if probs:
                key = None
                if m.get("unkngram") == "1" and all(p.get("cls") in "PR" for p in probs):
                    key = KEY_UNK_NGRAM
                if ctx.violation("loader-fuzz: accepted ARPA mutant answers differently from the ARPA recursion (%s: %s)" % (kind, probs[0]["kind"]),
                                 {"stream": "loader-fuzz", "kind": kind, "first_problem": probs[0], "arpa": shown,
                                  "arpa_encoding": "latin-1", "queries": case2.queries, "mult": it["mult"]}, key=key):
                    found = True
    return found


def arpa_stream(ctx, hexe, dexe, c01h, c01d, n_base, per_base, oracle_budget):
    """structured mutants of ordinary generated models, probing multiplier swept per mutant"""
    work = fresh_scratch("c10_arpa_%d" % os.getpid())
    items = []
    for bi in range(n_base):
        case = lmgen.gen_case(ctx.rng, max_vocab=30, size="small")
        for mi, (kind, data) in enumerate(mut.arpa_mutants(ctx.rng, case.arpa, per_base)):
            jid = "a%d_%d" % (bi, mi)
            path = os.path.join(work, jid + ".arpa")
            with open(path, "wb") as f:
                f.write(data)
            items.append({"id": jid, "kind": kind, "path": path, "data": data, "mult": ctx.rng.choice(MULTS), "mem": 0,
                          "classes": list("PRTAQB") if "empty-order" in kind else [ctx.rng.choice("PPR"), ctx.rng.choice("TAQB")],
                          "queries": case.queries, "abits": case.abits})
    ctx.notes["arpa_mutants"] = len(items)
    return evaluate_arpa(ctx, hexe, dexe, c01h, c01d, work, items, oracle_budget, tag="arpa")


def blank_stream(ctx, hexe, dexe, c01h, c01d, n_cases):
    """SMALL models with deleted lower-order lines at small probing multipliers: real + blank entries compete for the 1-2
    spare buckets of a table (exactly full / one too many), then 200 queries incl. unseen n-grams"""
    work = fresh_scratch("c10_blank_%d" % os.getpid())
    items = []
    for i in range(n_cases):
        data, meta = mut.small_blank_case(ctx.rng)
        kind = "blanks-del%d-o%d" % (min(meta["deleted"], 3), meta["order"])
        if ctx.rng.random() < 0.25:
            ms = mut.arpa_mutants(ctx.rng, data, 1, two_step=0.0)
            if ms:
                kind, data = kind + "+" + ms[0][0], ms[0][1]
        path = os.path.join(work, "s%d.arpa" % i)
        with open(path, "wb") as f:
            f.write(data)
        items.append({"id": "s%d" % i, "kind": kind, "path": path, "data": data, "mult": ctx.rng.choice([1.0001, 1.2, 1.5]), "mem": 0,
                      "classes": ["P", "R"] if ctx.rng.random() < 0.7 else ["P", ctx.rng.choice("TAQB")]})
    return evaluate_arpa(ctx, hexe, dexe, c01h, c01d, work, items, 0, tag="blank", limit=5)


def big_stream(ctx, hexe, dexe, c01h, c01d, n_base):
    """bigram sections larger than the trie builder's minimum sort buffer (>= 2 sorted batches merged) with duplicate lines"""
    work = fresh_scratch("c10_big_%d" % os.getpid())
    items = []
    for bi in range(n_base):
        for mi, (kind, data) in enumerate(mut.big_duplicate_cases(ctx.rng)):
            path = os.path.join(work, "g%d_%d.arpa" % (bi, mi))
            with open(path, "wb") as f:
                f.write(data)
            items.append({"id": "g%d_%d" % (bi, mi), "kind": kind, "path": path, "data": data, "mult": 1.5, "big": True,
                          "mem": ctx.rng.choice([1, mut.TRIE_MIN_SORT_BUFFER, 4096]) if mi or ctx.rng.random() < 0.7 else 0,
                          "classes": [ctx.rng.choice("TAQB"), ctx.rng.choice("TAQB"), "P"] if mi else [ctx.rng.choice("TAQB"), "P"]})
    found = evaluate_arpa(ctx, hexe, dexe, c01h, c01d, work, items, 0, tag="big", limit=90)
    for it in items:
        ctx.hist("big.batches", (it.get("model") or {}).get("batches", "?"))
    return found


# ------------------------------------------------------------------------------------------------ binary side

def bin_stream(ctx, hexe, dexe, consts, n_base, per_class):
    work = fresh_scratch("c10_bin_%d" % os.getpid())
    found = False
    seed_q = 4242
    for bi in range(n_base):
        case = lmgen.gen_case(ctx.rng, max_vocab=25, size="small", force={"kind": "corpus"})
        apath = os.path.join(work, "b%d.arpa" % bi)
        with open(apath, "wb") as f:
            f.write(case.arpa)
        abits = ctx.rng.choice([1, 4, 8, 22])
        jobs = []
        for c in mut.CLASSES:
            for voc in (1, 0):
                jobs.append("w%d%s%d %s %s tmp=%s write=%s vocab=%d abits=%d nq=200 seed=%d" % (
                    bi, c, voc, c, apath, work, os.path.join(work, "b%d_%s%d.bin" % (bi, c, voc)), voc, abits, seed_q))
        wres = run_jobs(hexe, jobs)
        mutants = []
        for c in mut.CLASSES:
            for voc in (1, 0):
                w = wres.get("w%d%s%d" % (bi, c, voc), ("lost", {}))
                bpath = os.path.join(work, "b%d_%s%d.bin" % (bi, c, voc))
                if w[0] != "ok" or not os.path.exists(bpath):
                    if w[0] in ("crash", "hang", "lost"):
                        ctx.violation("loader-fuzz: building a %s binary from a valid ARPA: %s" % (lmq.NAMES[c], outcome(w)),
                                      {"stream": "loader-fuzz", "class": c, "arpa": case.arpa.decode("utf-8", "replace"),
                                       "stderr": err_text(work, "w%d%s%d" % (bi, c, voc))})
                        found = True
                    ctx.hist("bin.base", "%s|%s" % (c, outcome(w)))
                    continue
                b = open(bpath, "rb").read()
                lay = mut.bin_layout(b, consts)
                S = lay["S"]
                pmult = struct.unpack_from("<I", b, S + int(consts["offMultiplier"]))[0]
                pcounts = [struct.unpack_from("<Q", b, lay["fixed"] + 8 * i)[0] for i in range(lay["order"])]
                k = per_class if voc else max(2, per_class // 3)
                for mi, (kind, data, lc, en) in enumerate(mut.bin_mutants(ctx.rng, b, c, k, consts, no_vocab_file=(voc == 0))):
                    jid = "m%d%s%d_%d" % (bi, c, voc, mi)
                    path = os.path.join(work, jid + ".bin")
                    with open(path, "wb") as f:
                        f.write(data)
                    mutants.append({"id": jid, "kind": kind, "path": path, "data": data, "stored": c, "load": lc, "enum": en,
                                    "need": lay["strings"], "porder": lay["order"], "pmult": pmult, "pcounts": pcounts,
                                    "digest": w[1].get("digest"), "lm": ctx.rng.choice([0, 1, 2, 3])})
        ops = ["bin %s %s %d %d %d %d %s" % (m["path"], m["load"], 1 if m["enum"] else 0, m["need"], m["porder"], m["pmult"],
                                            ",".join(map(str, m["pcounts"]))) for m in mutants]
        rc, mout, merr = run_driver(dexe, ops, timeout=600)
        if rc != 0 or len(mout) != len(mutants):
            ctx.violation("driver drv_C10 died on binary mutants (rc=%s)" % rc, {"stderr": merr[-2000:]}, no_input=True)
            return True
        jobs = ["%s %s %s tmp=%s nq=200 seed=%d enum=%d load=%d" % (m["id"], m["load"], m["path"], work, seed_q, 1 if m["enum"] else 0, m["lm"])
                for m in mutants]
        real = run_jobs(hexe, jobs)
        for m, ml in zip(mutants, mout):
            r = real.get(m["id"], ("lost", {}))
            oc = outcome(r)
            mv = ml.split()[1] if len(ml.split()) > 1 else "?"
            kind = m["kind"]
            ctx.hist("bin.kind_x_outcome", "%s|%s" % (kind, oc))
            ctx.hist("bin.model_x_real", "%s|%s" % (mv, oc))
            ctx.count(("bin", m["data"], m["load"], m["enum"]), nontrivial=True)
            replay = {"stream": "loader-fuzz", "kind": kind, "stored_class": m["stored"], "load_class": m["load"], "enumerate": m["enum"],
                      "load_method": m["lm"], "outcome": oc, "model": ml, "file_hex": m["data"][:4096].hex(), "file_len": len(m["data"]),
                      "replay": "xxd -r -p > f.bin; echo 'x %s f.bin enum=%d load=%d tmp=/tmp' | harness c10_load" % (m["load"], 1 if m["enum"] else 0, m["lm"])}
            if "layout-mismatch" in ml and m["load"] == m["stored"]:
                ctx.violation("loader-fuzz: the layout model (KV.Binary.modelSize) disagrees with the size of the binary file the real "
                              "code wrote (%s)" % ml, replay)
                found = True
            size_edit = kind in SIZE_PARAM_KINDS
            if r[0] in ("crash", "hang", "lost"):
                et = err_text(work, m["id"])
                replay["stderr"] = et
                key = None
                # known finding only where the header's own size check cannot help: the edited parameters imply a layout that
                # fits the file (model: ok, or sizeok=1: the `<unk>` check at the start of the vocabulary strings would reject the
                # file, but only after the vocabulary lookup has already been used) or leave 64-bit / float range (unknown-size)
                if size_edit and (mv in ("ok", "unknown-size") or " sizeok=1" in ml):
                    key = KEY_SIZE_PARAMS
                elif kind == "bin-type-out-of-range" and "not a valid value for type 'ModelType'" in et:
                    key = KEY_ENUM_LOAD
                elif kind == "bin-has-vocab-nonbool" and "not a valid value for type 'bool'" in et:
                    key = KEY_ENUM_LOAD
                if ctx.violation("loader-fuzz: %s %s on a binary file with %s (model: %s)" % (lmq.NAMES[m["load"]], oc, kind, mv), replay, key=key):
                    found = True
                continue
            if mv == "ub":
                ctx.violation("loader-fuzz: the header model predicts undefined behaviour (%s) but %s answered %s: the regenerated "
                              "behavioural constants and the loader disagree" % (kind, lmq.NAMES[m["load"]], oc), replay)
                found = True
                continue
            if mv in ("ok", "arpa") or mv.startswith("error"):
                mclass = "ok" if mv == "ok" else "error"
                rclass = "ok" if r[0] == "ok" else "error"
                # edited size parameters that still fit: the body is re-interpreted with another layout; checks inside the body
                # (not part of the header model) may still reject it
                if mclass != rclass and not (size_edit and mv == "ok"):
                    ctx.violation("loader-fuzz: %s %s on a binary file but the header model says %s (%s)" % (lmq.NAMES[m["load"]], oc, mv, kind), replay)
                    found = True
                    continue
            if r[0] == "ok" and kind in DIGEST_KINDS and m["digest"] and r[1].get("digest") != m["digest"]:
                ctx.violation("loader-fuzz: accepted binary mutant (%s) answers differently from the complete file" % kind, replay)
                found = True
    return found


def fixed_witnesses(ctx, hexe, dexe, consts):
    """Seed-independent witnesses derived from the regenerated behavioural constants: if the tree lets a binary header of
    order < 2 or a NaN multiplier through, show the failing input on the real loader."""
    found = False
    need_order = int(consts.get("checkCountsMinOrder", "2")) < 2
    need_nan = consts.get("readHeaderRejectsNaN", "true") != "true"
    if not (need_order or need_nan):
        return False
    work = fresh_scratch("c10_wit_%d" % os.getpid())
    case = lmgen.gen_case(__import__("random").Random(7), max_vocab=8, size="small", force={"kind": "corpus"})
    apath = os.path.join(work, "w.arpa")
    open(apath, "wb").write(case.arpa)
    bpath = os.path.join(work, "w.bin")
    run_jobs(hexe, ["w P %s tmp=%s write=%s vocab=1" % (apath, work, bpath)])
    if not os.path.exists(bpath):
        return False
    b = open(bpath, "rb").read()
    S = int(consts["sizeofSanity"])
    if len(b) <= S + int(consts["sizeofFixed"]):
        return False
    tests = []
    if need_order:
        x = bytearray(b); x[S + int(consts["offOrder"])] = 0
        tests.append(("bin-order-lt2", bytes(x)))
    if need_nan:
        x = bytearray(b); struct.pack_into("<I", x, S + int(consts["offMultiplier"]), 0x7fc00000)
        tests.append(("bin-multiplier-nan", bytes(x)))
    for kind, data in tests:
        p = os.path.join(work, kind + ".bin")
        open(p, "wb").write(data)
        r = run_jobs(hexe, ["%s P %s tmp=%s" % (kind, p, work)])[kind]
        ctx.hist("bin.witness", "%s|%s" % (kind, outcome(r)))
        if r[0] in ("crash", "hang", "lost"):
            ctx.violation("loader-fuzz: ProbingModel %s on a binary file with %s (the header check is missing: regenerated constants "
                          "checkCountsMinOrder=%s readHeaderRejectsNaN=%s)" % (outcome(r), kind, consts.get("checkCountsMinOrder"), consts.get("readHeaderRejectsNaN")),
                          {"stream": "loader-fuzz", "kind": kind, "file_hex": data[:4096].hex(), "file_len": len(data), "stderr": err_text(work, kind),
                           "replay": "xxd -r -p > f.bin; echo 'x P f.bin tmp=/tmp' | harness c10_load"})
            found = True
    return found


def _setup(ctx):
    ok, bdir, lg = repo.build("tools")
    flags = [os.path.join(bdir, "lib", "libkenlm.a"), os.path.join(bdir, "lib", "libkenlm_util.a"), "-lz", "-lbz2", "-llzma", "-lrt", "-pthread"] if ok else []
    problems, consts = flow.proof_phase(ctx, "C10", probe="probe_C10.cc", probe_flags=flags, required=REQUIRED,
                                        drivers=["drv_C10", "drv_C01"])
    if not ok:
        problems.append(lg)
    ok1, hexe, lg1 = repo.harness("c10_load.cc", libs=True, config="asan")
    ok2, c01h, lg2 = repo.harness("c01_lmquery.cc", libs=True, config="tools")
    dexe, c01d = lean.driver_path("drv_C10"), lean.driver_path("drv_C01")
    if not ok1 or not ok2 or not os.path.exists(dexe) or not os.path.exists(c01d) or not consts:
        flow.report_obligation_failures(ctx, problems + [x for x in (lg1 if not ok1 else None, lg2 if not ok2 else None) if x] or ["driver missing"], False)
        return None
    # private copies: concurrent checks of other properties prune the shared build cache
    import shutil
    priv = fresh_scratch("c10_exe_%d" % os.getpid())
    hexe = shutil.copy2(hexe, os.path.join(priv, "c10_load"))
    c01h = shutil.copy2(c01h, os.path.join(priv, "c01_lmquery"))
    return problems, consts, hexe, dexe, c01h, c01d


def replay(ctx, path):
    """python3 check.py C10 --replay replays/C10/<hash>.json : re-run the recorded input on the current tree (real loader in
    the sanitizer harness + model verdict) and report whether the recorded failure still shows.  Exit 1 if it does."""
    import json
    d = json.load(open(path))
    st = _setup(ctx)
    if st is None:
        return ctx.finish(LEVEL)
    problems, consts, hexe, dexe, c01h, c01d = st
    work = fresh_scratch("c10_replay_%d" % os.getpid())
    if "arpa" in d and "class" in d and "bytes; regenerate with the seed]" in d["arpa"]:
        log("  replay: the record holds only the head of a large generated file; re-run the check with VERIF_SEED=%s" % d.get("seed"))
    elif "arpa" in d and "class" in d:
        data = d["arpa"].encode(d.get("arpa_encoding", "utf-8"))
        mult, mem, cls = float(d.get("mult", 1.5)), int(d.get("building_memory") or 0), d["class"]
        real, model, m = arpa_signature(hexe, dexe, work, data, cls, tag="replay", mult=mult, mem=mem, seed=int(d.get("query_seed", 1)))
        log("  replay: %s real=%s model=%s (%s)" % (lmq.NAMES[cls], real, model, m))
        bad = real in ("crash", "hang", "lost") or (real == "ok") != (model == "ok")
        if bad:
            ctx.violation("replay: %s %s, model %s — the recorded failure reproduces (%s)" % (lmq.NAMES[cls], real, model, d.get("what", "")[:200]),
                          {"stream": "loader-fuzz", "replayed": path, "real": real, "model": m, "stderr": err_text(work, "replay")})
    elif "file_hex" in d and d.get("file_len", 0) <= 4096:
        data = bytes.fromhex(d["file_hex"])
        p = os.path.join(work, "replay.bin")
        open(p, "wb").write(data)
        cls, en, lm = d["load_class"], 1 if d.get("enumerate") else 0, int(d.get("load_method", 0))
        r = run_jobs(hexe, ["replay %s %s tmp=%s nq=200 seed=4242 enum=%d load=%d" % (cls, p, work, en, lm)])["replay"]
        rc, out, _ = run_driver(dexe, ["bin %s %s %d - 0 0 0" % (p, cls, en)], 120)
        mv = out[0].split()[1] if out and len(out[0].split()) > 1 else "?"
        log("  replay: %s real=%s model=%s" % (lmq.NAMES[cls], outcome(r), mv))
        bad = r[0] in ("crash", "hang", "lost") or mv == "ub" or ((mv == "ok") != (r[0] == "ok") and (mv in ("ok", "arpa") or mv.startswith("error")))
        if bad:
            ctx.violation("replay: %s %s, header model %s — the recorded failure reproduces (%s)" % (lmq.NAMES[cls], outcome(r), mv, d.get("what", "")[:200]),
                          {"stream": "loader-fuzz", "replayed": path, "real": outcome(r), "model": mv, "stderr": err_text(work, "replay")},
                          key=KEY_SIZE_PARAMS if d.get("kind") in SIZE_PARAM_KINDS and mv in ("ok", "unknown-size") else None)
    else:
        log("  replay: %s holds no replayable input (truncated file or obligation-only record)" % path)
    _cleanup()
    return ctx.finish(LEVEL)


def run(ctx):
    st = _setup(ctx)
    if st is None:
        return
    problems, consts, hexe, dexe, c01h, c01d = st
    _run_streams(ctx, problems, consts, hexe, dexe, c01h, c01d)


def _cleanup():
    import glob
    import shutil
    from vlib.common import SCRATCH
    for d in glob.glob(os.path.join(SCRATCH, "c10_*_%d" % os.getpid())):
        shutil.rmtree(d, ignore_errors=True)


def _run_streams(ctx, problems, consts, hexe, dexe, c01h, c01d):
    try:
        _run_streams0(ctx, problems, consts, hexe, dexe, c01h, c01d)
    finally:
        _cleanup()


def _run_streams0(ctx, problems, consts, hexe, dexe, c01h, c01d):
    quick = ctx.tier == "quick"
    found = fixed_witnesses(ctx, hexe, dexe, consts)
    found |= blank_stream(ctx, hexe, dexe, c01h, c01d, 300 if quick else 3000)
    found |= big_stream(ctx, hexe, dexe, c01h, c01d, 1 if quick else 4)
    found |= arpa_stream(ctx, hexe, dexe, c01h, c01d, n_base=25 if quick else 150, per_base=40 if quick else 60,
                         oracle_budget=120 if quick else 1000)
    found |= bin_stream(ctx, hexe, dexe, consts, n_base=2 if quick else 12, per_class=45 if quick else 80)
    ctx.cov["rule"] = ("loader-fuzz: one evaluation = one (mutant file, model class) load in its own process; distinct by file bytes + class; "
                       "non-trivial when the file was accepted, or the model's front end parsed it completely (rejected by a builder check), "
                       "or the rejection was not the generic FormatLoadException; the kind x outcome histograms show how deep mutants get")
    ctx.assumptions += ["counts in mutated ARPA headers are bounded (<= %d) so that the requested allocation is feasible" % mut.MAX_COUNT,
                        "memory safety is observed with ASan+UBSan (-fno-sanitize=alignment), not proved",
                        "binary files whose size parameters (order, counts, multiplier) were edited so that the implied layout still fits "
                        "the file are trusted by the loader (known finding, only where the model's size check passes or the arithmetic "
                        "leaves 64 bits); everywhere else the header model (with C04's modelSize) gives a definite verdict"]
    flow.report_obligation_failures(ctx, problems, found)
