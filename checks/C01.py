"""C01 — Query scores follow the ARPA back-off definition in every data structure."""
import os
import copy

from vlib import flow, lean, repo, stream
from vlib.common import fresh_scratch, log
from vlib.common import run as sh

from . import lmgen
from . import C01_lmq as lmq

MANIFEST = {
    "text": "Lean theorems over an executable model of lm/model.cc (FullScore / FullScoreForgotState / GetState over an "
            "abstract Search) and of the table every search structure represents (real n-grams + hallucinated blanks with "
            "extends-left/right marks): the returned probability equals the textbook ARPA back-off recursion for every "
            "model, history and word (induction over the history via the StateFor invariant); matched length and "
            "left-independence flag characterised on suffix-closed models. Tied to the code by differential execution: "
            "the same ARPA bytes are loaded by the six real model classes (in-process harness) and parsed by the compiled "
            "Lean driver; probabilities are compared with the exact rational L0 recursion (float32 tolerance "
            "(k+1)*2^-23*sum|terms|), structural fields exactly.",
    "note": "Trusted: Lean kernel + propext/Classical.choice/Quot.sound; statements in lean/Properties/C01.lean; harness, "
            "driver, generator, comparator and the tolerance formula; 64-bit hash injectivity on the model's n-grams; "
            "float32 modelled as exact rationals (back-off underflow to zero modelled exactly).",
    "technique": "Lean 4 proof (induction/invariants over an executable model) + differential correspondence with the real code",
}

REQUIRED = ["KV.C01.constants_ok", "KV.C01.table_represents", "KV.C01.fullScore_prob", "KV.C01.fullScore_prob_table",
            "KV.C01.stateFor_null", "KV.C01.stateFor_begin", "KV.C01.stateFor_step", "KV.C01.scoreSeq_spec",
            "KV.C01.forgot_prob", "KV.C01.length_longest", "KV.C01.indep_left_iff", "KV.C01.quant_exact"]


def case_fails(hexe, dexe, workdir, want):
    def f(case):
        path = lmq.write_case(case, workdir, "shrink")
        ops = lmq.make_ops(path, case)
        (rc1, o1, e1), (rc2, o2, e2) = lmq.run_both(hexe, dexe, ops, timeout=120)
        if rc1 != 0 or rc2 != 0:
            return True
        probs, _ = lmq.compare(case, o1, o2, want=want)
        return bool(probs)
    return f


def forced_classes(tier):
    """model classes every run must contain (generic classes, not inputs): deep blank chains at orders 4..6
    (all basis orders x chain lengths) and high fan-out models for each -a value"""
    f = [{"kind": "corpus", "chains": True, "order": 6}, {"kind": "pruned", "chains": True, "order": 6},
         {"kind": "corpus", "chains": True, "order": 5}, {"kind": "pruned", "chains": True, "order": 5},
         {"kind": "random", "chains": True, "order": 6}, {"kind": "corpus", "chains": True, "order": 4},
         {"kind": "corpus", "shared": True, "order": 4}, {"kind": "pruned", "shared": True, "order": 5},
         {"kind": "corpus", "shared": True, "order": 6}, {"kind": "random", "shared": True, "order": 4},
         {"kind": "corpus", "unk": "absent", "order": 3}, {"kind": "pruned", "unk": "absent", "order": 5},
         {"kind": "corpus", "unk": "absent", "order": 2},
         {"kind": "corpus", "unk": "absent", "unk_in_ngrams": True, "order": 3}]
    abits = [1, 2, 3, 4, 6, 9, 22, 25, 64, 255]
    f += [{"kind": "fanout", "abits": a} for a in (abits if tier != "quick" else abits[1:10:2])]
    return f


BIN_TYPES = {"probing": ("P", ["probing"]), "trie": ("T", ["trie"]), "trie-a": ("A", ["-a", "22", "trie"]),
             "trie-q": ("Q", ["-q", "8", "-b", "8", "trie"])}


QUANT_BITS = [(3, 5), (5, 3), (8, 6), (4, 10), (6, 8), (10, 4)]


def quant_bits_sweep(ctx, hexe, dexe, bb, work, quick):
    """QuantTrie / QuantArrayTrie with prob_bits != backoff_bits in both directions, on models whose per-order entry counts
    fit the bins (lossless: bit-exact comparison with the L0 oracle applies), loaded from ARPA and from the reloaded binary."""
    found = False
    combos = QUANT_BITS[:4] if quick else QUANT_BITS
    for (q, b) in combos:
        case = lmgen.gen_quantbits_case(ctx.rng, q, b)
        path = lmq.write_case(case, work, "qb%d_%d" % (q, b))
        ops = lmq.make_ops(path, case, classes="QB", extra=" pbits=%d bbits=%d" % (q, b))
        (rc1, o1, e1), (rc2, o2, e2) = lmq.run_both(hexe, dexe, ops)
        ctx.hist("lm.quantbits", "q=%d,b=%d" % (q, b))
        payload = {"stream": "quant-bits", "meta": case.meta, "options": "-q %d -b %d" % (q, b),
                   "generator": "lmgen.gen_quantbits_case(q=%d, b=%d)" % (q, b), "arpa": case.arpa.decode(), "queries": case.queries[:20]}
        if rc1 != 0 or rc2 != 0:
            ctx.violation("quant-bits: harness or driver died (harness rc=%s, driver rc=%s)" % (rc1, rc2),
                          dict(payload, harness_stderr=e1[-1200:], driver_stderr=e2[-800:]))
            found = True
            continue
        probs, st = lmq.compare(case, o1, o2, classes="QB", want=("oracle",), pbits=q, bbits=b)
        ctx.hist("lm.quantbits.qfit", st.get("qfit"))
        ctx.count(("quant-bits", q, b, case.arpa), nontrivial=bool(st.get("qfit")), n=max(1, st["words"]))
        if not st.get("qfit"):
            ctx.violation("quant-bits: the generated model does not fit the bins (generator defect)", payload)
            found = True
            continue
        if probs:
            p = probs[0]
            ctx.violation("quant-bits: %s with -q %d -b %d disagrees with the ARPA recursion although every order fits the bins (%s)"
                          % (lmq.NAMES[p.get("cls", "Q")], q, b, p["kind"]), dict(payload, first_problem=p, n_problems=len(probs)))
            found = True
            continue
        if not bb:
            continue
        for cls, targs in (("Q", ["-q", str(q), "-b", str(b), "trie"]), ("B", ["-a", "22", "-q", str(q), "-b", str(b), "trie"])):
            wm = ctx.rng.choice(["after", "mmap"])
            out = os.path.join(work, "qb%d_%d.%s.bin" % (q, b, cls))
            cmd = [bb, "-s", "-i", "-w", wm] + targs + [path, out]
            rc, so, se = sh(cmd, timeout=120)
            if rc != 0:
                ctx.violation("quant-bits: build_binary failed (rc=%s)" % rc, dict(payload, cmd=cmd, stderr=se[-1000:]))
                found = True
                continue
            rcb, ob, eb = stream.run_lines(hexe, ["bin %s %s" % (out, cls)] + ops[1:], 300)
            try:
                os.unlink(out)
            except OSError:
                pass
            if rcb != 0:
                ctx.violation("quant-bits: harness died on a binary file", dict(payload, cmd=cmd, stderr=eb[-1000:]))
                found = True
                continue
            ob[0] = ob[0].replace("bin ", "arpa ", 1)
            probs, st2 = lmq.compare(case, ob, o2, classes=cls, want=("oracle",), pbits=q, bbits=b)
            ctx.count(("quant-bits", "bin", cls, q, b, case.arpa), nontrivial=True, n=max(1, st2["words"]))
            if probs:
                p = probs[0]
                ctx.violation("quant-bits: %s reloaded from its binary file (-q %d -b %d, -w %s) disagrees (%s)"
                              % (lmq.NAMES[cls], q, b, wm, p["kind"]), dict(payload, cmd=cmd, first_problem=p, n_problems=len(probs)))
                found = True
    return found


def binary_round_trip(ctx, case, path, ops, model_lines, hexe, bb, work, ci, want, tag):
    """"model read from ARPA or from its binary file": build_binary with both write methods, RELOAD the binary and compare
    with the L0 oracle (and the model's structure) exactly like the ARPA-loaded classes.  Models without <unk> get every
    (type, write method) combination, the others one sampled combination."""
    found = False
    combos = [(t, w) for t in ("probing", "trie") for w in ("after", "mmap")]
    if case.meta["unk"] != "absent":
        combos = [(ctx.rng.choice(sorted(BIN_TYPES)), ctx.rng.choice(["after", "mmap"]))] if ctx.rng.random() < 0.35 else []
    for typ, wm in combos:
        cls, targs = BIN_TYPES[typ]
        out = os.path.join(work, "c%d.%s.%s.bin" % (ci, typ, wm))
        cmd = [bb, "-s", "-i", "-w", wm, "-p", str(max(case.mult, 1.5))] + targs + [path, out]
        rc, so, se = sh(cmd, timeout=120)
        ctx.hist("lm.binary", "%s/%s/unk=%s" % (typ, wm, case.meta["unk"] != "absent"))
        if rc != 0:
            if cls == "P" and "probing" in se.lower():
                ctx.hist("lm.binary_probing_size", True)
                continue
            ctx.violation("%s: build_binary failed (rc=%s) on a generated model" % (tag, rc), {"stream": tag, "cmd": cmd,
                          "stderr": se[-1200:], "arpa": case.arpa.decode("utf-8", "replace")})
            found = True
            continue
        opsb = ["bin %s %s" % (out, cls)] + ops[1:]
        rcb, ob, eb = stream.run_lines(hexe, opsb, 300)
        try:
            os.unlink(out)
        except OSError:
            pass
        if rcb != 0:
            ctx.violation("%s: harness died on a binary file" % tag, {"stream": tag, "cmd": cmd, "stderr": eb[-1200:]})
            found = True
            continue
        ob[0] = ob[0].replace("bin ", "arpa ", 1)
        probs, st = lmq.compare(case, ob, model_lines, classes=cls, want=want)
        probs = [p for p in probs if not p.get("known_key")]
        ctx.count((tag, "bin", typ, wm, case.arpa), nontrivial=True, n=max(1, st["words"]))
        if probs:
            p = probs[0]
            ctx.violation("%s: %s reloaded from its binary file (%s, -w %s) disagrees (%s)" % (tag, lmq.NAMES[cls], typ, wm, p["kind"]),
                          {"stream": tag, "first_problem": p, "n_problems": len(probs), "cmd": cmd,
                           "arpa": case.arpa.decode("utf-8", "replace"), "queries": case.queries, "meta": case.meta})
            found = True
    return found


def lm_stream(ctx, hexe, dexe, n_cases, size, want=("oracle", "struct", "spec"), tag="lm-query"):
    work = fresh_scratch("c01_%s_%d" % (ctx.pid, os.getpid()))
    found = False
    okb, bdir, _ = repo.build("tools")
    bb = os.path.join(bdir, "bin", "build_binary") if okb else None
    forces = forced_classes(ctx.tier)
    for ci in range(n_cases):
        force = forces[ci] if ci < len(forces) else ({"kind": "fanout"} if ctx.rng.random() < 0.03 else None)
        case = lmgen.gen_case(ctx.rng, size=size, force=force)
        for (b, L) in getattr(case, "chains", []):
            ctx.hist("lm.blankchain.order%d" % case.meta["order"], "basis=%d,len=%d" % (b, L))
        for (sl, lv, nh) in getattr(case, "shared", []):
            ctx.hist("lm.sharedblanks", "suffix=%d,levels=%d,heads=%d" % (sl, lv, nh))
        if case.meta["kind"] == "fanout":
            ctx.hist("lm.fanout.abits", case.abits)
            ctx.hist("lm.fanout.buckets_spanned_min", case.meta["buckets_spanned_min"])
            ctx.cov["fanout_max_buckets_spanned"] = max(ctx.cov.get("fanout_max_buckets_spanned", 0), case.meta["buckets_spanned_min"])
        path = lmq.write_case(case, work, "c%d" % ci)
        ops = lmq.make_ops(path, case, extra=" buckets=" + ",".join(map(str, lmq.bucket_counts(case))))
        ekeys = lmq.enum_keys(case, ctx.rng, 250 if ctx.tier == "quick" else 1000) if case.meta["kind"] != "equalmult" else []
        nq = len(ops)
        ops_all = ops + ["e " + " ".join(k) for k in ekeys]
        (rc1, o1, e1), (rc2, o2, e2) = lmq.run_both(hexe, dexe, ops_all)
        for k, v in case.meta.items():
            if k in ("order", "kind", "unk", "crlf", "closed", "bitbound"):
                ctx.hist("lm." + k, v)
        ctx.hist("lm.mult", case.mult)
        if rc1 != 0 or rc2 != 0:
            ctx.violation("harness or driver died on an lm-query case (harness rc=%s, driver rc=%s)" % (rc1, rc2),
                          {"stream": tag, "arpa": case.arpa.decode("utf-8", "replace"), "ops": ops[:40],
                           "harness_stderr": e1[-1500:], "driver_stderr": e2[-1500:]})
            found = True
            continue
        try:
            probs, st = lmq.compare(case, o1, o2, want=want)
        except Exception:
            import traceback
            ctx.violation("%s: output of the harness/driver could not be parsed/compared for this case" % tag,
                          {"stream": tag, "arpa": case.arpa.decode("utf-8", "replace"), "queries": case.queries,
                           "impl_head": o1[:2], "traceback": traceback.format_exc()[-1500:]})
            found = True
            continue
        info = st.get("info", {})
        ctx.hist("lm.skipped", st.get("skipped"))
        ctx.hist("lm.blanks", min(info.get("blanks", 0), 20) if isinstance(info.get("blanks", 0), int) else "?")
        ctx.hist("lm.qfit", st.get("qfit"))
        ctx.hist("lm.hash_injective", info.get("hashinj"))
        if st.get("probing_size"):
            ctx.hist("lm.probing_size_exception", True)
        ctx.count((tag, case.arpa, tuple(map(str, case.queries))), nontrivial=st["nontrivial"] > 0 and not st.get("skipped"),
                  n=max(1, st["words"]))
        if ci < 2:
            ctx.sample({"stream": tag, "meta": case.meta, "arpa_head": case.arpa.decode("utf-8", "replace")[:300],
                        "query": case.queries[0], "impl": o1[1][:300] if len(o1) > 1 else None})
        if bb and os.path.exists(bb) and not st.get("skipped"):
            found = binary_round_trip(ctx, case, path, ops, o2, hexe, bb, work, ci, want, tag) or found
        if not st.get("skipped") and len(o1) == len(ops_all) and len(o2) == len(ops_all):
            eprobs, ne = lmq.compare_enum(case, ekeys, o1[0], st.get("info", {}), o1[nq:], o2[nq:])
            ctx.count((tag, "enum", case.arpa), nontrivial=ne > 0, n=ne)
            ctx.hist("lm.enum_entries", min(ne, 2000) // 100 * 100)
            ctx.hist("lm.represents_runtime", st.get("info", {}).get("prep"))
            if eprobs:
                p = eprobs[0]
                ctx.violation("probing-structure: %s entry %s differs between the built structure and the model of the builder (%s)" %
                              (lmq.NAMES.get(p.get("cls"), "?"), " ".join(p.get("key", [])), p["kind"]),
                              {"stream": "probing-structure", "first_problem": p, "n_problems": len(eprobs),
                               "arpa": case.arpa.decode("utf-8", "replace"), "options": {"mult": case.mult,
                               "buckets": lmq.bucket_counts(case)}, "meta": case.meta})
                found = True
        known = [p for p in probs if p.get("known_key")]
        probs = [p for p in probs if not p.get("known_key")]
        for p in known[:1]:
            q = case.queries[p["query"]]
            ctx.violation("%s: %s left-independence flag differs from the specification" % (tag, lmq.NAMES[p["cls"]]),
                          {"stream": tag, "problem": p, "arpa": case.arpa.decode("utf-8", "replace"),
                           "queries": [q], "options": {"mult": case.mult, "abits": case.abits}},
                          key=p["known_key"])
        if probs:
            small = lmq.shrink_queries(case, case_fails(hexe, dexe, work, want))
            p = probs[0]
            ctx.violation("%s: %s disagrees (%s)" % (tag, p.get("cls", "model"), p["kind"]),
                          {"stream": tag, "first_problem": p, "n_problems": len(probs),
                           "arpa": small.arpa.decode("utf-8", "replace"), "queries": small.queries,
                           "options": {"mult": case.mult, "abits": case.abits}, "meta": case.meta,
                           "replay": "write arpa to a file; feed `arpa <file> mult=.. abits=..` and `q <start> <words>` to the harness and driver"})
            found = True
    if tag == "lm-query":
        found = quant_bits_sweep(ctx, hexe, dexe, bb, work, ctx.tier == "quick") or found
    return found


KEY_UNKB = "blank-based-on-hallucinated-unk"


def unk_basis_case(ctx, hexe, dexe):
    """Fixed demonstration of the known finding `blank-based-on-hallucinated-unk` (corpus/C01_blank_on_hallucinated_unk.json):
    only the word scored through the blank `b <unk>` may deviate, and only by exactly +100 (the zeroed unigram slot);
    everything else in the case must agree with the oracle."""
    import json as _json
    rep = _json.load(open(os.path.join(os.path.dirname(os.path.dirname(os.path.abspath(__file__))), "corpus",
                                       "C01_blank_on_hallucinated_unk.json")))
    work = fresh_scratch("c01_unkb_%d" % os.getpid())
    path = os.path.join(work, "unkb.arpa")
    open(path, "w").write(rep["arpa"])
    queries = [("N", ["b", "oov"]), ("N", ["b", "<unk>"]), ("N", ["zzz"]), ("N", ["a", "b", "oov"]), ("B", ["a", "b"])]
    ops = ["arpa %s classes=PRTAQB mult=4 buckets=8,4" % path] + ["q %s %s" % (st, " ".join(ws)) for st, ws in queries]
    (rc1, o1, e1), (rc2, o2, e2) = lmq.run_both(hexe, dexe, ops)
    if rc1 != 0 or rc2 != 0 or len(o1) < len(ops) or len(o2) < len(ops):
        ctx.violation("known-finding case could not be run", {"ops": ops, "stderr": (e1 + e2)[-1000:]}, no_input=True)
        return True
    found = False
    seen = 0
    for qi, (st, ws) in enumerate(queries):
        M = lmq.parse_model_line(o2[1 + qi])
        I = lmq.parse_impl_line(o1[1 + qi])
        for c, R in I.items():
            for pos, (ri, rm) in enumerate(zip(R, M)):
                ctx.count(("unkb", c, qi, pos), nontrivial=True)
                for r in (ri.F, ri.G):
                    d = lmq.fbits(r["prob"]) - rm.spec
                    if abs(d) <= lmq.tol(rm):
                        continue
                    in_class = ws[pos] in ("oov", "<unk>") and pos >= 1 and ws[pos - 1] == "b" and len(ws) == 2 and abs(d - 100) < 1e-3
                    if in_class:
                        seen += 1
                        ctx.violation("%s scores a word through a blank based on the hallucinated <unk> as %g instead of %g" %
                                      (lmq.NAMES[c], float(lmq.fbits(r["prob"])), float(rm.spec)),
                                      {"replay": "corpus/C01_blank_on_hallucinated_unk.json", "query": [st, ws], "cls": c}, key=KEY_UNKB)
                    else:
                        ctx.violation("known-finding case: %s deviates outside the recorded class (query %s pos %d: %g vs %g)" %
                                      (lmq.NAMES[c], ws, pos, float(lmq.fbits(r["prob"])), float(rm.spec)),
                                      {"arpa": rep["arpa"], "query": [st, ws], "cls": c})
                        found = True
    ctx.notes["unk_basis_known_finding_observations"] = seen
    return found


def setup(ctx, pid, required, extra_targets=()):
    problems, consts = flow.proof_phase(ctx, pid, probe="probe_C01.cc", required=required,
                                        targets=["Properties.%s" % pid] + list(extra_targets), drivers=["drv_C01"])
    ok, hexe, lg = repo.harness("c01_lmquery.cc", libs=True, config="tools")
    if not ok:
        problems.append(lg)
        return problems, None, None
    return problems, hexe, lean.driver_path("drv_C01")


# the end-to-end chain of the probing structures lives in Properties/C03ProbingBuild.lean; a regression there is a C01 regression
REQUIRED_E2E = ["KV.C03ProbingBuild.probing_build_represents", "KV.C03ProbingBuild.probing_end_to_end",
                "KV.C03ProbingBuild.demoPruned_represents", "KV.C03ProbingBuild.demoPruned_end_to_end"]


def run(ctx):
    problems, hexe, dexe = setup(ctx, "C01", REQUIRED, extra_targets=["Properties.C03ProbingBuild"])
    if not problems:
        o1, d1, names1 = ctx.cov.get("obligations", 0), ctx.cov.get("discharged", 0), list(ctx.cov.get("theorems", []))
        problems += lean.audit(ctx, "C03ProbingBuild", REQUIRED_E2E)
        ctx.cov["obligations"] += o1
        ctx.cov["discharged"] += d1
        ctx.cov["theorems"] = names1 + ctx.cov.get("theorems", [])
    if hexe is None or not os.path.exists(dexe):
        flow.report_obligation_failures(ctx, problems or ["driver drv_C01 missing"], False)
        return
    n = 60 if ctx.tier == "quick" else 1500
    found = lm_stream(ctx, hexe, dexe, n, "small" if ctx.tier == "quick" else "medium")
    found = unk_basis_case(ctx, hexe, dexe) or found
    ctx.cov["rule"] = ("lm-query: one evaluation = one scored word (compared for each of the six model classes and for "
                       "FullScore/FullScoreForgotState/GetState); a case (ARPA bytes + queries) is distinct by content and "
                       "non-trivial when some word matched an n-gram of length >= 2 or charged a back-off")
    ctx.assumptions += ["CombineWordHash injectivity on the table keys is CHECKED per generated model by the driver (hashinj flag; "
                        "colliding models are discarded and counted); collisions of a *queried* absent n-gram with a stored key and "
                        "MurmurHash collisions of vocabulary strings remain assumptions",
                        "float32 arithmetic within (k+1)*2^-23*sum|terms| of the exact rational recursion",
                        "quantised classes compared in value only when every order's value count fits the bins"]
    flow.report_obligation_failures(ctx, problems, found)
