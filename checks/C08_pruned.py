"""C08 helper: N random SRI-pruned / blank-needing models x {Probing, Trie, RestProbing(REST_MAX)}: every derivation total
vs the left-to-right sum of the L0 recursion (used to validate the trie repair; `python3 -m checks.C08_pruned N [seed]`)."""
import os
import random
import sys

from vlib import lean, repo
from vlib.common import fresh_scratch

from . import lmgen
from . import C08


def main(n, seed):
    ok, hexe, lg = repo.harness("c08_left.cc", libs=True, config="asan")
    assert ok, lg
    dexe = lean.driver_path("drv_C08")
    rng = random.Random(seed)
    work = fresh_scratch("c08_pruned_%d" % os.getpid())
    C08.QUIRK["on"] = C08.detect_quirk(hexe, work)
    models = bad = ops_n = blanks = premise = 0
    while models < n:
        kind = rng.choice(["pruned", "pruned", "random", "trailing-blank"])
        case = C08.trailing_blank_case(rng) if kind == "trailing-blank" else lmgen.gen_case(rng, size="small", max_vocab=10, force={"kind": kind})
        arpa, _ = C08.enforce_premise(case.arpa)
        path = os.path.join(work, "m.arpa")
        with open(path, "wb") as f:
            f.write(arpa)
        ops = [o for o in C08.gen_ops(case, rng, True) if o[0] in "dD"][:120]
        (rc1, o1, e1), (rc2, o2, e2) = C08.run_case(hexe, dexe, path, None, ops, case.mult, case.abits, "PTR")
        if rc1 != 0 or rc2 != 0 or len(o1) != len(ops) + 1 or len(o2) != len(ops) + 1:
            print("died", rc1, rc2, e1[-300:])
            bad += 1
            continue
        info = C08.parse_info(o2[0])
        if "error" in info or not info["ctx"] or not info["distinct"] or not info["proper"] or info["closed"] or not info["blanks"]:
            continue
        load = C08.lmq.parse_load(o1[0])
        loaded = [c for c in "PTR" if load.get(c) == "ok"]
        if "T" not in loaded:
            continue
        models += 1
        blanks += info["blanks"]
        premise += info["ctxbo"]
        for oi, op in enumerate(ops):
            ops_n += 1
            pr = C08.compare_op(op, o1[1 + oi], o2[1 + oi], loaded, info, True, False)
            if pr:
                bad += 1
                if bad < 5:
                    print("MISMATCH", op, pr[0])
                break
    print("pruned models=%d (premise holds in %d) blanks=%d derivations=%d mismatching models=%d" % (models, premise, blanks, ops_n, bad))
    return bad


if __name__ == "__main__":
    sys.exit(1 if main(int(sys.argv[1]), int(sys.argv[2]) if len(sys.argv) > 2 else 1) else 0)
