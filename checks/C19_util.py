"""C19 helper: compile harness/c19.cc together with the util sources it exercises, with the flags a
*user build* has (-DNDEBUG: double-conversion's StringBuilder bounds asserts are compiled out, so a
too-small reservation silently overwrites memory) — vlib.repo.harness always forces -UNDEBUG.
Variants: 'asan' (-O1 -g, ASan+UBSan, NDEBUG), 'fast' (-O2, NDEBUG, no sanitizer; exhaustive runs),
'debug' (-O1, asserts on, no sanitizer; shows the assertion a debug build hits)."""
import glob
import os
import shutil

from vlib import repo
from vlib.common import REPO, SCRATCH, VERIF, run, sha

UTIL_SOURCES = ["bit_packing.cc", "ersatz_progress.cc", "exception.cc", "file.cc", "file_piece.cc",
                "float_to_string.cc", "integer_to_string.cc", "mmap.cc", "parallel_read.cc", "read_compressed.cc",
                "scoped.cc", "spaces.cc", "string_piece.cc"]

VARIANTS = {
    "asan": ["-O1", "-g", "-DNDEBUG", "-fsanitize=address,undefined", "-fno-sanitize=alignment",
             "-fno-sanitize-recover=all", "-fno-omit-frame-pointer"],
    "fast": ["-O2", "-DNDEBUG"],
    "debug": ["-O1", "-g", "-UNDEBUG"],
}


def sources():
    out = [os.path.join(REPO, "util", s) for s in UTIL_SOURCES if os.path.exists(os.path.join(REPO, "util", s))]
    out += sorted(glob.glob(os.path.join(REPO, "util", "double-conversion", "*.cc")))
    return out


def build(variant, timeout=900):
    """Returns (ok, exe, log)."""
    th = repo.tree_hash()
    src = os.path.join(VERIF, "harness", "c19.cc")
    flags = ["-std=c++11", "-w", "-DKENLM_MAX_ORDER=6", "-I", REPO, "-pthread"] + VARIANTS[variant]
    key = sha(th, open(src, "rb").read(), repr(flags), repr(sources()))
    out = os.path.join(SCRATCH, "build", th, "harness")
    os.makedirs(out, exist_ok=True)
    exe = os.path.join(out, "c19_%s_%s" % (variant, key))
    if os.path.exists(exe):
        return True, exe, "cached"
    tmp = exe + ".tmp%d" % os.getpid()
    rc, o, e = run(["g++"] + flags + [src] + sources() + ["-o", tmp], timeout=timeout)
    if rc != 0:
        return False, None, "harness c19.cc (%s) does not compile against the current tree:\n%s" % (variant, (o + e)[-5000:])
    os.replace(tmp, exe)
    return True, exe, "built"


def private_copy(exe):
    """Other builders' checks prune tree-keyed build directories (vlib.repo._prune) while a long run is in
    progress; run from a private copy."""
    d = os.path.join(SCRATCH, "c19-run-%d" % os.getpid())
    os.makedirs(d, exist_ok=True)
    dst = os.path.join(d, os.path.basename(exe))
    if not os.path.exists(dst):
        shutil.copy2(exe, dst)
    return dst


def cleanup():
    shutil.rmtree(os.path.join(SCRATCH, "c19-run-%d" % os.getpid()), ignore_errors=True)
