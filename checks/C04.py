"""C04 — Binary model files round-trip exactly."""
import base64
import hashlib
import json
import os
import shutil
import struct

from vlib import flow, lean, repo, stream
from vlib.common import fresh_scratch, log, run
from checks import C04_gen
from checks.C04_f32 import f32_bits

MANIFEST = {
    "text": "Lean theorems over an executable model of the binary file format (header bytes and parser, magic strings, "
            "Size vs SetupMemory for probing and the four trie variants, vocabulary sizes and the <unk> count padding, "
            "ChopBits/ArrayCount, quantiser tables, parameters re-read by UpdateConfigFromBinary, ArrayBhiksha "
            "WriteNext/ReadNext, quantiser Encode/Decode), unbounded in counts/orders/configuration; every struct size, "
            "offset, magic and version byte is regenerated from the current source. Tied to the code by a differential "
            "stream: generated ARPA models x 6 types x write methods x load methods x include_vocab x enumerate_vocab, "
            "comparing the offsets the real SetupMemory produced, header bytes, file sizes and stored parameters with the "
            "model, and checking the property itself on the real code (binary-loaded model == ARPA-built model bit for bit, "
            "same vocabulary enumeration, RecognizeBinary, byte-identical rebuilds and write methods).",
    "note": "Trusted: Lean kernel + propext/Classical.choice/Quot.sound; statements in lean/Properties/C04.lean; probe, "
            "harness (opens private members to print offsets relative to the mapping), driver, comparator, generator. "
            "mmap/read load paths, page cache and msync are OS behaviour exercised by correspondence only. Float32 product of "
            "ProbingHashTable::Size is modelled exactly in integer arithmetic and cross-checked against core Float32 and "
            "the real code. Quantiser theorems hold for any arithmetic satisfying the stated order laws (IEEE assumed).",
    "technique": "Lean 4 proof (layout arithmetic, parser round trip, invariants of the pointer compression) + differential "
                 "correspondence with the real code",
}

REQUIRED = ["KV.C04.header_roundtrip", "KV.C04.magic_distinct", "KV.C04.recognize_type", "KV.C04.size_eq_setup",
            "KV.C04.model_size_eq_setup", "KV.C04.hashed_regions", "KV.C04.trie_regions", "KV.C04.regions_disjoint",
            "KV.C04.unk_padding", "KV.C04.load_layout_eq_write_layout", "KV.C04.stored_params_read",
            "KV.C04.bhiksha_array_roundtrip", "KV.C04.bhiksha_dont_roundtrip", "KV.C04.chop_bits_bounds",
            "KV.C04.array_table_in_block", "KV.C04.quant_exact", "KV.C04.QuantExample.quant_lossy_when_count_exceeds_bins",
            "KV.C04.roundtrip_semantic", "KV.C04.roundtrip_semantic_queries", "KV.C04.written_file_passes_size_check", "KV.C04.file_roundtrip_layout", "KV.C04.no_uint8_wrap", "KV.C04.sanity_model_eq_probe", "KV.C04.total_header_table", "KV.C04.fixed_layout"]

REQUIRED_TRIE = ["KV.C03Trie.trie_refines", "KV.C03Trie.trie_prob", "KV.C03Trie.trie_refines_of_check",
                 "KV.C03Trie.quant_structural", "KV.C03Trie.table_structural", "KV.C03Trie.quant_structural_tries", "KV.C03Trie.ExamplePlain.represents", "KV.C03Trie.ExampleQuantArray.represents",
                 "KV.C03Trie.ExampleBuilt.built_represents", "KV.C03Trie.ExampleBuilt.built_eq_real_file"]

REQUIRED_TRIEBUILD = ["KV.C03TrieBuild.trie_write_frame", "KV.C03TrieBuild.key_order",
                      "KV.C03TrieBuild.trie_build_represents_partial", "KV.C03TrieBuild.visit_invariant",
                      "KV.C03TrieBuild.visit_order_strict", "KV.C03TrieBuild.trie_build_visit", "KV.C03TrieBuild.trie_regions_read",
                      "KV.C03TrieBuild.ofTable_represents", "KV.C03TrieBuild.trie_build_refines",
                      "KV.C03TrieBuild.example_btok", "KV.C03TrieBuild.example_shape_ok", "KV.C03TrieBuild.example_build_refines",
                      "KV.C03TrieBuild.shape_ok", "KV.C03TrieBuild.ofTable_represents_general", "KV.C03TrieBuild.trie_build_refines_general",
                      "KV.C03TrieBuild.trie_build_represents_closed", "KV.C03TrieBuild.trie_end_to_end_closed",
                      "KV.C03TrieBuild.blank_value_partial", "KV.C03TrieBuild.trie_build_represents", "KV.C03TrieBuild.trie_end_to_end",
                      "KV.C03TrieBuild.trie_build_blanks_exact", "KV.C03TrieBuild.trie_scoreSeq", "KV.C03TrieBuild.trie_end_to_end_sentence", "KV.C03TrieBuild.p_enc", "KV.C03TrieBuild.p_arith",
                      "KV.C03TrieBuild.example_end_to_end_pruned", "KV.C03TrieBuild.build_from_arpa", "KV.C03TrieBuild.k_enc", "KV.C03TrieBuild.k_unk",
                      "KV.C03TrieBuild.example_end_to_end_unk", "KV.C03TrieBuild.unk_class_deviates", "KV.C03TrieBuild.ex_enc", "KV.C03TrieBuild.example_end_to_end_closed", "KV.C03TrieBuild.example_end_to_end_null"]

REQUIRED_TRIEG = ["KV.C03TrieG.ofTableG_represents", "KV.C03TrieG.quant_trie_refines", "KV.C03TrieG.plain_values_agree",
                  "KV.C03TrieG.trie_build_represents_array", "KV.C03TrieG.trie_end_to_end_array", "KV.C03TrieG.train_qok",
                  "KV.C03TrieG.train_exact", "KV.C03TrieG.quant_exact_agree", "KV.C03TrieG.trie_end_to_end_quant_exact",
                  "KV.C03TrieG.k_shape_array", "KV.C03TrieG.k_shape_quant", "KV.C03TrieG.k_shape_quant_array",
                  "KV.C03TrieG.example_end_to_end_array", "KV.C03TrieG.shape_g", "KV.C03TrieG.k_small", "KV.C03TrieG.struct_eq_built",
                  "KV.C03TrieG.train_markOK", "KV.C03TrieG.quant_structural_built", "KV.C03TrieG.quant_structural_end_to_end",
                  "KV.C03TrieG.k_table_ok", "KV.C03TrieG.example_quant_structural", "KV.C03TrieG.okLaws",
                  "KV.C03TrieG.example_end_to_end_quant_exact"]

TYPE_NAMES = ["probing", "rest-probing", "trie", "quant-trie", "array-trie", "quant-array-trie"]


def fbits(x):
    return struct.unpack("<I", struct.pack("<f", x))[0]


MULTS = [fbits(1.5), fbits(1.5), fbits(1.1), fbits(2.0), fbits(1.0000002), fbits(3.7), fbits(1.25)]


def probe_flags():
    ok, bdir, lg = repo.build("asan", targets=["kenlm", "kenlm_util"])
    if not ok:
        return None, lg
    return [os.path.join(bdir, "lib", "libkenlm.a"), os.path.join(bdir, "lib", "libkenlm_util.a"), "-lz", "-lbz2", "-llzma",
            "-lrt", "-pthread", "-fsanitize=address,undefined", "-DHAVE_ZLIB", "-DHAVE_BZLIB", "-DHAVE_XZLIB"], "ok"


class Pair:
    """harness + driver as long-lived line servers would be nicer; scripts are batched instead."""

    def __init__(self, hexe, dexe):
        self.hexe, self.dexe = hexe, dexe

    def harness(self, ops, timeout=600):
        env = {"ASAN_OPTIONS": "detect_leaks=0:abort_on_error=0", "UBSAN_OPTIONS": "print_stacktrace=1"}
        return stream.run_lines(self.hexe, ops, timeout=timeout, env=env)

    def driver(self, ops, timeout=300):
        return stream.run_lines(self.dexe, ops, timeout=timeout)


# --------------------------------------------------------------------------- one (model, type) case
def strings_len(model):
    return 6 + sum(len(w.encode("utf-8")) + 1 for w in model["vocab_words"])


def case_ops(d, model, ty, cfg, grid):
    """Returns (ops, index) where index names the meaning of each op line."""
    mult, pb, bb, ab = cfg
    arpa = os.path.join(d, "m.arpa")
    q = os.path.join(d, "q.txt")
    tail = "%d %d %d %d" % (mult, pb, bb, ab)
    ops, idx = [], []

    def add(op, tag):
        ops.append(op)
        idx.append(tag)

    add("build A %d %s - mmap 0 1 %s" % (ty, arpa, tail), ("ref",))
    files = {}
    for name, wm, iv, ev in (("m1", "mmap", 1, 1), ("a1", "after", 1, 0), ("m0", "mmap", 0, 1), ("a0", "after", 0, 0),
                             ("m1b", "mmap", 1, 0)):
        f = os.path.join(d, "t%d.%s.bin" % (ty, name))
        files[name] = f
        add("build W%s %d %s %s %s %d %d %s" % (name, ty, arpa, f, wm, iv, ev, tail), ("write", name, iv, ev))
        if ev:
            add("enumcmp A W%s" % name, ("wenum", name))
        add("free W%s" % name, ("free",))
    for name in ("m1", "a0"):
        add("recognize " + files[name], ("recognize", name))
        add("hdrparse " + files[name], ("hdrparse", name))
    for name, lm, ev in grid:
        iv = 1 if name.endswith("1") else 0
        add("load B %d %s %d %d" % (ty, files[name], lm, ev), ("load", name, lm, ev, iv))
        if ev and not iv:
            continue            # must have failed: the file has no strings to enumerate
        add("layout B", ("layout", name, lm, ev))
        add("query A B " + q, ("query", name, lm, ev))
        if ev:
            add("enumcmp A B", ("enum", name, lm, ev))
        add("free B", ("free",))
    add("enumdump A", ("enumdump",))
    return ops, idx, files


def sha_file(p):
    h = hashlib.sha256()
    with open(p, "rb") as f:
        h.update(f.read())
    return h.hexdigest()


def run_case(ctx, pair, d, model, queries, ty, cfg, grid, count=True):
    """Executes one (model, type, config) case.  Returns list of (what, detail) oracle violations and list of
    correspondence disagreements."""
    mult, pb, bb, ab = cfg
    with open(os.path.join(d, "m.arpa"), "wb") as f:
        f.write(model["text"])
    with open(os.path.join(d, "q.txt"), "wb") as f:
        f.write(queries)
    ops, idx, files = case_ops(d, model, ty, cfg, grid)
    rc, out, err = pair.harness(ops)
    bad, corr = [], []
    if rc != 0 or len(out) != len(ops):
        bad.append(("harness died (rc=%s) — crash/sanitizer report in the real code while round-tripping" % rc,
                    {"stderr": err[-3000:], "lines": len(out)}))
        return bad, corr, {}
    res = dict()
    ref = out[0]
    info = {"ref": ref}
    is_trie = ty >= 2
    stored = model["fixed_counts"] if is_trie else model["counts"]
    if not ref.startswith("ok"):
        # the ARPA itself is not loadable as this type (probing table full on pruned models): every build must agree
        for o, t in zip(out, idx):
            if t[0] == "write" and o != ref:
                bad.append(("ARPA load fails in RAM but not when writing a binary (or differently)", {"ref": ref, "write": o, "case": t}))
        info["unloadable"] = True
        return bad, corr, info
    ref_meta = ref.split(" enum=")[0]
    slen = strings_len(model)
    # driver: writer-side and loader-side layout from counts + config only
    dops = ["wlayout %d %d %d %d %d %d 1 %d %d %s %s" % (ty, mult, pb, bb, ab, 1 if model["saw_unk"] else 0, slen, model["order"],
                                                       " ".join(map(str, model["counts"])), " ".join(map(str, model["fixed_counts"]))),
            "wlayout %d %d %d %d %d %d 0 %d %d %s %s" % (ty, mult, pb, bb, ab, 1 if model["saw_unk"] else 0, slen, model["order"],
                                                       " ".join(map(str, model["counts"])), " ".join(map(str, model["fixed_counts"]))),
            "layout %d %d %d %d %d 1 %d %s" % (ty, mult, pb, bb, ab, slen, " ".join(map(str, stored))),
            "layout %d %d %d %d %d 0 %d %s" % (ty, mult, pb, bb, ab, slen, " ".join(map(str, stored)))]
    hexes = {}
    for name in ("m1", "a0"):
        with open(files[name], "rb") as f:
            hexes[name] = f.read(512).hex()
        dops.append("hdrparse " + hexes[name])
    rc2, dout, derr = pair.driver(dops)
    if rc2 != 0 or len(dout) != len(dops):
        corr.append(("driver failed", {"rc": rc2, "stderr": derr[-1000:]}))
        return bad, corr, info
    w = {1: dict(kv.split("=", 1) for kv in dout[0].split()[1:]), 0: dict(kv.split("=", 1) for kv in dout[1].split()[1:])}
    lay = {1: dout[2], 0: dout[3]}
    dhdr = {"m1": dout[4], "a0": dout[5]}
    enum_ref = None
    for o, t in zip(out, idx):
        k = t[0]
        if k == "write":
            if not o.startswith("ok") or o.split(" enum=")[0] != ref_meta:
                bad.append(("building with write_mmap changes the model's order/vocabulary bound/special ids or fails",
                            {"ref": ref, "write": o, "case": t}))
        elif k == "wenum":
            if not o.startswith("same"):
                bad.append(("enumerate_vocab differs between RAM build and binary-writing build", {"line": o, "case": t}))
        elif k == "recognize":
            if o != "bin %d" % ty:
                bad.append(("RecognizeBinary does not return the writer's type", {"line": o, "type": ty, "case": t}))
        elif k == "hdrparse":
            if o != dhdr[t[1]]:
                corr.append(("header parse differs between ReadHeader and the Lean readHeader", {"impl": o, "model": dhdr[t[1]]}))
            exp = "bin order=%d mult=%d type=%d vocab=%d ver=%d counts=%s" % (
                model["order"], mult, ty, 1 if t[1].endswith("1") else 0, 0 if ty < 2 else 1, ",".join(map(str, stored)))
            if o != exp:
                bad.append(("header of the written file does not describe the written model (type/order/counts/multiplier/has_vocabulary)",
                            {"impl": o, "expected": exp}))
        elif k == "load":
            name, lm, ev, iv = t[1:]
            if ev and not iv:
                if o != "err format":
                    bad.append(("enumerate_vocab requested on a file without strings: expected FormatLoadException", {"line": o, "case": t}))
            elif not o.startswith("ok"):
                bad.append(("binary file written by this code does not load", {"line": o, "case": t}))
            elif o.split(" enum=")[0] != ref_meta:
                bad.append(("binary-loaded model reports a different order / vocabulary bound / special ids",
                            {"ref": ref, "loaded": o, "case": t}))
            if count:
                ctx.count(("load", hashlib.sha256(model["text"]).hexdigest(), ty, cfg, t), nontrivial=o.startswith("ok") and sum(model["counts"]) >= 8)
                ctx.hist("load_method", lm)
        elif k == "layout":
            iv = 1 if t[1].endswith("1") else 0
            if o != lay[iv]:
                corr.append(("offsets computed by the real SetupMemory/Size differ from the Lean layout model",
                             {"impl": o, "model": lay[iv], "case": t}))
        elif k == "query":
            if not o.startswith("same"):
                bad.append(("binary-loaded model answers a query differently from the ARPA-built model", {"line": o, "case": t}))
            else:
                info["queries"] = o
        elif k == "enum":
            if not o.startswith("same"):
                bad.append(("binary-loaded model enumerates a different (id, string) list", {"line": o, "case": t}))
        elif k == "enumdump":
            enum_ref = o
    # bytes on disk
    sh = {n: sha_file(p) for n, p in files.items()}
    if sh["m1"] != sh["m1b"]:
        bad.append(("two builds of the same input are not byte-identical", {"files": [files["m1"], files["m1b"]]}))
    if sh["m1"] != sh["a1"] or sh["m0"] != sh["a0"]:
        bad.append(("write methods mmap and after produce different files", {"type": ty}))
    for name, iv in (("m1", 1), ("a0", 0)):
        with open(files[name], "rb") as f:
            data = f.read()
        ww = w[iv]
        if len(data) != int(ww["fsize"]):
            corr.append(("file size on disk differs from the Lean writer layout", {"disk": len(data), "model": ww["fsize"], "file": name}))
        hdr = bytes.fromhex(ww["header"])
        if data[:len(hdr)] != hdr:
            corr.append(("header bytes on disk differ from Lean headerBytes", {"disk": data[:len(hdr)].hex(), "model": ww["header"]}))
        if ww["params"] != "-":
            for pr in ww["params"].split(","):
                off, b = map(int, pr.split(":"))
                if off >= len(data) or data[off] != b:
                    corr.append(("stored quantiser / Bhiksha parameter byte is not where the Lean layout puts it",
                                 {"offset": off, "model": b, "disk": data[off] if off < len(data) else None}))
        exp_restored = "%s/%s/%s" % (pb if ty in (3, 5) else 3, bb if ty in (3, 5) else 4, ab if (ty in (4, 5) and model["order"] > 2) else 9)
        if ww["restored"] != exp_restored:
            corr.append(("Lean updateConfigFromBinary does not restore the written parameters", {"got": ww["restored"], "want": exp_restored}))
        if iv and enum_ref:
            # strings block = NUL-terminated words in id order, starting at the model's `strings` offset
            words = [bytes.fromhex(p.split("=", 1)[1]) for p in enum_ref.split()[1:]]
            blob = b"".join(x + b"\0" for x in words)
            so = int(ww["strings"])
            if data[so:] != blob:
                corr.append(("vocabulary strings are not at the offset / in the id order the layout model predicts",
                             {"offset": so, "disk": data[so:so + 40].hex(), "expected": blob[:40].hex()}))
    info["files"] = sh
    if is_trie and enum_ref and count:
        corr += trielm_stream(ctx, pair, model, ty, cfg, files["m1"], enum_ref, stored)
    return bad, corr, info


def trielm_stream(ctx, pair, model, ty, cfg, path, enum_ref, stored):
    """File bytes -> Lean TrieLM (offsets from the layout model) -> raw lookups along the chain of child ranges, compared
    with the real TrieSearch::LookupUnigram/LookupMiddle/LookupLongest on the loaded file."""
    mult, pb, bb, ab = cfg
    with open(path, "rb") as f:
        data = f.read()
    if len(data) > 200000:
        return []
    rng = ctx.rng
    ids = {}
    for pr in enum_ref.split()[1:]:
        i, hx = pr.split("=", 1)
        ids[bytes.fromhex(hx).decode("utf-8", "replace")] = int(i)
    qs = []
    for k, ents in model["entries"].items():
        for g, _ in ents:
            q = [ids.get(w, 0) for w in g][::-1]
            qs.append(q)
            if rng.random() < 0.3:                       # a neighbour that is usually absent
                qs.append(q[:-1] + [rng.randrange(0, len(ids))])
    rng.shuffle(qs)
    qs = qs[:250]
    for _ in range(30):
        qs.append([rng.randrange(0, len(ids)) for _ in range(rng.randrange(1, model["order"] + 1))])
    hops = ["load T %d %s %d 0" % (ty, path, rng.randrange(4))] + ["trieq T " + " ".join(map(str, q)) for q in qs]
    dops = ["trieload %d %d %d %d %d %s %s" % (ty, mult, pb, bb, ab, " ".join(map(str, stored)), data.hex())] + \
           ["trieq " + " ".join(map(str, q)) for q in qs]
    rc1, o1, e1 = pair.harness(hops)
    rc2, o2, e2 = pair.driver(dops)
    out = []
    if rc1 != 0 or rc2 != 0 or len(o1) != len(hops) or len(o2) != len(dops):
        return [("trielm stream could not run", {"rc": [rc1, rc2], "stderr": (e1 + e2)[-1500:]})]
    # the verified checker on the real bytes: the file Represents the table of the python-side key set (n-grams + blanks by
    # suffix closure), with the values / child ranges the real lookups report -> by check_sound + trie_refines, FullScore over
    # these bytes = FullScore over that table.  Fails if a child range is unsorted, holds a record that is no key, or misses a key.
    keys = set()
    for k, ents in model["entries"].items():
        for g, _ in ents:
            g = tuple(g)
            for j in range(len(g)):
                keys.add(g[j:])
    if not model["saw_unk"]:
        keys.add(("<unk>",))
    keys = sorted(keys, key=lambda g: (len(g), g))
    if len(keys) <= 700:
        kq = [[ids.get(w, 0) for w in g][::-1] for g in keys]
        rc3, o3, e3 = pair.harness(["load T %d %s 0 0" % (ty, path)] + ["trieq T " + " ".join(map(str, q)) for q in kq])
        toks = []
        okk = rc3 == 0 and len(o3) == len(kq) + 1
        if okk:
            for q, line in zip(kq, o3[1:]):
                last = line.split()[-1]
                if last == "nf" or len(line.split()) != len(q) + 1:
                    out.append(("an n-gram (or blank) of the model is not found by the real TrieSearch", {"key_ids": q, "impl": line}))
                    okk = False
                    break
                parts = last.split(":")
                toks.append(",".join(map(str, q)) + ":" + ":".join(parts[1:]))
        if okk:
            rc4, o4, e4 = pair.driver([dops[0], "triecheck %d %s" % (model["order"], " ".join(toks))], timeout=600)
            ctx.count(("triecheck", ty, len(keys), o4[-1] if o4 else None), nontrivial=len(keys) > 8)
            ctx.hist("triecheck", (o4[-1].split()[1] if o4 and o4[-1].startswith("triecheck") else "error"))
            if rc4 != 0 or len(o4) != 2 or not o4[1].startswith("triecheck true"):
                out.append(("the verified checker `TrieLM.check` rejects the real file: its bytes do not Represent the model's table",
                            {"driver": o4[-1:] , "keys": len(keys), "stderr": e4[-500:]}))
    for q, a, b in zip(qs, o1[1:], o2[1:]):
        nf = a.endswith("nf")
        ctx.count(("trielm", ty, tuple(q), a), nontrivial=len(q) >= 2)
        ctx.hist("trielm.result", ("absent" if nf else "found") + str(len(q)))
        if a != b:
            out.append(("TrieLM lookup on the file's bytes differs from the real TrieSearch lookup",
                        {"ngram_reversed_ids": q, "impl": a, "model": b}))
            break
    return out



# --------------------------------------------------------------------------- model builder vs real builder
def gram_tokens(grams, order, ids, saw_unk):
    """grams: {n: {forward words tuple: (prob_text, backoff_text or None)}} -> `ids:probbits:backoffbits` tokens as
    read_arpa.cc parses them (positive prob clamped to 0, zero / absent back-off = -0.0, no back-off at the top order)."""
    toks = []
    for n in sorted(grams):
        for g, (pt, bt) in grams[n].items():
            p = f32_bits(pt)
            if p < 0x80000000 and p != 0:
                p = 0
            b = 0x80000000
            if bt is not None and n < order:
                b = f32_bits(bt)
                if b in (0, 0x80000000):
                    b = 0x80000000
            key = [ids.get(w, 0) for w in g][::-1]
            toks.append(",".join(map(str, key)) + ":%d:%d" % (p, b if n < order else 0))
    # no record for a missing <unk>: the Lean builder makes the zeroed slot itself (withUnkSlot) and applies the fix-up after
    return toks


def render_arpa(grams, order):
    lines = ["\\data\\"] + ["ngram %d=%d" % (n, len(grams[n])) for n in range(1, order + 1)] + [""]
    for n in range(1, order + 1):
        lines.append("\\%d-grams:" % n)
        for g, (pt, bt) in grams[n].items():
            lines.append(pt + "\t" + " ".join(g) + ("\t" + bt if bt is not None and n < order else ""))
        lines.append("")
    lines += ["\\end\\", ""]
    return "\n".join(lines).encode()


def _q(rng, lo, hi):
    return "%g" % (-rng.randint(lo, hi) / 16.0)


def unk_class_cases(rng, nrandom):
    """Input class of the known finding `blank-based-on-hallucinated-unk`: ARPA without an <unk> unigram, n-grams containing
    the literal <unk>, suffixes pruned so that blanks with newest word <unk> (and messages to the <unk> slot) are needed.
    The real builder computes those blanks from the zeroed slot 0; the Lean builder must write the same bytes."""
    U = "<unk>"
    uni = {("<s>",): ("-1.0", "-0.5"), ("</s>",): ("-1.5", None), ("a",): ("-1.25", "-0.25"), ("b",): ("-1.75", "-0.125"),
           ("c",): ("-2.0", "-0.375")}
    fixed = [
        # corpus/C01_blank_on_hallucinated_unk.json: blank `b <unk>`
        (3, {2: {("a", "b"): ("-0.5", "-0.0625"), ("<s>", "a"): ("-0.75", "-0.03125")}, 3: {("a", "b", U): ("-0.375", None)}}),
        # chain of two blanks with newest word <unk>: `b <unk>`, `a b <unk>`
        (4, {2: {("<s>", "a"): ("-0.75", "-0.03125"), ("a", "b"): ("-0.5", "-0.0625")}, 3: {("<s>", "a", "b"): ("-0.625", "-0.25")},
             4: {("<s>", "a", "b", U): ("-0.375", None)}}),
        # <unk> inside: blank `<unk> b` asks the zeroed slot for its back-off; real `a <unk>` ends in <unk>
        (3, {2: {("a", U): ("-0.5", "-0.0625")}, 3: {("a", U, "b"): ("-0.25", None)}}),
        # control: no blank, real n-grams end in <unk>
        (3, {2: {("a", "b"): ("-0.5", "-0.0625"), ("b", U): ("-0.875", "-0.5")}, 3: {("a", "b", U): ("-0.375", None)}}),
        # blank `c <unk>` shared by two trigrams, plus a blank not ending in <unk>
        (3, {2: {("a", "c"): ("-0.5", None), ("b", "c"): ("-0.5", "0"), ("a", "b"): ("-0.25", "-0.125")},
             3: {("a", "c", U): ("-0.375", None), ("b", "c", U): ("-0.4375", None), ("a", "b", "c"): ("-0.3125", None)}}),
    ]
    out = []
    for order, hi in fixed:
        grams = {1: dict(uni)}
        for n in range(2, order + 1):
            grams[n] = dict(hi.get(n, {}))
        out.append((render_arpa(grams, order), grams, order, "fixed"))
    words = ["<s>", "</s>", "a", "b", "c"]
    for _ in range(nrandom):
        order = rng.choice([3, 3, 4])
        grams = {n: {} for n in range(1, order + 1)}
        for w in words:
            grams[1][(w,)] = (_q(rng, 4, 60), rng.choice([None, "0", _q(rng, 1, 20)]))
        for _k in range(rng.randint(2, 7)):
            n = rng.randint(2, order)
            g = []
            for i in range(n):
                pool = ["a", "b", "c", U, U] + (["<s>"] if i == 0 else []) + (["</s>"] if i == n - 1 else [])
                g.append(rng.choice(pool))
            if rng.random() < 0.7:
                g[-1] = U
            g = tuple(g)
            while len(g) >= 2:        # context closure (the real builder throws on a missing context)
                if g not in grams[len(g)]:
                    grams[len(g)][g] = (_q(rng, 1, 40), rng.choice([None, "0", _q(rng, 1, 20)]) if len(g) < order else None)
                g = g[:-1]
        if not all(grams[n] for n in grams):
            continue
        out.append((render_arpa(grams, order), grams, order, "random"))
    return out


def grams_of_entries(model):
    out = {}
    for k, ents in model["entries"].items():
        d = out.setdefault(int(k), {})
        for g, line in ents:
            parts = line.split("\t")
            d[tuple(g)] = (parts[0], parts[2] if len(parts) > 2 else None)
    return out


def triebuild_stream(ctx, pair, d, arpa_bytes, grams, order, tag):
    """The Lean builder (Model/TrieBuild.lean: visit order, blanks with float back-off sums, extension marks, then the fold
    TrieLM.ofTable) runs on the parsed n-grams; its memory must equal, byte for byte, the search region of the file the real
    `build_binary trie` wrote.  The array / quantised variants are compared through lookups (structure; values if unquantised)."""
    out = []
    arpa = os.path.join(d, "tb.arpa")
    with open(arpa, "wb") as f:
        f.write(arpa_bytes)
    files = {ty: os.path.join(d, "tb%d.bin" % ty) for ty in (2, 4, 5)}
    ops = []
    for ty in (2, 4, 5):
        ops += ["build A%d %d %s %s after 0 1 %d 5 4 %d" % (ty, ty, arpa, files[ty], MULTS[0], 3), "free A%d" % ty if ty != 2 else "enumdump A2"]
    ops += ["hdrparse " + files[2]]
    rc, o, e = pair.harness(ops)
    if rc != 0 or len(o) != len(ops):
        return [("harness died while building the trie files (rc=%s)" % rc, {"stderr": e[-1500:]})]
    if not o[0].startswith("ok"):
        ctx.hist("triebuild", "unloadable:" + o[0])
        # error class: the model builder must reject it too (checked below with the ARPA-order ids we cannot know) -> skipped
        return []
    ids = {}
    for pr in o[1].split()[1:]:
        i, hx = pr.split("=", 1)
        ids[bytes.fromhex(hx).decode("utf-8", "replace")] = int(i)
    counts = list(map(int, o[-1].split("counts=")[1].split(",")))
    saw_unk = any(g[0] in ("<unk>", "<UNK>") for g in grams[1])
    toks = gram_tokens(grams, order, ids, saw_unk)
    with open(files[2], "rb") as f:
        data = f.read()
    search = ((88 + 20 + 8 * order - 1) // 8 + 1) * 8 + 8 + 8 * counts[0]
    keys = [t.split(":")[0].replace(",", " ") for t in toks]
    ctx.rng.shuffle(keys)
    keys = keys[:200]
    dops = ["triebuild %d %d %d %d %s %s" % (order, counts[0], search, f32_bits("-100"), " ".join(toks), data[search:].hex())] + ["trieq " + k for k in keys]
    rc2, o2, e2 = pair.driver(dops, timeout=600)
    if rc2 != 0 or len(o2) != len(dops):
        return [("driver failed in triebuild", {"rc": rc2, "stderr": e2[-800:]})]
    ctx.count(("triebuild", tag, hashlib.sha256(arpa_bytes).hexdigest()), nontrivial=len(toks) > 8)
    res = o2[0]
    blanks = res.split("blanks=")[1].split()[0] if "blanks=" in res else "?"
    ctx.hist("triebuild", "equal" if res.endswith("equal") else res.split()[1] + ("" if res.startswith("tb ok") else " " + res.split()[-1]))
    ctx.hist("triebuild.blanks", min(int(blanks), 50) if blanks.isdigit() else blanks)
    if "represents=false" in res:
        out.append(("the verified checker rejects the trie built by the Lean builder (Represents (ofTable ..) fails on this model)",
                    {"driver": res[:300], "ngrams": len(toks)}))
    if not res.startswith("tb ok") or not res.endswith(" equal") or ("counts=" + ",".join(map(str, counts))) not in res:
        out.append(("the trie memory built by the Lean builder differs from the search region the real build_binary wrote",
                    {"driver": res[:300], "real_counts": counts, "ngrams": len(toks)}))
        return out
    # array / quantised variants: same structure (child ranges), same values when not quantised
    for ty in (4, 5):
        rc3, o3, e3 = pair.harness(["load T %d %s 0 0" % (ty, files[ty])] + ["trieq T " + k for k in keys])
        if rc3 != 0 or len(o3) != len(keys) + 1:
            out.append(("harness died on the %s file" % TYPE_NAMES[ty], {"stderr": e3[-800:]}))
            continue

        def strip(line):
            return " ".join(":".join([t.split(":")[0]] + t.split(":")[3:]) if t[:2] in ("u:", "m:") else t.split(":")[0] for t in line.split())
        for k, a, b in zip(keys, o3[1:], o2[1:]):
            same = (a == b) if ty == 4 else (strip(a) == strip(b))
            if not same:
                out.append(("lookups in the real %s differ from the trie built by the Lean builder" % TYPE_NAMES[ty],
                            {"key_ids": k, "impl": a, "model": b}))
                break
    return out


def triebuild4_stream(ctx, pair, d, arpa_bytes, grams, order, rng):
    """All four trie classes byte for byte: the Lean builder (buildTableArpa) followed by Model/TrieG.ofTableG (ArrayBhiksha offset
    tables + inline low bits; SeparatelyQuantize tables trained by QSpec.train with IEEE single arithmetic, codes in the records)
    must produce the search region `build_binary` wrote for trie / quant-trie / array-trie / quant-array-trie, for random
    -q / -b / -a settings."""
    arpa = os.path.join(d, "g.arpa")
    with open(arpa, "wb") as f:
        f.write(arpa_bytes)
    ab = rng.choice([0, 1, 2, 3, 5, 8, 64])
    pb = rng.choice([2, 3, 5, 8, 12])
    bb = rng.choice([2, 3, 4, 8, 12])
    files = {ty: os.path.join(d, "g%d.bin" % ty) for ty in (2, 3, 4, 5)}
    ops = []
    for ty in (2, 3, 4, 5):
        ops += ["build A%d %d %s %s after 0 1 %d %d %d %d" % (ty, ty, arpa, files[ty], MULTS[0], pb, bb, ab),
                "free A%d" % ty if ty != 2 else "enumdump A2"]
    ops += ["hdrparse " + files[2]]
    rc, o, e = pair.harness(ops)
    if rc != 0 or len(o) != len(ops):
        return [("harness died while building the four trie files (rc=%s)" % rc, {"stderr": e[-1500:]})]
    if not all(o[i].startswith("ok") for i in (0, 2, 4, 6)):
        ctx.hist("triebuild4", "unloadable")
        return []
    ids = {}
    for pr in o[1].split()[1:]:
        i, hx = pr.split("=", 1)
        ids[bytes.fromhex(hx).decode("utf-8", "replace")] = int(i)
    counts = list(map(int, o[-1].split("counts=")[1].split(",")))
    saw_unk = any(g[0] in ("<unk>", "<UNK>") for g in grams[1])
    toks = gram_tokens(grams, order, ids, saw_unk)
    search = ((88 + 20 + 8 * order - 1) // 8 + 1) * 8 + 8 + 8 * counts[0]
    dops = []
    for ty in (2, 3, 4, 5):
        with open(files[ty], "rb") as f:
            data = f.read()
        dops.append("triebuildG %d %d %d %d %d %d %d %d %s %s" % ({2: 0, 3: 2, 4: 1, 5: 3}[ty], ab, pb, bb, order, counts[0], search,
                                                                 f32_bits("-100"), " ".join(toks), data[search:].hex()))
    rc2, o2, e2 = pair.driver(dops, timeout=900)
    if rc2 != 0 or len(o2) != 4:
        return [("driver failed in triebuildG", {"rc": rc2, "stderr": e2[-800:]})]
    out = []
    for ty, line in zip((2, 3, 4, 5), o2):
        ctx.count(("triebuild4", ty, ab, pb, bb, hashlib.sha256(arpa_bytes).hexdigest()), nontrivial=len(toks) > 8)
        ctx.hist("triebuild4", "%s:%s" % (TYPE_NAMES[ty], "equal" if line.endswith(" equal") else "diff"))
        if " negzero=" in line and " negzero=0 " not in line:
            out.append(("arithmetic assumption of the structural theorem broken: the real quantiser arithmetic produced -0.0 as a back-off bin centre",
                        {"driver": line[:300], "prob_bits": pb, "backoff_bits": bb}))
        if not (line.startswith("tbg ok") and line.endswith(" equal")):
            out.append(("the %s memory built by the Lean builder (ofTableG) differs from the search region build_binary wrote" % TYPE_NAMES[ty],
                        {"driver": line[:300], "bhiksha_bits": ab, "prob_bits": pb, "backoff_bits": bb, "ngrams": len(toks)}))
    return out


def full_grid():
    g = []
    for name in ("m1", "a0", "m0", "a1"):
        for lm in range(4):
            for ev in (0, 1):
                g.append((name, lm, ev))
    return g


def some_grid(rng, n):
    g = full_grid()
    rng.shuffle(g)
    keep = g[:n]
    # always one of each load method
    for lm in range(4):
        if not any(x[1] == lm for x in keep):
            keep.append((rng.choice(["m1", "a0"]), lm, 0))
    return keep


# --------------------------------------------------------------------------- component streams (model vs code)
def component_ops(rng, n):
    ops = []
    for _ in range(n):
        r = rng.random()
        if r < 0.3:
            # ArrayBhiksha round trip on a monotone pointer sequence ending at max_next
            ln = rng.choice([1, 2, 3, 5, 9, 30, 120])
            mx = rng.choice([0, 1, 2, 7, 8, 63, 64, 1000, 5000, 70000, rng.randrange(1, 1 << rng.randrange(1, 24))])
            vs = sorted(rng.choice([0, mx, rng.randrange(0, mx + 1)]) for _ in range(ln))
            vs[-1] = mx
            bits = rng.choice([0, 1, 2, 3, 5, 8, 22, 64, 255])
            ops.append("bhiksha %d %d %d %s" % (len(vs), mx, bits, " ".join(map(str, vs))))
        elif r < 0.5:
            m = rng.choice(MULTS + [fbits(1.0 + rng.random() * 4), fbits(1.0), fbits(100.0)])
            e = rng.choice([0, 1, 2, 3, 100, (1 << 24) - 1, 1 << 24, (1 << 24) + 1, (1 << 25) + 3, rng.getrandbits(rng.randrange(1, 50))])
            ops.append("buckets %d %d" % (m, e))
        elif r < 0.8:
            ty = rng.randrange(6)
            order = rng.randrange(2, 7)
            mag = rng.choice([4, 10, 20, 30, 40])
            counts = [rng.randrange(1, 1 << rng.randrange(1, mag + 1)) for _ in range(order)]
            ops.append("sizes %d %d %d %d %d %s" % (ty, rng.choice(MULTS), rng.randrange(1, 26), rng.randrange(1, 26),
                                                  rng.choice([0, 1, 2, 5, 8, 22, 64, 255]), " ".join(map(str, counts))))
        else:
            bits = rng.randrange(2, 6)
            reserved = rng.choice([0, 2])
            pool = [fbits(-rng.choice([0.25, 0.5, 0.75, 1.0, 1.5, 2.0, 3.0, 10.0]) if rng.random() < 0.6 else -rng.random() * 5) for _ in range(rng.randrange(1, 12))]
            if reserved == 2:
                pool += [fbits(0.3)]
            nv = rng.choice([0, 1, 2, (1 << bits) - reserved, (1 << bits) + 1, 40])
            vals = [rng.choice(pool) for _ in range(nv)]
            qs = [rng.choice(vals) for _ in range(min(6, len(vals)))] + [rng.choice(pool), fbits(-rng.random() * 6)]
            if reserved == 2:
                qs += [0, 0x80000000]
            ops.append("quant %d %d %d %s %s" % (bits, reserved, len(vals), " ".join(map(str, vals)), " ".join(map(str, qs))))
    return ops


def header_mutation_stream(ctx, pair, d, sample_file):
    """hdrparse on damaged headers: implementation and model must agree on the verdict class."""
    with open(sample_file, "rb") as f:
        data = bytearray(f.read())
    muts = []
    rng = ctx.rng
    for i in range(30):
        b = bytearray(data)
        kind = i % 6
        if kind == 0:
            p = rng.randrange(0, 88)
            b[p] ^= 1 << rng.randrange(8)
        elif kind == 1:
            b = b[:rng.choice([0, 1, 40, 87, 88, 89, 100, 108, 110, 120])]
        elif kind == 2:
            b[:45] = b"mmap lm http://kheafield.com/code incomplete\n"
        elif kind == 3:
            b[49] = ord(rng.choice("4679"))
        elif kind == 4:
            b[92:96] = struct.pack("<f", [float("nan"), 0.999, -2.0, 1.0, 0.5][(i // 6) % 5])
        else:
            b[88] = rng.choice([0, 1, 7, 200])       # order byte: counts run past the end of small files
            b = b[:rng.choice([112, 136, len(b)])]
        muts.append(bytes(b))
    hops, dops = [], []
    for i, m in enumerate(muts):
        p = os.path.join(d, "mut%d.bin" % i)
        with open(p, "wb") as f:
            f.write(m)
        hops.append("hdrparse " + p)
        dops.append("hdrparse " + m[:1024].hex() if m else "hdrparse")
    rc1, o1, e1 = pair.harness(hops)
    rc2, o2, e2 = pair.driver(dops)
    found = False
    for i, (a, b) in enumerate(zip(o1, o2)):
        ctx.count(("hdrmut", muts[i][:160]), nontrivial=True)
        ctx.hist("hdrmut.verdict", a.split()[0] + (" " + a.split()[1] if a.startswith("err") else ""))
        if not muts[i]:
            continue
        if a != b:
            ctx.violation("damaged header: ReadHeader/IsBinaryFormat and the Lean recognizer disagree",
                          {"stream": "hdrmut", "bytes": muts[i][:200].hex(), "impl": a, "model": b}, no_input=True)
            found = True
    if rc1 != 0:
        ctx.violation("harness died on a damaged header (rc=%s)" % rc1, {"stderr": e1[-2000:]})
        found = True
    return found


def run(ctx):
    flags, lg = probe_flags()
    problems = []
    if flags is None:
        problems.append("the tree does not build: " + lg[-2000:])
        flow.report_obligation_failures(ctx, problems, False)
        return
    problems, consts = flow.proof_phase(ctx, "C04", probe="probe_C04.cc", probe_flags=flags, required=REQUIRED,
                                        targets=["Properties.C04", "Properties.C03Trie", "Properties.C03TrieBuild", "Properties.C03TrieG"],
                                        drivers=["drv_C04"])
    # the trie clause of C03 (Properties/C03Trie.lean) is owned by this builder: audited here as well
    if not any("lake build failed" in p_ for p_ in problems):
        o1, d1, t1 = ctx.cov["obligations"], ctx.cov["discharged"], list(ctx.cov.get("theorems", []))
        for pid2, req2 in (("C03Trie", REQUIRED_TRIE), ("C03TrieBuild", REQUIRED_TRIEBUILD), ("C03TrieG", REQUIRED_TRIEG)):
            problems += lean.audit(ctx, pid2, req2)
            o1, d1 = o1 + ctx.cov["obligations"], d1 + ctx.cov["discharged"]
            t1 = t1 + ctx.cov.get("theorems", [])
        ctx.cov["obligations"], ctx.cov["discharged"], ctx.cov["theorems"] = o1, d1, t1
    ok, hexe, lg = repo.harness("c04.cc", libs=True, config="asan")
    if not ok:
        problems.append(lg)
        flow.report_obligation_failures(ctx, problems, False)
        return
    # private copy: the shared build cache is pruned by concurrent builders (the executable vanished mid-run once)
    from vlib.common import scratch_dir
    hcopy = os.path.join(scratch_dir("c04_exe"), "c04_%d" % os.getpid())
    shutil.copy2(hexe, hcopy)
    hexe = hcopy
    dexe = lean.driver_path("drv_C04")
    if not os.path.exists(dexe):
        flow.report_obligation_failures(ctx, problems + ["driver drv_C04 was not built"], False)
        return
    pair = Pair(hexe, dexe)
    d = fresh_scratch("c04_%d_%d" % (ctx.seed, os.getpid()))
    found = False
    try:
        rng = ctx.rng
        quick = ctx.tier == "quick"
        os.makedirs(os.path.join(d, "tbd"), exist_ok=True)
        n_models = 30 if quick else 500
        models = []
        # fixed coverage first: every order, with/without <unk>, closed/pruned, then random
        for order, wu, pr, size in ((2, True, False, "small"), (3, False, True, "medium"), (4, True, True, "small"),
                                    (5, False, False, "small"), (6, False, True, "small"), (6, True, False, "tiny"),
                                    (rng.choice([3, 4, 5]), False, True, "large"), (3, True, False, "large")):
            models.append(C04_gen.gen_model(rng, order=order, with_unk=wu, pruned=pr, size=size))
        while len(models) < n_models:
            models.append(C04_gen.gen_model(rng))
        models.sort(key=lambda m: len(m["text"]), reverse=bool(os.environ.get("C04_LARGE_FIRST")))   # debug knob: exercise the shrinker
        sample_file = None
        for mi, model in enumerate(models):
            if len(ctx.violations) >= 6:
                log('  stopping the binary stream after %d violations' % len(ctx.violations))
                break
            queries = C04_gen.gen_queries(rng, model)
            ctx.hist("model.order", model["order"])
            ctx.hist("model.unk", model["saw_unk"])
            ctx.hist("model.needs_blanks", model["needs_blanks"])
            ctx.hist("model.ngrams", len(str(sum(model["counts"]))))
            types = list(range(6))
            tb = triebuild_stream(ctx, pair, os.path.join(d, "tbd"), model["text"], grams_of_entries(model), model["order"], "c04gen")
            for what, detail in tb[:2]:
                ctx.violation("correspondence: " + what, {"stream": "triebuild", "arpa_text": model["text"].decode("utf-8", "replace")[:4000], "detail": detail}, no_input=True)
                problems.append("triebuild correspondence broken: " + what)
            if not quick or mi % 2 == 0:
                pass
            for ty in types:
                if len(ctx.violations) >= 6:
                    break
                cfg = (rng.choice(MULTS), rng.choice([2, 3, 5, 8, 8, 11]), rng.choice([2, 3, 4, 8, 8, 10]),
                       rng.choice([0, 1, 2, 3, 5, 8, 22, 22, 64, 255]))
                grid = full_grid() if (not quick and mi % 4 == 0) or (quick and mi < 2) else some_grid(rng, 6 if quick else 10)
                cd = os.path.join(d, "c")
                shutil.rmtree(cd, ignore_errors=True)
                os.makedirs(cd)
                bad, corr, info = run_case(ctx, pair, cd, model, queries, ty, cfg, grid)
                ctx.hist("type", TYPE_NAMES[ty])
                if info.get("unloadable"):
                    ctx.hist("unloadable", info["ref"])
                if mi < 1 and ty in (0, 5):
                    ctx.sample({"type": TYPE_NAMES[ty], "order": model["order"], "counts": model["counts"],
                                "fixed_counts": model["fixed_counts"], "saw_unk": model["saw_unk"], "cfg": cfg,
                                "ref": info.get("ref"), "queries": info.get("queries")})
                shrunk = None
                if bad and ctx.notes.get("shrinks", 0) < 2 and sum(model["counts"]) > 10:
                    ctx.notes["shrinks"] = ctx.notes.get("shrinks", 0) + 1
                    fgrid = [tuple(det["case"][1:4]) for _, det in bad if isinstance(det.get("case"), (tuple, list)) and det["case"][0] in ("load", "query", "enum", "layout")]
                    fgrid = (fgrid or list(grid))[:4]

                    def still_fails(m2, cd=cd, ty=ty, cfg=cfg, fgrid=fgrid):
                        shutil.rmtree(cd, ignore_errors=True)
                        os.makedirs(cd)
                        b2, _, _ = run_case(ctx, pair, cd, m2, queries, ty, cfg, fgrid, count=False)
                        return bool(b2)
                    small, ntests = C04_gen.shrink(model, still_fails, max_tests=60 if quick else 200)
                    if len(small["text"]) < len(model["text"]):
                        shutil.rmtree(cd, ignore_errors=True)
                        os.makedirs(cd)
                        bad_s, corr_s, _ = run_case(ctx, pair, cd, small, queries, ty, cfg, fgrid, count=False)
                        if bad_s:
                            log("  shrunk failing ARPA from %d to %d bytes in %d tests" % (len(model["text"]), len(small["text"]), ntests))
                            shrunk = {"original_arpa_bytes": len(model["text"]), "shrink_tests": ntests}
                            model, bad, corr, grid = small, bad_s, corr_s, fgrid
                replay = {"stream": "binary", "type": ty, "type_name": TYPE_NAMES[ty], "cfg": list(cfg), "grid": grid, "shrunk": shrunk,
                          "arpa_b64": base64.b64encode(model["text"]).decode(), "arpa_text": model["text"].decode("utf-8", "replace")[:3000],
                          "queries_b64": base64.b64encode(queries).decode(),
                          "model_facts": {k: model[k] for k in ("order", "counts", "fixed_counts", "saw_unk", "needs_blanks", "vocab_words")},
                          "replay_cmd": "python3 check.py C04 --replay <this file>"}
                for what, detail in bad[:3]:
                    ctx.violation(what, dict(replay, detail=detail))
                    found = True
                for what, detail in corr[:3]:
                    ctx.violation("correspondence: " + what, dict(replay, detail=detail), no_input=not bad)
                    found = found or bool(bad)
                if corr and not bad:
                    problems.append("correspondence broken (layout model vs real code) on type %s: %s" % (TYPE_NAMES[ty], corr[0][0]))
                if sample_file is None and not info.get("unloadable") and not bad:
                    src = os.path.join(cd, "t%d.m1.bin" % ty)
                    if os.path.exists(src):
                        sample_file = os.path.join(d, "sample.bin")
                        shutil.copy(src, sample_file)
        # the same with the generator of the lm builder (SRI-pruned chains, shared multi-level blanks, odd values)
        from checks import lmgen
        for ci in range(10 if quick else 200):
            c = lmgen.gen_case(rng, size="small" if quick else rng.choice(["small", "medium"]),
                               force={"kind": rng.choice(["pruned", "pruned", "corpus", "random"])})
            ctx.hist("triebuild.lmgen_kind", c.meta.get("kind"))
            tb = triebuild_stream(ctx, pair, os.path.join(d, "tbd"), c.arpa, c.grams, c.meta["order"], "lmgen")
            for what, detail in tb[:2]:
                ctx.violation("correspondence: " + what, {"stream": "triebuild", "arpa_text": c.arpa.decode("utf-8", "replace")[:4000], "detail": detail}, no_input=True)
                problems.append("triebuild correspondence broken: " + what)
            if len(ctx.violations) >= 6:
                break
        # the class of the known finding blank-based-on-hallucinated-unk: no <unk> unigram, blanks whose newest word is <unk>
        for (ab, gr, od, kind) in unk_class_cases(rng, 2 if quick else 60):
            ctx.hist("triebuild.unk_class", kind)
            tb = triebuild_stream(ctx, pair, os.path.join(d, "tbd"), ab, gr, od, "unkclass")
            for what, detail in tb[:2]:
                ctx.violation("correspondence: " + what, {"stream": "triebuild", "arpa_text": ab.decode("utf-8", "replace")[:4000], "detail": detail}, no_input=True)
                problems.append("triebuild correspondence broken (hallucinated-<unk> class): " + what)
            if len(ctx.violations) >= 6:
                break
        # component streams
        ops = component_ops(rng, 1500 if quick else 20000)
        # replay of the Lean witness quant_lossy_when_count_exceeds_bins on the real quantiser: -0.25 x3, -0.75, one bit
        ops.insert(0, "quant 1 0 4 %d %d %d %d %d" % (fbits(-0.25), fbits(-0.25), fbits(-0.25), fbits(-0.75), fbits(-0.75)))
        (rc1, o1, e1) = pair.harness(ops)
        (rc2, o2, e2) = pair.driver(ops)
        if rc1 != 0:
            ctx.violation("harness died in a component op (rc=%s)" % rc1, {"stderr": e1[-2000:], "ops": ops[len(o1):len(o1) + 1]})
            found = True
        for i, op in enumerate(ops):
            a = o1[i] if i < len(o1) else None
            b = o2[i] if i < len(o2) else None
            kind = op.split()[0]
            ctx.count((kind, op), nontrivial=len(op.split()) > 4)
            ctx.hist("component", kind)
            if a != b:
                ctx.violation("component model and implementation disagree (%s)" % kind,
                              {"stream": "component", "op": op, "impl": a, "model": b}, no_input=True)
                problems.append("component correspondence broken: " + kind)
                break
            if i == 0 and kind == "quant" and a is not None:
                ctx.notes["quant_witness_replay"] = a
                if not a.endswith("enc=0:%d" % fbits(-0.5)):
                    ctx.violation("the real quantiser does not reproduce the Lean witness (value -0.75 decoded as -0.5 with 4 values in 2 bins)",
                                  {"stream": "component", "op": op, "impl": a}, no_input=True)
            if kind == "bhiksha" and a and " err" not in a:
                # property oracle: every pointer pair is read back
                vs = op.split()[4:]
                want = ",".join("%s:%s" % (vs[j], vs[j + 1]) for j in range(len(vs) - 1))
                got = a.split("reads=")[1] if "reads=" in a else None
                if got != want:
                    ctx.violation("ArrayBhiksha does not read back the pointers that were written",
                                  {"stream": "component", "op": op, "impl": a, "expected_reads": want})
                    found = True
        if sample_file:
            found = header_mutation_stream(ctx, pair, d, sample_file) or found
        # all four trie classes byte for byte (Model/TrieG.ofTableG); own generator so that the older streams keep their draws
        import random as _random
        rng4 = _random.Random(ctx.seed * 7919 + 4)
        from checks import lmgen as _lmgen
        cases4 = [(ab_, gr_, od_) for (ab_, gr_, od_, _k) in unk_class_cases(rng4, 1 if quick else 20)][-(2 if quick else 25):]
        for _ in range(4 if quick else 60):
            c4 = _lmgen.gen_case(rng4, size="small", force={"kind": rng4.choice(["pruned", "pruned", "corpus", "random"])})
            cases4.append((c4.arpa, c4.grams, c4.meta["order"]))
        for (ab_, gr_, od_) in cases4:
            tb4 = triebuild4_stream(ctx, pair, os.path.join(d, "tbd"), ab_, gr_, od_, rng4)
            for what, detail in tb4[:2]:
                ctx.violation("correspondence: " + what, {"stream": "triebuild4", "arpa_text": ab_.decode("utf-8", "replace")[:4000], "detail": detail}, no_input=True)
                problems.append("triebuild4 correspondence broken: " + what)
            if len(ctx.violations) >= 6:
                break
    finally:
        shutil.rmtree(d, ignore_errors=True)
        try:
            os.unlink(hcopy)
        except OSError:
            pass
    ctx.cov["rule"] = ("binary: one evaluation = one load of a written file (model x type x config x file variant x load_method x "
                       "enumerate_vocab) compared with the ARPA-built model on a query file; non-trivial when the load succeeds and the "
                       "model has >= 8 n-grams; distinct by (ARPA hash, type, config, file variant, load method, enumerate). component: "
                       "one op of bhiksha/buckets/sizes/quant, distinct by op text. hdrmut: one damaged header.")
    ctx.assumptions += [
        "x86-64 little endian; mmap base addresses are 8-aligned (page aligned) so AlignTo8 on addresses = on file offsets",
        "IEEE-754 single/double arithmetic of the compiler for the probing multiplier product and the quantiser means",
        "64-bit hash collisions between vocabulary words / n-grams do not occur in the generated models",
        "OS: mmap/read/msync/page cache behave as documented (load methods compared by correspondence only)",
    ]
    flow.report_obligation_failures(ctx, problems, found)


def replay(ctx, path):
    with open(path) as f:
        r = json.load(f)
    if r.get("stream") != "binary":
        print(json.dumps(r, indent=1)[:4000])
        return 1
    flags, lg = probe_flags()
    ok, hexe, lg = repo.harness("c04.cc", libs=True, config="asan")
    lean.lake_build(["drv_C04"])
    pair = Pair(hexe, lean.driver_path("drv_C04"))
    d = fresh_scratch("c04_replay_%d" % os.getpid())
    try:
        model = dict(r["model_facts"])
        model["text"] = base64.b64decode(r["arpa_b64"])
        bad, corr, info = run_case(ctx, pair, d, model, base64.b64decode(r["queries_b64"]), r["type"], tuple(r["cfg"]),
                                   [tuple(g) for g in r["grid"]])
        for what, detail in bad + corr:
            print("REPLAY: %s: %s" % (what, json.dumps(detail)[:600]))
        return 1 if (bad or corr) else 0
    finally:
        shutil.rmtree(d, ignore_errors=True)
