"""C19 hard-input corpus: floats / doubles whose shortest text is hard to read back for reasons that are
properties of IEEE arithmetic and of the digit generator, not of kenlm's reader (see `classify-f32` in
harness/c19.cc for the class definitions: dr, mid, tie, big, d9, pow2).

    python3 -m checks.C19_hard            # regenerate corpus/C19_hard_floats.txt and corpus/C19_hard_doubles.txt
                                          # (all 2^31 positive floats, ~5 min on 14 threads; run on the UNCHANGED tree)

The quick tier always runs the committed corpus first through the full oracle (util::ToString canary, characters,
StringStream/FileStream, FilePiece::ReadFloat/ReadDouble bit-identical round trip, model fidelity)."""
import os
import subprocess
import sys
import zlib

sys.path.insert(0, os.path.dirname(os.path.dirname(os.path.abspath(__file__))))
from vlib.common import REPO, VERIF, NPROC  # noqa: E402

FLOATS = os.path.join(VERIF, "corpus", "C19_hard_floats.txt")
DOUBLES = os.path.join(VERIF, "corpus", "C19_hard_doubles.txt")


def load(path):
    """[(bits, classes)]"""
    out = []
    if not os.path.exists(path):
        return out
    for ln in open(path):
        ln = ln.strip()
        if not ln or ln.startswith("#"):
            continue
        w = ln.split()
        out.append((int(w[0]), w[1] if len(w) > 1 else ""))
    return out


def keep(bits, one_in):
    return zlib.crc32(str(bits).encode()) % one_in == 0


def classify_floats(exe, threads, lo=0, hi=1 << 31):
    """Runs the classifier; returns (selected lines incl. mirrored negatives, totals line)."""
    r = subprocess.run([exe, "classify-f32", str(lo), str(hi), str(threads)], capture_output=True, text=True, timeout=7200)
    if r.returncode != 0:
        raise RuntimeError("classifier failed: " + r.stderr[-500:])
    sel, totals = [], ""
    for ln in r.stdout.splitlines():
        if ln.startswith("#"):
            totals = ln
            continue
        w = ln.split()
        bits, cls = int(w[0]), set(w[1].split(","))
        if cls & {"dr", "mid"}:
            sel.append(ln)
            sel.append(" ".join([str(bits | 0x80000000), w[1], w[2].replace("text=", "text=-")] + w[3:]))
        elif cls & {"tie", "d9", "pow2"}:
            sel.append(ln if keep(bits, 2) else " ".join([str(bits | 0x80000000), w[1], w[2].replace("text=", "text=-")] + w[3:]))
        elif keep(bits, 16):        # big only: the harness samples 1/512 of 17.6 M, keep a further 1/16
            sel.append(ln)
    return sel, totals


def main():
    from checks import C19_util
    ok, exe, lg = C19_util.build("fast")
    if not ok:
        sys.exit(lg)
    commit = subprocess.run(["git", "-C", REPO, "rev-parse", "--short", "HEAD"], capture_output=True, text=True).stdout.strip()
    dirty = subprocess.run(["git", "-C", REPO, "status", "--porcelain", "--untracked-files=no"], capture_output=True, text=True).stdout.strip()
    thr = max(2, min(14, NPROC - 2))
    sel, totals = classify_floats(exe, thr)
    head = [
        "# C19 hard floats: produced by `python3 -m checks.C19_hard` = harness/c19.cc `classify-f32 0 2^31` over ALL positive",
        "# float bit patterns (finite, non-zero) on /repo commit %s%s; classes are computed with libc strtof/strtod/strtold and" % (commit, " (+local modifications)" if dirty else ""),
        "# double-conversion's digit generator only (kenlm's reader is not involved):",
        "#   dr   strtof(t) == f but (float)strtod(t) != f (double-rounding sensitive)              all (mirrored to negative)",
        "#   mid  t not exact in double, strtod(t) within 64 double-ulps of a float midpoint          all (mirrored to negative)",
        "#   tie  t exactly a midpoint of two adjacent floats (round-half-even decides)             1/1024 sample",
        "#   d9   shortest text has 9 significant digits                                            1/16384 sample",
        "#   big  Grisu fast path fails, Bignum fallback generates the digits                       1/8192 sample",
        "#   pow2 mantissa zero (asymmetric rounding interval)                                      all",
        "# population %s" % totals.lstrip("# "),
        "# format: <float bits, decimal> <classes> text=<shortest text> [dulps=<distance to the midpoint in double ulps>]",
    ]
    with open(FLOATS, "w") as f:
        f.write("\n".join(head + sel) + "\n")
    print("wrote %s: %d floats (%s)" % (FLOATS, len(sel), totals))
    r = subprocess.run([exe, "classify-f64", "400000000", "1", str(thr)], capture_output=True, text=True, timeout=7200)
    lines = [l for l in r.stdout.splitlines() if "ldulps=0" in l or " dr" in l]
    lines = [l for l in lines if keep(int(l.split()[0]), 16 if " dr" in l else 32)]
    head = [
        "# C19 hard doubles: `classify-f64 400000000 1` (xorshift-random finite doubles) on /repo commit %s: shortest text t whose" % commit,
        "# x87 long double value strtold(t) falls exactly on (ldulps=0) a midpoint between two adjacent doubles, or for which",
        "# strtod(t) == d but (double)strtold(t) != d (dr); 1/32 sample of the former, 1/16 of the latter.",
        "# format: <double bits, decimal> <classes> text=<shortest text> ldulps=<distance in long double ulps>",
    ]
    with open(DOUBLES, "w") as f:
        f.write("\n".join(head + lines) + "\n")
    print("wrote %s: %d doubles" % (DOUBLES, len(lines)))


if __name__ == "__main__":
    main()
