"""C16 — External sort returns the sorted (and combined) multiset of its input."""
import base64
import os
import shutil
import struct
from concurrent.futures import ThreadPoolExecutor

from vlib import flow, lean, repo, stream
from vlib.common import fresh_scratch, log, run

MANIFEST = {
    "text": "Lean theorems over an executable model of util/stream/sort.hh (Offsets run-length log, per-block sort, k-way "
            "priority-queue merge with a combiner folding equal neighbours, passes over any partition of the run list into "
            "consecutive groups, any number of passes, final lazy merge / ReadSingle): output sorted, a permutation of the "
            "input (no combiner), per-key totals preserved and duplicate-free (combiner), result independent of blocks and "
            "plan for total orders; the code's own arity logic (Sort::Merge / MergingReader::Run) is modelled too. Tied to the "
            "code by an in-process harness driving the real Sort / BlockingSort through real Chains against the compiled "
            "Lean driver (same record files), plus a property oracle computed directly in C++ and Python.",
    "note": "Trusted: Lean kernel + propext/Classical.choice/Quot.sound; statements in lean/Properties/C16.lean; "
            "harness/c16.cc, lean/Driver/C16.lean, this comparator and its generators; std::sort / heap tie order among "
            "equal records is not modelled (theorems hold for every tie-break function); disk and threads are transport "
            "(C15/C17); pass count observed through an interposed ftruncate.",
    "technique": "Lean 4 proof (induction/invariants over an executable model) + differential correspondence with the real code",
}

REQUIRED = [
    "KV.C16.prefixOrder_lawful", "KV.C16.suffixOrder_lawful", "KV.C16.contextOrder_lawful", "KV.C16.intOrder_lawful",
    "KV.C16.offsets_roundtrip", "KV.C16.storeRuns_roundtrip", "KV.C16.extSort_isSome", "KV.C16.merge_sorted_perm",
    "KV.C16.extSort_sorted", "KV.C16.extSort_perm", "KV.C16.extSort_sum", "KV.C16.extSort_combine_totals",
    "KV.C16.extSort_nodup", "KV.C16.extSort_unique", "KV.C16.extSort_eq_spec",
    "KV.C16.extSort_canon", "KV.C16.extSort_combine_unique", "KV.C16.extSort_combine_eq_spec",
    "KV.C16.codeSort_refines", "KV.C16.codeSort_sorted_perm", "KV.C16.sizedSort_perm_sorted",
    "KV.C16.counting_suffix", "KV.C16.counting_prefix", "KV.C16.counting_context", "KV.C16.codeSort_ok",
    "KV.C16.codeSort_correct", "KV.C16.bufferedEntry_refines", "KV.C16.merge_ret_sufficient",
    "KV.C16.mergePhase", "KV.C16.sized_swap_exchanges", "KV.C16.sized_swap_records", "KV.C16.swap_matches_code",
    "KV.C16.wordSwap_not_exchange", "KV.C16.sizedSort_bytes", "KV.C16.spill_roundtrip", "KV.C16.spill_m8_breaks",
    "KV.C16.spill_records_roundtrip", "KV.C16.afterBlockSorterBytes_refines", "KV.C16.codeSortBytes_eq_spec",
    "KV.C16.codeSortBytes_ok", "KV.C16.output_blocks_invariant", "KV.C16.counting_int", "KV.C16.intLt_singleton", "KV.C16.proxy_iterator_arith", "KV.C16.pass_spill_bytes", "KV.C16.mergeGroup_uniform",
    "KV.C16.byteEntry_refines", "KV.C16.byteEntry_unrounded_breaks", "KV.C16.stream_write_roundtrip", "KV.C16.pread_blocks_invariant", "KV.C16.pwrite_roundtrip",
    "KV.C16.decodeRun_records", "KV.C16.perBuffer_multiple", "KV.C16.storeRunsBytes_refines", "KV.C16.codeMergeBytes_refines",
    "KV.C16.codeSortBytes_passes_eq_spec", "KV.C16.codeSortBytes_passes_ok", "KV.C16.holePunch_frame",
    "KV.C16.holePunch_c16_8_breaks", "KV.C16.fileEntry_refines", "KV.C16.codeSort_eq_spec", "KV.C16.codeSort_combine_eq_spec",
]

BOOST = ["-Wl,--no-as-needed", "-lboost_thread", "-lboost_system", "-ldl"]


# ---------------------------------------------------------------- python-side comparison keys (independent oracle)
def key_fn(order, kn, rs):
    """sort key of a record (bytes) under the named order; equal keys <=> records compare equal"""
    if order == "int":
        return lambda r: int.from_bytes(r[:kn], "little")
    if order == "bytes":
        return lambda r: r
    def words(r):
        return struct.unpack("<%dI" % kn, r[:4 * kn])
    if order == "prefix":
        return words
    if order == "suffix":
        return lambda r: words(r)[::-1]
    if order == "context":
        return lambda r: (lambda w: w[:-1][::-1] + (w[-1],))(words(r))
    raise ValueError(order)


def keybytes(order, kn, rs):
    return kn if order == "int" else rs if order == "bytes" else 4 * kn


# ---------------------------------------------------------------- generators
def gen_shape(rng):
    """record layout + order + combiner"""
    order = rng.choice(["int", "int", "prefix", "suffix", "suffix", "context", "bytes"])
    comb = "none"
    if order == "int":
        kn = rng.choice([1, 2, 4, 8])
        if rng.random() < 0.35:
            comb, rs = "count", kn + 8
        else:
            rs = rng.choice([kn, kn, kn + 1, kn + 8, rng.randrange(kn, 65), 64])
    elif order == "bytes":
        kn = 0
        rs = rng.choice([1, 2, 3, 4, 8, 12, 16, 17, 20, 24, 28, 32, 33, 63, 64, rng.randrange(1, 65)])
    else:
        kn = rng.choice([1, 2, 3, 4, 5, 6, rng.randrange(1, 15)])
        r = rng.random()
        if r < 0.4:
            comb = "real" if (order == "suffix" and rng.random() < 0.7) else "count"
            rs = 4 * kn + 8
        else:
            rs = rng.choice([4 * kn, 4 * kn, 4 * kn + 8, 4 * kn + 1, rng.randrange(4 * kn, 65)])
        if rs > 64:
            kn, rs = 2, (16 if comb != "none" else 8)
    return order, kn, rs, comb


def gen_data(rng, n, order, kn, rs, comb, dist, counts=None):
    """n records as one bytes object.  dist: how many distinct keys / which input order."""
    kb = keybytes(order, kn, rs)
    if dist == "alleq":
        nkeys = 1
    elif dist == "heavy":
        nkeys = rng.choice([2, 3, 5, 17])
    elif dist == "half":
        nkeys = max(1, n // 2)
    else:
        nkeys = None  # free
    # key pool
    def rand_key():
        if order == "int":
            v = rng.choice([0, (1 << (8 * kn)) - 1, 1 << (8 * kn - 1), rng.getrandbits(8 * kn), rng.randrange(0, 300)])
            return (v & ((1 << (8 * kn)) - 1)).to_bytes(kn, "little")
        if order == "bytes":
            return bytes(rng.choice([0, 1, 127, 128, 255, rng.randrange(256)]) for _ in range(kb))
        vocab = rng.choice([2, 3, 10, 1000])
        ws = [rng.choice([rng.randrange(vocab), rng.randrange(vocab), 0xFFFFFFFF, 0x80000000, 0x7FFFFFFF,
                          rng.getrandbits(32)]) if rng.random() < 0.15 else rng.randrange(vocab) for _ in range(kn)]
        return struct.pack("<%dI" % kn, *ws)
    keys = None
    if dist == "blockdistinct" and counts:
        # every chain block duplicate-free, the same few keys in every block (hypothesis of the duplicate-free clause)
        cap = max(counts)
        pool, seen, tries = [], set(), 0
        while len(pool) < cap + rng.choice([0, 1, 3]) and tries < 20 * cap + 100:
            k = rand_key()
            tries += 1
            if k not in seen:
                seen.add(k)
                pool.append(k)
        if len(pool) >= cap:
            keys = []
            for cnt in counts:
                keys += rng.sample(pool, cnt)
    if keys is not None:
        pass
    elif nkeys is not None:
        pool = [rand_key() for _ in range(nkeys)]
        keys = [rng.choice(pool) for _ in range(n)]
    else:
        keys = [rand_key() for _ in range(n)]
    pw = rs - kb
    recs = []
    for k in keys:
        if comb != "none":
            pl = struct.pack("<Q", rng.choice([0, 1, 1, 2, rng.randrange(1, 1000), rng.randrange(1 << 40)]))
        else:
            pl = bytes(rng.getrandbits(8) for _ in range(pw)) if pw and rng.random() < 0.8 else bytes(pw)
        recs.append(k + pl)
    kf = key_fn(order, kn, rs)
    if dist == "sorted":
        recs.sort(key=kf)
    elif dist == "reversed":
        recs.sort(key=kf, reverse=True)
    elif dist == "nearsorted":
        # ascending, except that the last record of every chain block belongs a few places earlier
        recs.sort(key=kf)
        off = 0
        for cnt in (counts or [len(recs)]):
            if cnt >= 3:
                j = off + rng.randrange(1, cnt - 1)
                recs.insert(off + cnt - 1, recs.pop(j))
            off += cnt
    return b"".join(recs)


def gen_case(rng, tier, idx):
    order, kn, rs, comb = gen_shape(rng)
    big = 100000 if tier == "quick" else 2000000
    r = rng.random()
    if idx < 6:
        n = [0, 1, 2, 3, 17, 64][idx]
    elif r < 0.08:
        n = rng.choice([0, 1, 2])
    elif r < 0.45:
        n = rng.randrange(2, 200)
    elif r < 0.85:
        n = rng.randrange(200, 6000)
    elif r < 0.97:
        n = rng.randrange(6000, 40000)
    else:
        n = rng.randrange(big // 2, big + 1)
        if rs > 16:       # keep the biggest cases to small records (driver time)
            order, kn, rs, comb = rng.choice([("int", 8, 8, "none"), ("int", 4, 12, "count"), ("suffix", 2, 16, "real"),
                                              ("bytes", 0, 12, "none"), ("prefix", 3, 12, "none")])
    dist = rng.choice(["free", "free", "heavy", "heavy", "half", "alleq", "sorted", "reversed", "nearsorted"])
    if comb != "none" and rng.random() < 0.35:
        dist = "blockdistinct"
    # ---- chain: how many blocks
    target_blocks = rng.choice([1, 1, 2, 2, 3, 4, 5, 8, 13, 16, 17, 40, 100, 300])
    if n > 40000:
        target_blocks = rng.choice([1, 2, 5, 30, 200])
    cap = max(1, -(-max(n, 1) // target_blocks))          # records per block
    if rng.random() < 0.25 and n:
        cap = max(1, n // target_blocks)                  # exact multiples / one more block
    if rng.random() < 0.1 and n:
        cap = n                                           # exactly one full block
    cbc = rng.choice([1, 2, 2, 3, 4, 5])
    cmem = cap * rs * cbc + rng.choice([0, 0, rng.randrange(0, rs * cbc)])
    cap = cmem // (cbc * rs)
    # ---- block fill
    if rng.random() < 0.7 or n > 20000:
        blocks = "F"
        counts = [cap] * (n // cap) + ([n % cap] if n % cap else [])
        if rng.random() < 0.2:
            blocks = ",".join(map(str, counts + [0]))      # what a Stream-based producer does: trailing empty block
            counts = counts + [0]
    else:
        counts, left = [], n
        while left:
            c = rng.choice([cap, cap, rng.randrange(0, cap + 1), max(1, cap // 2), max(1, cap // 2), 0, 1])
            c = min(c, left, cap)
            counts.append(c)
            left -= c
        if rng.random() < 0.3:
            counts.append(0)
        blocks = ",".join(map(str, counts)) if counts else "F"
    nblocks = sum(1 for c in counts if c)
    # ---- sort config
    unit = rs * rng.choice([1, 1, 2, 3, 5, max(1, cap // 2), cap, 2 * cap])
    buf = unit + rng.choice([0, 0, rng.randrange(0, rs)])
    bufr = buf - buf % rs
    arity = rng.choice([2, 2, 2, 3, 3, 4, 7, 20, 300])
    tot = bufr * (arity + 2) + rng.choice([0, 0, rng.randrange(0, bufr + 1)])
    r = rng.random()
    if r < 0.04:
        tot = rng.randrange(0, 4 * bufr)                  # BadSortConfig
    if r > 0.98:
        buf = rng.randrange(0, rs)                        # buffer rounds to 0 => BadSortConfig
    mode = rng.choice(["blocking", "blocking", "steal"]) if rng.random() < 0.3 else rng.choice(["output", "output", "retout"])
    lz = rng.random()
    if lz < 0.3:
        lazy = "0"
    elif lz < 0.45:
        lazy = "default"
    elif lz < 0.6:
        lazy = str(rng.randrange(0, bufr + 1))
    elif lz < 0.85:
        lazy = str(bufr * rng.choice([1, 2, 2, 3, 5]) + rng.choice([0, rng.randrange(0, bufr + 1)]))
    else:
        lazy = str(rng.choice([n * rs, n * rs + 1, max(0, n * rs - 1), n * rs // 2, 10 * n * rs + 5]))
    if mode == "steal":
        lazy = "0"
    if tot >= (1 << 24) and (mode == "blocking" or lazy == "default"):
        mode, lazy = "output", "0"                        # DefaultLazy uses float: keep exact
    detail = 1 if n * max(nblocks, 1) <= 3000000 else 0
    return dict(n=n, rs=rs, order=order, kn=kn, comb=comb, mode=mode, cbc=cbc, cmem=cmem, buf=buf, tot=tot, lazy=lazy,
                blocks=blocks, detail=detail, dist=dist, dseed=rng.getrandbits(48), nblocks=nblocks, counts=counts)


def case_data(c):
    import random
    return gen_data(random.Random(c["dseed"]), c["n"], c["order"], c["kn"], c["rs"], c["comb"], c["dist"], c.get("counts"))


def op_line(c, path, out="-"):
    return "case %s %d %d %s %d %s %s %d %d %d %d %s %s %d %s" % (
        path, c["n"], c["rs"], c["order"], c["kn"], c["comb"], c["mode"], c["cbc"], c["cmem"], c["buf"], c["tot"],
        c["lazy"], c["blocks"], c["detail"], out)


def parse_kv(line):
    d = {}
    for tok in line.split()[1:]:
        if "=" in tok:
            k, v = tok.split("=", 1)
            d[k] = v
    return d


# ---------------------------------------------------------------- python oracle on the dumped output
def py_oracle(c, data, out):
    """The property itself, straight from its text.  Returns None or a description."""
    rs, order, kn, comb = c["rs"], c["order"], c["kn"], c["comb"]
    if len(out) % rs:
        return "output is not a whole number of records"
    kf = key_fn(order, kn, rs)
    ins = [data[i:i + rs] for i in range(0, len(data), rs)]
    outs = [out[i:i + rs] for i in range(0, len(out), rs)]
    for a, b in zip(outs, outs[1:]):
        if kf(b) < kf(a):
            return "output not in non-decreasing order"
    kb = keybytes(order, kn, rs)
    if comb == "none":
        if sorted(ins) != sorted(outs):
            return "output multiset differs from input multiset"
    else:
        ti, to = {}, {}
        for r in ins:
            ti[r[:kb]] = (ti.get(r[:kb], 0) + int.from_bytes(r[kb:kb + 8], "little")) % (1 << 64)
        for r in outs:
            to[r[:kb]] = (to.get(r[:kb], 0) + int.from_bytes(r[kb:kb + 8], "little")) % (1 << 64)
        if ti != to:
            return "per-key totals not preserved by the combiner"
        # duplicate-free clause: every input block duplicate-free => output duplicate-free
        off, blocks_nodup = 0, True
        for cnt in c["counts"]:
            ks = [r[:kb] for r in ins[off:off + cnt]]
            if len(set(ks)) != len(ks):
                blocks_nodup = False
            off += cnt
        if blocks_nodup and len(set(r[:kb] for r in outs)) != len(outs):
            return "duplicate keys in the output although every input block was duplicate-free"
    return None


# ---------------------------------------------------------------- running
def run_batch(hexe, dexe, cases, wdir, tag, dump_limit=4000):
    """Write the data files, run harness and driver on the op lines.  Returns list of result dicts."""
    lines = []
    for i, c in enumerate(cases):
        p = os.path.join(wdir, "%s_%d.bin" % (tag, i))
        data = case_data(c)
        with open(p, "wb") as f:
            f.write(data)
        c["_path"] = p
        c["_out"] = (p + ".out") if c["n"] <= dump_limit else "-"
        c["_data"] = data if c["n"] <= dump_limit else None
        lines.append(op_line(c, p, c["_out"]))
    with ThreadPoolExecutor(2) as ex:
        fh = ex.submit(stream.run_lines, hexe, lines, 1500, {"C16_TMPDIR": wdir})
        fd = ex.submit(stream.run_lines, dexe, lines, 1500)
        rc1, o1, e1 = fh.result()
        rc2, o2, e2 = fd.result()
    for c in cases:     # the record files are regenerated on demand (case_data); keep the disk footprint small
        try:
            os.unlink(c["_path"])
        except OSError:
            pass
    return lines, (rc1, o1, e1), (rc2, o2, e2)


def seq_determined(c):
    """is the output byte sequence determined by the input multiset (theorems extSort_unique / extSort_combine_spec)?"""
    kb = keybytes(c["order"], c["kn"], c["rs"])
    if c["comb"] == "none":
        return kb == c["rs"]
    return c["nblocks"] >= 2


def evaluate(ctx, c, line, hM, hO, dM):
    """Compare one case.  Returns list of (kind, what) problems; kind in 'oracle' | 'corr'."""
    probs = []
    h = parse_kv(hM)
    d = parse_kv(dM)
    if "error" in h or "error" in d:
        if h.get("error") != d.get("error"):
            probs.append(("corr", "error class differs: impl %r model %r" % (hM, dM)))
        return probs
    o = parse_kv(hO)
    # ---- property oracle (C++ side, independent of the model)
    if o.get("sorted") != "1":
        probs.append(("oracle", "output not in non-decreasing order"))
    if c["comb"] == "none" and o.get("mset") != "1":
        probs.append(("oracle", "output multiset differs from input multiset"))
    if c["comb"] != "none":
        if o.get("totals") != "1":
            probs.append(("oracle", "per-key totals not preserved by the combiner"))
        if o.get("blocks_nodup") == "1" and o.get("nodup_out") != "1":
            probs.append(("oracle", "duplicate keys in the output although every input block was duplicate-free"))
    # ---- output chain blocks (checked directly, independent of the model): whole records, all but the last full
    ob = h.get("oblocks")
    if ob not in (None, "-", "none"):
        sizes = []
        for tok in ob.split(","):
            a, b = tok.split("*")
            sizes += [int(a)] * int(b)
        ocbc = 2 if c["cbc"] == 1 else c["cbc"]
        capb = (c["cmem"] // (c["cbc"] * c["rs"]) * c["rs"]) if c["mode"] == "blocking" else \
            (max(c["cmem"], c["rs"] * ocbc) // (ocbc * c["rs"]) * c["rs"])
        if any(x % c["rs"] for x in sizes):
            probs.append(("oracle", "an output block's ValidSize is not a multiple of the entry size"))
        elif any(x != capb for x in sizes[:-1]) or any(x > capb for x in sizes):
            probs.append(("oracle", "an output block other than the last is not full (or exceeds the block size)"))
        elif sum(sizes) != int(h.get("n_out", "0")) * c["rs"]:
            probs.append(("oracle", "output blocks do not add up to the output"))
    # ---- python oracle on the dumped output
    if c["_out"] != "-" and os.path.exists(c["_out"]):
        out = open(c["_out"], "rb").read()
        w = py_oracle(c, c["_data"], out)
        if w:
            probs.append(("oracle", w + " (python oracle)"))
    # ---- correspondence with the model
    fields = ["n_out", "keyhash", "mset"]
    if seq_determined(c):
        fields.append("seq")
    if c["detail"]:
        fields.append("passes")
        fields.append("logs")      # complete content of every Offsets log written (block sorter + one per pass)
        if c["mode"] in ("output", "steal"):
            fields += ["mret", "lazy"]
        if c["mode"] == "retout":
            fields += ["mret"]
        fields.append("dwrites")      # sizes of all write() calls to the data temps, spill and every pass (Stream blocks of buffer_size)
        fields.append("spill")        # sizes of the write() calls that spill the sorted blocks (ValidSize of each block)
        fields.append("oblocks")  # sizes of the chain blocks the consumer of the sorted output receives
    for f in fields:
        if h.get(f) != d.get(f):
            probs.append(("corr", "field %s: impl %s model %s" % (f, h.get(f), d.get(f))))
    if d.get("spec") != "same":
        probs.append(("corr", "model: codeSort output differs from sortSpec (keys/multiset)"))
    return probs


def shrink(hexe, dexe, c, wdir, kinds):
    """Reduce n (keeping the configuration) while some problem of the same kind remains."""
    import copy
    best = c
    n = c["n"]
    tries = 0
    while n > 1 and tries < 14:
        tries += 1
        cand = copy.deepcopy(best)
        cand["n"] = n // 2 if tries % 2 else max(1, n - max(1, n // 8))
        cand["blocks"] = "F"
        cap = max(1, cand["cmem"] // (cand["cbc"] * cand["rs"]))
        cand["counts"] = [cap] * (cand["n"] // cap) + ([cand["n"] % cap] if cand["n"] % cap else [])
        cand["nblocks"] = len(cand["counts"])
        cand["dist"] = best["dist"]
        lines, (rc1, o1, e1), (rc2, o2, e2) = run_batch(hexe, dexe, [cand], wdir, "shr")
        bad = False
        if rc1 != 0 or len(o1) < 2 or rc2 != 0 or len(o2) < 1:
            bad = "crash" in kinds
        else:
            pr = evaluate(None, cand, lines[0], o1[0], o1[1], o2[0])
            bad = any(k in kinds for k, _ in pr)
        if bad:
            best = cand
            n = cand["n"]
        else:
            if tries % 2 == 0:
                break
    return best


def replay_obj(c, line, extra):
    obj = {"stream": "sort", "op": line, "case": {k: v for k, v in c.items() if not k.startswith("_") and k != "counts"},
           "how": "write base64 data (or regenerate with checks/C16.py case_data(case)) to the path in op, then: "
                  "echo \"$op\" | <harness c16> ; echo \"$op\" | lean/.lake/build/bin/drv_C16"}
    data = case_data(c)
    if len(data) <= 48000:
        obj["data_b64"] = base64.b64encode(data).decode()
    obj.update(extra)
    return obj


def sort_stream(ctx, hexe, dexe, n_cases, wdir):
    found = False
    reported = [0]      # shrink the first few failures, report at most 12 (the rest are counted)

    def budget():
        reported[0] += 1
        return reported[0]
    cases = [gen_case(ctx.rng, ctx.tier, i) for i in range(n_cases)]
    # batches: keep big cases apart so that they run in parallel with the small ones
    bsz = 25
    batches = [cases[i:i + bsz] for i in range(0, len(cases), bsz)]

    def work(bi):
        return run_batch(hexe, dexe, batches[bi], wdir, "b%d" % bi)

    with ThreadPoolExecutor(6) as ex:
        results = list(ex.map(work, range(len(batches))))
    for bi, (lines, (rc1, o1, e1), (rc2, o2, e2)) in enumerate(results):
        batch = batches[bi]
        if rc2 != 0 or len(o2) != len(batch):
            ctx.violation("Lean driver failed on a batch (rc=%s): %s" % (rc2, e2[-300:]),
                          {"stream": "sort", "ops": lines[:3], "stderr": e2[-2000:]}, no_input=True)
            found = True
            continue
        if rc1 != 0 or len(o1) != 2 * len(batch):
            # the harness died (abort / sanitizer / assert): find the case
            k = len(o1) // 2
            c = batch[min(k, len(batch) - 1)]
            nrep = budget()
            found = True
            if nrep > 12:
                ctx.hist("sort.suppressed_reports", "crash")
                continue
            small = shrink(hexe, dexe, c, wdir, {"crash"}) if nrep <= 3 else c
            _, (rc, oo, ee), _ = run_batch(hexe, dexe, [small], wdir, "rep")
            ctx.violation("the sort aborted / crashed (rc=%s): %s" % (rc1, (ee or e1)[-300:].replace("\n", " | ")),
                          replay_obj(small, op_line(small, small["_path"]), {"stderr": (ee or e1)[-3000:], "rc": str(rc1)}))
            found = True
            continue
        for i, c in enumerate(batch):
            hM, hO, dM = o1[2 * i], o1[2 * i + 1], o2[i]
            probs = evaluate(ctx, c, lines[i], hM, hO, dM)
            h = parse_kv(hM)
            key = (c["n"], c["rs"], c["order"], c["kn"], c["comb"], c["mode"], c["cbc"], c["cmem"], c["buf"], c["tot"],
                   c["lazy"], c["blocks"], c["dseed"])
            ctx.count(key, nontrivial=c["n"] >= 2 and "error" not in h)
            ctx.hist("sort.passes", h.get("passes", "error"))
            ctx.hist("sort.blocks", "0" if c["nblocks"] == 0 else "1" if c["nblocks"] == 1 else "2" if c["nblocks"] == 2
                     else "3-9" if c["nblocks"] < 10 else "10-99" if c["nblocks"] < 100 else ">=100")
            ctx.hist("sort.order", c["order"])
            ctx.hist("sort.comb", c["comb"])
            ctx.hist("sort.mode", c["mode"])
            ctx.hist("sort.dist", c["dist"])
            ctx.hist("sort.rs", "1-3" if c["rs"] < 4 else "4-8" if c["rs"] <= 8 else "9-16" if c["rs"] <= 16
                     else "17-32" if c["rs"] <= 32 else "33-64")
            ctx.hist("sort.n", "0" if c["n"] == 0 else "1" if c["n"] == 1 else "<200" if c["n"] < 200 else "<6000"
                     if c["n"] < 6000 else "<40000" if c["n"] < 40000 else ">=40000")
            ctx.hist("sort.detail_model", c["detail"])
            if bi == 0 and i < 3:
                ctx.sample({"stream": "sort", "op": lines[i], "impl": hM, "oracle": hO, "model": dM})
            if not probs:
                continue
            kinds = {k for k, _ in probs}
            nrep = budget()
            found = True
            if nrep > 12:
                ctx.hist("sort.suppressed_reports", sorted(kinds)[0])
                continue
            small = shrink(hexe, dexe, c, wdir, kinds) if nrep <= 3 else c
            sl, (r1, so1, se1), (r2, so2, se2) = run_batch(hexe, dexe, [small], wdir, "rep")
            extra = {"problems": [w for _, w in probs], "impl": so1[:2], "model": so2[:1]}
            if "oracle" in kinds:
                what = [w for k, w in probs if k == "oracle"][0]
                ctx.violation("external sort: " + what, replay_obj(small, sl[0], extra))
                found = True
            else:
                what = [w for k, w in probs if k == "corr"][0]
                ctx.violation("model and implementation disagree on the external sort: " + what,
                              replay_obj(small, sl[0], extra), no_input=True)
                found = True
    return found


def offsets_stream(ctx, hexe, dexe, n_cases, wdir):
    found = False
    ops, want = [], []
    for i in range(n_cases):
        rng = ctx.rng
        ln = rng.choice([0, 1, 2, 3, 5, 10, 40, rng.randrange(0, 200)])
        pool = [rng.randrange(1, 1 << rng.choice([3, 10, 33, 50])) for _ in range(rng.choice([1, 2, 3, 8]))]
        ls = []
        while len(ls) < ln:
            v = rng.choice(pool + [0])
            ls += [v] * rng.choice([1, 1, 2, 3, 7])
        ls = ls[:ln]
        if i == 0:
            ls = []
        ops.append("offsets " + ",".join(map(str, ls)))
        nz = [x for x in ls if x]
        offs, t = [], 0
        for x in nz:
            offs.append(t)
            t += x
        want.append("remaining=%d sizes=%s offsets=%s total=%d" % (len(nz), ",".join(map(str, nz)),
                                                                  ",".join(map(str, offs)), t))
        ctx.count(("offsets", tuple(ls)), nontrivial=len(nz) >= 2)
        ctx.hist("offsets.len", min(len(ls), 50) // 10 * 10)
    (rc1, o1, e1), (rc2, o2, e2) = stream.both(hexe, dexe, ops, env={"C16_TMPDIR": wdir})
    if rc1 != 0 or rc2 != 0 or len(o1) != len(ops) or len(o2) != len(ops):
        ctx.violation("Offsets harness/driver died rc=%s/%s: %s" % (rc1, rc2, (e1 + e2)[-300:]),
                      {"stream": "offsets", "ops": ops[:5]}, no_input=True)
        return True
    for op, a, b, w in zip(ops, o1, o2, want):
        if a != w:
            ctx.violation("Offsets log does not return the appended non-zero lengths in order",
                          {"stream": "offsets", "op": op, "impl": a, "expected": w})
            found = True
        elif b != a:
            ctx.violation("model and implementation disagree on the Offsets log",
                          {"stream": "offsets", "op": op, "impl": a, "model": b}, no_input=True)
            found = True
    return found


def bytes_stream(ctx, hexe, dexe, n_cases, wdir):
    """util/sized_iterator.hh directly: swap(SizedProxy, SizedProxy) and SizedSort on flat buffers of records of
    every size 1..64 (oracle: the exchange / the sorted records, computed here)."""
    found = False
    rng = ctx.rng
    ops, want = [], []
    for i in range(n_cases):
        size = rng.choice([1, 2, 3, 4, 5, 6, 7, 8, 9, 12, 13, 16, 17, 20, 24, 28, 31, 32, 33, 63, 64, rng.randrange(1, 65)])
        if i % 2 == 0:
            n = rng.choice([2, 3, 5, 8])
            buf = bytes(rng.getrandbits(8) for _ in range(n * size))
            a, b = rng.randrange(n), rng.randrange(n)
            ops.append("sizedswap %d %s %d %d" % (size, buf.hex(), a, b))
            recs = [buf[k * size:(k + 1) * size] for k in range(n)]
            recs[a], recs[b] = recs[b], recs[a]
            want.append(b"".join(recs).hex())
            ctx.count(("swap", size, buf, a, b), nontrivial=a != b)
        else:
            n = rng.choice([0, 1, 2, 15, 16, 17, 18, 40, rng.randrange(0, 120)])   # std::sort switches algorithm at 16
            alphabet = rng.choice([2, 4, 256])
            buf = bytes(rng.randrange(alphabet) for _ in range(n * size))
            ops.append("sizedsort %d %s" % (size, buf.hex() or "-"))
            recs = sorted(buf[k * size:(k + 1) * size] for k in range(n))
            want.append(b"".join(recs).hex() or "-")
            ctx.count(("sort", size, buf), nontrivial=n >= 2)
        ctx.hist("bytes.size_mod4", size % 4)
    (rc1, o1, e1), (rc2, o2, e2) = stream.both(hexe, dexe, ops, timeout=300, env={"C16_TMPDIR": wdir})
    if rc1 != 0 or len(o1) != len(ops):
        k = min(len(o1), len(ops) - 1)
        ctx.violation("SizedSort / swap(SizedProxy) crashed (rc=%s): %s" % (rc1, e1[-300:].replace("\n", " | ")),
                      {"stream": "bytes", "op": ops[k], "stderr": e1[-2000:]})
        return True
    if rc2 != 0 or len(o2) != len(ops):
        ctx.violation("Lean driver failed on the bytes stream: %s" % e2[-300:], {"stream": "bytes", "ops": ops[:3]}, no_input=True)
        return True
    nrep = 0
    for op, a, b, w in zip(ops, o1, o2, want):
        if a != w:
            nrep += 1
            if nrep <= 5:
                what = ("swap(SizedProxy, SizedProxy) does not exchange exactly the two records" if op.startswith("sizedswap")
                        else "SizedSort does not leave the sorted permutation of the records (as byte strings)")
                ctx.violation(what, {"stream": "bytes", "op": op, "impl": a, "expected": w})
            found = True
        elif b != a:
            ctx.violation("model and implementation disagree on the byte-level record sort",
                          {"stream": "bytes", "op": op, "impl": a, "model": b}, no_input=True)
            found = True
    return found


def replay(ctx, path):
    """python3 check.py C16 --replay replays/C16/<hash>.json : re-run one recorded case on the current tree."""
    import json
    obj = json.load(open(path))
    ok, hexe, lg = repo.harness("c16.cc", libs=True, config="asan", extra=BOOST)
    okl, out = lean.lake_build(["drv_C16"])
    if not ok or not okl:
        print("cannot build harness/driver: " + (lg if not ok else out)[-1500:])
        return 2
    dexe = lean.driver_path("drv_C16")
    wdir = fresh_scratch("c16_replay_%d" % os.getpid())
    try:
        if obj.get("stream") in ("offsets", "bytes"):
            (rc1, o1, e1), (rc2, o2, e2) = stream.both(hexe, dexe, [obj["op"]], env={"C16_TMPDIR": wdir})
            print("impl :", rc1, o1, e1[-500:])
            print("model:", rc2, o2)
            return 0 if (rc1 == 0 and o1 == o2) else 1
        c = obj["case"]
        cap = max(1, c["cmem"] // (c["cbc"] * c["rs"]))
        if c["blocks"] == "F":
            c["counts"] = [cap] * (c["n"] // cap) + ([c["n"] % cap] if c["n"] % cap else [])
        else:
            c["counts"] = [int(x) for x in c["blocks"].split(",") if x]
        lines, (rc1, o1, e1), (rc2, o2, e2) = run_batch(hexe, dexe, [c], wdir, "replay")
        print("op   :", lines[0])
        print("impl :", rc1, o1, e1[-1500:])
        print("model:", rc2, o2)
        if rc1 != 0 or rc2 != 0 or len(o1) < 2 or not o2:
            return 1
        probs = evaluate(ctx, c, lines[0], o1[0], o1[1], o2[0])
        for k, w in probs:
            print("problem (%s): %s" % (k, w))
        return 1 if probs else 0
    finally:
        shutil.rmtree(wdir, ignore_errors=True)


def run(ctx):
    problems, consts = flow.proof_phase(ctx, "C16", probe="probe_C16.cc", required=REQUIRED, drivers=["drv_C16"])
    if "swapCases" in ctx.cov.get("regenerated_constants", {}):     # keep the evidence file small
        ctx.cov["regenerated_constants"]["swapCases"] = "(%d characters: swap table for 27 record sizes, see lean/Generated/C16.lean)" % len(
            ctx.cov["regenerated_constants"]["swapCases"])
    ok, hexe, lg = repo.harness("c16.cc", libs=True, config="asan", extra=BOOST)
    if not ok:
        problems.append(lg)
        flow.report_obligation_failures(ctx, problems, False)
        return
    dexe = lean.driver_path("drv_C16")
    wdir = fresh_scratch("c16_%d_%d" % (ctx.seed, os.getpid()))
    try:
        n = 260 if ctx.tier == "quick" else 2600
        found = sort_stream(ctx, hexe, dexe, n, wdir)
        found = offsets_stream(ctx, hexe, dexe, 200 if ctx.tier == "quick" else 3000, wdir) or found
        found = bytes_stream(ctx, hexe, dexe, 300 if ctx.tier == "quick" else 4000, wdir) or found
    finally:
        shutil.rmtree(wdir, ignore_errors=True)
    ctx.cov["rule"] = ("sort: one case = (record file, layout, order, combiner, chain blocks, SortConfig, lazy memory, mode); "
                       "non-trivial when n >= 2 and the configuration is accepted; distinct by all parameters + data seed. "
                       "offsets: non-trivial when >= 2 non-zero lengths")
    ctx.assumptions += ["std::sort / priority_queue order among records comparing equal is not compared (only key sequence + "
                        "multiset) unless the theorems make the byte sequence unique",
                        "counts stay below 2^64 (no wrap-around in the counting combiner)",
                        "DefaultLazy compared for total_memory < 2^24 (float exact)"]
    flow.report_obligation_failures(ctx, problems, found)
