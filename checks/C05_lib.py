"""Shared helpers of the lmplz checks (C05, C06, C07): run the real tool, run the Lean driver,
parse ARPA text, an independent set-based reference in Python (exact Fractions), comparators."""
import collections
import math
import os
import re
import resource
import subprocess
from fractions import Fraction

from vlib.common import run, log

DELIMS = b"\0\t\n\r "
SPECIAL = (b"<unk>", b"<s>", b"</s>")


# ------------------------------------------------------------------------------ the tool
def get_tools(names, dest):
    """Build the tree's CLI tools and copy them to `dest` (the shared build cache may be pruned by
    concurrent checks of other properties while this one runs).  Returns (ok, {name: path}, log)."""
    import shutil
    from vlib import repo
    for attempt in range(3):
        ok, bdir, lg = repo.build("tools", targets=list(names))
        if not ok:
            return False, {}, lg
        try:
            os.makedirs(dest, exist_ok=True)
            out = {}
            for n in names:
                shutil.copy2(os.path.join(bdir, "bin", n), os.path.join(dest, n))
                out[n] = os.path.join(dest, n)
            return True, out, lg
        except OSError as ex:
            lg = "build cache vanished while copying (%s)" % ex
            repo._tree_hash = None
    return False, {}, lg


def lmplz_args(case, mem="64M", extra=()):
    a = ["-o", str(case["order"]), "-S", mem]
    if case.get("prune") is not None:
        a += ["--prune"] + [str(x) for x in case["prune"]]
    if not case.get("interp", True):
        a += ["--interpolate_unigrams", "0"]
    if case.get("skip"):
        a += ["--skip_symbols"]
    if case.get("renumber"):
        a += ["--renumber"]
    fb = case.get("fallback")
    if fb == "default":
        a += ["--discount_fallback"]
    elif fb:
        a += ["--discount_fallback"] + list(fb)
    return a + list(extra)


def parse_u64(tok):
    """boost::lexical_cast<uint64_t> as observed: optional sign, decimal digits, magnitude < 2^64, '-' wraps."""
    tok = str(tok)
    m = re.match(r"^([+-]?)([0-9]+)$", tok)
    if not m:
        return None
    v = int(m.group(2))
    if v >= 2 ** 64:
        return None
    return (2 ** 64 - v) % 2 ** 64 if m.group(1) == "-" else v


def parse_prune(case):
    """Independent transcription of the option-vector rule of lmplz (ParsePruning): ("ok", padded list) or (class, None)."""
    N = case["order"]
    pv = case.get("prune")
    if pv is None:
        return "ok", [0] * N
    vals = [parse_u64(t) for t in pv]
    if any(v is None for v in vals):
        return "bad-threshold", None
    if len(vals) > N:
        return "prune-count", None
    if any(a > b for a, b in zip(vals, vals[1:])):
        return "prune-order", None
    return "ok", (vals + [vals[-1]] * N)[:N]


def prune_kind(case):
    cls, thr = parse_prune(case)
    if cls != "ok":
        return "illegal:" + cls
    if case.get("prune") is None:
        return "none"
    return "uni" if thr[0] > 0 else "hi"


def classify(rc, err):
    if rc == 0:
        return "ok"
    if rc == "timeout":
        return "timeout"
    if "Pruning thresholds should be in non-decreasing order" in err:
        return "prune-order"
    if "You specified pruning thresholds for orders" in err:
        return "prune-count"
    if "Bad pruning threshold" in err:
        return "bad-threshold"
    if "Could not calculate Kneser-Ney discounts" in err or "discount out of range" in err:
        return "bad-discount"
    if "Special word" in err:
        return "special-symbol"
    if "exceeds total memory" in err or "Not enough memory" in err or "is below the minimum block size" in err:
        return "config"
    if "Detected n-gram without matching suffix" in err:
        return "no-matching-suffix"
    if "Backoffs do not match" in err:
        return "backoff-mismatch"
    return "abort(%s)" % rc


def run_lmplz(lmplz, case, wd, tag="t", mem="64M", extra=(), intermediate=False, timeout=300):
    """Runs bin/lmplz on the case.  Returns dict(cls, rc, stderr, arpa_path, arpa (bytes), inter (base or None))."""
    os.makedirs(wd, exist_ok=True)
    cp = os.path.join(wd, tag + ".txt")
    with open(cp, "wb") as f:
        f.write(case["corpus"])
    ap = os.path.join(wd, tag + ".arpa")
    args = lmplz_args(case, mem, extra)
    if case.get("limit") is not None:
        lp = os.path.join(wd, tag + ".limit")
        with open(lp, "wb") as f:
            f.write(case["limit"])
        args += ["--limit_vocab_file", lp]
    base = None
    if intermediate:
        base = os.path.join(wd, tag + ".inter")
        for fn in os.listdir(wd):
            if fn.startswith(tag + ".inter"):
                os.unlink(os.path.join(wd, fn))
        args += ["--intermediate", base]
    tmpd = os.path.join(wd, "tmp_" + tag)
    os.makedirs(tmpd, exist_ok=True)
    if "-T" not in args:
        args += ["-T", tmpd + "/"]
    if os.path.exists(ap):
        os.unlink(ap)
    cmd = [lmplz] + args + ["--text", cp, "--arpa", ap]
    rc, o, e = run(cmd, timeout=timeout)
    arpa = None
    if rc == 0 and os.path.exists(ap):
        arpa = open(ap, "rb").read()
    return dict(cls=classify(rc, e), rc=rc, stderr=e, arpa=arpa, arpa_path=ap, inter=base, cmd=cmd, corpus_path=cp,
                wrote=os.path.exists(ap))


def parse_statistics(stderr):
    """'Statistics:' lines -> {order: (kept, total, [D1, D2, D3])}, and set of orders with fallback substituted."""
    st = {}
    for line in stderr.splitlines():
        m = re.match(r"^(\d+) (\d+)(?:/(\d+))? D1=(\S+) D2=(\S+) D3\+=(\S+)", line)
        if m:
            kept = int(m.group(2))
            total = int(m.group(3)) if m.group(3) else kept
            st[int(m.group(1))] = (kept, total, [float(m.group(4)), float(m.group(5)), float(m.group(6))])
    fb = set()
    for m in re.finditer(r"Substituting fallback discounts for order (\d+)", stderr):
        fb.add(int(m.group(1)) + 1)
    return st, fb


def parse_arpa(data):
    """ARPA bytes -> (header {n: count}, grams {n: {tuple(words): (logp, logbo or None)}}, problems)."""
    header = {}
    grams = collections.defaultdict(dict)
    problems = []
    cur = None
    for ln in data.split(b"\n"):
        if not ln:
            continue
        if ln == b"\\data\\" or ln == b"\\end\\":
            cur = None
            continue
        m = re.match(rb"^ngram (\d+)=(\d+)$", ln)
        if m and cur is None:
            header[int(m.group(1))] = int(m.group(2))
            continue
        m = re.match(rb"^\\(\d+)-grams:$", ln)
        if m:
            cur = int(m.group(1))
            continue
        if cur is None:
            problems.append("stray line %r" % ln[:60])
            continue
        parts = ln.split(b"\t")
        if len(parts) not in (2, 3):
            problems.append("bad field count %r" % ln[:60])
            continue
        ws = tuple(parts[1].split(b" "))
        if len(ws) != cur:
            problems.append("order %d line has %d words: %r" % (cur, len(ws), ln[:60]))
        try:
            lp = float(parts[0])
            bo = float(parts[2]) if len(parts) == 3 else None
        except ValueError:
            problems.append("bad number %r" % ln[:60])
            continue
        if ws in grams[cur]:
            problems.append("duplicate n-gram %r" % (ws,))
        grams[cur][ws] = (lp, bo)
    return header, grams, problems


# ------------------------------------------------------------------------------ the Lean driver
def _unlimit_stack():
    try:
        resource.setrlimit(resource.RLIMIT_STACK, (resource.RLIM_INFINITY, resource.RLIM_INFINITY))
    except (ValueError, OSError):
        try:
            soft, hard = resource.getrlimit(resource.RLIMIT_STACK)
            resource.setrlimit(resource.RLIMIT_STACK, (hard, hard))
        except (ValueError, OSError):
            pass


def run_driver(dexe, case, wd, tag="t", mode="stream", flush_adjusted=True, keep_specials=True, timeout=900, parse_only=False):
    """Returns dict(cls, stats {n: (n1..n4,count,kept)}, discs {n: (fallback?, [Fractions])}, uniform, grams {n: {words: (p, bo)}})."""
    cp = os.path.join(wd, tag + ".txt")
    if not os.path.exists(cp):
        os.makedirs(wd, exist_ok=True)
        with open(cp, "wb") as f:
            f.write(case["corpus"])
    a = [dexe, cp, str(case["order"]), "mode=" + mode, "interp=%d" % (1 if case.get("interp", True) else 0),
         "skip=%d" % (1 if case.get("skip") else 0), "flushAdjusted=%d" % (1 if flush_adjusted else 0),
         "keepSpecials=%d" % (1 if keep_specials else 0)]
    if case.get("prune") is not None:
        a.append("prune=" + "|".join(str(x) for x in case["prune"]))
    if parse_only:
        a.append("parseonly=1")
    if case.get("limit") is not None:
        lp = os.path.join(wd, tag + ".limit")
        with open(lp, "wb") as f:
            f.write(case["limit"])
        a.append("limit=" + lp)
    fb = case.get("fallback")
    if fb == "default":
        a.append("fallback=1/2,1,3/2")
    elif fb:
        vals = [fb[i if i < len(fb) else len(fb) - 1] for i in range(3)]
        a.append("fallback=" + ",".join(str(Fraction(v)) for v in vals))
    try:
        p = subprocess.run(a, capture_output=True, timeout=timeout, preexec_fn=_unlimit_stack)
    except subprocess.TimeoutExpired:
        return dict(cls="driver-timeout")
    if p.returncode != 0:
        return dict(cls="driver-died(%s): %s" % (p.returncode, p.stderr[-300:].decode("utf-8", "replace")))
    lines = p.stdout.split(b"\n")
    res = dict(cls=None, stats={}, discs={}, grams=collections.defaultdict(dict), uniform=None)
    for ln in lines:
        if not ln:
            continue
        f = ln.split(b" ")
        if f[0] == b"ok":
            res["cls"] = "ok"
        elif f[0] == b"error":
            res["cls"] = f[1].decode()
        elif f[0] == b"stat":
            res["stats"][int(f[1])] = tuple(int(x) for x in f[2:8])
        elif f[0] == b"disc":
            res["discs"][int(f[1])] = (f[2] == b"1", [Fraction(x.decode()) for x in f[3:6]])
        elif f[0] == b"tablewf":
            res["tablewf"] = f[1] == b"1"
        elif f[0] == b"uniform":
            res["uniform"] = Fraction(f[1].decode())
        elif f[0] == b"gram":
            n = int(f[1])
            ws = tuple(bytes.fromhex(x.decode()) for x in f[2:2 + n])
            res["grams"][n][ws] = (Fraction(f[2 + n].decode()), Fraction(f[3 + n].decode()))
    return res


# ------------------------------------------------------------------------------ independent reference
def tokenize(corpus, skip):
    """-> (list of sentences (lists of bytes tokens), saw_special)."""
    assert corpus.endswith(b"\n") or corpus == b""
    sents = []
    saw = False
    for line in corpus.split(b"\n")[:-1]:
        toks = [t for t in re.split(rb"[\0\t\r ]+", line) if t]
        if any(t in SPECIAL for t in toks):
            saw = True
        sents.append([t for t in toks if t not in SPECIAL])
    return sents, saw


def chen_goodman(n):
    """n = [_, n1, n2, n3, n4] -> [D1, D2, D3] or None."""
    if n[1] == 0 or n[2] == 0 or n[3] == 0:
        return None
    y = Fraction(n[1], n[1] + 2 * n[2])
    d = [j - (j + 1) * y * Fraction(n[j + 1], n[j]) for j in (1, 2, 3)]
    for j, x in zip((1, 2, 3), d):
        if x < 0 or x > j:
            return None
    return d


def reference(case):
    """Set-based interpolated modified Kneser-Ney with pruning, straight from the definition
    (Chen & Goodman 1998; Heafield et al. 2013), exact arithmetic.  Independent of the Lean model.
    Returns dict(cls, stats {n: [n0..n4]}, discs {n: (fallback?, [D1,D2,D3])}, grams {n: {words: (p, bo)}}, header {n: kept})."""
    N = case["order"]
    pcls, thr = parse_prune(case)
    if pcls != "ok":
        return dict(cls=pcls)            # the tool must refuse up front
    sents, saw = tokenize(case["corpus"], case.get("skip"))
    if saw and not case.get("skip"):
        return dict(cls="special-symbol")
    BOS, EOS, UNK = b"<s>", b"</s>", b"<unk>"
    allowed = None
    if case.get("limit") is not None:
        allowed = set(t for t in re.split(rb"[\0\t\n\r ]+", case["limit"]) if t) | {BOS, EOS, UNK}
    # true counts of the n-grams of the sentences padded with one <s> and </s>
    true = [None] + [collections.Counter() for _ in range(N)]
    for s in sents:
        toks = [BOS] + s + [EOS]
        for n in range(1, N + 1):
            for i in range(len(toks) - n + 1):
                true[n][tuple(toks[i:i + n])] += 1
    del true[1][(BOS,)]
    # adjusted counts
    adj = [None] + [dict() for _ in range(N)]
    adj[N] = dict(true[N])
    for n in range(N - 1, 0, -1):
        ext = collections.Counter()
        for g in true[n + 1]:
            ext[g[1:]] += 1
        for g, c in true[n].items():
            adj[n][g] = c if g[0] == BOS else ext[g]
    adj[1][(UNK,)] = 0
    adj[1][(BOS,)] = 0

    def pruned(g):
        if len(g) == 1 and g[0] in (UNK, BOS, EOS):
            return False
        if true[len(g)][g] <= thr[len(g) - 1]:
            return True
        return allowed is not None and any(w not in allowed for w in g)

    stats = {}
    discs = {}
    fbv = case.get("fallback")
    if fbv == "default":
        fbv = ("0.5", "1", "1.5")
    for n in range(1, N + 1):
        cnt = [0] * 5
        for g, c in adj[n].items():
            if c < 5:
                cnt[c] += 1
        stats[n] = cnt
        d = chen_goodman(cnt)
        if d is None:
            if not fbv:
                return dict(cls="bad-discount", stats=stats)
            d = [Fraction(fbv[i if i < len(fbv) else len(fbv) - 1]) for i in range(3)]
            discs[n] = (True, d)
        else:
            discs[n] = (False, d)
    D = lambda n, c: 0 if c == 0 else discs[n][1][min(c, 3) - 1]
    # ---- float32 error model (absolute, linear space), propagated through the formulas the code evaluates.
    # U = 2^-24 is one rounding of a float32 operation relative to its result.
    #  * closed-form D_j (adjust_counts.cc CalculateDiscounts): y = float(n1)/float(n1+2n2) (2 roundings: cast, divide),
    #    t = float(j+1)*y*float(n_{j+1})/float(n_j) (3 roundings), D_j = float(j) - t (1 rounding); every intermediate is
    #    <= j+1 in magnitude, so |dD_j| <= 6*U*(j+1); we take C_D = 8 roundings (margin for the double->float casts).
    #  * fallback D_j: one decimal->float conversion: U*|D_j|.
    #  * gamma (initial_probabilities.cc AddRight): sum_i D_i*float(counts[i]) + normalizer, divided by the denominator:
    #    3 multiplications, 3+1 additions, 1 division: 8 roundings relative to gamma, plus the propagated dD.
    #  * u = (float(c) - D)/denominator: dD/den + 2 roundings;  p = u + gamma*p_lower: 2 more roundings, plus propagation.
    U = 2.0 ** -24
    dD = {}
    for n in range(1, N + 1):
        fbk, ds = discs[n]
        dD[n] = [0.0] + [(U * float(ds[j - 1])) if fbk else (8 * U * (j + 1)) for j in (1, 2, 3)]
    eD = lambda n, c: 0.0 if c == 0 else dD[n][min(c, 3)]
    u = {}
    eu = {}
    gamma = [None] + [dict() for _ in range(N)]
    egamma = [None] + [dict() for _ in range(N)]
    for n in range(1, N + 1):
        groups = collections.defaultdict(list)
        for g, c in adj[n].items():
            groups[g[:-1]].append((g, c))
        for ctx, items in groups.items():
            den = sum(c for _, c in items)
            gam = Fraction(sum(c if pruned(g) else D(n, c) for g, c in items), den)
            gamma[n][ctx] = gam
            egamma[n][ctx] = sum(0.0 if pruned(g) else eD(n, c) for g, c in items) / den + 8 * U * float(gam)
            for g, c in items:
                u[g] = Fraction(c - D(n, c), den)
                eu[g] = eD(n, c) / den + 2 * U * float(u[g])
    kept1 = [g for g in adj[1] if not pruned(g)]
    uniform = Fraction(1, len(kept1) - 1)
    interp = case.get("interp", True)
    g1 = gamma[1][()]
    eg1 = egamma[1][()]
    p = {}
    ep = {}
    for n in range(1, N + 1):
        for g in adj[n]:
            if n == 1:
                if g == (BOS,):
                    p[g] = Fraction(1)
                    ep[g] = 0.0
                elif g == (UNK,):
                    p[g] = g1 * uniform if interp else g1
                    ep[g] = (eg1 * float(uniform) + 3 * U * float(p[g])) if interp else eg1
                else:
                    p[g] = u[g] + (g1 * uniform if interp else 0)
                    ep[g] = eu[g] + ((eg1 * float(uniform) + 3 * U * float(p[g])) if interp else 0.0) + 2 * U * float(p[g])
            else:
                gm = gamma[n][g[:-1]]
                p[g] = u[g] + gm * p[g[1:]]
                ep[g] = eu[g] + egamma[n][g[:-1]] * float(p[g[1:]]) + float(gm) * ep[g[1:]] + 2 * U * float(p[g])
    grams = collections.defaultdict(dict)
    errs = collections.defaultdict(dict)
    header = {}
    for n in range(1, N + 1):
        for g in adj[n]:
            if pruned(g):
                continue
            bo = Fraction(1)
            ebo = 0.0
            if n < N and g[-1] not in (UNK, EOS) and g in gamma[n + 1]:
                bo = gamma[n + 1][g]
                ebo = egamma[n + 1][g]
            grams[n][g] = (p[g], bo)
            errs[n][g] = (ep[g], ebo)
        header[n] = len(grams[n])
    return dict(cls="ok", stats=stats, discs=discs, grams=grams, errs=errs, header=header, uniform=uniform)


# ------------------------------------------------------------------------------ comparison
def log10_frac(q):
    if q <= 0:
        return float("-inf")
    return (math.log10(q.numerator) - math.log10(q.denominator)) if q.numerator.bit_length() < 900 and q.denominator.bit_length() < 900 \
        else math.log10(q.numerator / q.denominator)


def log10_big(q):
    """log10 of a positive Fraction with huge numerator/denominator."""
    if q <= 0:
        return float("-inf")
    a, b = q.numerator, q.denominator
    sa = max(a.bit_length() - 900, 0)
    sb = max(b.bit_length() - 900, 0)
    return math.log10(a >> sa) - math.log10(b >> sb) + (sa - sb) * math.log10(2)


# float32 tolerance on a log10 value: the pipeline carries about (3 + 3*order) float32 roundings into the
# linear value (relative 2^-23 each worst case, amplified where c - D(c) cancels) plus log10f and printing.
def tol_log10(order, lp):
    return (4 + 4 * order) * 2.0 ** -23 / math.log(10) * 4 + abs(lp) * 2.0 ** -22 + 2e-6


STATS = {"max_dev_over_tol": 0.0}
SAFETY = 2.0      # the propagated bound is first order; twice that absorbs the second-order terms


def tol_from_err(x, ex, lx):
    """log10 tolerance for a value x (exact, linear) whose float32 evaluation is within ex (absolute, linear):
    |d log10 x| <= ex/(x ln 10) to first order (exactly: -log10(1 - ex/x)), plus one float32 rounding of log10f's
    result and of the printed/parsed decimal (2 * 2^-24 * |log10 x|), plus 2e-7 for log10f being within an ulp near 0."""
    if x <= 0:
        return float("inf")
    r = SAFETY * ex / x
    lin = float("inf") if r >= 0.5 else -math.log10(1.0 - r)
    return lin + 2 * 2.0 ** -23 * abs(lx) + 2e-7


def compare_model(tool_grams, tool_order, spec_grams, what="spec", errs=None):
    """tool_grams: {n: {words: (logp, logbo)}} from the ARPA; spec_grams: {n: {words: (p, bo)}} exact;
    errs: {n: {words: (abs error bound of p, of bo)}} from reference() (float32 error propagation); without it the
    flat bound tol_log10 is used.  Returns (list of problems, worst abs deviation)."""
    problems = []
    worst = 0.0
    for n in range(1, tool_order + 1):
        tg = tool_grams.get(n, {})
        sg = spec_grams.get(n, {})
        only_t = [g for g in tg if g not in sg]
        only_s = [g for g in sg if g not in tg]
        if only_t or only_s:
            problems.append("order %d n-gram sets differ: only in tool %r, only in %s %r" % (n, only_t[:3], what, only_s[:3]))
            continue
        for g, (lp, lbo) in tg.items():
            p, bo = sg[g]
            want = min(0.0, log10_big(p))
            if want == float("-inf"):
                ok = lp < -30
                dev = 0 if ok else 99
            else:
                dev = abs(lp - want)
                e = errs.get(n, {}).get(g) if errs is not None else None
                tl = tol_from_err(float(p), e[0], want) if e is not None else tol_log10(n, want)
                ok = dev <= tl
                if tl > 0 and tl != float("inf"):
                    STATS["max_dev_over_tol"] = max(STATS["max_dev_over_tol"], dev / tl)
            worst = max(worst, dev if dev != 99 else 0)
            if not ok:
                problems.append("order %d %r: log10 p tool %r vs %s %.7f" % (n, g, lp, what, want))
            if n < tool_order:
                wb = log10_big(bo)
                if lbo is None:
                    problems.append("order %d %r: no back-off field" % (n, g))
                else:
                    dev = abs(lbo - wb)
                    worst = max(worst, dev)
                    e = errs.get(n, {}).get(g) if errs is not None else None
                    tl = tol_from_err(float(bo), e[1], wb) if (e is not None and bo > 0) else tol_log10(n + 1, wb)
                    if tl > 0 and tl != float("inf") and dev == dev:
                        STATS["max_dev_over_tol"] = max(STATS["max_dev_over_tol"], dev / tl)
                    if dev > tl:
                        problems.append("order %d %r: log10 backoff tool %r vs %s %.7f" % (n, g, lbo, what, wb))
            elif lbo is not None:
                problems.append("order %d %r: back-off on the highest order" % (n, g))
    return problems, worst


def compare_discounts(tool_stats, spec_discs, spec_counts=None):
    """tool_stats from parse_statistics; spec_discs {n: (fallback?, [D1,D2,D3])}."""
    problems = []
    for n, (fb, ds) in spec_discs.items():
        if n not in tool_stats:
            problems.append("no Statistics line for order %d" % n)
            continue
        for j, (a, b) in enumerate(zip(tool_stats[n][2], ds)):
            if abs(a - float(b)) > 2e-5 * max(1.0, abs(float(b))):
                problems.append("order %d D%d: tool %r vs Chen-Goodman on the adjusted counts %s (=%.6f)" % (n, j + 1, a, b, float(b)))
    return problems


def near_discount_boundary(stats):
    """True when a closed-form discount is within float32 noise of 0 or j (the tool's float comparison may differ)."""
    for n, cnt in stats.items():
        if cnt[1] == 0 or cnt[2] == 0 or cnt[3] == 0:
            continue
        y = Fraction(cnt[1], cnt[1] + 2 * cnt[2])
        for j in (1, 2, 3):
            d = j - (j + 1) * y * Fraction(cnt[j + 1], cnt[j])
            if abs(d) < 1e-5 or abs(d - j) < 1e-5:
                return True
    return False
