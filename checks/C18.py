"""C18 — Text input is transparent to buffering, mapping, compression and read sizes."""
import bz2
import glob
import gzip
import lzma
import os

from vlib import flow, lean, repo, stream
from vlib.common import REPO, VERIF, SCRATCH, log, scratch_dir, sha
from vlib.common import run as sh

MANIFEST = {
    "text": "Lean theorems over a faithful model of util::FilePiece (window state, Shift/MMapShift/ReadShift, every "
            "reading operation, an adversarial chunk oracle for read sizes, any min_buffer, mmap and read modes) proving "
            "that each operation returns what the same operation returns on the whole remaining byte string and advances "
            "Offset() by exactly the bytes consumed (hence transcripts are a function of the decompressed bytes), that "
            "nothing but EOF/failure is returned after the end, that every operation terminates, that the ReadCompressed "
            "member chain yields the concatenation of the members with 0 only at the true end, and that TokenIter "
            "enumerates exactly the delimiter-free pieces; tied to the code by differential execution of seeded "
            "operation scripts on the real FilePiece over file/pipe/istream/gzip/bzip2/xz/concatenated inputs with "
            "short reads forced by an LD_PRELOAD shim, against the compiled Lean window model (exact, including "
            "read sizes) and against the spec oracle.",
    "note": "Trusted: Lean kernel + propext/Classical.choice/Quot.sound; statements in lean/Properties/C18.lean; "
            "zlib/bzip2/lzma decoders, strtol/strtoul/double-conversion (a grammar parameter; the concrete grammar in "
            "lean/Driver/C18.lean is compared differentially); the kernel's mmap; harness, shim, driver, comparator.",
    "technique": "Lean 4 proof (invariant + refinement to a whole-string spec, unbounded) + differential correspondence with the real code",
}

REQUIRED = ["KV.C18.kSpaces_table", "KV.C18.initMapSize_observed", "KV.C18.window_inv", "KV.C18.op_transparent",
            "KV.C18.transcript_fn", "KV.C18.after_eof", "KV.C18.shift_progress", "KV.C18.ops_terminate",
            "KV.C18.compressed_concat", "KV.C18.compressed_concat_concrete", "KV.C18.tokenizer_total", "KV.C18.lineIterator_total", "KV.C18.lineInput_blocks",
            "KV.C18.integer_grammars_ok", "KV.C18.Old.nan_not_prefix_determined", "KV.C18.Old.nan_depends_on_window",
            "KV.C18.concrete_grammar_ok",
            "KV.C18.op_transparent_on", "KV.C18.transcript_fn_on", "KV.C18.transcript_fn_concrete", "KV.C18.Old.offset_after_compaction", "KV.C18.Old.spurious_eof", "KV.C18.Old.offset_after_mmap_fallback",
            "KV.C18.Old.not_transparent", "KV.C18.kMagicSize_eq"]

UTIL_SRCS = ["file_piece.cc", "read_compressed.cc", "file.cc", "mmap.cc", "exception.cc", "ersatz_progress.cc",
             "spaces.cc", "scoped.cc", "parallel_read.cc", "integer_to_string.cc"]

SP = b" \t\n\x0b\x0c\r"
PAGE = 4096
MAGICS = (b"\x1f\x8b", b"BZh", b"\xfd7zXZ\x00")


# ------------------------------------------------------------------------------- generators
def gen_token(r):
    k = r.random()
    if k < 0.14:
        return str(r.randint(0, 10 ** r.randint(1, 12))).encode()
    if k < 0.20:
        return r.choice([b"-", b"+", b""]) + str(r.randint(0, 10 ** r.randint(1, 22))).encode()
    if k < 0.32:
        return ("%g" % r.uniform(-100, 100)).encode()
    if k < 0.40:
        return r.choice([b"1e5", b"-1.5E-3", b"0.000", b".5", b"5.", b"-0", b"1e", b"1e+", b"12abc", b"0x10", b"inf",
                         b"-inf", b"infinity", b".", b"-", b"+.e1", b"1e400", b"1e-400", b"16777217", b"007", b"-.5e+2",
                         b"9007199254740993", b"1.17549435e-38", b"3.4028236e38", b"4.9e-324", b"2.5e-324", b"0e0",
                         b"18446744073709551615", b"18446744073709551616", b"-9223372036854775808", b"9223372036854775808",
                         b"-18446744073709551615", b"1.7976931348623159e308", b"0.1", b"1e23", b"8.5", b"NaN", b"nan", b"NaNx", b"-NaN", b"+NaN", b"Nan", b"NaN1", b"in", b"infx"])
    if k < 0.43:
        return b"x" * r.choice([100, 3000, 4095, 4096, 4097, 8191, 8192, 9000])
    if k < 0.45:
        return bytes(r.choice([0, 0, 200, 255, 128]) for _ in range(r.randint(1, 6)))
    return bytes(r.choice(b"abcdefgh<>/,|") for _ in range(r.randint(1, 12)))


def gen_data(r, nan=False):
    style = r.random()
    if style < 0.04:
        return b""
    if style < 0.08:
        return gen_token(r) + r.choice([b"", b"\n", b" "])
    target = r.choice([50, 700, 5000, 8192, 12288, 16384, 20000, 33000, 40000, 70000])
    if style < 0.12:
        target = r.choice([140000, 300000])
    seps = [b" ", b" ", b"\t", b"\n", b"\n", b"  ", b"\r\n", b" \n", b"\n\n", b"\x0b", b",", b"\x00 "]
    if style < 0.2:   # one very long line / token region
        seps = [b" ", b",", b"\t"]
    bounds = [PAGE * k for k in range(1, 80)]
    out = bytearray()
    while len(out) < target:
        tok = gen_token(r)
        if nan and r.random() < 0.05:
            tok = r.choice([b"NaN", b"nan"])
        out += tok
        out += r.choice(seps)
        n = len(out)
        nb = (n // PAGE + 1) * PAGE
        if nb - n < 24 and r.random() < 0.7:
            # steer a token / separator exactly onto (or one off) the next page multiple
            pad = nb - n - r.choice([0, 0, 1, 2, 3])
            if pad > 0:
                out += r.choice([b"y", b"7", b"z"]) * pad
            out += r.choice([b"\n", b" ", b"", b"\r\n", b"1 ", b"\n\n"])
    if r.random() < 0.5:
        while out and out[-1] in SP:
            out.pop()
    if r.random() < 0.15:
        out += b"   \n \t"
    b = bytes(out)
    for m in MAGICS:
        if b.startswith(m):
            b = b"a" + b
    return b


def gen_boundary_case(r):
    """Window-boundary placement: a delimiter is the LAST byte of every page (so of every mmap window and of every
    full read buffer), more words of the same line follow it, and the file ends inside the window after the first
    one (so the Shift issued at that boundary maps the FINAL window / delivers the last data).  The script drains the
    whole input with one family of operations, so that each operation meets the boundary while it is skipping
    delimiters, scanning a word, or just starting.  Returns (plain, ops, min_buffer)."""
    mb = r.choice([0, 1, 4096, 8192, 12287, 20000])
    M = PAGE * max(mb // PAGE + 1, 2)
    total = M + r.choice([1, 2, PAGE - 1, PAGE, PAGE + 1, M - 1, M, r.randint(1, M)])
    if r.random() < 0.25:
        total = M * r.choice([2, 3]) + r.randint(1, M)      # more than one Shift before the final one
    number = r.random() < 0.3
    out = bytearray()
    words_on_line = 0
    while len(out) < total:
        tok = (str(r.randint(0, 10 ** r.randint(1, 9))) if number else "w%05d" % r.randint(0, 99999)).encode()
        room = PAGE - 1 - (len(out) % PAGE)            # bytes before the last byte of this page
        if room < len(tok) + 1:
            # fill up to the last byte of the page with word characters, then the delimiter ON the last byte
            if room > 0:
                out += (b"7" if number else b"y") * room
            if r.random() < 0.35 and words_on_line >= 1:
                out += b"\n"; words_on_line = 0
            else:
                out += r.choice([b" ", b" ", b"\t"]); words_on_line += 1
            if r.random() < 0.3:
                out += r.choice([b" ", b"  ", b"\t "])   # the delimiter run continues into the next window
            continue
        out += tok
        words_on_line += 1
        if words_on_line >= r.randint(3, 12) and (len(out) + 1) % PAGE != 0:
            out += b"\n"; words_on_line = 0
        else:
            out += b" "
    plain = bytes(out[:total])
    if r.random() < 0.5 and not plain.endswith(b"\n"):
        plain += b"\n"
    fam = r.choice(["num"] * 5 + ["WG", "D", "L", "mix"]) if number else r.choice(["WG", "WG", "WG", "WL", "D", "L", "SD", "GP", "mix", "Dset", "Wset"])
    return plain, drain_ops(r, plain, fam), mb


def drain_ops(r, plain, fam):
    """a script that walks through the whole input with one family of operations"""
    nlines = plain.count(b"\n") + 2
    ntok = len(plain.split()) + 2
    if fam == "WG":      # the loops of lmplz (corpus_count) and query: words of a line, then the newline by get()
        ops = []
        for ln in plain.split(b"\n"):
            ops += ["W sp"] * (len(ln.split()) + 1) + ["G"]
        ops = ops[:6000]
    elif fam == "WL":
        ops = []
        for ln in plain.split(b"\n"):
            k = len(ln.split())
            ops += ["W sp"] * r.randint(0, k + 1) + ["L 10 1"]
        ops = ops[:6000]
    elif fam == "D":
        ops = ["D sp"] * min(ntok, 6000)
    elif fam == "L":
        ops = ["L 10 1"] * min(nlines, 6000)
    elif fam == "E":
        ops = ["E 10 0"] * min(nlines, 6000)
    elif fam == "SD":
        ops = ["S sp", "D sp"] * min(ntok, 3000)
    elif fam == "Dset":   # caller-supplied tables with delimiters outside kSpaces (lmplz: NUL, tab, LF, CR, space)
        st = r.choice(["set:0a2c7c0020", "set:00090a0d20", "set:0a2c", "set:0a7c2c20"])
        ops = ["D " + st] * min(ntok * 3, 6000)
    elif fam == "Wset":
        st = r.choice(["set:0a2c7c0020", "set:00090a0d20", "set:0a2c20"])
        ops = [x for _ in range(min(ntok * 2, 3000)) for x in ("W " + st, r.choice(["W " + st, "G"]))]
    elif fam == "num":
        ops = [r.choice(["U", "I", "F", "B"]) for _ in range(min(ntok, 4000))]
    elif fam == "GP":
        ops = ["W sp"] * 5 + [r.choice(["G", "P", "G"]) for _ in range(min(len(plain) + 3, 5000))]
    else:
        ops = [r.choice(["W sp", "W sp", "G", "D sp", "S sp", "L 10 1", "P", "E 10 0", "W set:0a20"]) for _ in range(min(ntok * 2, 6000))]
    return ops + ["W sp", "G", "D sp", "L 10 1", "W sp", "P", "U", "F"]


def gen_band_case(r):
    """File sizes swept through the whole range (one window, two windows + a page] with tokens NOT aligned to pages, and
    a draining script: the last Shift then happens at an arbitrary offset inside a page, with the rest of the file
    a little more or a little less than what the window can show (the decision `is this the final window` is taken
    on either side of its threshold).  Returns (plain, ops, min_buffer)."""
    mb = r.choice([0, 1, 1, 4096, 8192, 12287])
    M = PAGE * max(mb // PAGE + 1, 2)
    total = r.randint(M + 1, 2 * M + PAGE)
    number = r.random() < 0.25
    linelen = r.choice([0, 0, 100, 37, 1000, 3000])
    out = bytearray()
    while len(out) < total:
        if linelen:
            out += bytes(r.choice(b"abcdefgh ") for _ in range(linelen - 1)) + b"\n"
        else:
            out += (str(r.randint(0, 10 ** r.randint(1, 9))).encode() if number else gen_token(r))
            out += r.choice([b" ", b" ", b"\n", b"\t", b"  "])
    plain = bytes(out[:total])
    if r.random() < 0.4:
        plain = plain.rstrip(SP)
    for m in MAGICS:
        if plain.startswith(m):
            plain = b"a" + plain
    fam = r.choice(["num"] * 4 + ["D", "L"]) if number else r.choice(["L", "L", "E", "D", "WG", "WL", "SD", "mix", "Dset", "Dset", "Wset"])
    return plain, drain_ops(r, plain, fam), mb


SETS = ["sp", "sp", "sp", "set:0a", "set:0a20", "set:0a2c", "set:0a0920", "set:0a00", "set:0a7c2c20"]


def gen_ops(r, data, numbers=True):
    n = r.choice([6, 20, 60, 150, 300])
    style = r.random()
    pool = ["L 10 1", "L 10 1", "L 10 0", "E 10 1", "D sp", "D sp", "W sp", "W sp", "G", "G", "P", "S sp",
            "D %s" % r.choice(SETS), "W %s" % r.choice(SETS), "S %s" % r.choice(SETS), "L %d %d" % (r.choice([10, 32, 44, 0, 13]), r.randint(0, 1))]
    if numbers:
        pool += ["F", "B", "I", "U", "F", "I"]
    if style < 0.15:
        pool = ["G", "P", "G", "G", "S sp", "D sp"]
    elif style < 0.3:
        pool = ["L 10 1", "E 10 1", "G", "P"]
    elif style < 0.4 and numbers:
        pool = ["F", "B", "I", "U", "D sp", "W sp", "L 10 1"]
    ops = [r.choice(pool) for _ in range(n)]
    # drain: enough line reads to reach the end, then every operation once more after the end
    if r.random() < 0.75:
        k = min(data.count(b"\n") + 2, 2500)
        drain = r.choice(["E 10 1", "L 10 1", "D sp", "W sp"])
        if drain == "W sp":
            ops += [x for _ in range(k) for x in ("W sp", "G")][:2500]
        elif drain == "D sp":
            ops += ["D sp"] * min(len(data.split()) + 2, 2500)
        else:
            ops += [drain] * k
    tail = ["G", "P", "S sp", "D sp", "W sp", "L 10 0", "E 10 1", "G"]
    if numbers:
        tail += ["F", "I", "U", "B"]
    r.shuffle(tail)
    return ops + tail


def compress_members(r, data, codec):
    """codec in gz|bz2|xz|cat: returns (raw bytes, member description)."""
    def one(c, b):
        if c == "gz":
            return gzip.compress(b, compresslevel=r.choice([1, 6, 9]), mtime=0)
        if c == "bz2":
            return bz2.compress(b, r.choice([1, 9]))
        return lzma.compress(b, format=lzma.FORMAT_XZ, preset=r.choice([0, 6]))
    if codec != "cat":
        return one(codec, data), [codec]
    k = r.randint(2, 4)
    cuts = sorted(r.randint(0, len(data)) for _ in range(k - 1))
    if r.random() < 0.3 and cuts:
        cuts[0] = cuts[-1]          # an empty member
        cuts.sort()
    parts = [data[a:b] for a, b in zip([0] + cuts, cuts + [len(data)])]
    cs = [r.choice(["gz", "bz2", "xz"]) for _ in parts]
    return b"".join(one(c, p) for c, p in zip(cs, parts)), cs


def py_decompress(raw):
    """Independent decoder of a member chain (python's own bindings of the three libraries)."""
    out = b""
    while raw:
        if raw.startswith(MAGICS[0]):
            d = __import__("zlib").decompressobj(31)
        elif raw.startswith(MAGICS[1]):
            d = bz2.BZ2Decompressor()
        elif raw.startswith(MAGICS[2]):
            d = lzma.LZMADecompressor(format=lzma.FORMAT_XZ)
        else:
            raise ValueError("not a member")
        out += d.decompress(raw)
        raw = d.unused_data
    return out


def fnv(b):
    h = 1469598103934665603
    for x in b:
        h = ((h ^ x) * 1099511628211) & 0xFFFFFFFFFFFFFFFF
    return h


def show_bytes(b):
    n = len(b)
    if n <= 48:
        return "B %d:%s" % (n, b.hex())
    return "B %d:%s..%s#%016x" % (n, b[:16].hex(), b[-16:].hex(), fnv(b))


# ------------------------------------------------------------------------------- running
def canon(op, res):
    """What the property lets vary at the end of input (see Model/FilePiece.lean `canon`)."""
    o = op.split()[0]
    r, _, off = res.rpartition(" @")
    if o == "S" and r == "EOF":
        r = "SK"
    if o in "FBIU" and r == "PE e":
        r = "EOF"
    return r + " @" + off


class Tools:
    def __init__(self, hexe, dexe, shim, tmp):
        self.hexe, self.dexe, self.shim, self.tmp = hexe, dexe, shim, tmp

    def harness(self, lines, timeout=600):
        env = {"LD_PRELOAD": self.shim, "ASAN_OPTIONS": "verify_asan_link_order=0:detect_leaks=0"}
        return stream.run_lines(self.hexe, lines, timeout, env, args=[self.tmp])

    def driver(self, lines, timeout=600):
        return stream.run_lines(self.dexe, lines, timeout)


def model_cost(n, mb, shim):
    """rough number of list steps the Lean window model needs (reads x window+offset)"""
    mode, seed, span = shim[:3]
    avg = {0: 1 << 30, 1: 1, 2: span}.get(mode, span / 2.0 + 1)
    reads = n / avg + 1
    return reads * (n / 2.0 + max(mb, 8192))


def block_lines(plain, raw, hkind, mkind, mb, shim, ops, variant="new"):
    """(harness lines, driver lines) for one backend; same number of lines.  shim = (mode, seed, span[, mmap fails
    from this file offset])."""
    mode, seed, span = shim[:3]
    mm = shim[3] if len(shim) > 3 else -1
    h = ["data " + raw.hex(), "open %s %d %d %d %d %d" % (hkind, mb, mode, seed, span, mm)] + ops
    d = ["data " + plain.hex(), "variant " + variant, "open %s %d %d %d %d %d" % (mkind, mb, mode, seed, span, mm)] + ops
    return h, d


def compare_block(ops, hout, dout, exact):
    """hout: harness lines for [data, open, ops...]; dout: driver lines for [data, variant, open, ops...].
    Returns None or (index into ops, kind, impl, model, spec)."""
    hres = hout[2:]
    dres = dout[3:]
    if len(hout) > 1 and hout[1] in ("pipe-too-small", "no-shim"):
        return "skipped"          # resource limit of this machine (pipe buffer), not a property of kenlm
    if len(hout) < 2 or not hout[1].startswith("ok"):
        return (-1, "open", hout[1] if len(hout) > 1 else None, None, None)
    for i, op in enumerate(ops):
        if i >= len(hres) or i >= len(dres):
            return (i, "missing", hres[i] if i < len(hres) else None, dres[i] if i < len(dres) else None, None)
        m, _, s = dres[i].partition(" | ")
        if canon(op, hres[i]) != s:
            return (i, "spec", hres[i], m, s)
        if exact and hres[i] != m:
            return (i, "model", hres[i], m, s)
    return None


def classify(hkind, codec, op, impl, spec):
    o = op.split()[0]
    ir, _, ioff = (impl or "").rpartition(" @")
    sr, _, soff = (spec or "").rpartition(" @")
    backend = "mmap" if (hkind == "file" and codec == "plain") else "read"
    if ir == sr and ioff != soff:
        return backend + ":offset-only"
    if ir == "EOF" and sr != "EOF":
        return backend + ":spurious-eof:" + o
    return backend + ":" + o + ":" + ir.split(" ")[0] + "-vs-" + sr.split(" ")[0]


def nan_token_at(plain, spec_prev_off):
    rest = plain[spec_prev_off:].lstrip(SP)
    tok = rest.split(None, 1)[0] if rest.split(None, 1) else b""
    return tok.startswith(b"NaN") or tok == b"nan"


def run_case(ctx, T, r, ci, found_classes, numbers=True, nan=False, boundary=False, band=False):
    plain = gen_data(r, nan=nan)
    ops = gen_ops(r, plain, numbers)
    mbs = [0, 1, 4095, 4096, 5000, 8192, 12287, 20000, 65536]
    if boundary:
        plain, ops, bmb = gen_boundary_case(r)
        mbs = [bmb]
        ctx.hist("fp.boundary_case", True)
    if band:
        plain, ops, bmb = gen_band_case(r)
        mbs = [bmb]
        ctx.hist("fp.band_case", True)
    backends = []   # (name, hkind, mkind, codec, exact, shim, min_buffer)
    shim_modes = [(1, 0, 1), (2, 0, PAGE - 1), (3, r.randrange(1 << 32), r.choice([2, 7, 100, 4096, 9000, 70000]))]
    backends.append(("file", "file", "file", "plain", True, (0, 0, 1), r.choice(mbs)))
    if len(plain) + 4096 <= 1000000:
        backends.append(("pipe", "pipe", "pipe", "plain", True, (0, 0, 1), r.choice(mbs)))
        sm = r.choice(shim_modes)
        backends.append(("pipe+shim%d" % sm[0], "pipe", "pipe", "plain", True, sm, r.choice(mbs)))
    backends.append(("istream", "istream", "lazy", "plain", True, (0, 0, 1), r.choice(mbs)))
    # mmap refused by the kernel from some page on (0 = the very first map): MMapShift falls back to read()
    mmfrom = r.choice([0, 0, PAGE * r.randint(1, max(1, len(plain) // PAGE + 1))])
    smf = r.choice([(0, 0, 1), (2, 0, PAGE - 1), shim_modes[2]])
    backends.append(("file+mmapfail%s" % ("+shim%d" % smf[0] if smf[0] else ""), "file", "file", "plain", True,
                     (smf[0], smf[1], smf[2], mmfrom), r.choice(mbs)))
    codecs = ["gz", "bz2", "xz", "cat"]
    r.shuffle(codecs)
    ncomp = 2 if ctx.tier == "quick" else 4
    for c in codecs[:ncomp]:
        hk = r.choice(["file", "pipe"])
        sm = r.choice([(0, 0, 1), (2, 0, PAGE - 1), shim_modes[2], (1, 0, 1) if len(plain) < 3000 else (0, 0, 1)])
        backends.append((c + ":" + hk + ("+shim%d" % sm[0] if sm[0] else ""), hk, "lazy" if hk == "file" else "pipe", c, False, sm,
                         r.choice(mbs)))
    return eval_case(ctx, T, r, plain, ops, backends, found_classes, sample=ci < 3)


def eval_case(ctx, T, r, plain, ops, backends, found_classes, sample=False, raws=None):
    hl, dl, meta = [], [], []
    for bi, (name, hk, mk, codec, exact, sm, mb) in enumerate(backends):
        if raws is not None and raws[bi] is not None:
            raw = raws[bi]
        elif codec == "plain":
            raw = plain
        else:
            raw, members = compress_members(r, plain, codec)
            # decompress(compress x) = x on the real libraries, through an independent binding
            back = py_decompress(raw)
            ctx.count(None)
            if back != plain:
                ctx.violation("decompress(compress x) != x in the system libraries",
                              {"stream": "filepiece", "codec": codec, "members": members, "plain_hex": plain[:4000].hex()})
                return True
        if exact and model_cost(len(plain), mb, sm) > 1.5e8:
            exact = False
        h, d = block_lines(plain, raw, hk, mk, mb, sm, ops, "new" if exact else "spec")
        ctx.hist("fp.exact_window_model", exact)
        meta.append((name, hk, mk, codec, exact, sm, mb, raw, len(hl), len(h), len(dl), len(d)))
        hl += h
        dl += d
    rc1, ho, he = T.harness(hl)
    rc2, do, de = T.driver(dl)
    found = False
    if rc2 != 0 or len(do) != len(dl):
        ctx.violation("Lean driver failed on a filepiece script (rc=%s)" % rc2,
                      {"stream": "filepiece", "stderr": de[-1500:], "plain_hex": plain[:2000].hex(), "ops": ops[:50]}, no_input=True)
        return True
    if rc1 != 0:
        summ = [l for l in he.splitlines() if l.startswith("SUMMARY:") or "runtime error:" in l]
        cls = "harness-died:" + (summ[0].split(" in ")[0].replace(REPO, "") if summ else str(rc1))
        if cls in found_classes:
            return True
        found_classes.add(cls)
        # the block in which the harness died
        blk = [m for m in meta if m[8] <= len(ho)]
        ctx.violation("the real code crashed / was stopped by the sanitizers on a filepiece script (rc=%s): %s; %s" % (
                          rc1, summ[0] if summ else he[-300:], "backend " + blk[-1][0] if blk else ""),
                      {"stream": "filepiece", "class": cls, "stderr": he[-3000:], "plain_hex": plain.hex()[:200000], "ops": ops,
                       "backends": [m[0] for m in meta], "raw_hex_of_failing_backend": blk[-1][7].hex()[:200000] if blk else None,
                       "lines_done": len(ho)})
        return True
    reference = None
    for name, hk, mk, codec, exact, sm, mb, raw, h0, hn, d0, dn in meta:
        hout = ho[h0:h0 + hn]
        dout = do[d0:d0 + dn]
        ctx.count(("fp", sha(plain), tuple(ops), name, mb), nontrivial=len(plain) > 2 * PAGE and len(ops) >= 10)
        ctx.hist("fp.backend", name.split(":")[0] if ":" in name else name.split("+shim")[0])
        ctx.hist("fp.min_buffer", mb)
        ctx.hist("fp.size", min(len(plain) // 8192 * 8192, 262144))
        ctx.hist("fp.shim", sm[0])
        # independent oracle: all backends agree with each other on the canonical transcript
        canon_t = [canon(op, x) for op, x in zip(ops, hout[2:])]
        bad = compare_block(ops, hout, dout, exact)
        if bad == "skipped":
            ctx.hist("fp.skipped_no_pipe_buffer", name)
            continue
        if bad is None and reference is None:
            reference = (name, canon_t)
        if bad is None and canon_t != reference[1]:
            i = stream.first_diff(canon_t, reference[1])
            bad = (i, "backends", hout[2 + i], None, reference[1][i])
        if bad is None:
            continue
        i, kind, impl, model, spec = bad
        op = ops[i] if 0 <= i < len(ops) else "open"
        cls = classify(hk, codec, op, impl, spec)
        # which code does the implementation follow?  (faithful model of today's tree = `old`)
        follows = None
        if exact:
            for variant in ("new", "HIFn", "hIFN", "HiFN", "HIfN", "old"):
                h2, d2 = block_lines(plain, raw, hk, mk, mb, sm, ops, variant)
                rcv, dov, _ = T.driver(d2)
                if rcv == 0 and len(dov) == len(d2) and all(
                        hout[2 + j] == dov[3 + j].partition(" | ")[0] for j in range(len(ops)) if 2 + j < len(hout)):
                    follows = variant
                    break
        spec_prev = 0
        if i > 0:
            spec_prev = int(dout[3 + i - 1].rpartition(" @")[2])
        key = None
        if op in ("F", "B") and nan_token_at(plain, spec_prev):
            cls = "nan-token"
        if cls in found_classes and key is None:
            found = True
            continue
        found_classes.add(cls)

        def still_fails(cand_ops):
            h2, d2 = block_lines(plain, raw, hk, mk, mb, sm, cand_ops, "new" if exact else "spec")
            r1, o1, _ = T.harness(h2, 120)
            r2, o2, _ = T.driver(d2, 120)
            if r1 != 0 or r2 != 0:
                return False
            b = compare_block(cand_ops, o1, o2, exact)
            return b is not None and b != "skipped" and classify(hk, codec, cand_ops[b[0]] if b[0] >= 0 else "open", b[2], b[4]) == cls
        small = ops[:i + 1]
        rplain, rraw = plain, raw
        if key is None and i >= 0:
            small = stream.ddmin(small, still_fails, max_tests=60)
            if codec == "plain":
                # shrink the input: shortest failing prefix by halving, then drop leading pages' worth of bytes is not
                # attempted (offsets matter); the script is kept
                def fails_with(pfx):
                    h2, d2 = block_lines(pfx, pfx, hk, mk, mb, sm, small, "new" if exact else "spec")
                    r1, o1, _ = T.harness(h2, 120)
                    r2, o2, _ = T.driver(d2, 120)
                    if r1 != 0 or r2 != 0:
                        return False
                    b = compare_block(small, o1, o2, exact)
                    return b is not None and b != "skipped" and classify(hk, codec, small[b[0]] if b[0] >= 0 else "open", b[2], b[4]) == cls
                lo, hi = 0, len(plain)       # invariant: plain[:hi] fails
                for _ in range(14):
                    if hi - lo <= 1:
                        break
                    mid = (lo + hi) // 2
                    if fails_with(plain[:mid]):
                        hi = mid
                    else:
                        lo = mid
                if hi < len(plain):
                    rplain = rraw = plain[:hi]
        what = {"spec": "implementation deviates from the whole-string spec",
                "model": "implementation deviates from the window model (spec agrees)",
                "backends": "backends disagree with each other",
                "missing": "missing output", "open": "open failed"}[kind]
        what += " [%s] backend=%s min_buffer=%d op=%r: impl %r, spec %r" % (cls, name, mb, op, impl, spec)
        if follows == "new":
            what += "; the implementation follows the window model exactly, so the deviation is in what the model takes as a parameter (the number grammar: result not a function of the token alone)"
        elif follows:
            what += ("; the implementation follows the window model variant %r = the faithful model of unrepaired code (old: no repair; "
                     "letters: lower case = that repair is missing, H Offset() after ReadShift compaction, I peek/get EOF test, "
                     "F Offset() after the mmap fall back, N NaN test of ParseNumber on the consumed characters; see Properties/C18 "
                     "section Old)" % follows)
        rpath = os.path.join(ctx.replay_dir, "data_%s.bin" % sha(rraw))
        os.makedirs(ctx.replay_dir, exist_ok=True)
        with open(rpath, "wb") as f:
            f.write(rraw)
        if rraw is not raw:
            # impl / spec lines of the shrunk case
            h2, d2 = block_lines(rplain, rraw, hk, mk, mb, sm, small, "new" if exact else "spec")
            _, o1, _ = T.harness(h2, 120)
            _, o2, _ = T.driver(d2, 120)
            b = compare_block(small, o1, o2, exact)
            if b is not None and b != "skipped":
                _, _, impl, model, spec = b
        others = {}
        for m2 in meta:
            if m2[0] != name and 0 <= i and m2[8] + 2 + i < len(ho) and 2 + i < m2[9]:
                others["%s min_buffer=%d shim=%s" % (m2[0], m2[6], list(m2[5]))] = ho[m2[8] + 2 + i]
        rep = {"stream": "filepiece", "class": cls, "same_op_same_bytes_on_the_other_backends_of_this_case": others, "backend": name, "harness_kind": hk, "codec": codec, "min_buffer": mb,
               "shim": {"mode": sm[0], "seed": sm[1], "span": sm[2], "mmap_fails_from": sm[3] if len(sm) > 3 else -1}, "ops": small, "first_bad_op_index_in_full_script": i,
               "impl": impl, "model": model, "spec": spec, "follows_variant": follows, "input_file": rpath,
               "input_len": len(rraw), "plain_len": len(rplain), "unshrunk_plain_len": len(plain),
               "replay_cmd": "python3 check.py C18 --replay <this file>"}
        if ctx.violation(what, rep, key=key):
            found = True
    if sample:
        ctx.sample({"stream": "filepiece", "plain_len": len(plain), "ops": ops[:10], "backends": [m[0] for m in meta],
                    "impl": ho[2:8]})
    return found


def directed_cases(ctx, T, r, found_classes):
    """The witnesses of the `Old` theorems scaled to the real page size, and other past failures; run first."""
    found = False
    # I: Properties/C18 `Old.spurious_eof` (page 4 -> 4096)
    found |= eval_case(ctx, T, r, b"a" * 8191 + b"\n" + b"b" * 4096, ["L 10 1", "G", "G"],
                       [("file", "file", "file", "plain", True, (0, 0, 1), 1),
                        ("pipe", "pipe", "pipe", "plain", True, (0, 0, 1), 1)], found_classes)
    # H: Properties/C18 `Old.offset_after_compaction`
    found |= eval_case(ctx, T, r, b"ab " + b"c" * 8200 + b"\nrest\n", ["D sp", "D sp", "L 10 1"],
                       [("pipe", "pipe", "pipe", "plain", True, (0, 0, 1), 1),
                        ("file", "file", "file", "plain", True, (0, 0, 1), 1),
                        ("istream", "istream", "lazy", "plain", True, (0, 0, 1), 1)], found_classes)
    # ReadWordSameLine (and every other space-skipping loop) when the Shift it issues maps the FINAL mmap window: the
    # delimiter is byte 8191, the line goes on at byte 8192 (a past miss: seeded C18-8 tested at_end_ there)
    for delim in (b" ", b"\n"):
        body = (b"w1 w22 w333\n" * 700)[:8191 - 4] + b" zzz"
        body = body[:8191] + delim + b"next words of the line\nand more\n" + b"tail " * 300
        wg = []
        for ln in body.split(b"\n"):
            wg += ["W sp"] * (len(ln.split()) + 1) + ["G"]
        found |= eval_case(ctx, T, r, body, wg,
                           [("file", "file", "file", "plain", True, (0, 0, 1), 1),
                            ("pipe", "pipe", "pipe", "plain", True, (0, 0, 1), 1),
                            ("istream", "istream", "lazy", "plain", True, (0, 0, 1), 1)], found_classes)
    # delimiter tables with members outside kSpaces: a delimiter after the last white space of the window / of the input
    found |= eval_case(ctx, T, r, b"a b c,d|e\x00f", ["D set:0a2c7c0020"] * 7 + ["W set:0a2c7c0020"],
                       [("file", "file", "file", "plain", True, (0, 0, 1), 1),
                        ("pipe+shim1", "pipe", "pipe", "plain", True, (1, 0, 1), 1),
                        ("istream", "istream", "lazy", "plain", True, (0, 0, 1), 1)], found_classes)
    body = b"ab cd " + b"x" * 8180 + b",yz|uv\x00w " + b"q," * 3000
    found |= eval_case(ctx, T, r, body, ["D set:0a2c7c0020"] * 40 + ["W set:00090a0d20"] * 5,
                       [("file", "file", "file", "plain", True, (0, 0, 1), 1),
                        ("pipe", "pipe", "pipe", "plain", True, (0, 0, 1), 1)], found_classes)
    # the last token is a number without a newline or space behind it (ReadNumber must hallucinate the terminator once the
    # end has been seen *during* the call): read() backends learn about the end only by a 0-byte read
    found |= eval_case(ctx, T, r, b"12 34 56", ["U", "I", "F", "G", "U"],
                       [("pipe", "pipe", "pipe", "plain", True, (0, 0, 1), 1),
                        ("istream", "istream", "lazy", "plain", True, (0, 0, 1), 1),
                        ("file", "file", "file", "plain", True, (0, 0, 1), 1)], found_classes)
    found |= eval_case(ctx, T, r, b"7 " * 4094 + b"1234567890", ["U"] * 4096,
                       [("file", "file", "file", "plain", True, (0, 0, 1), 1),
                        ("pipe", "pipe", "pipe", "plain", True, (0, 0, 1), 1)], found_classes)
    # the last Shift happens in the middle of a page and the rest of the file is a little more than the window shows
    # (100-byte lines, 13000 bytes, 8 KiB window: at offset 8100 the window becomes [4096, 12288), not the final one)
    body = (b"x" * 99 + b"\n") * 130
    found |= eval_case(ctx, T, r, body, ["L 10 1"] * 132 + ["G"],
                       [("file", "file", "file", "plain", True, (0, 0, 1), 1),
                        ("pipe", "pipe", "pipe", "plain", True, (0, 0, 1), 1)], found_classes)
    # F: Properties/C18 `Old.offset_after_mmap_fallback`: the second mmap (file offset 4096) is refused
    found |= eval_case(ctx, T, r, b"ab " + b"c" * 5000 + b" " + b"e" * 9000 + b" tail\n", ["D sp", "D sp", "D sp", "D sp", "G"],
                       [("file+mmapfail", "file", "file", "plain", True, (0, 0, 1, 4096), 1),
                        ("file", "file", "file", "plain", True, (0, 0, 1), 1)], found_classes)
    # N: Properties/C18 `Old.nan_depends_on_window`: the same bytes, two window positions (1-byte reads end the window
    # right after "NaN "; full reads do not): before the repair NaN resp. ParseNumberException
    found |= eval_case(ctx, T, r, b"xxxxx NaN 1\n", ["D sp", "F", "D sp"],
                       [("pipe+shim1", "pipe", "pipe", "plain", True, (1, 0, 1), 1),
                        ("pipe", "pipe", "pipe", "plain", True, (0, 0, 1), 1)], found_classes)
    # a member that decodes to nothing in the middle of a chain (StreamCompressed::Read forwards to the next reader)
    raw = gzip.compress(b"", mtime=0) + gzip.compress(b"x y\n", mtime=0) + bz2.compress(b"") + lzma.compress(b"z\n", format=lzma.FORMAT_XZ)
    found |= eval_case(ctx, T, r, b"x y\nz\n", ["D sp", "L 10 1", "L 10 1", "G"],
                       [("cat:file", "file", "lazy", "cat", False, (0, 0, 1), 1),
                        ("cat:pipe", "pipe", "pipe", "cat", False, (0, 0, 1), 1)], found_classes, raws=[raw, raw])
    return found


def rc_cases(ctx, T, r, n, found_classes):
    """ReadCompressed::Read with arbitrary request sizes through member chains: the concatenation
    equals the plain bytes, 0 only at the true end, never more than requested."""
    found = False
    for _ in range(n):
        plain = gen_data(r) if r.random() < 0.7 else bytes(r.getrandbits(8) for _ in range(r.choice([0, 1, 5, 6, 7, 1000, 40000])))
        for m in MAGICS:
            if plain.startswith(m):
                plain = b"a" + plain
        codec = r.choice(["plain", "gz", "bz2", "xz", "cat", "cat"])
        raw = plain if codec == "plain" else compress_members(r, plain, codec)[0]
        amount = r.choice([1, 2, 5, 6, 7, 100, 4095, 4096, 16384, 16385, 100000])
        if amount < 5 and len(plain) > 20000:
            amount = 100
        sm = r.choice([(0, 0, 1), (1, 0, 1) if len(raw) < 5000 else (2, 0, 4095), (3, r.randrange(1 << 32), r.choice([3, 1000, 20000]))])
        rc, out, err = T.harness(["data " + raw.hex(), "rc %d %d %d %d" % (amount, sm[0], sm[1], sm[2])])
        want = "RC " + show_bytes(plain) + " over=0 data_after_zero=0"
        sizes = None
        if rc == 0 and len(out) > 1 and " sizes=" in out[1]:
            out[1], _, sizes = out[1].partition(" sizes=")
        if rc == 0 and len(out) > 1 and out[1] == "pipe-too-small":
            ctx.hist("rc.skipped_no_pipe_buffer", codec)
            continue
        ctx.count(("rc", sha(raw), amount, sm), nontrivial=codec != "plain" and len(plain) > 0)
        ctx.hist("rc.codec", codec)
        if codec == "plain" and rc == 0 and len(out) > 1 and out[1] == want:
            # the concrete reader model (ReadFactory header, UncompressedWithHeader, Uncompressed) predicts every return value
            rc2, o2, e2 = T.driver(["data " + plain.hex(), "rc %d %d %d %d" % (amount, sm[0], sm[1], sm[2])])
            ctx.count(("rc-model", sha(raw), amount, sm))
            if rc2 != 0 or len(o2) < 2 or o2[1] != "sizes=" + sizes:
                found = True
                if "rc:sizes" not in found_classes:
                    found_classes.add("rc:sizes")
                    ctx.violation("ReadCompressed::Read on uncompressed data returns other sizes than the reader model",
                                  {"stream": "readcompressed", "codec": codec, "amount": amount, "shim": sm, "raw_hex": raw.hex()[:100000],
                                   "impl": "sizes=" + str(sizes), "expected": o2[1:] if rc2 == 0 else e2[-500:]})
        if rc != 0 or len(out) < 2 or out[1] != want:
            found = True
            summ = [l for l in err.splitlines() if l.startswith("SUMMARY:") or "runtime error:" in l]
            cls = "rc:" + (summ[0].split(" in ")[0].replace(REPO, "") if summ else "wrong-bytes")
            if rc != 0 and summ:
                cls = "harness-died:" + summ[0].split(" in ")[0].replace(REPO, "")
            if cls in found_classes:
                continue
            found_classes.add(cls)
            ctx.violation("ReadCompressed::Read does not yield the concatenated decoded members" + (": " + summ[0] if summ else ""),
                          {"stream": "readcompressed", "codec": codec, "amount": amount, "shim": sm, "raw_hex": raw.hex()[:100000],
                           "impl": out[1:] if rc == 0 else err[-800:], "expected": want})
            found = True
    return found


def tok_cases(ctx, T, r, n):
    found = False
    lines = []
    exp = []
    for _ in range(n):
        s = bytes(r.choice(b"ab \t\n,\x00") for _ in range(r.choice([0, 1, 2, 5, 12, 40, 41, 64, 100, 300, r.randint(0, 2000)])))
        if r.random() < 0.2:
            s = gen_data(r)[:r.choice([50, 500, 5000])]
        st = r.choice(SETS)
        skip = r.randint(0, 1)
        lines.append("tok %s %d %s" % (st, skip, s.hex()))
        dset = SP if st == "sp" else bytes.fromhex(st[4:])
        # independent oracle: python split
        pieces, cur = [], bytearray()
        for x in s:
            if x in dset:
                pieces.append(bytes(cur)); cur = bytearray()
            else:
                cur.append(x)
        pieces.append(bytes(cur))
        if skip:
            pieces = [p for p in pieces if p]
        exp.append("T %d" % len(pieces) + "".join(" %d:%s" % (len(p), p.hex()) for p in pieces))
    rc1, o1, e1 = T.harness(lines)
    rc2, o2, e2 = T.driver(lines)
    for i, ln in enumerate(lines):
        ctx.count(("tok", ln), nontrivial=len(ln.split()[-1]) > 4 if len(ln.split()) == 4 else False)
        a = o1[i].rstrip() if i < len(o1) else None
        b = o2[i].rstrip() if i < len(o2) else None
        if a != exp[i].rstrip() or b != exp[i].rstrip():
            ctx.violation("TokenIter pieces differ from the split specification",
                          {"stream": "tokenize", "op": ln, "impl": a, "model": b, "expected": exp[i]})
            found = True
            break
    return found


def setup(ctx):
    ok, hexe, lg = repo.harness("c18.cc", extra=[REPO + "/util/" + f for f in UTIL_SRCS] +
                                sorted(glob.glob(REPO + "/util/double-conversion/*.cc")) + ["-lz", "-lbz2", "-llzma", "-ldl"])
    if not ok:
        return None, lg
    shim_src = os.path.join(VERIF, "tools", "shim_read.c")
    sdir = scratch_dir("shim")
    shim = os.path.join(sdir, "shim_read_%s.so" % sha(open(shim_src, "rb").read()))
    if not os.path.exists(shim):
        tmp = shim + ".tmp%d" % os.getpid()
        rc, o, e = sh(["gcc", "-shared", "-fPIC", "-O1", shim_src, "-o", tmp, "-ldl"], timeout=120)
        if rc != 0:
            return None, "shim does not compile: " + e[-1000:]
        os.replace(tmp, shim)
    tmp = scratch_dir("c18tmp")
    return Tools(hexe, lean.driver_path("drv_C18"), shim, tmp), ""


def replay(ctx, path):
    """python3 check.py C18 --replay replays/C18/<hash>.json : re-run one recorded case on the current tree and
    print implementation / window model / spec side by side.  Exit 1 if it still fails."""
    import json
    o = json.load(open(path))
    ok, bdir, lg = True, None, ""
    okb, out = lean.lake_build(["drv_C18"])
    T, lg = setup(ctx)
    if T is None or not okb:
        print("cannot build harness/driver: " + (lg or out)[-500:])
        return 2
    if o.get("stream") == "readcompressed":
        raw = bytes.fromhex(o["raw_hex"])
        sm = o["shim"]
        rc, outl, err = T.harness(["data " + raw.hex(), "rc %d %d %d %d" % (o["amount"], sm[0], sm[1], sm[2])])
        print("impl    :", outl[1:] if rc == 0 else err[-1500:])
        print("expected:", o["expected"])
        return 0 if rc == 0 and len(outl) > 1 and outl[1] == o["expected"] else 1
    if "input_file" not in o and "raw_hex_of_failing_backend" in o:
        raw = bytes.fromhex(o["raw_hex_of_failing_backend"] or "")
        hk = "pipe" if "pipe" in (o.get("backends") or ["file"])[-1] else "file"
        rc, outl, err = T.harness(["data " + raw.hex(), "open %s 1 0 0 1" % hk] + o["ops"])
        print("\n".join(outl[-10:]))
        print(err[-1500:] if rc != 0 else "no crash on this tree")
        return 1 if rc != 0 else 0
    raw = open(o["input_file"], "rb").read()
    plain = raw if o["codec"] == "plain" else py_decompress(raw)
    sm = (o["shim"]["mode"], o["shim"]["seed"], o["shim"]["span"], o["shim"].get("mmap_fails_from", -1))
    hk = o["harness_kind"]
    mk = {"file": "file" if o["codec"] == "plain" else "lazy", "pipe": "pipe", "istream": "lazy"}[hk]
    ops = o["ops"]
    exact = o["codec"] == "plain" and model_cost(len(plain), o["min_buffer"], sm) <= 1.5e8
    h, d = block_lines(plain, raw, hk, mk, o["min_buffer"], sm, ops, "new" if exact else "spec")
    rc1, ho, he = T.harness(h)
    rc2, do, de = T.driver(d)
    print("%-8s | %-40s | %s" % ("op", "implementation", "window model | spec"))
    for i, op in enumerate(ops):
        print("%-8s | %-40s | %s" % (op, ho[2 + i][:40] if 2 + i < len(ho) else "-", do[3 + i][:100] if 3 + i < len(do) else "-"))
    if rc1 != 0:
        print(he[-1500:])
        return 1
    bad = compare_block(ops, ho, do, exact)
    if bad == "skipped":
        print("cannot replay here: pipe buffer too small")
        return 2
    print("still failing: %s" % (bad,) if bad else "passes on this tree")
    return 1 if bad else 0


def run(ctx):
    problems, consts = flow.proof_phase(ctx, "C18", probe="probe_C18.cc",
                                        probe_flags=sorted(glob.glob(REPO + "/util/double-conversion/*.cc")),
                                        required=REQUIRED, drivers=["drv_C18"])
    T, lg = setup(ctx)
    if T is None:
        problems.append(lg)
        flow.report_obligation_failures(ctx, problems, False)
        return
    found = False
    classes = set()
    n = 48 if ctx.tier == "quick" else 600
    found |= directed_cases(ctx, T, ctx.rng, classes)
    for ci in range(n):
        found |= run_case(ctx, T, ctx.rng, ci, classes, numbers=True, nan=(ci % 12 == 9), boundary=(ci % 3 == 1), band=(ci % 3 == 2))
    found |= rc_cases(ctx, T, ctx.rng, 40 if ctx.tier == "quick" else 600, classes)
    found |= tok_cases(ctx, T, ctx.rng, 200 if ctx.tier == "quick" else 5000)
    ctx.cov["rule"] = ("filepiece: one evaluation = one (input, op script, backend, min_buffer, read-size pattern); non-trivial when the "
                       "input exceeds two pages and the script has >= 10 operations; distinct by all of these. Inputs: tokens, "
                       "numbers, long tokens, NUL/CR/high bytes with separators steered onto page multiples, 0..300000 bytes; "
                       "scripts: random interleavings of all operations, a drain phase and every operation after the end. "
                       "rc: ReadCompressed::Read with fixed request sizes over member chains (non-trivial: compressed, non-empty). "
                       "tok: TokenIter<BoolCharacter> with and without SkipEmpty.")
    ctx.assumptions += ["zlib/bzip2/lzma decode what python's bindings of the same libraries encode (checked per case, not proved)",
                        "strtol/strtoul/double-conversion results depend only on the token before the first space (grammar parameter; "
                        "the concrete grammar of lean/Driver/C18.lean is compared with the real parsers on every number read)",
                        "an uncompressed input does not begin with a gzip/bzip2/xz magic; after a compressed member only compressed members follow",
                        "mmap of a non-empty range does not fail; Linux pipe pre-filled so that read sizes are exactly the shim's",
                        "page size 4096 (regenerated), number tokens have < 772 significant digits"]
    flow.report_obligation_failures(ctx, problems, found)
