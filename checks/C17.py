"""C17 — Queues and chains deliver each item exactly once, in order, and terminate."""
import os
import shutil

from vlib import flow, lean, repo, stream
from vlib.common import REPO, SCRATCH, VERIF, log, sha, run as run_cmd

MANIFEST = {
    "text": "Lean theorems over a step-level model of util/pcqueue.hh (two counting semaphores, two mutexes, ring and "
            "cursors, per-thread program counters at the synchronisation points; any number of producers, consumers, "
            "capacity, items; arbitrary scheduler): one inductive invariant gives semaphore accounting, occupancy <= "
            "capacity, no slot overwritten before read / read before written, reads = prefix of writes (FIFO, exactly "
            "once), per-pair order, no deadlock while work remains, termination; a refinement theorem to the atomic bounded "
            "FIFO; on top of that FIFO the ThreadPool theorem (exactly once, destructor terminates) and the Chain ring "
            "theorem over a faithful Link model (order, content, poison exactly once, ring deadlock freedom, Wait returns). "
            "Tied to the code by a cooperative scheduler harness that drives the real PCQueue / Chain / ThreadPool through "
            "the KPU_KENLM_VERIF scheduling points along schedules enumerated exhaustively from the model (small "
            "configurations) or generated at random, compared step by step (enabled sets, occupancy, returned values) with "
            "the compiled Lean driver, plus a model-independent FIFO/multiset/order/occupancy/termination oracle.",
    "note": "Trusted: Lean kernel + propext/Classical.choice/Quot.sound; statements in lean/Properties/C17.lean; the "
            "harness scheduler and its shadow of the semaphore counters; boost semaphores/mutexes; memory-model effects "
            "below the mutex/semaphore level are out of reach (the driven runs are serialised). Bounded schedule "
            "enumeration is correspondence coverage, not proof.",
    "technique": "Lean 4 proof (inductive invariant over an executable step model, arbitrary scheduler) + schedule-driven "
                 "differential correspondence with the real code",
}

REQUIRED = ["KV.C17.sem_accounting", "KV.C17.never_over_cap", "KV.C17.fifo_exactly_once",
            "KV.C17.per_pair_order", "KV.C17.no_deadlock", "KV.C17.terminates", "KV.C17.maximal_run_delivers",
            "KV.C17.pool_exactly_once", "KV.C17.pool_join_each_deadlocks", "KV.C17.chain_ring", "KV.C17.pcqueue_refines_fifo",
            "KV.C17.wait_eintr_transparent", "KV.C17.stream_records",
            "KV.C17.steplevel_refines_atomic", "KV.C17.pool_exactly_once_steplevel",
            "KV.C17.chain_stream_transducer", "KV.C17.chain_ring_steplevel",
            "KV.C17.steplevel_liveness_partial", "KV.C17.copy_failure_transparent",
            "KV.C17.pool_steplevel_no_deadlock", "KV.C17.pool_steplevel_terminates",
            "KV.C17.chain_steplevel_no_deadlock", "KV.C17.chain_steplevel_terminates"]

HARNESS_EXTRA = [REPO + "/util/" + f for f in (
    "exception.cc", "integer_to_string.cc", "stream/chain.cc", "stream/multi_progress.cc", "stream/io.cc", "file.cc",
    "mmap.cc", "ersatz_progress.cc", "scoped.cc", "parallel_read.cc", "spaces.cc")] + ["-lboost_thread", "-lboost_system"]


# ---------------------------------------------------------------- case lines
def fmt_prods(prods):
    return ";".join(",".join(map(str, p)) if p else "-" for p in prods) or "-"


def fmt_list(l):
    return ",".join(map(str, l)) if l else "-"


def pcq_line(cap, prods, quotas, sched):
    return "pcq %d %s %s %s" % (cap, fmt_prods(prods), fmt_list(quotas), fmt_list(sched))


def unique_values(counts):
    """producer p gets values 100*(p+1)+i (globally unique, so the oracle can attribute them)"""
    return [[100 * (p + 1) + i for i in range(n)] for p, n in enumerate(counts)]


# ---------------------------------------------------------------- running the harness in batches
def run_harness(hexe, lines, timeout=900):
    """Runs all lines; the harness exits (rc 3) after a deadlock/stuck line, so restart behind it.
    Returns list of output lines (None where the harness produced nothing)."""
    out = []
    i = 0
    guard = 0
    while i < len(lines) and guard < 50:
        guard += 1
        rc, o, e = stream.run_lines(hexe, lines[i:], timeout=timeout)
        out += o
        if rc == 0 and len(o) == len(lines) - i:
            break
        if len(o) == 0:
            out.append("HARNESS-DIED rc=%s %s" % (rc, e[-300:].replace("\n", " ")))
        i = len(out)
    while len(out) < len(lines):
        out.append("HARNESS-DIED (restart limit)")
    return out


# ---------------------------------------------------------------- property oracle (independent of the model)
def parse_trace(line):
    toks = line.split(" ")
    steps = []
    status = None
    finals = {}
    i = 0
    while i < len(toks):
        t = toks[i]
        if t == "END":
            status = toks[i + 1]
            if i + 3 < len(toks) and toks[i + 3] not in ("", "-"):
                for part in toks[i + 3].split(";"):
                    tid, _, vals = part.partition(":")
                    finals[int(tid)] = [int(v) for v in vals.split(",") if v != ""]
            break
        if t.startswith("I/") or t == "FREE" or t.startswith("x") or t.startswith("P"):
            i += 1
            continue
        head, _, rest = t.partition("/")
        en, _, occ = rest.partition("/")
        val = None
        if "=" in head:
            head, _, v = head.partition("=")
            val = int(v)
        tid = int(head[:-1])
        steps.append((tid, head[-1], val, en, int(occ) if occ not in ("", None) else None))
        i += 1
    return steps, status, finals


def oracle_pcq(cap, prods, quotas, line, expect_ok=True):
    """Sequential-FIFO spec on the harness trace.  Returns None or a description of the failure."""
    if line.startswith("HARNESS-DIED"):
        return "harness died: " + line
    steps, status, finals = parse_trace(line)
    if status is None:
        return "no END in trace"
    P = len(prods)
    balanced = sum(len(p) for p in prods) == sum(quotas)
    if balanced and status != "ok":
        return "threads did not all finish although produced == to-be-consumed (status %s)" % status
    # occupancy and global FIFO from the critical-section order seen in the trace
    written = []          # values in write order
    nextw = [0] * P
    readers = []          # consumer tid per read, in read order
    for tid, pc, val, en, occ in steps:
        if occ is not None and not (0 <= occ <= cap):
            return "occupancy %d outside 0..%d" % (occ, cap)
        if pc == "u":
            if tid < P:
                if nextw[tid] >= len(prods[tid]):
                    return "producer %d wrote more than it was given" % tid
                written.append(prods[tid][nextw[tid]])
                nextw[tid] += 1
            else:
                readers.append(tid)
    if status == "ok" or not steps:
        # every consumer got exactly its quota; multiset consumed == produced
        allgot = []
        for k, qn in enumerate(quotas):
            g = finals.get(P + k, [])
            if status == "ok" and len(g) != qn:
                return "consumer %d returned %d values, quota %d" % (P + k, len(g), qn)
            allgot += g
        if balanced and sorted(allgot) != sorted(v for p in prods for v in p):
            return "multiset of consumed values differs from the produced values"
    # per-pair order: what consumer c got from producer p is a subsequence of p's production order
    owner = {}
    for p, vals in enumerate(prods):
        for idx, v in enumerate(vals):
            owner[v] = (p, idx)
    for tid, g in finals.items():
        last = {}
        for v in g:
            if v not in owner:
                return "consumer %d returned a value %d nobody produced" % (tid, v)
            p, idx = owner[v]
            if last.get(p, -1) >= idx:
                return "consumer %d saw values of producer %d out of production order (or twice)" % (tid, p)
            last[p] = idx
    # global FIFO: the k-th read (critical-section order) returns the k-th written value
    if steps:
        per = {}
        for k, tid in enumerate(readers):
            per.setdefault(tid, []).append(k)
        for tid, ks in per.items():
            g = finals.get(tid, [])
            for j, k in enumerate(ks):
                if j < len(g):
                    if k >= len(written):
                        return "read #%d happened before the %d-th write" % (k, k)
                    if g[j] != written[k]:
                        return "read #%d returned %d, the %d-th written value is %d" % (k, g[j], k, written[k])
    return None


# ---------------------------------------------------------------- generators
def random_sched(rng, nthreads, length):
    """bursts with random per-thread weights (priority-like): a few threads get most of the steps"""
    w = [rng.choice([1, 1, 2, 5, 20]) for _ in range(nthreads)]
    out = []
    while len(out) < length:
        t = rng.choices(range(nthreads), weights=w)[0]
        burst = rng.choice([1, 1, 2, 3, 5, 8, 13])
        out += [t] * burst
        if rng.random() < 0.05:
            w = [rng.choice([1, 1, 2, 5, 20]) for _ in range(nthreads)]
    return out[:length]


def split_total(rng, total, parts):
    cuts = sorted(rng.randrange(0, total + 1) for _ in range(parts - 1))
    prev = 0
    out = []
    for c in cuts + [total]:
        out.append(c - prev)
        prev = c
    return out


def gen_random_pcq(rng, big):
    P = rng.randrange(1, 7 if big else 4)
    C = rng.randrange(1, 7 if big else 4)
    cap = rng.choice([1, 1, 2, 2, 3, 4, 8])
    nmax = 50 if big else 6
    counts = [rng.choice([0, 1, 2, 3, rng.randrange(0, nmax + 1)]) for _ in range(P)]
    total = sum(counts)
    quotas = split_total(rng, total, C)
    prods = unique_values(counts)
    sched = random_sched(rng, P + C, rng.choice([0, total * 3, total * 10, total * 12]))
    return cap, prods, quotas, sched


EXHAUSTIVE_QUICK = [
    # (cap, item counts per producer, quotas, mode, limit)
    (1, [1], [1], "all", 10), (1, [2], [2], "all", 10), (2, [2], [2], "all", 400), (2, [2], [1, 1], "all", 3000),
    (1, [1, 1], [2], "all", 10), (1, [1, 1], [1, 1], "all", 10), (2, [1, 1], [2], "all", 3000),
    (2, [1, 1], [1, 1], "por", 200), (2, [2, 1], [3], "por", 200), (2, [2, 2], [4], "por", 400),
    (1, [2, 2], [2, 2], "por", 400), (2, [2, 2], [2, 2], "por", 600), (2, [2, 2], [1, 3], "por", 300),
]
EXHAUSTIVE_THOROUGH = [
    (1, [1], [1], "all", 10), (1, [2], [2], "all", 10), (2, [2], [2], "all", 400), (2, [2], [1, 1], "all", 8000),
    (1, [1, 1], [2], "all", 10), (1, [1, 1], [1, 1], "all", 10), (2, [1, 1], [2], "all", 3000),
    (2, [1, 1], [1, 1], "all", 8000), (2, [2, 1], [3], "por", 2000), (2, [2, 2], [4], "por", 2000),
    (1, [2, 2], [2, 2], "por", 5000), (2, [2, 2], [2, 2], "por", 5000), (2, [2, 2], [1, 3], "por", 5000),
    (2, [2, 2], [3, 1], "por", 5000), (2, [1, 2], [2, 1], "por", 5000), (2, [2], [2], "por", 100),
]


def enumerate_schedules(dexe, cap, prods, quotas, mode, limit):
    rc, o, e = stream.run_lines(dexe, ["enum %d %s %s %d %s" % (cap, fmt_prods(prods), fmt_list(quotas), limit, mode)],
                                timeout=900)
    if rc != 0 or not o or not o[-1].startswith("end "):
        return None, "driver enumeration failed rc=%s %s" % (rc, e[-300:])
    tail = o[-1].split()
    return [[int(x) for x in l.split(",")] if l else [] for l in o[:-1]], tail[2]


def build_tsan(src="c17.cc"):
    """ThreadSanitizer build of the same harness (vlib.repo.harness only knows the ASan flag set).
    Returns (ok, exe, log)."""
    th = repo.tree_hash()
    srcp = os.path.join(VERIF, "harness", src)
    key = sha(th, open(srcp, "rb").read(), "tsan", repr(HARNESS_EXTRA))
    out = os.path.join(SCRATCH, "build", th, "harness")
    os.makedirs(out, exist_ok=True)
    exe = os.path.join(out, "c17_tsan_" + key)
    if os.path.exists(exe):
        return True, exe, "cached"
    tmp = exe + ".tmp%d" % os.getpid()
    cmd = ["g++", "-std=c++11", "-O1", "-g", "-w", "-UNDEBUG", "-D" + repo.GUARD, "-DKENLM_MAX_ORDER=6", "-I", REPO,
           "-pthread", "-fsanitize=thread", srcp] + HARNESS_EXTRA + ["-o", tmp]
    rc, o, e = run_cmd(cmd, timeout=900)
    if rc != 0:
        return False, None, "harness %s (tsan) does not compile against the current tree:\n%s" % (src, (o + e)[-3000:])
    os.replace(tmp, exe)
    return True, exe, "built"


def free_batch(ctx, exe, cases, kind, tsan=False):
    """cases: (cap, prods, quotas, seed, perturb).  Free-running runs, property oracle only."""
    if not cases:
        return False
    # last field: SIGUSR1 (handler without SA_RESTART) fired at random threads about every <n> microseconds (0 = off)
    # then: percentage of element copies (T::operator=) that throw inside Produce/Consume (the caller retries)
    lines = ["pcqfree %d %s %s %d %d %d %d %d" % (c[0], fmt_prods(c[1]), fmt_list(c[2]), c[3], c[4], 0 if tsan else 1,
                                                 0 if tsan else c[5], 0 if tsan else c[6]) for c in cases]
    if tsan:
        rc, o, e = stream.run_lines(exe, lines, timeout=900,
                                    env={"TSAN_OPTIONS": "halt_on_error=1 exitcode=66 report_signal_unsafe=0"})
        for i, c in enumerate(cases):
            ctx.count((kind, lines[i]), nontrivial=len(c[1]) + len(c[2]) >= 2)
        if rc != 0 or "ThreadSanitizer" in e:
            k = min(len(o), len(lines) - 1)
            ctx.violation("PCQueue: ThreadSanitizer reports a data race / the free-running harness failed (rc=%s)" % rc,
                          {"stream": "pcq-" + kind, "op": lines[k], "stderr": e[-3000:], "completed_cases": len(o)})
            return True
        ho = o
    else:
        ho = run_harness(exe, lines)
        for i, c in enumerate(cases):
            ctx.count((kind, lines[i]), nontrivial=len(c[1]) + len(c[2]) >= 2)
    for i, c in enumerate(cases):
        bad = oracle_pcq(c[0], c[1], c[2], ho[i] if i < len(ho) else "HARNESS-DIED")
        if bad:
            ctx.violation("PCQueue (free-running, perturbed): " + bad,
                          {"stream": "pcq-" + kind, "op": lines[i], "impl": ho[i] if i < len(ho) else None,
                           "note": "non-driven run: re-run the op line several times"})
            return True
    return False


def gen_free_case(rng, big):
    cap, prods, quotas, _ = gen_random_pcq(rng, big)
    if len(prods) < 2 and rng.random() < 0.7:
        prods = unique_values([len(prods[0]), rng.randrange(1, 20)])
        tot = sum(len(p) for p in prods)
        quotas = split_total(rng, tot, len(quotas))
    return cap, prods, quotas, rng.randrange(1, 1 << 30), rng.choice([0, 10, 30, 60]), rng.choice([0, 60, 200, 600]), rng.choice([0, 0, 10, 30])


# ---------------------------------------------------------------- ThreadPool / Chain streams (operation granularity)
def xform(j, c):
    return c * 10 + j


def finals_of(line):
    _, status, finals = parse_trace(line)
    return status, finals


def oracle_pool(cap, workers, reqs, line):
    if line.startswith("HARNESS-DIED"):
        return "harness died: " + line
    status, finals = finals_of(line)
    if status != "ok":
        return "ThreadPool run did not terminate (status %s): destructor / workers blocked" % status
    allh = []
    pos = {v: i for i, v in enumerate(reqs)}
    for w in range(1, workers + 1):
        h = finals.get(w, [])
        last = -1
        for v in h:
            if v not in pos:
                return "worker %d handled a request %d that was never submitted" % (w, v)
            if pos[v] <= last:
                return "worker %d handled requests out of submission order (or twice)" % w
            last = pos[v]
        allh += h
    if sorted(allh) != sorted(reqs):
        return "requests handled %s != requests submitted %s (not exactly once)" % (sorted(allh), sorted(reqs))
    return None


def oracle_chain(b, m, data, line):
    if line.startswith("HARNESS-DIED"):
        return "harness died (abort 'Chain ending without poison' or crash): " + line[:300]
    status, finals = finals_of(line)
    if status != "ok":
        return "Chain::Wait did not return / a stage did not finish (status %s)" % status
    expect = list(data)
    for j in range(2, m + 1):
        got = finals.get(j, [])
        if got != expect:
            return "stage %d saw %s, its predecessor produced %s" % (j, got, expect)
        expect = [xform(j, c) for c in expect]
    return None


def op_batch(ctx, hexe, dexe, kind, cases, mkline, oracle):
    """cases: tuples; mkline(case) -> op line; oracle(case, harness line) -> None | str"""
    if not cases:
        return False
    lines = [mkline(c) for c in cases]
    ho = run_harness(hexe, lines)
    rc2, do, e2 = stream.run_lines(dexe, lines, timeout=900)
    disagree = None
    for i, c in enumerate(cases):
        ctx.count((kind, lines[i]), nontrivial=True)
        bad = oracle(c, ho[i])
        if bad:
            ctx.violation("%s: %s" % (kind, bad), {"stream": kind, "op": lines[i], "impl": ho[i][:3000],
                                                   "model": do[i][:3000] if i < len(do) else None,
                                                   "first_disagreement": lines[disagree] if disagree is not None else None})
            return True
        if disagree is None and (i >= len(do) or ho[i] != do[i]):
            # broken correspondence: keep scanning the rest of the batch with the model-independent property oracle
            # (the failing-input search); only if no schedule of the batch violates the property is it reported without input
            disagree = i
    if disagree is not None:
        i = disagree
        ctx.violation("%s: model and implementation disagree on a driven schedule" % kind,
                      {"stream": kind, "op": lines[i], "impl": ho[i][:3000], "model": do[i][:3000] if i < len(do) else None,
                       "searched": "%d driven schedules of this batch with the property oracle" % len(cases)},
                      no_input=True)
        return True
    return False


def enum_generic(dexe, opline):
    rc, o, e = stream.run_lines(dexe, [opline], timeout=900)
    if rc != 0 or not o or not o[-1].startswith("end "):
        return None, "driver enumeration failed rc=%s %s" % (rc, e[-300:])
    return [[int(x) for x in l.split(",")] if l else [] for l in o[:-1]], o[-1].split()[2]


def pool_line(c):
    cap, w, reqs, sched = c
    return "pool %d %d %s %s" % (cap, w, fmt_list(reqs), fmt_list(sched))


def chain_line(c):
    b, m, data, sched = c
    return "chain %d %d %s %s" % (b, m, fmt_list(data), fmt_list(sched))


def gen_schain(rng):
    """source -> in-place filter (drops the negative records, SetValidSize(kept)) -> util::stream::Stream reader.
    Drop patterns: arbitrary records, whole blocks, runs of consecutive blocks, the first blocks, the last blocks."""
    b = rng.randrange(1, 5)
    recs = rng.randrange(1, 4)
    nblocks = rng.choice([0, 1, 2, 3, 4, 6, rng.randrange(0, 12)])
    style = rng.choice(["random", "runs", "first", "last", "all", "none"])
    blocks = []
    v = 1
    for i in range(nblocks):
        k = rng.choice([recs, recs, rng.randrange(0, recs + 1)])
        if style == "runs":
            drop_block = (i // rng.choice([2, 3])) % 2 == 0
        elif style == "first":
            drop_block = i < max(1, nblocks // 2)
        elif style == "last":
            drop_block = i >= nblocks // 2
        elif style == "all":
            drop_block = True
        elif style == "none":
            drop_block = False
        else:
            drop_block = rng.random() < 0.4
        blk = []
        for _ in range(k):
            neg = drop_block or (style == "random" and rng.random() < 0.3)
            blk.append(-v if neg else v)
            v += 1
        blocks.append(blk)
    # keep away from the known finding "stream-first-blocks-all-empty" only matters for a Stream attached in the
    # main thread; here the reader runs in its own worker thread
    sched = random_sched(rng, 5, rng.choice([0, 4 * (nblocks + b) * 4, 10 * (nblocks + b) * 4]))
    return b, recs, blocks, sched


def schain_line(c):
    b, recs, blocks, sched = c
    bl = ";".join(",".join(map(str, blk)) if blk else "0" for blk in blocks) or "-"
    return "schain %d %d %s %s" % (b, recs, bl, fmt_list(sched))


def schain_batch(ctx, hexe, dexe, cases):
    if not cases:
        return False
    lines = [schain_line(c) for c in cases]
    # at queue-operation level the three workers behave like the stages of the chain model with 3 workers
    mlines = ["chain %d 3 %s %s" % (c[0], fmt_list([0] * len(c[2])), fmt_list(c[3])) for c in cases]
    ho = run_harness(hexe, lines)
    rc2, do, e2 = stream.run_lines(dexe, mlines, timeout=900)
    disagree = None
    for i, c in enumerate(cases):
        ctx.count(("schain", lines[i]), nontrivial=len(c[2]) >= 2)
        empties = sum(1 for blk in c[2] if all(v < 0 for v in blk))
        ctx.hist("schain.empty_blocks", min(empties, 8))
        want = [v for blk in c[2] for v in blk if v > 0]
        if ho[i].startswith("HARNESS-DIED") or " END ok F " not in ho[i]:
            ctx.violation("stream: the chain with a Stream reader did not finish / the harness died (assertion, ASan or "
                          "Wait not returning): " + ho[i][-300:], {"stream": "schain", "op": lines[i], "impl": ho[i][-3000:]})
            return True
        got = ho[i].split(" END ok F ")[1].strip()
        got = [int(x) for x in got.split(":", 1)[1].split(",") if x != ""] if ":" in got else []
        if got != want:
            ctx.violation("stream: records yielded by util::stream::Stream differ from the concatenation of the valid "
                          "records of the blocks", {"stream": "schain", "op": lines[i], "impl_records": got,
                                                    "expected": want})
            return True
        if disagree is None and (i >= len(do) or ho[i].split(" END")[0] != do[i].split(" END")[0]):
            disagree = i      # keep scanning the batch with the property oracle before reporting without an input
    if disagree is not None:
        i = disagree
        ctx.violation("stream: model and implementation disagree on a driven schedule of the chain with a Stream reader",
                      {"stream": "schain", "op": lines[i], "model_op": mlines[i], "impl": ho[i][:3000],
                       "model": do[i][:3000] if i < len(do) else None,
                       "searched": "%d driven schedules of this batch with the property oracle" % len(cases)}, no_input=True)
        return True
    return False


KEY_SMAIN = "stream-init-in-caller-thread-first-block_count-blocks-empty"


def smain_batch(ctx, hexe, n):
    """Stream attached in the calling thread (`chain >> stream >> kRecycle`).  The generator stays away from the
    known finding (first block_count blocks all empty), which is demonstrated by two fixed cases under its key."""
    rng = ctx.rng

    def all_empty_prefix(b, blocks):
        return len(blocks) >= b and all(all(v < 0 for v in blk) for blk in blocks[:b])
    cases = []
    while len(cases) < n:
        b, recs, blocks, sched = gen_schain(rng)
        if all_empty_prefix(b, blocks):
            continue
        cases.append((b, recs, blocks, random_sched(rng, 4, len(sched))))
    demos = [(1, 2, [[-1, -2], [3]], []), (2, 2, [[-1], [-2], [3]], [])]
    allc = cases + demos
    lines = [schain_line(c).replace("schain", "smain", 1) for c in allc]
    ho = run_harness(hexe, lines)
    for i, c in enumerate(allc):
        ctx.count(("smain", lines[i]), nontrivial=len(c[2]) >= 2)
        want = [v for blk in c[2] for v in blk if v > 0]
        okline = " END ok F " in ho[i]
        if not okline:
            if all_empty_prefix(c[0], c[2]) and "END deadlock" in ho[i]:
                ctx.violation("stream attached in the calling thread: chain never terminates when the first block_count "
                              "blocks are empty", {"stream": "smain", "op": lines[i], "impl": ho[i][-600:]}, key=KEY_SMAIN)
                continue
            ctx.violation("stream (attached in the calling thread): the chain did not finish / the harness died: "
                          + ho[i][-300:], {"stream": "smain", "op": lines[i], "impl": ho[i][-3000:]})
            return True
        got = ho[i].split(" END ok F ")[1].strip()
        got = [int(x) for x in got.split(":", 1)[1].split(",") if x != ""] if ":" in got else []
        if got != want:
            ctx.violation("stream (attached in the calling thread): records yielded differ from the concatenation of the "
                          "valid records of the blocks", {"stream": "smain", "op": lines[i], "impl_records": got,
                                                          "expected": want})
            return True
    return False


def pool_chain_streams(ctx, hexe, dexe, problems):
    quick = ctx.tier == "quick"
    rng = ctx.rng
    found = False
    # exhaustive (every maximal schedule of the operation-level model), small configurations
    pool_exh = [(1, 1, [5], 100), (1, 2, [5, 6], 400), (2, 2, [5, 6], 300 if quick else 3000), (2, 1, [5, 6, 7], 300),
                (1, 3, [5], 300 if quick else 5000)]
    for cap, w, reqs, limit in pool_exh:
        scheds, status = enum_generic(dexe, "enumpool %d %d %s %d" % (cap, w, fmt_list(reqs), limit))
        if scheds is None:
            problems.append(status)
            return found
        ctx.hist("pool.exhaustive", "cap%d.w%d.n%d:%s" % (cap, w, len(reqs), status), len(scheds))
        found = op_batch(ctx, hexe, dexe, "pool", [(cap, w, reqs, sc) for sc in scheds], pool_line,
                         lambda c, l: oracle_pool(c[0], c[1], c[2], l)) or found
        if found:
            return found
    chain_exh = [(1, 1, [], 100), (1, 1, [11], 100), (2, 1, [11], 300), (1, 2, [11], 400),
                 (2, 2, [11, 12], 300 if quick else 6000), (1, 3, [11, 12], 300 if quick else 6000)]
    for b, m, data, limit in chain_exh:
        scheds, status = enum_generic(dexe, "enumchain %d %d %s %d" % (b, m, fmt_list(data), limit))
        if scheds is None:
            problems.append(status)
            return found
        ctx.hist("chain.exhaustive", "b%d.m%d.n%d:%s" % (b, m, len(data), status), len(scheds))
        found = op_batch(ctx, hexe, dexe, "chain", [(b, m, data, sc) for sc in scheds], chain_line,
                         lambda c, l: oracle_chain(c[0], c[1], c[2], l)) or found
        if found:
            return found
    # random
    npool, nchain = (150, 150) if quick else (1500, 1500)
    cases = []
    for _ in range(npool):
        w = rng.randrange(1, 5)
        cap = rng.choice([1, 1, 2, 3, 8])
        n = rng.choice([0, 1, 2, 5, rng.randrange(0, 30)])
        reqs = [1000 + i for i in range(n)]
        cases.append((cap, w, reqs, random_sched(rng, w + 1, rng.choice([0, 3 * (n + w), 8 * (n + w)]))))
        ctx.hist("pool.random.workers", w)
    for i in range(0, len(cases), 300):
        found = op_batch(ctx, hexe, dexe, "pool", cases[i:i + 300], pool_line,
                         lambda c, l: oracle_pool(c[0], c[1], c[2], l)) or found
        if found:
            return found
    cases = []
    for _ in range(nchain):
        b = rng.randrange(1, 5)
        m = rng.randrange(1, 5)
        n = rng.choice([0, 1, 2, 3, 5, rng.randrange(0, 25)])
        data = [rng.randrange(1, 90) for _ in range(n)]
        cases.append((b, m, data, random_sched(rng, m + 2, rng.choice([0, 4 * (n + b) * (m + 1), 10 * (n + b) * (m + 1)]))))
        ctx.hist("chain.random.blocks", b)
        ctx.hist("chain.random.workers", m)
    for i in range(0, len(cases), 300):
        found = op_batch(ctx, hexe, dexe, "chain", cases[i:i + 300], chain_line,
                         lambda c, l: oracle_chain(c[0], c[1], c[2], l)) or found
        if found:
            return found
    cases = [gen_schain(rng) for _ in range(120 if quick else 1500)]
    for i in range(0, len(cases), 300):
        found = schain_batch(ctx, hexe, dexe, cases[i:i + 300]) or found
        if found:
            return found
    found = smain_batch(ctx, hexe, 25 if quick else 300) or found
    return found


def probe_batch(ctx, hexe, dexe, n):
    """Driven prefix, then release a thread that the model says is blocked: it must stay blocked (a thread that
    passes a wait the model says blocks means the real semaphores are more permissive than the model); then the
    run completes freely and the oracle is applied to the final values."""
    rng = ctx.rng
    cases = []
    for _ in range(n):
        cap, prods, quotas, _ = gen_random_pcq(rng, False)
        if rng.random() < 0.6:
            cap = rng.choice([1, 1, 2])
        total = sum(len(p) for p in prods)
        sched = random_sched(rng, len(prods) + len(quotas), rng.randrange(0, 10 * total + 2))
        cases.append((cap, prods, quotas, sched))
    lines = [pcq_line(*c) + " auto" for c in cases]
    ho = run_harness(hexe, lines)
    rc2, do, e2 = stream.run_lines(dexe, lines, timeout=900)
    for i, c in enumerate(cases):
        ctx.count(("probe", lines[i]), nontrivial=True)
        ptok = [t for t in ho[i].split(" ") if t.startswith("P")]
        ctx.hist("pcq.probe.outcome", ptok[0].split("=")[1] if ptok else "none")
        mismatch = i >= len(do) or ho[i].split(" END")[0] != do[i]
        bad = None if (mismatch and ptok and ptok[0].endswith("=passed")) else oracle_pcq(c[0], c[1], c[2], ho[i])
        if bad:
            ctx.violation("PCQueue (probe run): " + bad, {"stream": "pcq-probe", "op": lines[i], "impl": ho[i]})
            return True
        if mismatch:
            what = "PCQueue: model and implementation disagree on a driven prefix / probe"
            if ptok and ptok[0].endswith("=passed"):
                what = ("PCQueue: a thread released into a semaphore wait / mutex lock that the model says blocks "
                        "did NOT block (the real synchronisation is more permissive than the model)")
            ctx.violation(what, {"stream": "pcq-probe", "op": lines[i], "impl": ho[i],
                                 "model": do[i] if i < len(do) else None}, no_input=False)
            return True
    return False


def fail_batch(ctx, hexe, dexe, n):
    """Driven schedules with injected copy failures: the element type's operator= throws at the listed attempts
    (attempt = critical-section body executed by that thread); the caller retries.  A failed operation must be
    transparent: the values SUCCESSFULLY produced are consumed exactly once, in order."""
    rng = ctx.rng
    cases = []
    for _ in range(n):
        cap, prods, quotas, sched = gen_random_pcq(rng, False)
        if rng.random() < 0.5:
            cap = rng.choice([2, 2, 3, 4])
        nth = len(prods) + len(quotas)
        fails = []
        for t in range(nth):
            k = rng.choice([0, 1, 1, 2, 3])
            fails.append(sorted(set(rng.randrange(0, 8) for _ in range(k))))
        cases.append((cap, prods, quotas, fails, sched))
    lines = ["pcqf %d %s %s %s %s" % (c[0], fmt_prods(c[1]), fmt_list(c[2]),
                                      ";".join(fmt_list(f) for f in c[3]), fmt_list(c[4])) for c in cases]
    ho = run_harness(hexe, lines)
    rc2, do, e2 = stream.run_lines(dexe, lines, timeout=900)
    disagree = None
    for i, c in enumerate(cases):
        ctx.count(("pcqf", lines[i]), nontrivial=any(c[3]))
        ctx.hist("pcq.copyfail.threads_with_failures", sum(1 for f in c[3] if f))
        bad = oracle_pcq(c[0], c[1], c[2], ho[i])
        if bad:
            ctx.violation("PCQueue with failing element copies (strong exception guarantee): " + bad,
                          {"stream": "pcq-copyfail", "op": lines[i], "impl": ho[i][:3000],
                           "model": do[i][:3000] if i < len(do) else None})
            return True
        if disagree is None and (i >= len(do) or ho[i] != do[i]):
            disagree = i      # keep scanning the batch with the property oracle before reporting without an input
    if disagree is not None:
        i = disagree
        ctx.violation("PCQueue with failing element copies: model and implementation disagree on a driven schedule",
                      {"stream": "pcq-copyfail", "op": lines[i], "impl": ho[i][:3000],
                       "model": do[i][:3000] if i < len(do) else None,
                       "searched": "%d driven schedules of this batch with the property oracle" % len(cases)}, no_input=True)
        return True
    return False


# ---------------------------------------------------------------- the pcq stream
def pcq_batch(ctx, hexe, dexe, cases, kind, hooks):
    """cases: list of (cap, prods, quotas, sched).  Returns True if a violation was reported."""
    if not cases:
        return False
    lines = [pcq_line(*c) for c in cases]
    ho = run_harness(hexe, lines)
    rc2, do, e2 = stream.run_lines(dexe, lines, timeout=900)
    found = False
    for i, c in enumerate(cases):
        cap, prods, quotas, sched = c
        total = sum(len(p) for p in prods)
        ctx.count((kind, lines[i]), nontrivial=(total >= 2 and len(prods) + len(quotas) >= 2))
        if found:
            continue
        bad = oracle_pcq(cap, prods, quotas, ho[i])
        if bad:
            small = shrink_pcq(hexe, c) if hooks else c
            ctx.violation("PCQueue: " + bad,
                          {"stream": "pcq-" + kind, "op": pcq_line(*small), "impl": run_harness(hexe, [pcq_line(*small)])[0],
                           "original_op": lines[i], "replay_cmd": "echo '<op>' | <harness c17>"})
            found = True
            continue
        if hooks:
            if i >= len(do) or ho[i] != do[i]:
                ctx.violation("PCQueue: model and implementation disagree on a driven schedule (enabled sets / occupancy / "
                              "returned values)",
                              {"stream": "pcq-" + kind, "op": lines[i], "impl": ho[i], "model": do[i] if i < len(do) else None},
                              no_input=True)
                found = True
    return found


def shrink_pcq(hexe, case):
    """shrink the schedule of a failing case (oracle still failing)"""
    cap, prods, quotas, sched = case

    def fails(s):
        o = run_harness(hexe, [pcq_line(cap, prods, quotas, [int(x) for x in s])])
        return oracle_pcq(cap, prods, quotas, o[0]) is not None
    if not sched:
        return case
    small = stream.ddmin([str(x) for x in sched], fails, max_tests=60)
    return cap, prods, quotas, [int(x) for x in small]


def run(ctx):
    problems, consts = flow.proof_phase(ctx, "C17", required=REQUIRED, drivers=["drv_C17"])
    ok, hexe, lg = repo.harness("c17.cc", extra=HARNESS_EXTRA)
    if not ok:
        problems.append(lg)
        flow.report_obligation_failures(ctx, problems, False)
        return
    # the shared build cache may be pruned by concurrent checks of other trees: run from a private copy
    priv = os.path.join(SCRATCH, "c17_run_%d" % os.getpid())
    shutil.rmtree(priv, ignore_errors=True)
    os.makedirs(priv)
    try:
        hexe = shutil.copy2(hexe, os.path.join(priv, "c17"))
        _run(ctx, problems, hexe, priv)
    finally:
        shutil.rmtree(priv, ignore_errors=True)


def _run(ctx, problems, hexe, priv):
    dexe = lean.driver_path("drv_C17")
    rc, o, e = stream.run_lines(hexe, ["hooks"])
    hooks = (rc == 0 and o and o[0].strip() == "hooks 1")
    ctx.cov["hooks_present"] = bool(hooks)
    if not hooks:
        log("  [C17] NOTE: the KPU_KENLM_VERIF scheduling points are absent from this tree: schedules cannot be driven; "
            "running free stress runs against the property oracle only (reduced coverage)")
        ctx.assumptions.append("hooks absent: free-running stress runs only, no driven schedules, no step-level comparison")
    found = False
    quick = ctx.tier == "quick"
    # 1. exhaustive enumeration from the model, every schedule executed on the real queue
    if hooks and os.path.exists(dexe):
        for cap, counts, quotas, mode, limit in (EXHAUSTIVE_QUICK if quick else EXHAUSTIVE_THOROUGH):
            prods = unique_values(counts)
            scheds, status = enumerate_schedules(dexe, cap, prods, quotas, mode, limit)
            if scheds is None:
                problems.append(status)
                break
            key = "exh.P%dC%dcap%d.n%s.q%s.%s" % (len(counts), len(quotas), cap, "_".join(map(str, counts)),
                                                  "_".join(map(str, quotas)), mode)
            ctx.hist("pcq.exhaustive", key + ":" + status, len(scheds))
            if len(ctx.cov["samples"]) < 2 and scheds:
                ctx.sample({"stream": "pcq-exhaustive", "config": key, "schedules": len(scheds), "first": scheds[0][:40]})
            found = pcq_batch(ctx, hexe, dexe, [(cap, prods, quotas, s) for s in scheds], "exh", hooks) or found
            if found:
                break
    # 2. random configurations with burst/priority schedules
    n_small, n_big = (400, 60) if quick else (3000, 600)
    for big, n in ((False, n_small), (True, n_big)):
        if found or not hooks:
            break
        done = 0
        while done < n and not found:
            cases = [gen_random_pcq(ctx.rng, big) for _ in range(min(200, n - done))]
            done += len(cases)
            for c in cases:
                ctx.hist("pcq.random.P", len(c[1]))
                ctx.hist("pcq.random.C", len(c[2]))
                ctx.hist("pcq.random.cap", c[0])
                ctx.hist("pcq.random.items", min(sum(len(p) for p in c[1]) // 10 * 10, 200))
            found = pcq_batch(ctx, hexe, dexe, cases, "rnd", hooks) or found
    # 2a. probes: a thread the model says is blocked must stay blocked when released
    if hooks and not found:
        found = probe_batch(ctx, hexe, dexe, 150 if quick else 1200) or found
    # 2a'. injected copy failures (exception path of Produce/Consume)
    if hooks and not found:
        found = fail_batch(ctx, hexe, dexe, 250 if quick else 2500) or found
    # 2b. ThreadPool and Chain, driven at operation granularity
    if hooks and not found:
        found = pool_chain_streams(ctx, hexe, dexe, problems) or found
    # 3. free-running perturbed runs (random yields/sleeps at the points), oracle only; also the only mode without hooks
    if not found:
        n_free = (300 if quick else 3000) if hooks else (1500 if quick else 15000)
        cases = [gen_free_case(ctx.rng, ctx.rng.random() < 0.5) for _ in range(n_free)]
        for i in range(0, len(cases), 500):
            found = free_batch(ctx, hexe, cases[i:i + 500], "free") or found
            if found:
                break
    # 4. the same under ThreadSanitizer (data races on the cursors / slots do not need the losing interleaving)
    if not found:
        okt, texe, lgt = build_tsan()
        if not okt:
            problems.append(lgt)
        else:
            texe = shutil.copy2(texe, os.path.join(priv, "c17_tsan"))
            cases = [gen_free_case(ctx.rng, True) for _ in range(60 if quick else 600)]
            found = free_batch(ctx, texe, cases, "tsan", tsan=True) or found
    ctx.cov["rule"] = ("pcq: one case = (capacity, values per producer, Consume counts per consumer, schedule); distinct by op "
                       "line; non-trivial when >= 2 items and >= 2 threads. exhaustive = every maximal schedule of the model "
                       "('all') or one per class of schedules equal up to commuting independent steps ('por', sleep sets), "
                       "each executed on the real queue")
    ctx.assumptions += ["the cooperative scheduler serialises the threads: effects of the hardware memory model below the "
                        "semaphore/mutex level are not explored",
                        "boost::interprocess_semaphore / boost::mutex behave as counting semaphore / mutex"]
    flow.report_obligation_failures(ctx, problems, found)
