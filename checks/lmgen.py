"""Seeded ARPA + query generator shared by C01/C02/C03 (and reusable by C04, C08, C10, C11, C14).

gen_case(rng, ...) -> Case with
  .arpa   bytes of the ARPA file
  .queries list of (start, [word, ...])  start in {"B","N"}
  .meta   dict: order, vocab size, classes hit, flags (for the evidence histogram)
  .grams  {n: {tuple(words): (prob_text, backoff_text or None)}}  (forward word order)

Classes of DESIGN §5 C01 Tie:
  (a) prefix- and suffix-closed sets from a random corpus (lmplz-like)
  (b) SRI-pruned sets needing 1..3 levels of hallucinated blanks
  (c) back-offs 0, -0, 0.0, tiny (float32 underflow), positive, negative; positive probabilities (clamped)
  (d) CRLF, comment lines, blank lines
  (e) probing multipliers down to 1.0001 (an option of the harness op, chosen here)
  (f) counts crossing bit-width boundaries (2^k +- 1 entries) for trie pointers / vocabulary
Every random choice comes from the rng passed in (ctx.rng).
"""
from fractions import Fraction

SPECIAL = ["<s>", "</s>"]


class Case:
    pass


def _wordlist(rng, V):
    styles = rng.choice(["ascii", "ascii", "mixed", "utf8"])
    out = []
    pool_utf8 = ["é", "ü", "ß", "日", "本", "語", "λ", "ж", "़", "😀", "ñ"]
    pool_punct = [",", ".", "'s", "-", "&amp;", "#", "\\", "a|b", "%", "=", "0", "-1.5", "ngram"]
    seen = set()
    i = 0
    while len(out) < V:
        if styles == "ascii":
            w = "w%d" % i
        elif styles == "utf8":
            w = rng.choice(pool_utf8) * rng.randrange(1, 3) + str(i)
        else:
            k = rng.random()
            if k < 0.5:
                w = "w%d" % i
            elif k < 0.8:
                w = rng.choice(pool_utf8) + str(i)
            else:
                w = rng.choice(pool_punct) + (str(i) if rng.random() < 0.7 else "")
        i += 1
        if w in seen or w in ("<s>", "</s>", "<unk>", "<UNK>", "") or "\x0b" in w and False:
            continue
        seen.add(w)
        out.append(w)
    return out


def _prob_text(rng, lo=0.01, hi=4.0, allow_pos=False):
    v = rng.uniform(lo, hi)
    k = rng.random()
    if allow_pos and k < 0.04:
        return rng.choice(["0.25", "1.5", "+0.5", "1e-3"])
    if k < 0.08:
        return rng.choice(["0", "-0", "-0.0"])
    if k < 0.60:
        return "-%.*f" % (rng.randrange(1, 8), v)
    if k < 0.75:
        return "-%.6g" % v
    if k < 0.85:
        return "-%.3e" % v
    if k < 0.92:
        return "-%d" % rng.randrange(1, 9)
    return "-%.9f" % v


def _backoff_text(rng, allow_pos=False):
    k = rng.random()
    if k < 0.25:
        return None
    if k < 0.40:
        return rng.choice(["0", "-0", "0.0", "-0.0", "0e0"])
    if k < 0.46:
        return rng.choice(["1e-46", "-1e-46", "-1e-50", "3e-60", "-7.1e-47"])   # float32 underflow -> zero
    if k < 0.50:
        return rng.choice(["1e-44", "-1e-44", "-2e-45", "-1.5e-39"])           # subnormal but non-zero
    if allow_pos and k < 0.56:
        return "%.*f" % (rng.randrange(1, 5), rng.uniform(0.001, 0.2))
    return "-%.*f" % (rng.randrange(1, 7), rng.uniform(0.001, 2.0))


def _corpus_grams(rng, N, words, has_bos, has_eos):
    """(a): all n-grams of a random corpus, padded like lmplz: closed under prefix and suffix."""
    V = len(words)
    weights = [1.0 / (i + 1) ** rng.choice([0.5, 1.0, 1.3]) for i in range(V)]
    nsent = rng.randrange(2, 4 + 3 * V)
    grams = {n: set() for n in range(1, N + 1)}
    for _ in range(nsent):
        L = rng.randrange(1, 9)
        sent = rng.choices(words, weights, k=L)
        if has_bos:
            sent = ["<s>"] + sent
        if has_eos:
            sent = sent + ["</s>"]
        for i in range(len(sent)):
            for n in range(1, N + 1):
                if i + n <= len(sent):
                    grams[n].add(tuple(sent[i:i + n]))
    return grams


def _random_grams(rng, N, words, has_bos, has_eos):
    """random extension of contexts (contexts present, suffixes often missing)"""
    allw = list(words) + (["</s>"] if has_eos else [])
    starts = list(words) + (["<s>"] if has_bos else [])
    grams = {1: set((w,) for w in set(allw + starts))}
    for n in range(2, N + 1):
        prev = [g for g in grams[n - 1] if g[-1] != "</s>"]
        g = set()
        if prev:
            for _ in range(rng.randrange(1, 3 * len(words) + 2)):
                c = rng.choice(prev)
                g.add(c + (rng.choice(allw),))
        grams[n] = g
    return grams


def _prune(rng, N, grams, levels):
    """(b): delete n-grams (1 < n < N) that are not the context of a longer n-gram; their longer
    *suffix-extensions* stay, so the loader has to hallucinate blanks.  `levels` chained deletions."""
    for _ in range(levels):
        for n in range(N - 1, 1, -1):
            ctxs = set(g[:-1] for g in grams.get(n + 1, ()))
            cand = [g for g in grams[n] if g not in ctxs]
            rng.shuffle(cand)
            for g in cand[: max(1, len(cand) // rng.randrange(2, 5))]:
                grams[n].discard(g)
    return grams


def _fix_contexts(N, grams):
    changed = True
    while changed:
        changed = False
        for n in range(2, N + 1):
            for g in list(grams[n]):
                if g[:-1] not in grams[n - 1]:
                    grams[n].discard(g)
                    changed = True
    return grams


def _add_chains(rng, N, grams, words):
    """For every basis order b in 1..N-2 and chain length L in 1..N-1-b: an n-gram e = x1..xn (n = b+L+1) whose
    suffixes of length b+1..n-1 are pruned (blanks needed), whose suffix of length b survives (the *basis* the
    loader starts the blank chain from), and whose pruned suffixes' contexts are n-grams with a real back-off.
    The last word is fresh per chain, so nothing else can re-introduce a pruned suffix.
    Returns (list of (b, L), set of n-grams that must carry a non-zero back-off, extra queries)."""
    chains, must_bo, queries = [], set(), []
    ci = 0
    for b in range(1, N - 1):
        for L in range(1, N - b):
            n = b + L + 1
            if n > N:
                continue
            last = "zc%d" % ci
            ci += 1
            xs = [rng.choice(words) for _ in range(n - 1)] + [last]
            e = tuple(xs)
            grams[1].add((last,))
            pre = xs[:-1]
            for i in range(len(pre)):                      # every substring of the context is an n-gram
                for j in range(i + 1, len(pre) + 1):
                    grams[j - i].add(tuple(pre[i:j]))
            grams[n].add(e)
            for j in range(1, b + 1):                      # surviving suffixes (length <= b)
                grams[j].add(tuple(xs[n - j:]))
            for j in range(b + 1, n):                      # pruned suffixes: their contexts get a back-off
                must_bo.add(tuple(xs[n - j:n - 1]))
                grams[j].discard(tuple(xs[n - j:]))
            chains.append((b, L))
            for j in range(b + 1, n + 1):                  # histories matching a pruned suffix but not more
                y = rng.choice(words)
                queries.append((rng.choice("BN"), [y] + xs[n - j:]))
                if rng.random() < 0.5:
                    queries.append(("N", xs[n - j:]))
    return chains, must_bo, queries


def _add_shared_blanks(rng, N, grams, words):
    """Shared multi-level blanks: groups of n-grams E_i = C_i + S (order >= 4) that share a suffix S (length s >= 2) which is
    absent from the model together with every longer proper suffix of each E_i (2..3 consecutive missing orders); some
    heads also share the last context word, so a *higher* blank is shared too.  The last word of S is fresh per group.
    Returns (list of (s, levels, heads), n-grams needing a non-zero back-off, queries matching each blank exactly)."""
    groups, must_bo, queries = [], set(), []
    for gi in range(rng.randrange(2, 4)):
        s = rng.randrange(2, max(3, N - 1))            # shared suffix length, 2 .. N-2
        if s + 2 > N:
            s = N - 2
        last = "zs%d" % gi
        S = [rng.choice(words) for _ in range(s - 1)] + [last]
        grams[1].add((last,))
        for j in range(1, s):                           # suffixes of S shorter than s stay (the basis)
            grams[j].add(tuple(S[s - j:]))
        nheads = rng.randrange(2, 5)
        shared_word = rng.choice(words)
        heads = []
        for hi in range(nheads):
            clen = rng.randrange(2, N - s + 1)          # context length >= 2 => at least two missing orders
            C = [rng.choice(words) for _ in range(clen)]
            if hi % 2 == 1:
                C[-1] = shared_word                     # these heads also share the blank of order s+1
            E = C + S
            pre = E[:-1]
            for i in range(len(pre)):                   # contexts (all substrings of E minus its last word) are n-grams
                for j in range(i + 1, len(pre) + 1):
                    if j - i <= N:
                        grams[j - i].add(tuple(pre[i:j]))
            grams[len(E)].add(tuple(E))
            heads.append(E)
        for E in heads:                                 # prune S and every longer proper suffix of every head
            for j in range(s, len(E)):
                grams[j].discard(tuple(E[len(E) - j:]))
                must_bo.add(tuple(E[len(E) - j:len(E) - 1]))
        for E in heads:                                 # a head that is a proper suffix of another head stays real: re-add
            grams[len(E)].add(tuple(E))
        for E in heads:
            for j in range(s, len(E) + 1):
                suf = E[len(E) - j:]
                if tuple(suf) in grams[j] and j < len(E):
                    continue
                queries.append(("N", [rng.choice(words)] + suf))
                queries.append((rng.choice("BN"), suf + [rng.choice(words)]))
        groups.append((s, max(len(E) for E in heads) - s, nheads))
    return groups, must_bo, queries


def gen_fanout_case(rng, force=None):
    """(f') high fan-out: one bigram with 100..300 left extensions while the others have 0..7, more than 64
    bigrams, so that ArrayBhiksha chops bits and the child range of the hub spans several offset buckets."""
    force = force or {}
    c = Case()
    nw = force.get("fan") or rng.randrange(100, 301)
    ws = ["w%d" % i for i in range(nw)]
    small = ["a", "b", "c", "d", "e", "f"]
    N = 3
    grams = {1: set((w,) for w in ws + small + ["<s>", "</s>"]), 2: set(), 3: set()}
    hub = (rng.choice(small), rng.choice(small))
    others = set()
    while len(others) < 10:
        o = (rng.choice(small), rng.choice(small))
        if o != hub:
            others.add(o)
    fan = {hub: list(ws)}
    for o in sorted(others):
        fan[o] = rng.sample(ws, rng.randrange(0, 8))
    for (x, y), lefts in fan.items():
        grams[2].add((x, y))
        for w in lefts:
            grams[2].add((w, x))
            grams[3].add((w, x, y))
        if rng.random() < 0.5:
            grams[2].add(("<s>", x))
            grams[3].add(("<s>", x, y))
    table = {}
    for n in (1, 2, 3):
        table[n] = {}
        for g in sorted(grams[n]):
            p = "-99" if g == ("<s>",) else "-%.5f" % rng.uniform(0.05, 4.0)
            b = ("-%.5f" % rng.uniform(0.01, 1.5)) if n < 3 else None
            table[n][g] = (p, b)
    table[1][("<unk>",)] = ("-3.5", None)
    lines = ["\\data\\"] + ["ngram %d=%d" % (n, len(table[n])) for n in (1, 2, 3)] + [""]
    for n in (1, 2, 3):
        lines.append("\\%d-grams:" % n)
        keys = sorted(table[n])
        rng.shuffle(keys)
        for g in keys:
            p, b = table[n][g]
            lines.append(p + "\t" + " ".join(g) + ("" if b is None else "\t" + b))
        lines.append("")
    lines.append("\\end\\")
    c.arpa = ("\n".join(lines) + "\n").encode()
    c.grams = table
    c.order = N
    c.words = ws + small
    c.chains = []
    c.shared = []
    c.mult = rng.choice([1.5, 2.0])
    c.abits = force.get("abits") if force.get("abits") is not None else rng.choice([1, 2, 3, 4, 6, 9, 22, 25, 64, 255])
    qs = []
    for w in rng.sample(ws, min(len(ws), 90)):
        qs.append((rng.choice("NNB"), [w, hub[0], hub[1]]))
    for o in sorted(others):
        for w in fan[o][:3]:
            qs.append(("N", [w, o[0], o[1]]))
    qs.append(("B", [hub[0], hub[1], "</s>"]))
    c.queries = qs
    # Bhiksha parameters of the bigram array (max_offset = entries + 1, max_next = number of trigrams)
    max_next = len(table[3])
    required = max(1, max_next.bit_length())
    best, low = 0, None
    for chop in range(0, min(required, c.abits) + 1):
        change = (max_next >> (required - chop)) * 64 - (len(table[2]) + 1) * chop
        if low is None or change < low:
            low, best = change, chop
    inline = required - best
    c.meta = {"chains": 0, "order": 3, "vocab": len(table[1]), "kind": "fanout", "unk": "<unk>", "crlf": False, "bos": True,
              "eos": True, "bitbound": False, "style_c": False, "closed": True, "ngrams": sum(len(table[n]) for n in table),
              "fan": nw, "chop_bits": best, "inline_bits": inline, "buckets_spanned_min": nw // (1 << inline) + 1}
    return c


def gen_equalmult_case(rng, q=3, m=2000, nq=300):
    """k = 2^q distinct probabilities (and 2^q - 2 distinct back-offs) each occurring exactly the same number of times
    in every quantised order: equal-population bins are homogeneous, so quantisation with q bits must be exact."""
    c = Case()
    kp, kb = 1 << q, (1 << q) - 2
    import math
    unit = kp * kb // math.gcd(kp, kb)
    n2 = ((kp * m + unit - 1) // unit) * unit            # bigrams: multiple of kp and kb
    V = int(math.isqrt(n2)) + 2
    ws = ["w%d" % i for i in range(V)]
    pairs = [(a, b) for a in ws for b in ws]
    rng.shuffle(pairs)
    bi = pairs[:n2]
    biset = set(bi)
    by_first = {}
    for a, b in bi:
        by_first.setdefault(a, []).append(b)
    tri = []
    n3 = kp * m
    order = list(bi)
    rng.shuffle(order)
    seen = set()
    while len(tri) < n3:
        progressed = False
        for a, b in order:
            nxt = by_first.get(b)
            if not nxt:
                continue
            cc = rng.choice(nxt)
            if (a, b, cc) not in seen:
                seen.add((a, b, cc))
                tri.append((a, b, cc))
                progressed = True
                if len(tri) == n3:
                    break
        if not progressed:
            break
    tri = tri[: (len(tri) // kp) * kp]
    def distinct(k, lo, hi):
        out = set()
        while len(out) < k:
            out.add("-%.7f" % rng.uniform(lo, hi))
        return sorted(out)
    p2, b2, p3 = distinct(kp, 0.1, 3.0), distinct(kb, 0.05, 1.5), distinct(kp, 0.1, 3.0)
    def assign(items, vals):
        a = [vals[i % len(vals)] for i in range(len(items))]
        rng.shuffle(a)
        return a
    lines = ["\\data\\", "ngram 1=%d" % (V + 1), "ngram 2=%d" % len(bi), "ngram 3=%d" % len(tri), "", "\\1-grams:", "-4\t<unk>"]
    for i, w in enumerate(ws):
        lines.append("-%.4f\t%s\t-%.4f" % (1.5 + 0.001 * i, w, 0.3 + 0.0007 * i))
    lines += ["", "\\2-grams:"]
    pa, ba = assign(bi, p2), assign(bi, b2)
    table = {1: {}, 2: {}, 3: {}}
    for (g, p, b) in zip(bi, pa, ba):
        lines.append("%s\t%s %s\t%s" % (p, g[0], g[1], b))
    lines += ["", "\\3-grams:"]
    pa3 = assign(tri, p3)
    for g, p in zip(tri, pa3):
        lines.append("%s\t%s %s %s" % (p, g[0], g[1], g[2]))
    lines += ["", "\\end\\"]
    c.arpa = ("\n".join(lines) + "\n").encode()
    c.order = 3
    c.mult, c.abits = 1.5, rng.choice([0, 6, 22, 64])
    qs = []
    for g in rng.sample(tri, min(nq, len(tri))):
        qs.append(("N", list(g) + [rng.choice(ws)]))
    c.queries = qs
    c.q = q
    c.meta = {"kind": "equalmult", "order": 3, "q": q, "bigrams": len(bi), "trigrams": len(tri),
              "copies_per_value": {"p2": len(bi) // kp, "b2": len(bi) // kb, "p3": len(tri) // kp}}
    return c


def gen_quantbits_case(rng, q, b):
    """order-3 model without blanks for `-q q -b b` with q != b whose per-order entry counts fit the bins (lossless
    quantisation expected) while the bigram back-off table is as full as the bins allow: n2 = min(2^q, 2^b - 2) bigrams, every
    one with its own non-zero back-off and probability; half of the possible trigrams present so that the other half of the
    queries charges a bigram back-off.  Ring structure: every trigram's context and suffix are bigrams (no blank is added)."""
    c = Case()
    n2 = max(2, min(1 << q, (1 << b) - 2))
    V = n2 + rng.randrange(0, 3)
    ws = ["w%d" % i for i in range(V)]
    bi = [(ws[i], ws[(i + 1) % V]) for i in range(n2)]
    biset = set(bi)
    tri = [(ws[i], ws[(i + 1) % V], ws[(i + 2) % V]) for i in range(0, n2, 2)
           if (ws[i], ws[(i + 1) % V]) in biset and (ws[(i + 1) % V], ws[(i + 2) % V]) in biset][: 1 << q]
    def distinct(k, lo, hi):
        out = set()
        while len(out) < k:
            out.add("-%.5f" % rng.uniform(lo, hi))
        out = list(out)
        rng.shuffle(out)
        return out
    p1, b1 = distinct(V, 1.0, 4.0), distinct(V, 0.05, 1.0)
    p2, b2, p3 = distinct(len(bi), 0.1, 3.0), distinct(len(bi), 0.05, 2.0), distinct(max(1, len(tri)), 0.1, 3.0)
    lines = ["\\data\\", "ngram 1=%d" % (V + 1), "ngram 2=%d" % len(bi), "ngram 3=%d" % len(tri), "", "\\1-grams:", "-4.5\t<unk>"]
    grams = {1: {("<unk>",): ("-4.5", None)}, 2: {}, 3: {}}
    for w, p, bo in zip(ws, p1, b1):
        lines.append("%s\t%s\t%s" % (p, w, bo))
        grams[1][(w,)] = (p, bo)
    lines += ["", "\\2-grams:"]
    for g, p, bo in zip(bi, p2, b2):
        lines.append("%s\t%s %s\t%s" % (p, g[0], g[1], bo))
        grams[2][g] = (p, bo)
    lines += ["", "\\3-grams:"]
    for g, p in zip(tri, p3):
        lines.append("%s\t%s %s %s" % (p, g[0], g[1], g[2]))
        grams[3][g] = (p, None)
    lines += ["", "\\end\\"]
    c.arpa = ("\n".join(lines) + "\n").encode()
    c.order, c.grams = 3, grams
    c.mult, c.abits = 1.5, rng.choice([0, 6, 22, 64])
    qs = [("N", [ws[(i + j) % V] for j in range(5)]) for i in range(V)]
    qs += [("N", [rng.choice(ws + ["oov"]) for _ in range(6)]) for _ in range(6)]
    c.queries = qs
    c.meta = {"kind": "quantbits", "order": 3, "unk": "present", "q": q, "b": b, "bigrams": len(bi), "trigrams": len(tri)}
    return c


def is_suffix_closed(N, grams):
    return all(g[1:] in grams[n - 1] for n in range(2, N + 1) for g in grams[n])


def gen_case(rng, max_order=6, max_vocab=60, size="small", force=None):
    c = Case()
    force = force or {}
    N = force.get("order") or rng.choice([2, 2, 3, 3, 3, 4, 4, 5, 6][: max(1, 2 * max_order - 3)])
    N = min(N, max_order)
    V = force.get("vocab") or (rng.randrange(3, 9) if rng.random() < 0.6 else rng.randrange(3, max_vocab + 1))
    bitbound = rng.random() < 0.25
    if bitbound:   # (f) vocabulary size at a bit-width boundary
        k = rng.randrange(2, 6)
        V = max(3, (1 << k) + rng.choice([-1, 0, 1]) - 3)
    words = _wordlist(rng, V)
    unk = force.get("unk") or rng.choice(["<unk>", "<unk>", "<unk>", None, "<UNK>"])
    if unk == "absent":
        unk = None
    has_bos = rng.random() < 0.9
    has_eos = rng.random() < 0.9
    kind = force.get("kind") or rng.choice(["corpus", "corpus", "pruned", "pruned", "random"])
    if kind == "fanout":
        return gen_fanout_case(rng, force)
    if kind == "random":
        grams = _random_grams(rng, N, words, has_bos, has_eos)
    else:
        grams = _corpus_grams(rng, N, words, has_bos, has_eos)
        if kind == "pruned" and N >= 3:
            grams = _prune(rng, N, grams, rng.randrange(1, 4))
    # the unigram section lists the whole vocabulary
    for w in words:
        grams[1].add((w,))
    if has_bos:
        grams[1].add(("<s>",))
    if has_eos:
        grams[1].add(("</s>",))
    grams = _fix_contexts(N, grams)
    # (g) rare: no <unk> unigram, but n-grams that contain the literal word <unk> (the loader lets it through)
    unk_ngrams = 0
    if unk is None and N >= 2 and force.get("unk_in_ngrams", rng.random() < 0.25):
        for _ in range(rng.randrange(2, 7)):
            w1, w2 = rng.choice(words), rng.choice(words)
            k = rng.random()
            if k < 0.4:
                add = [(w1, "<unk>")]
            elif k < 0.7:
                add = [("<unk>", w1)]
            elif N >= 3 and k < 0.85:
                add = [(w1, "<unk>"), (w1, "<unk>", w2), ("<unk>", w2)]
            elif N >= 3:
                add = [("<unk>", w1), ("<unk>", w1, w2), (w1, w2)]
            else:
                add = [(w1, "<unk>")]
            for g in add:
                grams[len(g)].add(g)
                unk_ngrams += 1
    # (b') deep blank chains: every basis order 1..N-2 and every chain length
    chains = []
    must_bo = set()
    chain_queries = []
    want_chains = force.get("chains", kind == "chains" or (N >= 4 and rng.random() < 0.2))
    if want_chains and N >= 3:
        chains, must_bo, chain_queries = _add_chains(rng, N, grams, words)
        bitbound = False
    shared = []
    if force.get("shared", N >= 4 and rng.random() < 0.15) and N >= 4:
        shared, mb2, q2 = _add_shared_blanks(rng, N, grams, words)
        must_bo |= mb2
        chain_queries += q2
        bitbound = False
    # (f) trim the top order to 2^k +- 1 entries when possible
    if bitbound and len(grams[N]) > 5:
        k = max(2, len(grams[N]).bit_length() - 1)
        target = (1 << k) + rng.choice([-1, 0, 1])
        top = sorted(grams[N])
        rng.shuffle(top)
        grams[N] = set(top[:target]) if target <= len(top) else grams[N]
    for n in range(2, N + 1):      # the loader needs at least one n-gram per order? (no) — keep order by keeping non-empty top
        pass
    while N > 2 and not grams[N]:
        del grams[N]
        N -= 1
    if not grams[N]:
        a, b = words[0], words[-1]
        grams[N] = {(a, b)}
    allow_pos = rng.random() < 0.15
    style_c = rng.random() < 0.5
    table = {}
    for n in range(1, N + 1):
        table[n] = {}
        for g in sorted(grams[n]):
            p = _prob_text(rng, allow_pos=allow_pos) if style_c else "-%.4f" % rng.uniform(0.05, 4.0)
            if g == ("<s>",) and rng.random() < 0.7:
                p = "-99"
            b = None
            if n < N:
                b = _backoff_text(rng, allow_pos) if style_c else (None if rng.random() < 0.3 else "-%.4f" % rng.uniform(0.01, 1.5))
                if g in must_bo:      # the context of a pruned suffix carries a real back-off
                    b = "-%.4f" % rng.uniform(0.05, 1.5)
            table[n][g] = (p, b)
    uni_order = sorted(table[1])
    rng.shuffle(uni_order)
    if unk:
        pu = "-%.3f" % rng.uniform(0.5, 5.0)
        bu = rng.choice([None, "0", "-0.25"])
        pos = rng.choice([0, 0, rng.randrange(0, len(uni_order) + 1)])
        uni_order.insert(pos, (unk,))
        table[1][(unk,)] = (pu, bu)
    # ---- text
    crlf = rng.random() < 0.2
    nl = "\r\n" if crlf else "\n"
    extra_blank = rng.random() < 0.3
    lines = []
    if rng.random() < 0.3:
        lines += ["# generated model", "#", ""]
    if rng.random() < 0.2:
        lines += ["", "   "]
    lines.append("\\data\\")
    for n in range(1, N + 1):
        lines.append("ngram %d=%d" % (n, len(table[n])))
    lines.append("")
    for n in range(1, N + 1):
        if extra_blank and rng.random() < 0.5:
            lines.append("")
        lines.append("\\%d-grams:" % n)
        keys = uni_order if n == 1 else sorted(table[n])
        if n > 1 and rng.random() < 0.5:
            rng.shuffle(keys)
        for g in keys:
            p, b = table[n][g]
            sep = "\t" if (n == 1 or rng.random() < 0.9) else " "
            ln = p + sep + " ".join(g)
            if b is not None:
                ln += "\t" + b
            lines.append(ln)
            if extra_blank and rng.random() < 0.05:
                lines.append("")
        lines.append("")
    lines.append("\\end\\")
    if rng.random() < 0.3:
        lines.append("")
    c.arpa = (nl.join(lines) + nl).encode("utf-8")
    c.grams = table
    c.order = N
    c.words = words
    # ---- options for the harness (e)
    c.mult = rng.choice([1.0001, 1.001, 1.2, 1.5, 1.5, 2.0, 10.0])
    c.abits = rng.choice([0, 1, 2, 5, 8, 16, 22, 25, 64 - 0 and 25])
    if chains or shared:          # blanks live in the slack of the probing tables: leave room so that probing loads
        c.mult = rng.choice([2.0, 10.0])
    # ---- queries
    vocab_q = words + (["<s>"] if has_bos else []) + (["</s>"] if has_eos else [])
    by_ctx = {}
    for n in range(2, N + 1):
        for g in table[n]:
            by_ctx.setdefault(g[:-1], []).append(g[-1])
    nq = {"small": 14, "medium": 40, "large": 120}[size]
    queries = []
    for _ in range(nq):
        start = rng.choice("BN")
        L = rng.randrange(1, 15)
        ws = []
        hist = ["<s>"] if start == "B" else []
        for _ in range(L):
            k = rng.random()
            w = None
            if k < 0.6:
                # follow an existing n-gram: try the longest usable context first
                for cl in range(min(N - 1, len(hist)), 0, -1):
                    nxt = by_ctx.get(tuple(hist[-cl:]))
                    if nxt and rng.random() < 0.8:
                        w = rng.choice(nxt)
                        break
            if w is None:
                if k > 0.93 or (unk_ngrams and k > 0.75):
                    w = rng.choice(["oov", "zzz", "<unk>", "<UNK>", "OOV日"])
                elif k > 0.90 and has_bos:
                    w = "<s>"
                else:
                    w = rng.choice(vocab_q)
            ws.append(w)
            hist.append(w)
        queries.append((start, ws))
    c.queries = chain_queries + queries
    c.chains = chains
    c.shared = shared
    c.meta = {"unk_ngrams": unk_ngrams, "shared": len(shared), "chains": len(chains), "order": N, "vocab": len(table[1]), "kind": kind, "unk": unk or "absent", "crlf": crlf,
              "bos": has_bos, "eos": has_eos, "bitbound": bitbound, "style_c": style_c,
              "closed": is_suffix_closed(N, {n: set(table[n]) for n in table}),
              "ngrams": sum(len(table[n]) for n in table)}
    return c


def float_from_bits(hexs):
    import struct
    return struct.unpack("<f", struct.pack("<I", int(hexs, 16)))[0]


def frac(s):
    n, d = s.split("/")
    return Fraction(int(n), int(d))


def float_round(text):
    """float32 value of a decimal literal (numpy-free): round-trip through struct"""
    import struct
    return struct.unpack("<f", struct.pack("<f", float(text)))[0]
