"""C05 — lmplz computes interpolated modified Kneser-Ney estimates."""
import os
import shutil

from vlib import flow, lean, repo
from vlib.common import REPO, SCRATCH, log
from checks import corpusgen
from checks import C05_lib as L
from checks import C05_adjust

MANIFEST = {
    "text": "Lean model of the lmplz pipeline in exact rationals, in two descriptions: the streaming algorithms transcribed "
            "from adjust_counts.cc / initial_probabilities.cc / interpolate.cc + joint_order.hh, and a set-based specification "
            "(padded n-gram table, adjusted count = distinct left extensions, counts-of-counts, Chen-Goodman discounts, u, gamma, "
            "interpolation down to uniform, pruning marks by true count).  Theorems relate the two (adjust_stream_eq, stats_eq, "
            "discounts_eq, prune_exact, ...).  Tie: the real bin/lmplz and the compiled Lean driver run on the same generated "
            "corpora x options; n-gram sets compared exactly, log10 values within the float32 tolerance, discounts against the "
            "stderr Statistics lines; an independent Python transcription of the textbook definition is the property oracle.",
    "note": "Trusted: Lean kernel + propext/Classical.choice/Quot.sound; statements in lean/Properties/C05.lean; the driver's "
            "tokeniser/vocabulary (Std.HashMap), the comparator and tolerance formula, the Python oracle; float32/log10f, "
            "threads and disk are outside the model (C07/C16/C17).",
    "technique": "Lean 4 proof (streaming algorithm = set-based specification) + differential correspondence with the real tool",
}

REQUIRED = ["KV.C05.estimate_eq_spec", "KV.C05.estimate_eq_spec_tree", "KV.C05.collapse_block_perm", "KV.C05.collapse_stream_eq",
            "KV.C05.prune_stream_fixed", "KV.C05.prune_stream_unfixed_false", "KV.C05.ngram_set", "KV.C05.adjust_stream_eq", "KV.C05.adjust_stream_eq_corpus", "KV.C05.stats_eq",
            "KV.C05.stats_eq_corpus", "KV.C05.prune_exact", "KV.C05.prune_exact_top", "KV.C05.written_set", "KV.C05.written_set1",
            "KV.C05.trueCount_textbook", "KV.C05.adjCount_textbook", "KV.C05.pruned_eq_false_iff",
            "KV.C05.stats_eq_stream", "KV.C05.stats_eq_tree", "KV.C05.stats_eq_unfixed_false", "KV.C05.flush_adjusted_tree",
            "KV.C05.keep_specials_tree", "KV.C05.discounts_eq", "KV.C05.chenGoodman_value", "KV.C05.special_ids"]


def tree_flags(consts):
    return (consts.get("flushAdjusted", "true") == "true", consts.get("keepSpecials", "true") == "true")


def one_case(ctx, lmplz, dexe, case, wd, flags, tag="c", spec_mode=False):
    """Runs tool, streaming model, (optionally) Lean spec and the Python oracle on one case.
    Returns a list of (kind, key, message); kind in {'oracle', 'corr'}."""
    out = []
    t = L.run_lmplz(lmplz, case, wd, tag)
    ref = L.reference(case)
    ctx.hist("tool.class", t["cls"])
    ctx.hist("order", case["order"])
    ctx.hist("prune", L.prune_kind(case))
    ctx.hist("limit_vocab", case["limit"] is not None)
    # ---- error classes
    if t["cls"] in ("prune-order", "prune-count", "bad-threshold") and t.get("wrote"):
        out.append(("oracle", "refusal-wrote", "lmplz refuses the --prune vector (%s) but left an output file" % t["cls"]))
    if ref["cls"] != "ok" or t["cls"] != "ok":
        if ref["cls"] != t["cls"]:
            if ref.get("stats") and L.near_discount_boundary(ref["stats"]):
                ctx.hist("skipped", "discount-boundary")
                return out
            if t["cls"] == "bad-discount" and ref["cls"] == "ok":
                # which statistic did the tool see?  report with the stats the definition gives
                out.append(("oracle", "stats", "tool rejects the discounts (%s) although Chen-Goodman on the adjusted counts "
                            "is in range: counts-of-counts by definition %r" % (t["stderr"].strip().splitlines()[-1][:200], ref["stats"])))
            else:
                out.append(("oracle", "class", "tool outcome %s, definition says %s" % (t["cls"], ref["cls"])))
        d = L.run_driver(dexe, case, wd, tag, "stream", *flags)
        if d["cls"] != t["cls"] and not (ref.get("stats") and L.near_discount_boundary(ref["stats"])):
            out.append(("corr", "class", "tool outcome %s, streaming model %s" % (t["cls"], d["cls"])))
        return out
    header, tg, probs = L.parse_arpa(t["arpa"])
    for p in probs:
        out.append(("oracle", "arpa", "malformed ARPA: " + p))
    tstats, tfb = L.parse_statistics(t["stderr"])
    # ---- property oracle: the definition
    dp = L.compare_discounts(tstats, ref["discs"])
    for p in dp:
        out.append(("oracle", "discounts", p))
    fb_ref = {n for n, (fb, _) in ref["discs"].items() if fb}
    if fb_ref != tfb and not L.near_discount_boundary(ref["stats"]):
        out.append(("oracle", "discounts", "fallback substituted for orders %s by the tool, %s by the definition" % (sorted(tfb), sorted(fb_ref))))
    if not dp and fb_ref == tfb:
        mp, worst = L.compare_model(tg, case["order"], ref["grams"], "definition", errs=ref["errs"])
        ctx.notes["worst_log10_dev"] = max(ctx.notes.get("worst_log10_dev", 0.0), worst)
        for p in mp[:6]:
            out.append(("oracle", "values", p))
    # ---- the same case under a tiny-memory configuration: several counting blocks (context carried across
    #      block boundaries, per-block dedupe), hash-table growth, spills and multi-pass merges.  The ARPA must be
    #      the same bytes, i.e. "exactly the n-grams of the sentences" also holds under block boundaries.
    ntok = case["corpus"].count(b" ") + case["corpus"].count(b"\n")
    mem2 = "1K" if ntok < 60 else ("4K" if ntok < 3000 else "256K")
    tiny = ["--vocab_estimate", "20", "--minimum_block", "32b", "--sort_block", "256b" if ntok < 3000 else "4K",
            "--block_count", str(2 + (ntok % 3))]
    t2 = L.run_lmplz(lmplz, case, wd, tag + "m", mem=mem2, extra=tiny, timeout=300)
    ctx.hist("tiny.class", t2["cls"])
    if t2["cls"] == "ok":
        if t2["arpa"] != t["arpa"]:
            h2, tg2, _ = L.parse_arpa(t2["arpa"])
            mp2, _ = L.compare_model(tg2, case["order"], ref["grams"], "definition", errs=ref["errs"])
            out.append(("oracle", "blocks", "with -S %s %s the ARPA differs from the -S 64M run%s" % (
                mem2, " ".join(tiny), (": " + mp2[0]) if mp2 else " (bytes only)")))
    elif t2["cls"] != "config":
        out.append(("oracle", "blocks", "with -S %s %s lmplz fails (%s) where the -S 64M run succeeds" % (mem2, " ".join(tiny), t2["cls"])))
    # ---- correspondence: the streaming model with the tree's flags
    d = L.run_driver(dexe, case, wd, tag, "stream", *flags)
    if d["cls"] != "ok":
        out.append(("corr", "class", "tool ok, streaming model %s" % d["cls"]))
    else:
        for n, (kept, total, ds) in tstats.items():
            s = d["stats"].get(n)
            if s is None or s[4] != total or s[5] != kept:
                out.append(("corr", "counts", "order %d: tool counts %d/%d, model %r" % (n, kept, total, s)))
        cp = L.compare_discounts(tstats, d["discs"])
        for p in cp:
            out.append(("corr", "discounts", "model: " + p))
        if not cp:
            mp, worst = L.compare_model(tg, case["order"], d["grams"], "streaming model", errs=ref.get("errs"))
            for p in mp[:6]:
                out.append(("corr", "values", p))
        for n in range(1, case["order"] + 1):
            if header.get(n) != d["stats"][n][5]:
                out.append(("corr", "header", "order %d header %r vs model count_pruned %d" % (n, header.get(n), d["stats"][n][5])))
    # ---- the Lean set-based specification on small cases (ties Model/KNSpec.lean to the tool as well)
    if spec_mode:
        sp = L.run_driver(dexe, case, wd, tag, "spec")
        if sp["cls"] != "ok":
            out.append(("corr", "spec-class", "Lean spec %s on an accepted corpus" % sp["cls"]))
        else:
            ctx.hist("tablewf", sp.get("tablewf"))
            if sp.get("tablewf") is False and case["order"] >= 1:
                out.append(("corr", "tablewf", "the hypotheses Spec.TableWF of the normalisation theorem (C06) fail on the count "
                            "table of an accepted corpus"))
            ok_d = not L.compare_discounts(tstats, sp["discs"])
            if ok_d:
                mp, _ = L.compare_model(tg, case["order"], sp["grams"], "Lean spec", errs=ref.get("errs"))
                for p in mp[:4]:
                    out.append(("oracle", "values", p))
            else:
                for p in L.compare_discounts(tstats, sp["discs"]):
                    out.append(("oracle", "discounts", "Lean spec: " + p))
    return out


def shrink_corpus(lmplz, dexe, case, wd, flags, pred):
    """ddmin over corpus lines keeping `pred(findings)` true."""
    lines = case["corpus"].split(b"\n")[:-1]

    def fails(ls):
        c = dict(case)
        c["corpus"] = b"".join(l + b"\n" for l in ls)

        class Null:
            notes = {}

            def hist(self, *a):
                pass
        try:
            f = one_case(Null(), lmplz, dexe, c, wd, flags, tag="shrink")
        except Exception:
            return False
        return pred(f)

    n = 2
    tests = 0
    while len(lines) >= 2 and tests < 120:
        chunk = max(1, len(lines) // n)
        red = False
        for i in range(0, len(lines), chunk):
            cand = lines[:i] + lines[i + chunk:]
            tests += 1
            if cand and fails(cand):
                lines = cand
                n = max(n - 1, 2)
                red = True
                break
        if not red:
            if chunk == 1:
                break
            n = min(len(lines), n * 2)
    c = dict(case)
    c["corpus"] = b"".join(l + b"\n" for l in lines)
    return c


def replay_obj(case, lmplz, findings):
    return {"stream": "lmplz", "corpus": case["corpus"].decode("latin-1"), "corpus_encoding": "latin-1",
            "order": case["order"], "prune": case["prune"],
            "limit_vocab": None if case["limit"] is None else case["limit"].decode("latin-1"),
            "interpolate_unigrams": case["interp"], "discount_fallback": case["fallback"], "renumber": case["renumber"],
            "skip_symbols": case["skip"],
            "command": "printf '%%s' \"$corpus\" > c.txt; %s %s --text c.txt --arpa c.arpa   # compare the Statistics lines / ARPA with findings" % (
                lmplz, " ".join(L.lmplz_args(case))),
            "findings": [m for _, _, m in findings][:12]}


def run(ctx):
    wd = os.path.join(SCRATCH, "c05_%d" % os.getpid())
    shutil.rmtree(wd, ignore_errors=True)
    os.makedirs(wd)
    ok, tools, lg = L.get_tools(["lmplz"], os.path.join(wd, "bin"))
    if not ok:
        flow.report_obligation_failures(ctx, ["the tree does not build: " + lg], False)
        return
    lmplz = tools["lmplz"]
    problems, consts = flow.proof_phase(ctx, "C05", probe="probe_C05.cc", probe_flags=['-DLMPLZ_BIN="%s"' % lmplz],
                                        required=REQUIRED, drivers=["drv_C05"])
    dexe = lean.driver_path("drv_C05")
    flags = tree_flags(consts)
    found = False
    try:
        if ctx.tier == "quick":
            plan = [("witness", 1), ("small", 100), ("mid", 260), ("big", 1)]
        else:
            plan = [("witness", 1), ("small", 800), ("mid", 2400), ("big", 30)]
        reported = set()
        # minimised past failures / false alarms first (corpus/C05/*.json, replay format)
        import glob, json
        from vlib.common import VERIF
        for fn in sorted(glob.glob(os.path.join(VERIF, "corpus", "C05", "*.json"))):
            o = json.load(open(fn))
            fbk = o.get("discount_fallback")
            case = dict(corpus=o["corpus"].encode("latin-1"), order=o["order"], prune=o.get("prune"),
                        limit=None if o.get("limit_vocab") is None else o["limit_vocab"].encode("latin-1"),
                        interp=o.get("interpolate_unigrams", True), fallback=tuple(fbk) if isinstance(fbk, list) else fbk,
                        renumber=o.get("renumber", False), skip=o.get("skip_symbols", False), tail=True,
                        label="corpus/" + os.path.basename(fn))
            f = one_case(ctx, lmplz, dexe, case, wd, flags, spec_mode=len(case["corpus"]) < 400)
            ctx.count(("regression", fn), nontrivial=True)
            if f:
                ctx.violation("regression input %s: %s" % (os.path.basename(fn), f[0][2][:300]), replay_obj(case, lmplz, f))
                found = True
        for kind, cnt in plan:
            for i in range(cnt):
                if kind == "witness":
                    case = dict(corpusgen.WITNESS)
                else:
                    case = corpusgen.gen_case(ctx.rng, ctx.tier, small=(kind == "small"), big=(kind == "big"))
                f = one_case(ctx, lmplz, dexe, case, wd, flags, spec_mode=(kind in ("small", "witness")))
                ngr = case["corpus"].count(b" ") + case["corpus"].count(b"\n")
                ctx.count(("lmplz", case["corpus"], case["order"], repr(case["prune"]), case["limit"], case["interp"],
                           repr(case["fallback"])), nontrivial=ngr >= 6)
                if i < 3 and kind != "witness":
                    ctx.sample({"stream": "lmplz", "label": case["label"], "args": L.lmplz_args(case),
                                "corpus_head": case["corpus"][:80].decode("latin-1")})
                if not f:
                    continue
                keys = {(k, key) for k, key, _ in f}
                if keys <= reported and len(reported) >= 1:
                    continue        # same class already reported with a shrunk replay
                reported |= keys
                kinds = {k for k, _, _ in f}
                kk = sorted(keys)[0]
                small = shrink_corpus(lmplz, dexe, case, wd, flags, lambda g: any((k, key) == kk for k, key, _ in g))
                f2 = one_case(ctx, lmplz, dexe, small, wd, flags, tag="rep") or f
                what = ("lmplz deviates from the Kneser-Ney definition: " if "oracle" in kinds else
                        "model and lmplz disagree: ") + f2[0][2][:300]
                ctx.violation(what, replay_obj(small, lmplz, f2), no_input=False)
                found = True
        # ---- in-process stream: the real AdjustCounts::Run vs KV.KN.adjust on arbitrary sorted tables
        try:
            found |= bool(C05_adjust.adjust_stream(ctx, flags, 400 if ctx.tier == "quick" else 20000))
        except Exception as ex:          # harness does not build / died: a broken correspondence
            import traceback
            problems.append("adjust stream could not run: %s" % traceback.format_exc()[-1500:])
    finally:
        shutil.rmtree(wd, ignore_errors=True)
    ctx.cov["rule"] = ("adjust stream: suffix-sorted n-gram tables (corpus-derived, synthetic well-formed, boundary shapes) through "
                       "the real AdjustCounts::Run in-process (two block sizes) vs the model and vs the set-based definition; "
                       "lmplz stream: generated corpora (Zipfian vocabularies 3..400 types, repeated sentences, empty lines, "
                       "tab/CR/NUL separators, special tokens under --skip_symbols, a frequent last-introduced word) x order 1..6 "
                       "x --prune vectors (incl. unigram thresholds) x --limit_vocab_file x --interpolate_unigrams x "
                       "--discount_fallback variants x --renumber; a case is non-trivial when the corpus has >= 6 tokens; "
                       "distinct by (corpus bytes, options)")
    ctx.assumptions += ["float32 arithmetic, log10f and number printing are outside the model: values compared within "
                        "tol_log10(order, value) (checks/C05_lib.py), n-gram sets and counts exactly",
                        "64-bit MurmurHash of contexts is collision free on the generated models (hash-matched gammas under pruning)",
                        "newline-terminated corpus (the property's domain)",
                        "cases whose closed-form discount is within 1e-5 of its admissible range boundary are skipped "
                        "(float comparison in the tool)"]
    ctx.notes["max_dev_over_tol"] = L.STATS["max_dev_over_tol"]
    flow.report_obligation_failures(ctx, problems, found)
