"""C06 — lmplz output is a proper, closed, loadable language model."""
import itertools
import os
import shutil
import struct

from vlib import flow, lean
from vlib.common import SCRATCH, log
from vlib.common import run as sh
from checks import corpusgen
from checks import C05_lib as L

MANIFEST = {
    "text": "Lean theorems over the Kneser-Ney model of lmplz (Model/KN.lean, Model/KNSpec.lean, Model/KNQuery.lean): header "
            "counts = entries, closure under context and suffix (also with count pruning from non-decreasing thresholds and "
            "vocabulary limiting), probabilities <= 1, specials present, and normalisation: for every context, in the model or "
            "not, the back-off probabilities of all vocabulary words except <s> sum to one (exact rationals, induction on the "
            "context length, pruned mass inside gamma, both --interpolate_unigrams settings).  Tie: the real bin/lmplz on generated "
            "corpora x options; the property oracle recomputes every clause from the tool's ARPA text (sums over the vocabulary "
            "for all/sampled contexts), loads the ARPA with build_binary (probing, trie) and compares the intermediate files "
            "value by value with the ARPA.",
    "note": "Trusted: Lean kernel + propext/Classical.choice/Quot.sound; statements in lean/Properties/C06.lean; the Python ARPA "
            "parser and back-off recursion used as oracle; float32 rounding of the printed log10 values (tolerance 2e-5 on the sum); "
            "vocab_pad excluded as in the property.",
    "technique": "Lean 4 proof (induction over the context length on an executable model) + differential correspondence with the real tool",
}

REQUIRED = ["KV.C06.header_counts", "KV.C06.specials", "KV.C06.closed_spec", "KV.C06.normalised_abstract",
            "KV.C06.ctx_mass_identity", "KV.C06.normalised", "KV.C06.normalised_estimate", "KV.C06.normalised_table",
            "KV.C06.normalised_corpus", "KV.C06.normalised_corpus1", "KV.C06.tableWF_countFull", "KV.C06.prob_le_zero",
            "KV.C06.score_bounds", "KV.C06.normalised_stream", "KV.C06.prune_rule_tree", "KV.C06.parsePruning_ok", "KV.C06.closed_under_prune_rule",
            "KV.C06.closed_fails_without_rule", "KV.C06.intermediate_eq", "KV.C06.intermediate_header",
            "KV.C06.specials_corpus1", "KV.C06.header_counts_corpus1", "KV.C06.header_counts_corpus", "KV.C06.closed_corpus", "KV.C06.specials_corpus",
            "KV.C06.keep_specials_tree", "KV.C06.prune_copies_specials_tree"]

SUM_TOL = 2e-5


def make_scorer(grams):
    def score(ctx, w):
        while True:
            g = ctx + (w,)
            e = grams.get(len(g), {}).get(g)
            if e is not None:
                return acc[0] + e[0]
            if not ctx:
                return None
            c = grams.get(len(ctx), {}).get(ctx)
            if c is not None and c[1] is not None:
                acc[0] += c[1]
            ctx = ctx[1:]
    acc = [0.0]

    def s(ctx, w):
        acc[0] = 0.0
        return score(ctx, w)
    return s


def contexts_for(rng, grams, order, vocab):
    """exhaustive up to a budget, else every n-gram of the model + extensions + random tuples"""
    V = list(vocab) + [b"<s>"]
    out = [()]
    budget = 2500
    total = 1
    exhaustive_len = 0
    for n in range(1, order):
        total += len(V) ** n
        if total <= budget:
            exhaustive_len = n
    for n in range(1, exhaustive_len + 1):
        out += list(itertools.product(V, repeat=n))
    if exhaustive_len < order - 1:
        pool = []
        for n in range(exhaustive_len + 1, order):
            gs = list(grams.get(n, {}).keys())
            rng.shuffle(gs)
            pool += gs[:250]
            for g in gs[:80]:
                pool.append((rng.choice(V),) + g[1:])          # perturb the oldest word
                pool.append(g[:-1] + (rng.choice(V),))         # perturb the newest word
            for _ in range(60):
                pool.append(tuple(rng.choice(V) for _ in range(n)))
        out += pool
    return out, exhaustive_len


def check_arpa(ctx, rng, case, arpa):
    """all clauses of the property on the ARPA text; returns list of (key, message)"""
    out = []
    header, grams, probs = L.parse_arpa(arpa)
    N = case["order"]
    for p in probs:
        out.append(("format", p))
    for n in range(1, N + 1):
        if header.get(n) != len(grams.get(n, {})):
            out.append(("header", "header says ngram %d=%r but the section has %d entries" % (n, header.get(n), len(grams.get(n, {})))))
    for sp in (b"<unk>", b"<s>", b"</s>"):
        if (sp,) not in grams.get(1, {}):
            out.append(("specials", "%r is not a unigram" % sp))
    nbad = 0
    for n in range(1, N + 1):
        for g, (lp, bo) in grams.get(n, {}).items():
            if lp > 0 or lp != lp:
                out.append(("prob", "order %d %r has log10 p = %r > 0" % (n, g, lp)))
            if n >= 2 and nbad < 5:
                if g[:-1] not in grams[n - 1]:
                    out.append(("closed", "context %r of %r is missing" % (g[:-1], g)))
                    nbad += 1
                if g[1:] not in grams[n - 1]:
                    out.append(("closed", "suffix %r of %r is missing" % (g[1:], g)))
                    nbad += 1
    if out:
        return out
    vocab = [g[0] for g in grams[1] if g[0] != b"<s>"]
    scorer = make_scorer(grams)
    ctxs, exh = contexts_for(rng, grams, N, vocab)
    ctx.hist("norm.exhaustive_len", exh)
    worst = 0.0
    for c in ctxs:
        tot = 0.0
        for w in vocab:
            s = scorer(c, w)
            tot += 10.0 ** s
        worst = max(worst, abs(tot - 1.0))
        if abs(tot - 1.0) > SUM_TOL:
            out.append(("normalised", "context %r: sum over the vocabulary = %.8f" % (c, tot)))
            break
    ctx.count(("norm", case["corpus"], repr(L.lmplz_args(case)), case["limit"]), nontrivial=len(ctxs) > 3, n=len(ctxs))
    ctx.notes["worst_sum_dev"] = max(ctx.notes.get("worst_sum_dev", 0.0), worst)
    return out


def f32(x):
    return struct.unpack("<f", struct.pack("<f", x))[0]


def check_intermediate(case, base, arpa):
    out = []
    header, grams, _ = L.parse_arpa(arpa)
    N = case["order"]
    try:
        meta = open(base + ".kenlm_intermediate", "rb").read().split(b"\n")
        vocab = open(base + ".vocab", "rb").read().split(b"\0")[:-1]
    except OSError as ex:
        return [("intermediate", "missing file: %s" % ex)]
    if meta[0] != b"KenLM intermediate binary file" or not meta[1].startswith(b"Counts ") or meta[2] != b"Payload pb":
        out.append(("intermediate", "bad metadata %r" % meta[:3]))
        return out
    counts = [int(x) for x in meta[1].split()[1:]]
    if counts != [header.get(n) for n in range(1, N + 1)]:
        out.append(("intermediate", "metadata counts %r vs ARPA header %r" % (counts, header)))
    for n in range(1, N + 1):
        data = open(base + ".%d" % n, "rb").read()
        rec = 4 * n + 8
        if len(data) != rec * len(grams.get(n, {})):
            out.append(("intermediate", "order %d file has %d bytes, expected %d records of %d" % (n, len(data), len(grams.get(n, {})), rec)))
            continue
        seen = set()
        for i in range(0, len(data), rec):
            ids = struct.unpack("<%dI" % n, data[i:i + 4 * n])
            p, b = struct.unpack("<ff", data[i + 4 * n:i + rec])
            try:
                ws = tuple(vocab[j] for j in ids)
            except IndexError:
                out.append(("intermediate", "order %d: word id out of range %r" % (n, ids)))
                break
            e = grams[n].get(ws)
            if e is None:
                out.append(("intermediate", "order %d record %r is not in the ARPA" % (n, ws)))
                break
            seen.add(ws)
            if f32(e[0]) != p or (n < N and f32(e[1]) != b):
                out.append(("intermediate", "order %d %r: file (%r, %r) vs ARPA %r" % (n, ws, p, b, e)))
                break
        else:
            if len(seen) != len(grams[n]):
                out.append(("intermediate", "order %d: duplicate records" % n))
    return out


def one_case(ctx, tools, case, wd, tag="c", dexe=None):
    findings = []
    t = L.run_lmplz(tools["lmplz"], case, wd, tag, timeout=120 if len(case["corpus"]) < 200000 else 600)
    ctx.hist("tool.class", t["cls"])
    ctx.hist("order", case["order"])
    ctx.hist("prune", L.prune_kind(case))
    ctx.hist("limit_vocab", case["limit"] is not None)
    ctx.hist("interp_unigrams", case["interp"])
    # ---- the option-vector predicate (ParsePruning): the tool, the Lean model (Model/KN.lean `parsePruning`)
    #      and the independent transcription must agree on accept / refuse and on the class; a refusal
    #      happens up front and writes nothing; whatever the tool DOES write goes through the full oracle below
    pcls, pthr = L.parse_prune(case)
    if dexe is not None and (case["prune"] is not None):
        d = L.run_driver(dexe, case, wd, tag, parse_only=True)
        if d["cls"] != pcls:
            findings.append(("prune-model", "option vector %r order %d: Lean parsePruning says %s, the transcription %s" % (
                case["prune"], case["order"], d["cls"], pcls)))
    PR = ("prune-order", "prune-count", "bad-threshold")
    if pcls != "ok":
        if t["cls"] == "ok":
            findings.append(("prune-accept", "lmplz accepts the illegal --prune vector %r (order %d; rule: %s)" % (
                case["prune"], case["order"], pcls)))
        elif t["cls"] != pcls and t["cls"] not in ("special-symbol",):
            findings.append(("prune-class", "--prune %r: lmplz fails with %s, the rule says %s" % (case["prune"], t["cls"], pcls)))
        if t["cls"] != "ok" and t.get("wrote"):
            findings.append(("prune-wrote", "lmplz refused --prune %r but left an output file" % (case["prune"],)))
        if t["cls"] != "ok":
            return findings
    elif t["cls"] in PR:
        findings.append(("prune-refuse", "lmplz refuses the legal --prune vector %r with %s" % (case["prune"], t["cls"])))
        return findings
    if t["cls"] != "ok":
        if t["cls"] not in ("bad-discount", "special-symbol"):
            findings.append(("class", "lmplz fails with %s: %s" % (t["cls"], t["stderr"].strip().splitlines()[-1][:200] if t["stderr"].strip() else "")))
        return findings
    findings += check_arpa(ctx, ctx.rng, case, t["arpa"])
    # loadable: every data structure family that build_binary offers
    if case["order"] >= 2 and not findings:
        for kind in (["probing"], ["trie"], ["trie", "-a", "16"], ["trie", "-q", "8", "-b", "8"]) if case.get("_all_kinds") else (["probing"], ["trie"]):
            outb = os.path.join(wd, tag + ".bin")
            if os.path.exists(outb):
                os.unlink(outb)
            rc, o, e = sh([tools["build_binary"], "-T", os.path.join(wd, "bbtmp")] + kind[1:] + [kind[0], t["arpa_path"], outb], timeout=300)
            ctx.hist("build_binary." + kind[0], rc)
            if rc != 0 and (b"\t-inf\n" in t["arpa"]) and "Bad backoff -inf" in (e or ""):
                # gamma = 0 (all discounts of a context are 0, e.g. --discount_fallback 0): log10 0 is written
                # as a back-off and the loader rejects it
                findings.append(("load-inf", "a zero interpolation weight is written as back-off -inf, which build_binary rejects"))
                break
            if rc != 0:
                findings.append(("load", "build_binary %s rejects the ARPA (rc=%s): %s" % (" ".join(kind), rc, (e or "").strip().splitlines()[-1][:200] if (e or "").strip() else "")))
    # intermediate files = ARPA values (the intermediate format forces --renumber)
    c2 = dict(case)
    c2["renumber"] = True
    t2 = L.run_lmplz(tools["lmplz"], c2, wd, tag + "i", intermediate=True)
    if t2["cls"] != "ok":
        findings.append(("intermediate", "lmplz --intermediate fails (%s) where the plain run succeeds" % t2["cls"]))
    else:
        findings += check_intermediate(c2, t2["inter"], t2["arpa"])
        # the ARPA written next to the intermediate files is the same model as the plain one
        h1, g1, _ = L.parse_arpa(t["arpa"])
        h2, g2, _ = L.parse_arpa(t2["arpa"])
        if g1 != g2:
            findings.append(("intermediate", "the ARPA written with --intermediate differs from the plain one as a set of valued n-grams"))
    return findings


def replay_obj(case, tools, findings):
    return {"stream": "lmplz", "corpus": case["corpus"].decode("latin-1"), "corpus_encoding": "latin-1",
            "order": case["order"], "prune": case["prune"],
            "limit_vocab": None if case["limit"] is None else case["limit"].decode("latin-1"),
            "interpolate_unigrams": case["interp"], "discount_fallback": case["fallback"], "renumber": case["renumber"],
            "skip_symbols": case["skip"],
            "command": "%s %s --text c.txt --arpa c.arpa [--intermediate base]; build_binary probing|trie c.arpa c.bin" % (
                tools.get("lmplz"), " ".join(L.lmplz_args(case))),
            "findings": [m for _, m in findings][:12]}


def shrink(ctx, tools, case, wd, key):
    lines = case["corpus"].split(b"\n")[:-1]

    class Null:
        notes = {}
        rng = ctx.rng

        def hist(self, *a):
            pass

        def count(self, *a, **k):
            pass

    def fails(ls):
        c = dict(case)
        c["corpus"] = b"".join(l + b"\n" for l in ls)
        try:
            return any(k == key for k, _ in one_case(Null(), tools, c, wd, tag="shrink", dexe=None))
        except Exception:
            return False
    n = 2
    tests = 0
    while len(lines) >= 2 and tests < 80:
        chunk = max(1, len(lines) // n)
        red = False
        for i in range(0, len(lines), chunk):
            cand = lines[:i] + lines[i + chunk:]
            tests += 1
            if cand and fails(cand):
                lines = cand
                n = max(n - 1, 2)
                red = True
                break
        if not red:
            if chunk == 1:
                break
            n = min(len(lines), n * 2)
    c = dict(case)
    c["corpus"] = b"".join(l + b"\n" for l in lines)
    return c


def run(ctx):
    wd = os.path.join(SCRATCH, "c06_%d" % os.getpid())
    shutil.rmtree(wd, ignore_errors=True)
    os.makedirs(wd)
    ok, tools, lg = L.get_tools(["lmplz", "build_binary"], os.path.join(wd, "bin"))
    if not ok:
        flow.report_obligation_failures(ctx, ["the tree does not build: " + lg], False)
        return
    problems, consts = flow.proof_phase(ctx, "C06", probe="probe_C05.cc", probe_flags=['-DLMPLZ_BIN="%s"' % tools["lmplz"]],
                                        required=REQUIRED, drivers=["drv_C05"])
    dexe = lean.driver_path("drv_C05")
    found = False
    try:
        if ctx.tier == "quick":
            plan = [("small", 60), ("mid", 120)]
        else:
            plan = [("small", 1000), ("mid", 2000), ("big", 20)]
        reported = set()
        for kind, cnt in plan:
            for i in range(cnt):
                case = corpusgen.gen_case(ctx.rng, ctx.tier, small=(kind == "small"), big=(kind == "big"))
                if case["fallback"] is None and ctx.rng.random() < 0.7:
                    case["fallback"] = "default"        # most tiny corpora need it to be accepted at all
                if ctx.tier == "thorough" and i % 10 == 0:
                    case["_all_kinds"] = True
                f = one_case(ctx, tools, case, wd, dexe=dexe)
                if i < 3:
                    ctx.sample({"stream": "lmplz", "label": case["label"], "args": L.lmplz_args(case),
                                "corpus_head": case["corpus"][:80].decode("latin-1")})
                if not f:
                    continue
                keys = {k for k, _ in f}
                if keys <= reported:
                    continue
                reported |= keys
                key = sorted(keys)[0]
                # for option-vector findings the vector is the input; the corpus hardly matters (and a tool that
                # hangs on it would cost one timeout per shrinking step)
                small = case if key.startswith("prune-") or any(m.find("timeout") >= 0 for _, m in f) else shrink(ctx, tools, case, wd, key)
                f2 = [x for x in one_case(ctx, tools, small, wd, tag="rep") if x[0] == key] or f
                if ctx.violation("lmplz output violates C06 (%s): %s" % (key, f2[0][1][:300]), replay_obj(small, tools, f2),
                                 key="zero-discount-backoff-inf" if key == "load-inf" else None):
                    found = True
    finally:
        shutil.rmtree(wd, ignore_errors=True)
    ctx.cov["rule"] = ("lmplz stream (same generator as C05): corpora x order 1..6 x --prune vectors x --limit_vocab_file x "
                       "--interpolate_unigrams x fallback x --renumber, each also with --intermediate; evaluations = contexts whose "
                       "vocabulary sum was recomputed from the ARPA text (exhaustive over (V+<s>)^k while <= 2500 contexts, then all "
                       "model n-grams as contexts, perturbed and random tuples); non-trivial when > 3 contexts; distinct by (corpus, options)")
    ctx.assumptions += ["float32 rounding of the printed log10 values: |sum - 1| <= 2e-5",
                        "vocab_pad not exercised (excluded by the property)",
                        "loading clause through build_binary probing and trie (thorough: also -a 16 and -q 8 -b 8); orders >= 2"]
    flow.report_obligation_failures(ctx, problems, found)
