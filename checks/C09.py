"""C09 — An interrupted binary build never yields a file that loads as a model."""
import hashlib
import os
import shutil
import subprocess

from vlib import flow, lean, repo
from vlib.common import VERIF, fresh_scratch, log
from vlib.common import run as sh
from checks.C15 import build_shim, gen_corpus

MANIFEST = {
    "text": "Lean theorems over a file model with a volatile image and a crash relation (process kill = volatile image "
            "after k events; power loss = any durable length since the last sync and, per 512-byte sector, any version "
            "since the last sync covering it), for every event trace satisfying the decidable writer protocol `conforms` "
            "(transcribed from lm/binary_format.cc: incomplete marker up to a sync of the whole file, after which only header "
            "bytes are written, ending with the commit write that completes the Sanity block inside a header that fits a "
            "sector; nothing written after): kill_safe, "
            "power_safe (every allowed image is rejected or byte-identical to the complete file), prefix_rejected (every "
            "truncation is rejected unless only bytes after the mapped region are missing), header_last.  The protocol is "
            "decided on the REAL system-call trace of build_binary on every run.",
    "note": "Tie: an LD_PRELOAD shim records open/ftruncate/write/mmap/msync/fsync/munmap/close on the output file and "
            "snapshots it before/after each call (mapping stores are recovered by diffing snapshots); the Lean driver "
            "replays the trace (its images must equal the snapshots byte for byte), decides `conforms`, enumerates kill, "
            "power-loss and truncation images; the real loaders (LoadVirtual default / with EnumerateVocab + READ) are run on "
            "every image: model `loads` = real accept, and accepted => query answers (float bits) and vocabulary identical to "
            "the complete file.  Assumed, not observed: the crash model itself (sector atomicity, msync/fsync semantics, "
            "length durable at any sync, path fresh).  Instants inside WriteHeader are covered exactly: its store order is "
            "regenerated from the current source by single-stepping it on a write-protected page (tools/probe_C09_storeorder.cc) and "
            "the header store of every mmap trace is replaced by those stores; the driver's power-loss enumeration is tied to the "
            "crash relation by crash_enumeration_sound/complete.  6 model types x {mmap, after} x with/without vocabulary strings, plus the same model without an <unk> unigram (5 types); every query file contains OOV words and the literal <unk>.",
    "technique": "Lean 4 proof over a crash model + protocol conformance of the real system-call trace + differential "
                 "correspondence of crash images with the real loader",
}

REQUIRED = ["KV.C09.kill_safe", "KV.C09.power_safe", "KV.C09.prefix_rejected", "KV.C09.header_last",
            "KV.C09.mmap_vocab_header_not_last", "KV.C09.real_header_fits_sector", "KV.C09.conforms_unpack",
            "KV.C09.crash_enumeration_sound", "KV.C09.crash_enumeration_complete", "KV.C09.sanity_first_not_conforming"]

TYPES = [
    ("probing", ["probing"], []),
    ("rest-probing", ["probing"], "REST"),
    ("trie", ["trie"], []),
    ("quant-trie", ["trie"], ["-q", "4", "-b", "4"]),
    ("array-trie", ["trie"], ["-a", "8"]),
    ("quant-array-trie", ["trie"], ["-q", "4", "-b", "4", "-a", "8"]),
]


def md5(b):
    return hashlib.md5(b).hexdigest()


def hexs(b):
    return b.hex() if b else "-"


def diff_range(a, b):
    """smallest [lo, hi) outside which a and b (equal length prefix compared, shorter padded with zeros) agree"""
    n = max(len(a), len(b))
    a = a + b"\0" * (n - len(a))
    b2 = b + b"\0" * (n - len(b))
    if a == b2:
        return None
    lo = next(i for i in range(n) if a[i] != b2[i])
    hi = next(i for i in range(n, 0, -1) if a[i - 1] != b2[i - 1])
    return lo, hi


def trace_build(bdir, shim, argv, workdir, outname):
    """Runs build_binary under the tracing shim.  Returns (rc, events, checkpoints, final_bytes, stderr).
    events = driver `ev` lines; checkpoints = [(model_event_count, snapshot_bytes, label)]."""
    tdir = os.path.join(workdir, "tr")
    shutil.rmtree(tdir, ignore_errors=True)
    os.makedirs(tdir)
    os.makedirs(os.path.join(workdir, "tmp"), exist_ok=True)
    env = dict(os.environ)
    env.update({"LD_PRELOAD": shim, "SHIM_TRACE_DIR": tdir, "SHIM_TRACE_PATH": outname})
    try:
        p = subprocess.run(argv, cwd=workdir, env=env, capture_output=True, timeout=120)
        rc, err = p.returncode, p.stderr[-800:].decode("utf-8", "replace")
    except subprocess.TimeoutExpired:
        return "timeout", [], [], b"", ""
    evs, cps = [], []
    prev = b""
    raw = open(os.path.join(tdir, "trace.txt")).read().splitlines()
    for ln in raw:
        f = ln.split()
        k, name = int(f[0]), f[1]
        ret = int(f[-1].split("=")[1])
        pre_p = os.path.join(tdir, "pre_%d" % k)
        if os.path.exists(pre_p):
            pre = open(pre_p, "rb").read()
            d = diff_range(prev, pre)
            if d:
                lo, hi = d
                evs.append("ev store %d %s" % (lo, hexs(pre[lo:hi])))
                cps.append((len(evs), pre, "stores before #%d %s" % (k, name)))
            prev = pre
        post = open(os.path.join(tdir, "post_%d" % k), "rb").read()
        if name == "open":
            evs.append("ev create")
        elif name == "ftruncate":
            evs.append("ev truncate %s" % f[2])
        elif name in ("write", "pwrite"):
            off = int(f[2])
            evs.append("ev pwrite %d %s" % (off, hexs(post[off:off + max(ret, 0)])))
        elif name == "msync":
            evs.append("ev msync %d %d" % (int(f[2]), int(f[2]) + int(f[3])))
        elif name == "fsync":
            evs.append("ev fsync")
        elif name == "munmap":
            evs.append("ev munmap")
        elif name == "close":
            evs.append("ev close")
        # mmap / exit: no model event
        cps.append((len(evs), post, "#%d %s" % (k, " ".join(f[1:-1]))))
        prev = post
    return rc, evs, cps, prev, err, raw


def drive(exe, cmds):
    """Batch session with the Lean driver (its stdout is block-buffered, so no interactive protocol): returns one
    entry per command: a string, or the list of lines up to `end …` for `power`."""
    rc, o, e = sh([exe], input=("\n".join(cmds) + "\n").encode(), timeout=900)
    if rc != 0:
        raise RuntimeError("driver failed rc=%s: %s" % (rc, e[-500:]))
    lines = o.splitlines()
    out, i = [], 0
    for c in cmds:
        if c.startswith("power "):
            blk = []
            while i < len(lines):
                blk.append(lines[i])
                i += 1
                if blk[-1].startswith("end ") or blk[-1] == "bad-op":
                    break
            out.append(blk)
        else:
            out.append(lines[i] if i < len(lines) else "")
            i += 1
    return out


def parse_verdict(line):
    d = {}
    for tok in line.split():
        k, _, v = tok.partition("=")
        d[k] = v
    return d


def unhex(h):
    return b"" if h == "-" else bytes.fromhex(h)


def run_config(ctx, bdir, shim, hexe, dexe, base, arpa, lower, queries, tname, targs, textra, wm, vocab, tm_of, store_order):
    """One build configuration.  Returns True when a violation was reported."""
    found = False
    name = "%s-%s-%s" % (tname, wm, "vocab" if vocab else "novocab")
    wd = os.path.join(base, name)
    os.makedirs(wd, exist_ok=True)
    B = os.path.join(bdir, "bin")
    extra = list(textra) if textra != "REST" else ["-r", " ".join(lower)]
    argv = [B + "/build_binary", "-w", wm, "-T", "tmp/"] + ([] if vocab else ["-v"]) + extra + targs + [arpa, "out.bin"]
    rc, evs, cps, fin, err, raw = trace_build(bdir, shim, argv, wd, "out.bin")
    replay = {"stream": "crash", "config": name, "argv": argv, "trace": raw, "arpa": open(arpa).read()[:20000]}
    if rc != 0:
        ctx.violation("build_binary %s failed under the tracing shim (rc=%s): %s" % (name, rc, err[-300:]), replay, no_input=True)
        return True
    # the shim must not perturb the build
    os.makedirs(os.path.join(wd, "plain", "tmp"), exist_ok=True)
    rc2, o, e = sh(argv[:-1] + ["plain.bin"], cwd=os.path.join(wd, "plain"), timeout=120)
    plain = open(os.path.join(wd, "plain", "plain.bin"), "rb").read() if rc2 == 0 else None
    if plain != fin:
        ctx.violation("traced and untraced builds of %s differ" % name, replay, no_input=True)
        return True
    S = 88
    order = fin[S]
    H = ((S + 20 + 8 * order - 1) // 8 + 1) * 8
    model_type = int.from_bytes(fin[S + 8:S + 12], "little")
    search_version = int.from_bytes(fin[S + 16:S + 20], "little")
    if not vocab:
        tm_of[(tname, wm)] = len(fin)
    TM = tm_of.get((tname, wm), len(fin))
    # WriteHeader through the shared mapping: replace the single header `store` (one snapshot difference) by the
    # instruction-level stores in the order regenerated from the current source (tools/probe_C09_storeorder.cc), so
    # that exactly the reachable partial-header images become kill images of the trace and `conforms` sees the order
    hdr_event = None
    magic = fin[:S]
    for ci, (idx, snap, label) in enumerate(cps):
        if label.startswith("stores before") and snap[:S] == magic and (ci == 0 or cps[ci - 1][1][:S] != magic):
            hdr_event = (ci, idx)
    n_sub = 0
    if hdr_event is not None:
        ci, idx = hdr_event
        d = diff_range(cps[ci - 1][1] if ci else b"", cps[ci][1])
        order_list = store_order(order)
        if order_list is None or d is None or d[1] > H:
            ctx.violation("%s: the header store cannot be refined (store-order probe failed or the commit store leaves the "
                          "header: %s)" % (name, d), replay, no_input=True)
            found = True
        else:
            covered = set()
            for off, ln in order_list:
                covered |= set(range(off, off + ln))
            if not set(range(d[0], d[1])) <= covered or max(covered) >= H:
                ctx.violation("%s: store-order probe (%s) does not cover the observed header store %s within the header" % (
                    name, order_list, d), replay, no_input=True)
                found = True
            else:
                post = cps[ci][1]
                subs = ["ev store %d %s" % (off, hexs(post[off:off + ln])) for off, ln in order_list]
                n_sub = len(subs)
                evs[idx - 1:idx] = subs
                shift = n_sub - 1
                cps[:] = [(i if j < ci else i + shift, sn, ("header stores done before " + lb[14:]) if j == ci else lb)
                          for j, (i, sn, lb) in enumerate(cps)]
                hdr_event = (ci, idx, idx + shift)      # model indices idx .. idx+shift-1 are partial-header images
    n_ev = len(evs)
    ctx.hist("crash.events", min(n_ev, 40))
    cap = 24 if ctx.tier == "quick" else 160
    L = len(fin)
    ns = set()
    for bnd in (0, S, H, TM, TM + 6, L):
        ns |= {bnd - 1, bnd, bnd + 1}
    ns |= set(range(0, L, 4096)) | set(range(0, L, 37 if ctx.tier == "quick" else 7))
    ns |= {ctx.rng.randrange(0, L) for _ in range(20)}
    truncs = sorted(x for x in ns if 0 <= x < L)
    cmds = ["fmt %d %d %s %d %d" % (H, TM, fin[:H].hex(), model_type, search_version)] + evs + ["conforms"]
    i_conf = len(cmds) - 1
    i_kill = len(cmds)
    cmds += ["kill %d" % k for k in range(n_ev + 1)]
    i_power = len(cmds)
    cmds += ["power %d %d %d" % (k, ctx.rng.randrange(1, 10 ** 9), cap) for k in range(n_ev + 1)]
    i_trunc = len(cmds)
    cmds += ["trunc %d" % n for n in truncs]
    outs = drive(dexe, cmds)
    bad = [(c[:60], o) for c, o in zip(cmds[:i_conf], outs[:i_conf]) if o != "ok"]
    if bad:
        raise RuntimeError("driver rejected the trace: %r" % bad[:3])
    conf = parse_verdict(outs[i_conf])
    images = {}    # md5 -> [bytes, model_loads, model_eq, [labels]]

    def add(img, loads, eq, label):
        k = md5(img)
        if k not in images:
            images[k] = [img, loads, eq, [label]]
        else:
            if loads is not None and images[k][1] is not None and images[k][1] != loads:
                images[k][3].append("INCONSISTENT " + label)
            if images[k][1] is None:
                images[k][1], images[k][2] = loads, eq
            images[k][3].append(label)

    # kill images: the model's replay must reproduce the real snapshots byte for byte
    snap_at = {}
    for idx, snap, label in cps:
        snap_at[idx] = (snap, label)
    for k in range(n_ev + 1):
        v = parse_verdict(outs[i_kill + k])
        img = unhex(v["hex"])
        if k in snap_at and snap_at[k][0] != img:
            ctx.violation("trace model does not reproduce the file content after event %d (%s) of %s" % (
                k, snap_at[k][1], name), dict(replay, event=k), no_input=True)
            found = True
        lab = "kill@%d" % k
        if hdr_event is not None and len(hdr_event) == 3 and hdr_event[1] <= k < hdr_event[2]:
            lab = "kill-inside-WriteHeader@%d(after store %d of %d)" % (k, k - hdr_event[1] + 1, n_sub)
            ctx.hist("crash.header_prefix_images", wm)
        add(img, v["loads"] == "true", v["eq"] == "true", lab)
    # instants between system calls: a mapping store applied only in part (prefix / suffix of its range)
    prev_img = b""
    for idx, snap, label in cps:
        if label.startswith("stores before"):      # (the header store is refined exactly above, not cut bytewise)
            d = diff_range(prev_img, snap)
            if d:
                lo, hi = d
                cuts = sorted({lo + (hi - lo) // 2, min(hi, (lo // 512 + 1) * 512), lo + 1, hi - 1})
                for c in cuts:
                    if lo < c < hi:
                        base_img = prev_img + b"\0" * (len(snap) - len(prev_img))
                        add(base_img[:lo] + snap[lo:c] + base_img[c:], None, None, "partial-store-prefix@%d:%d" % (idx, c))
                        add(base_img[:c] + snap[c:hi] + base_img[hi:], None, None, "partial-store-suffix@%d:%d" % (idx, c))
        prev_img = snap
    # power-loss images
    n_power = 0
    combos = 0
    for k in range(n_ev + 1):
        lines = outs[i_power + k]
        tail = lines[-1].split() if lines else []
        combos += int(tail[1]) if len(tail) > 1 and tail[0] == "end" else 0
        for l in lines[:-1]:
            v = parse_verdict(l)
            add(unhex(v["hex"]), v["loads"] == "true", v["eq"] == "true", "power@%d" % k)
            n_power += 1
    # truncations of the complete file
    for j, n in enumerate(truncs):
        v = parse_verdict(outs[i_trunc + j])
        add(fin[:n], v["loads"] == "true", v["qeq"] == "true", "trunc@%d" % n)
    # real loaders on every distinct image
    idir = os.path.join(wd, "img")
    os.makedirs(idir, exist_ok=True)
    paths = []
    for k, (img, _, _, _) in images.items():
        p = os.path.join(idir, k)
        open(p, "wb").write(img)
        paths.append(p)
    cpath = os.path.join(idir, "complete")
    open(cpath, "wb").write(fin)
    rc, o, e = sh([hexe, queries], input=("\n".join([cpath] + paths) + "\n").encode(), timeout=600)
    res = {}
    for l in o.splitlines():
        f = l.split()
        res[os.path.basename(f[0])] = (f[1].split("=", 1)[1], f[2].split("=", 1)[1])
    if rc != 0 or len(res) != len(paths) + 1:
        ctx.violation("loader harness died on a crash image of %s (rc=%s): %s" % (name, rc, e[-400:]),
                      dict(replay, note="an image crashed the loader: memory-unsafe load of an interrupted build"))
        return True
    good = res["complete"]
    if not good[0].startswith("accept"):
        ctx.violation("the complete file of %s does not load: %s" % (name, good), replay, no_input=True)
        return True
    n_acc = 0
    unsafe = 0
    for k, (img, m_loads, m_eq, labels) in images.items():
        r_def, r_enum = res[k]
        acc = r_def.startswith("accept")
        n_acc += acc
        nontriv = len(img) > S
        ctx.count(("crash", name, k), nontrivial=nontriv)
        ctx.hist("crash.kind", labels[0].split("@")[0])
        ctx.hist("crash.verdict", "accept" if acc else r_def)
        rp = dict(replay, image_hex=img.hex() if len(img) < 6000 else img[:6000].hex() + "...", image_labels=labels[:6],
                  real_default=r_def, real_enum=r_enum, model_loads=m_loads, complete=good)
        key = None
        # the property itself: rejected by every loader with an exception, or answers exactly like the complete file
        if not acc and not r_def.startswith("reject") or not (r_enum.startswith("reject") or r_enum.startswith("accept")):
            unsafe += 1
            if ctx.violation("%s: the loader does not reject a crash image (%s) with an exception: default=%s enum=%s" % (
                    name, labels[0], r_def, r_enum), rp, key=key):
                found = True
            continue
        if acc and r_def != good[0]:
            unsafe += 1
            if ctx.violation("%s: a crash image (%s) LOADS and answers queries differently from the complete file" % (name, labels[0]), rp, key=key):
                found = True
            continue
        # the property's carve-out: a truncation that only cuts vocabulary strings may load; queries must be unaffected
        only_strings_cut = all(l.startswith("trunc@") and int(l.split("@")[1]) >= TM for l in labels)
        if r_enum.startswith("accept") and only_strings_cut and r_enum.split(":")[1] == good[1].split(":")[1]:
            ctx.hist("crash.verdict", "enum-accept-strings-cut")
        elif r_enum.startswith("accept") and r_enum != good[1]:
            unsafe += 1
            ctx.violation("%s: a crash image (%s) loads with vocabulary enumeration and differs from the complete file "
                          "(answers or vocabulary strings)" % (name, labels[0]), rp)
            found = True
        # correspondence: the model's `loads` is the real default loader's verdict
        if m_loads is not None and m_loads != acc:
            ctx.violation("%s: model `loads`=%s but the real loader says %s for image %s" % (name, m_loads, r_def, labels[0]),
                          rp, no_input=not found)
            found = True
        if any(l.startswith("INCONSISTENT") for l in labels):
            ctx.violation("%s: driver gave two verdicts for one image" % name, rp, no_input=True)
            found = True
    ctx.cov.setdefault("configs", {})[name] = {"events": n_ev, "conforms": conf.get("conforms"), "headerLast": conf.get("headerLast"),
                                                "commit": conf.get("commit"), "distinct_images": len(images), "accepted": n_acc,
                                                "power_images": n_power, "power_combinations": combos, "file_bytes": len(fin)}
    if conf.get("conforms") != "true":
        what = ("%s: the real system-call trace violates the writer protocol (conforms=%s headerLast=%s commit=%s): %s; "
                "crash images allowed by the model for this trace: %d distinct, %d accepted, %d accepted-and-different" % (
                    name, conf.get("conforms"), conf.get("headerLast"), conf.get("commit"),
                    "the complete header is written before the rest of the file has been forced to stable storage"
                    if conf.get("headerLast") != "true" else "see trace", len(images), n_acc, unsafe))
        ctx.violation(what, dict(replay, events=[e[:120] for e in evs]))
        found = True
    return found


def run(ctx):
    ok, bdir, lg = repo.build("tools")
    flags = []
    if ok:
        flags = [bdir + "/lib/libkenlm.a", bdir + "/lib/libkenlm_util.a", "-lz", "-lbz2", "-llzma", "-lrt", "-pthread"]
    problems, consts = flow.proof_phase(ctx, "C09", probe="probe_C09.cc", probe_flags=flags, required=REQUIRED, drivers=["drv_C09"])
    if not ok:
        problems.append(lg)
        flow.report_obligation_failures(ctx, problems, False)
        return
    found = False
    ok, hexe, lg = repo.harness("c09.cc", config="tools", libs=True)
    dexe = lean.driver_path("drv_C09")
    if not ok or not os.path.exists(dexe):
        problems.append(lg if not ok else "driver drv_C09 was not built")
        flow.report_obligation_failures(ctx, problems, False)
        return
    shim = build_shim()
    so_cache = {}

    def store_order(order):
        """[(offset, length)] in program order, regenerated by single-stepping the real WriteHeader; None on failure"""
        if order in so_cache:
            return so_cache[order]
        exe = os.path.join(bdir, "probe_C09_storeorder_" + md5(open(os.path.join(VERIF, "tools", "probe_C09_storeorder.cc"), "rb").read())[:10])
        res = None
        if not os.path.exists(exe):
            from vlib.common import REPO
            tmp = exe + ".tmp%d" % os.getpid()
            rc, o, e = sh(["g++", "-std=c++11", "-O1", "-g", "-UNDEBUG", "-w", "-I", REPO, "-DKENLM_MAX_ORDER=6",
                           os.path.join(VERIF, "tools", "probe_C09_storeorder.cc")] + flags + ["-o", tmp], timeout=300)
            if rc == 0:
                os.replace(tmp, exe)
            else:
                log("  [C09] store-order probe does not compile: %s" % e[-800:])
        if os.path.exists(exe):
            rc, o, e = sh([exe, str(order)], timeout=60)
            st = [tuple(int(x) for x in l.split()[1:3]) for l in o.splitlines() if l.startswith("store ")]
            if rc == 0 and st and "rewrites 0" in o:
                res = st
            else:
                log("  [C09] store-order probe failed rc=%s: %s %s" % (rc, o[-300:], e[-300:]))
        so_cache[order] = res
        ctx.cov.setdefault("writeheader_store_order", {})[str(order)] = res
        return res

    base = fresh_scratch("c09_%d_%d" % (ctx.seed, os.getpid()))
    try:
        B = os.path.join(bdir, "bin")
        n_models = 1 if ctx.tier == "quick" else 3
        for mi in range(n_models):
            mdir = os.path.join(base, "m%d" % mi)
            os.makedirs(os.path.join(mdir, "tmp"))
            n_sent, vocab = ((16, 10), (60, 40), (200, 150))[mi]
            corpus = os.path.join(mdir, "corpus.txt")
            open(corpus, "w").write(gen_corpus(ctx.rng, n_sent, vocab))
            lm = ["--discount_fallback", "-S", "40M", "--vocab_estimate", "400", "-T", mdir + "/tmp/", "--text", corpus]
            arpas = []
            for o in (1, 2, 3):
                a = os.path.join(mdir, "o%d.arpa" % o)
                rc, out, err = sh([B + "/lmplz", "-o", str(o)] + lm + ["--arpa", a], timeout=120)
                if rc != 0:
                    raise RuntimeError("lmplz failed while preparing the model: %s" % err[-800:])
                arpas.append(a)
            words = ["w%d" % i for i in range(vocab)] + ["zz"]
            queries = os.path.join(mdir, "queries.txt")
            # every query file contains out-of-vocabulary words and the literal <unk> (the unknown-word entry is part of
            # what "answers like the complete file" means; seeded/C09-6)
            fixed_q = ["zz", "w1 zz w2", "qq zz", "<unk>", "w0 <unk> w1 neverseen"]
            open(queries, "w").write("\n".join(fixed_q + [" ".join(ctx.rng.choice(words) for _ in range(ctx.rng.randrange(1, 7)))
                                                          for _ in range(25)]) + "\n")
            # the same model WITHOUT an <unk> unigram (SRILM-style): the loader substitutes unknown_missing_logprob, and
            # that substitution must be in the file before the header is committed
            nounk = os.path.join(mdir, "o3_nounk.arpa")
            lines_ = open(arpas[2]).read().split("\n")
            n1 = next(int(l.split("=")[1]) for l in lines_ if l.startswith("ngram 1="))
            out_ = []
            dropped = 0
            for l in lines_:
                if l.startswith("ngram 1="):
                    out_.append("ngram 1=%d" % (n1 - 1))
                elif l.split("\t")[1:2] == ["<unk>"] and not dropped:
                    dropped = 1
                else:
                    out_.append(l)
            open(nounk, "w").write("\n".join(out_))
            if not dropped:
                raise RuntimeError("could not derive an ARPA without <unk>")
            tm_of = {}
            for tname, targs, textra in TYPES:
                for wm in ("mmap", "after"):
                    for vocab_strings in (False, True):     # without first: its length is total_map
                        found |= run_config(ctx, bdir, shim, hexe, dexe, mdir, arpas[2], arpas[:2], queries, tname, targs, textra,
                                            wm, vocab_strings, tm_of, store_order)
            for tname, targs, textra in TYPES:
                if textra == "REST":
                    continue        # -r needs lower-order files with the same vocabulary
                for wm in ("mmap", "after"):
                    for vocab_strings in (False, True):
                        found |= run_config(ctx, bdir, shim, hexe, dexe, mdir, nounk, [], queries, tname + "-nounk", targs, textra,
                                            wm, vocab_strings, tm_of, store_order)
            log("  [C09] model %d done: %d configs" % (mi, len(ctx.cov.get("configs", {}))))
    finally:
        shutil.rmtree(base, ignore_errors=True)
    ctx.cov["rule"] = ("one case per distinct crash image (kill after each event, partial mapping stores, power-loss sector "
                       "mixtures: all when <= cap else extremes + single-sector deviations + seeded samples, truncation lengths at "
                       "section boundaries +-1, every 4 KiB, every 37th/7th byte, random) of each of 6 model types (+ 5 types built from the same ARPA without <unk>) x {mmap, after} x "
                       "{with, without vocabulary strings}; non-trivial when the image is longer than the Sanity header")
    ctx.assumptions += [
        "crash model: kill = page cache survives; power loss = per-sector any version since the last covering sync, any length "
        "since the last sync; 512-byte sector writes atomic; header <= 512 bytes (theorem real_header_fits_sector)",
        "msync(MS_SYNC)/fsync force data (and the file length) to stable storage; the output path did not exist before",
        "WriteHeader's store order is that of the probe's compilation (-O1, same flags as the tools build), not of the inlined "
        "copy inside build_binary",
        "body size announced by a header (Size(counts, config)) is taken from the complete file of the same build (C04's subject)",
    ]
    flow.report_obligation_failures(ctx, problems, found)


def replay(ctx, path):
    import json
    r = json.load(open(path))
    print(json.dumps({k: (v if k not in ("arpa", "image_hex", "events") else str(v)[:300] + "...") for k, v in r.items()}, indent=1))
    print("re-run: write `arpa` to a file, run `argv` under LD_PRELOAD=tools/shim_io.c with SHIM_TRACE_DIR/SHIM_TRACE_PATH=out.bin; "
          "the image (image_hex) can be given to harness/c09.cc directly")
    return 1
