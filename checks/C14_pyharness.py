"""Runs INSIDE python3 with the freshly built kenlm extension (never imported by check.py).

usage: python3 C14_pyharness.py <dir with kenlm*.so> <job.json>   (output: one JSON line per model x sentence)

job = {"models": [{"path":…, "load_method": name|None}], "sentences": [hex,…]}
Every public scoring entry point of kenlm.Model is exercised for all four bos/eos combinations:
score, full_scores, perplexity, BeginSentenceWrite/NullContextWrite + BaseScore/BaseFullScore
(the stateful API as a client would use it), `in`.  Floats are reported by bit pattern
(float32 for values that are C floats, float.hex() for the double perplexity).
"""
import json
import struct
import sys

COMBOS = [("TT", True, True), ("TF", True, False), ("FT", False, True), ("FF", False, False)]


def f32bits(x):
    """bit pattern of a Python float that came from a C float (exact)"""
    b = struct.unpack("<I", struct.pack("<f", x))[0]
    if struct.unpack("<f", struct.pack("<I", b))[0] != x and x == x:
        return "inexact:%r" % x          # would mean the value was not a float32
    return b


def stateful(kenlm, m, words, bos, eos):
    """The client-side fold over the stateful API.  words: list of str."""
    st, out = kenlm.State(), kenlm.State()
    if bos:
        m.BeginSentenceWrite(st)
    else:
        m.NullContextWrite(st)
    st2, out2 = kenlm.State(), kenlm.State()
    if bos:
        m.BeginSentenceWrite(st2)
    else:
        m.NullContextWrite(st2)
    scores, fulls = [], []
    same_state = True
    for w in words + (["</s>"] if eos else []):
        p = m.BaseScore(st, w, out)
        st, out = out, st
        r = m.BaseFullScore(st2, w, out2)
        st2, out2 = out2, st2
        scores.append(f32bits(p))
        fulls.append([f32bits(r.log_prob), int(r.ngram_length), bool(r.oov)])
        same_state = same_state and (st == st2) and hash(st) == hash(st2)
    return {"scores": scores, "fulls": fulls, "same_state": same_state}


def observe(kenlm, m, s):
    o = {}
    for name, bos, eos in COMBOS:
        o["score." + name] = f32bits(m.score(s, bos=bos, eos=eos))
        o["full." + name] = [[f32bits(p), int(n), bool(v)] for p, n, v in m.full_scores(s, bos=bos, eos=eos)]
    o["score.default"] = f32bits(m.score(s))
    o["full.default"] = [[f32bits(p), int(n), bool(v)] for p, n, v in m.full_scores(s)]
    try:
        o["ppl"] = float(m.perplexity(s)).hex()
    except OverflowError:
        o["ppl"] = "OverflowError"
    toks = s.split()
    o["split"] = [t.hex() for t in toks]
    o["in"] = [bool(t in m) for t in toks]
    # the stateful API takes `str` words only: usable iff every token is valid UTF-8
    try:
        words = [t.decode("utf-8") for t in toks]
    except UnicodeDecodeError:
        words = None
    if words is None:
        o["stateful"] = None
    else:
        o["stateful"] = {name: stateful(kenlm, m, words, bos, eos) for name, bos, eos in COMBOS}
        o["in_str"] = [bool(w in m) for w in words]
    # a str sentence goes through as_str (utf-8) and must behave like the bytes
    try:
        u = s.decode("utf-8")
    except UnicodeDecodeError:
        u = None
    if u is not None:
        o["str_same"] = all(f32bits(m.score(u, bos=b, eos=e)) == o["score." + n] for n, b, e in COMBOS) and \
            [[f32bits(p), int(n), bool(v)] for p, n, v in m.full_scores(u)] == o["full.TT"] and \
            float(m.perplexity(u)).hex() == o["ppl"]
    else:
        o["str_same"] = None
    return o


def main():
    sys.path.insert(0, sys.argv[1])
    import kenlm
    job = json.load(open(sys.argv[2]))
    out = sys.stdout
    for mi, md in enumerate(job["models"]):
        try:
            cfg = kenlm.Config()
            cfg.show_progress = False
            cfg.arpa_complain = kenlm.ARPALoadComplain.NONE
            if md.get("load_method"):
                cfg.load_method = getattr(kenlm.LoadMethod, md["load_method"])
            m = kenlm.Model(md["path"], cfg)
        except Exception as ex:                      # noqa
            out.write(json.dumps({"model": mi, "load_error": "%s: %s" % (type(ex).__name__, str(ex)[:300])}) + "\n")
            continue
        out.write(json.dumps({"model": mi, "order": m.order, "path": m.path.decode("utf-8", "replace")}) + "\n")
        for si, hx in enumerate(job["sentences"]):
            s = bytes.fromhex(hx)
            try:
                o = observe(kenlm, m, s)
            except Exception as ex:                  # noqa
                o = {"error": "%s: %s" % (type(ex).__name__, str(ex)[:300])}
            o["model"] = mi
            o["sent"] = si
            out.write(json.dumps(o) + "\n")
        del m
    out.flush()


if __name__ == "__main__":
    main()
