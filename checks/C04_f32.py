"""Correctly rounded float32 bit pattern of a decimal string (what double-conversion's StringToFloat returns),
without going through a double rounding: the candidate from the double is checked against its neighbours exactly."""
import struct
from fractions import Fraction


def _bits(f):
    return struct.unpack("<I", struct.pack("<f", f))[0]


def _val(b):
    return Fraction(struct.unpack("<f", struct.pack("<I", b))[0])


def f32_bits(text):
    q = Fraction(text)
    try:
        c = _bits(float(q))
    except OverflowError:
        return 0x7F800000 if q > 0 else 0xFF800000
    if (c & 0x7F800000) == 0x7F800000:
        return c
    best = c
    for nb in (c - 1, c + 1):
        if nb < 0 or (nb & 0x7FFFFFFF) >= 0x7F800000 or (nb ^ c) & 0x80000000:
            continue
        d_best, d_nb = abs(_val(best) - q), abs(_val(nb) - q)
        if d_nb < d_best or (d_nb == d_best and (nb & 1) == 0 and (best & 1) == 1):
            best = nb
    if q == 0:
        return 0x80000000 if text.strip().startswith("-") else 0
    return best
