"""C11 — Filtering keeps exactly the n-grams a restricted decoder can query."""
import os
import shutil

from vlib import flow, lean, repo
from vlib.common import fresh_scratch, log
from vlib.common import run as sh
from checks import filtergen as G

MANIFEST = {
    "text": "Lean theorems over an executable model of lm/filter (tokenisation as TokenIter<SingleCharacter>, IsTag, "
            "Single / Union / Multiple vocabulary filters incl. util/multi_intersection.hh, ContextFilter, ARPA and raw "
            "readers and writers with the rewritten header): the output lines are a sublist of the input lines (verbatim, in "
            "order), the header counts them, an n-gram is kept iff its non-tag words pass (single / union / multiple, with "
            "the context option on the n-gram without its last word), copy keeps everything, and a back-off decoder "
            "restricted to the kept n-grams returns the same scores and matched lengths on every sentence over the "
            "vocabulary. Phrase mode: Tiles (read off a concatenation of one sentence's phrases) implies acceptance by the "
            "model of BuildGraph's search graph (phrase_sound); the lazy LowerBound evaluation and hashing are tied by exact "
            "correspondence. Tie: bin/filter (threads:1) byte-compared with the compiled Lean driver on generated ARPA / raw "
            "inputs x vocabulary / sentence files x modes x context x formats; then bin/query on original vs filtered model.",
    "note": "Trusted: Lean kernel + standard axioms; statements in lean/Properties/C11.lean; generators/comparator; "
            "std::sort's unspecified order among equal-size ranges is covered by stating the intersection theorems for every "
            "order of the ranges; hash collisions of boost::unordered_* / MurmurHash are out of scope; phrase mode is tied in "
            "the stated (soundness) direction: tool output >= Tiles lower bound (Lean tilesB = independent Python DP, sampled vs literal "
            "enumeration) and, absent hash collisions, tool output == search-graph model byte for byte.",
    "technique": "Lean 4 proof over an executable model + differential correspondence with the real CLI tools",
}

REQUIRED = ["KV.C11.out_sublist", "KV.C11.header_counts", "KV.C11.kept_iff_single", "KV.C11.copy_identity",
            "KV.C11.kept_iff_union", "KV.C11.union_value_or_zero_drops_first_sentence", "KV.C11.kept_iff_multi", "KV.C11.out_sublist_binary", "KV.C11.out_sublist_multiple", "KV.C11.header_counts_counter", "KV.C11.phrase_sound", "KV.C11.phrase_sound_max_order", "KV.C11.phrase_sound_multiple", "KV.C11.phrase_sound_union", "KV.C11.lowerBound_spec", "KV.C11.phrase_multi_correct",
            "KV.C11.phrase_union_correct", "KV.C11.phrase_end_to_end", "KV.C11.phrase_end_to_end_union", "KV.C11.phrase_search_eq_graph",
            "KV.C11.OldSearch.lowerBound_spec_fails_mutant", "KV.C11.OldSearch.multi_wrong_mutant",
            "KV.C11.context_option", "KV.C11.decode_equiv"]


def run_case(ctx, env, case):
    """bin/filter threads:1 vs the driver's sequential filter, byte for byte."""
    multiple = case["mode"] == "multiple"
    env["n"] += 1
    vp = os.path.join(env["work"], "v%d.txt" % env["n"])
    mp = os.path.join(env["work"], "m%d.txt" % env["n"])
    open(vp, "wb").write(case["vocab"])
    open(mp, "wb").write(case["model"])
    st, files, cmd = G.run_filter(env["fbin"], env["work"], "c%d" % env["n"], case["mode"], case["context"], case["fmt"], 1, 1,
                                  vp, case["model"], timeout=30)
    pfx = os.path.join(env["work"], "d%d" % env["n"])
    info = env["drv"].job("fixed", case["mode"], case["context"], case["fmt"], 1, 1, 0, vp, mp, pfx)
    key = (case["mode"], case["context"], case["fmt"], case["model"], case["vocab"])
    ctx.hist("mode", case["mode"] + ("+context" if case["context"] else ""))
    ctx.hist("format", case["fmt"])
    ctx.hist("tool_status", st)
    if info["head"] == "error":
        ctx.count(key, nontrivial=False)
        ctx.hist("model_error", info["raw"])
        if st == "ok":
            ctx.violation("the model rejects (%s) an input bin/filter accepts" % info["raw"],
                          {"cmd": cmd, "model": case["model"].decode("latin-1"), "vocab": case["vocab"].decode("latin-1")})
            return True, None
        return False, None
    if st != "ok":
        ctx.count(key, nontrivial=False)
        ctx.violation("bin/filter fails (%s) on an input the model accepts" % st,
                      {"cmd": cmd, "model": case["model"].decode("latin-1"), "vocab": case["vocab"].decode("latin-1")})
        return True, None
    nout = int(info.get("outputs", "1"))
    seqf = G.drv_as_tool(env["drv"].files(pfx, "seq", nout), multiple)
    kept = sum(v.count(b"\n") for v in files.values())
    ctx.count(key, nontrivial=int(info.get("items", "0")) > 0 and len(case["vocab"].split()) > 0)
    ctx.hist("items", min(int(info.get("items", "0")) // 10 * 10, 200))
    d = G.same_files(files, seqf, multiple)
    if d is not None:
        ctx.violation("bin/filter output differs from the model's: " + d,
                      {"stream": "filter", "cmd": cmd, "model": case["model"].decode("latin-1"),
                       "vocab": case["vocab"].decode("latin-1"),
                       "tool": {k: v.decode("latin-1")[:3000] for k, v in files.items()},
                       "driver": {k: v.decode("latin-1")[:3000] for k, v in seqf.items()}})
        return True, files
    return False, files


def gen_case(rng, tier):
    mode = rng.choice(["copy", "single", "single", "union", "union", "multiple", "multiple"])
    fmt = rng.choice(["arpa", "arpa", "raw"])
    context = rng.random() < 0.35 and mode != "copy"
    words = G.gen_words(rng, rng.choice([2, 5, 9, 14]))
    case = dict(mode=mode, context=context, fmt=fmt)
    cap = 25 if tier == "quick" else 80
    if fmt == "arpa":
        norders = rng.choice([1, 2, 3, 4, 5])
        counts = [rng.choice([0, 1, 2, rng.randrange(0, cap)]) for _ in range(norders)]
        model, orders = G.gen_arpa(rng, words, counts, cr=rng.random() < 0.15, comments=rng.random() < 0.2)
        r = rng.random()
        if r < 0.04:       # malformed inputs: both sides must reject
            model = model.replace(b"\\end\\", b"\\end", 1)
        elif r < 0.08 and counts and counts[0] > 0:
            model = model.replace(b"ngram 1=%d" % counts[0], b"ngram 1=%d" % (counts[0] + 1), 1)
        elif r < 0.10:
            model = model.replace(b"\\data\\", b"\\data", 1)
        case.update(model=model)
    else:
        model, lines = G.gen_raw(rng, words, rng.randrange(0, cap * 2), last_newline=rng.random() < 0.85)
        case.update(model=model)
    if mode in ("single", "copy"):
        case["vocab"] = G.gen_vocab_single(rng, words)
    else:
        case["vocab"] = G.gen_sentences(rng, words)
    return case


def query_case(ctx, env, rng):
    """decode_equiv on the real tools: bin/query on the original and on the filtered model"""
    words = G.gen_words(rng, rng.choice([4, 7, 10]), equal_len=True)
    arpa, grams = G.gen_lm(rng, words, order=rng.choice([2, 3, 3, 4]))
    mode = rng.choice(["single", "union"])
    if mode == "single":
        V = [w for w in words if rng.random() < 0.6] or [words[0]]
        vocab = b" ".join(V) + b"\n"
        pools = [V]
    else:
        pools = []
        for _ in range(rng.choice([1, 2, 3])):
            pools.append([w for w in words if rng.random() < 0.5] or [words[0]])
        vocab = b"".join(b" ".join(p) + b"\n" for p in pools)
    case = dict(mode=mode, context=False, fmt="arpa", model=arpa, vocab=vocab)
    bad, files = run_case(ctx, env, case)
    if bad or files is None:
        return bad
    fpath = os.path.join(env["work"], "filtered%d.arpa" % env["n"])
    open(fpath, "wb").write(files[""])
    opath = os.path.join(env["work"], "orig%d.arpa" % env["n"])
    open(opath, "wb").write(arpa)
    sents = []
    for _ in range(12):
        pool = rng.choice(pools)
        n = rng.randrange(0, 7)
        ws = [rng.choice(pool) for _ in range(n)]
        if rng.random() < 0.3 and ws:
            ws[rng.randrange(len(ws))] = b"oov%d" % rng.randrange(3)     # not in the model at all: <unk> in both
        sents.append(b" ".join(ws))
    data = b"\n".join(sents) + b"\n"
    rc1, o1, e1 = sh([env["qbin"], opath], timeout=60, input=data)
    rc2, o2, e2 = sh([env["qbin"], fpath], timeout=60, input=data)
    q1, q2 = G.parse_query(o1), G.parse_query(o2)
    ctx.count(("query", arpa, vocab, data), nontrivial=len(grams) >= 2)
    ctx.hist("query_sentences", len(q1))
    if rc1 != 0 or rc2 != 0 or q1 != q2 or len(q1) != len(sents):
        ctx.violation("bin/query disagrees between the original and the filtered model on sentences over passing words",
                      {"stream": "filter/query", "mode": mode, "vocab": vocab.decode("latin-1"), "model": arpa.decode("latin-1"),
                       "sentences": data.decode("latin-1"), "rc": [rc1, rc2], "original": o1[:3000], "filtered": o2[:3000],
                       "stderr": (e1 + e2)[-1500:]})
        return True
    return False


def phrase_case(ctx, env, rng):
    """phrase mode: the tool must keep at least what Tiles obliges (one direction, as the property states)"""
    case = G.gen_phrase_case(rng, ctx.tier)
    env["n"] += 1
    vp = os.path.join(env["work"], "pv%d.txt" % env["n"])
    mp = os.path.join(env["work"], "pm%d.txt" % env["n"])
    open(vp, "wb").write(case["vocab"])
    open(mp, "wb").write(case["model"])
    st, files, cmd = G.run_filter(env["fbin"], env["work"], "p%d" % env["n"], case["mode"], case["context"], case["fmt"], 1, 1,
                                  vp, case["model"], timeout=30, phrase=True)
    nlines = sum(len(s) for s in case["in_sections"])
    ctx.count(("phrase", case["mode"], case["context"], case["fmt"], case["model"], case["vocab"]),
              nontrivial=len(case["sents"]) >= 2 and nlines >= 5)
    ctx.hist("mode", "phrase-" + case["mode"] + ("+context" if case["context"] else ""))
    ctx.hist("phrase_sentences", len(case["sents"]))
    replay = {"stream": "filter/phrase", "cmd": cmd, "vocab": case["vocab"].decode("latin-1"),
              "model": case["model"].decode("latin-1")}
    if st != "ok":
        ctx.violation("bin/filter phrase mode fails (%s)" % st, replay)
        return True
    d, kind = G.phrase_verdict(case, files, env["drv"], vp, mp, os.path.join(env["work"], "pd%d" % env["n"]))
    if d is not None:
        replay["tool"] = {k: v.decode("latin-1")[:3000] for k, v in files.items()}
        ctx.violation("phrase mode: " + d, replay, no_input=(kind != "tool"))
        return True
    # the oracle itself against literal enumeration of concatenations, on a sample
    for _ in range(3):
        if not case["sents"]:
            break
        ph = rng.choice(case["sents"])
        sec = rng.choice(case["in_sections"])
        if not sec or len(ph) > 4:
            continue
        g = G.phrase_words([w for w in G.ngram_of_line(rng.choice(sec), case["fmt"]).split(b" ") if w])
        if g and len(g) <= 4 and G.py_tiles(ph, g) != G.brute_tiles(ph, g):
            ctx.violation("Tiles oracle disagrees with the enumeration of concatenations", {"phrases": repr(ph), "ngram": repr(g)},
                          no_input=True)
            return True
    return False


def run(ctx):
    problems, consts = flow.proof_phase(ctx, "C11", probe="probe_C11.cc", required=REQUIRED, drivers=["drv_C11"])
    if consts.get("kenlmMaxOrder"):
        G.KENLM_MAX_ORDER = int(consts["kenlmMaxOrder"])
    ok, bdir, lg = repo.build("tools", targets=["filter", "query"])
    if not ok:
        problems.append(lg)
        flow.report_obligation_failures(ctx, problems, False)
        return
    env = {"fbin": os.path.join(bdir, "bin", "filter"), "qbin": os.path.join(bdir, "bin", "query"),
           "work": fresh_scratch("c11_%d_%d" % (ctx.seed, os.getpid())), "drv": G.Driver(lean.driver_path("drv_C11")), "n": 0}
    found = False
    nviol = 0
    try:
        n = 1500 if ctx.tier == "quick" else 12000
        for ci in range(n):
            case = gen_case(ctx.rng, ctx.tier)
            if ci < 3:
                ctx.sample({"mode": case["mode"], "context": case["context"], "fmt": case["fmt"],
                            "model_head": case["model"][:200].decode("latin-1"), "vocab_head": case["vocab"][:80].decode("latin-1")})
            bad, _ = run_case(ctx, env, case)
            if bad:
                found = True
                nviol += 1
                if nviol >= 5:
                    break
        np_ = 150 if ctx.tier == "quick" else 2000
        for pi in range(np_):
            if nviol >= 5:
                break
            if phrase_case(ctx, env, ctx.rng):
                found = True
                nviol += 1
        nq = 120 if ctx.tier == "quick" else 1500
        for qi in range(nq):
            if nviol >= 5:
                break
            if query_case(ctx, env, ctx.rng):
                found = True
                nviol += 1
    finally:
        env["drv"].close()
        shutil.rmtree(env["work"], ignore_errors=True)
    ctx.cov["rule"] = ("one evaluation = one bin/filter run (threads:1) byte-compared with the Lean driver, or one pair of bin/query "
                       "runs (original vs filtered model, per-token matched length and probability and totals compared as printed); "
                       "distinct by (mode, context, format, model bytes, vocabulary bytes); non-trivial when the input has n-grams "
                       "and the vocabulary is not empty")
    ctx.assumptions += ["n-gram fields are non-empty (ContextFilter on an empty field is undefined in the C++)",
                        "no 64-bit hash collisions in boost::unordered containers",
                        "count lines of the ARPA header use plain decimal numbers"]
    flow.report_obligation_failures(ctx, problems, found)
