"""C15 — I/O failures are never silent: success implies complete, correct output."""
import glob
import json
import os
import re
import shutil
import signal
import subprocess
from concurrent.futures import ThreadPoolExecutor

from vlib import flow, lean, repo, stream
from vlib.common import REPO, VERIF, NPROC, fresh_scratch, log, sha
from vlib.common import run as sh

MANIFEST = {
    "text": "Lean theorems, for every OS oracle (each libc call answered ok n | EINTR | errno | 0), every data and "
            "request size, unbounded: WriteOrThrow/ErsatzPWrite accept a prefix of the data in order and succeed iff all "
            "of it was accepted; ReadOrThrow/ErsatzPRead return exactly the next n bytes or throw; ReadOrEOF returns a "
            "prefix ended by a zero return; a consumed errno answer always throws that errno; offsets advance by the "
            "partial counts; EINTR and arbitrary splitting give the ideal-OS result, and inserting an EINTR into any finished run "
            "changes neither bytes nor result (except WriteOrThrow's errno 0 -> 4 before a zero return, as the real code does); every loop terminates with fuel = "
            "bytes + EINTR budget; FileStream hands the OS exactly the concatenation of its << arguments for every "
            "buffer size (a prefix of it if it throws) and never overflows its buffer.  PARTIAL: that every call site "
            "of lmplz/build_binary/filter/interpolate uses these primitives and lets the exception end the process "
            "is not a theorem; it is enumerated on the real tools by single-fault injection (LD_PRELOAD shim) — "
            "supporting evidence, bounded by the inputs and fault positions listed in the evidence file.  The call sites themselves "
            "are inventoried: every call to the raw I/O entry points in lm/ and util/ and every catch handler that does not "
            "rethrow is regenerated from the current tree with clang-query AST matchers (file, enclosing function, how the "
            "result is consumed) and compared with a reviewed, classified inventory (checks/C15_callsites.json: primitive / "
            "checked / destructor-abort / fallback / …); a new or changed site breaks the correspondence and triggers fault "
            "runs focused on exactly the calls issued from that site.",
    "note": "Model fidelity: the real util/file.cc and util/file_stream.hh run in-process (ASan+UBSan) against a scripted "
            "OS and must print the same result, bytes and request log as the Lean driver.  Property oracle on the real "
            "tools: injected hard fault => exit status != 0 or signal and the binary not marked complete; exit 0 => "
            "outputs byte-identical to the fault-free run; EINTR/short-transfer patterns => exit 0 and identical "
            "outputs.  Faults inside glibc stdio are injected at the fwrite/fread/fflush/fclose/fseek/rewind level; "
            "mmap store failures (SIGBUS) and close() failures are not injected.  One known finding: a sync that fails "
            "at or after the header write leaves a complete file with a non-zero status (inherent to a commit point).",
    "technique": "Lean 4 proof (induction over an executable model of the retry loops, adversarial OS oracle) + "
                 "differential correspondence with the real code + fault enumeration on the real CLI tools",
}

REQUIRED = ["KV.C15.write_all_or_throw", "KV.C15.read_exact_or_throw", "KV.C15.read_or_eof",
            "KV.C15.pread_pwrite_same", "KV.C15.eintr_transparent", "KV.C15.loops_terminate",
            "KV.C15.stream_no_loss", "KV.C15.stream_bounded", "KV.C15.inplace_reservations_fit",
            "KV.C15.partial_read", "KV.C15.eintr_value", "KV.C15.fuel_irrelevant", "KV.C15.eintr_insertion"]

KNOWN_SYNC = "sync-fault-at-or-after-header-write"
KNOWN_HANG = "lmplz-hangs-on-tempfile-setup-failure"
MAGIC_COMPLETE = b"mmap lm http://kheafield.com/code format version 5\n\0"
ERRNOS = {"ENOSPC": 28, "EIO": 5, "ENOMEM": 12, "SHORT": -1}


# ------------------------------------------------------------------ tie 1: scripted OS vs model
def rand_hex(rng, n):
    return "".join("%02x" % rng.randrange(256) for _ in range(n)) or "-"


def gen_answers(rng, size):
    """Adversarial script: mostly benign (EINTR bursts, splits of every size), sometimes a hard answer."""
    out = []
    style = rng.choice(["benign", "benign", "err", "zero", "mixed", "empty", "ones"])
    n = rng.randrange(0, 9)
    if style == "empty":
        n = 0
    for _ in range(n):
        r = rng.random()
        if style == "ones":
            out.append("k1" if r < 0.8 else "i")
        elif r < 0.3:
            out.append("i")
        elif r < 0.85:
            out.append("k%d" % rng.choice([1, 1, 2, 3, max(1, size // 2), max(1, size - 1), size, size + 5, 10 ** 9]))
        elif style in ("err", "mixed") and r < 0.93:
            out.append("e%d" % rng.choice([28, 5, 12, 9, 32]))
        elif style in ("zero", "mixed"):
            out.append(rng.choice(["z", "k0"]))
        else:
            out.append("i")
    return out


def gen_retry_line(rng, kbytes):
    kind = rng.choice(["write", "write", "pwrite", "read", "read", "readeof", "partial", "pread", "stream", "stream"])
    size = rng.choice([0, 1, 2, 3, 5, 8, 16, 33, rng.randrange(0, 70)])
    if kind == "write":
        head = "write %s" % rand_hex(rng, size)
    elif kind == "pwrite":
        head = "pwrite %d %s" % (rng.choice([0, 1, 7, 4096, rng.randrange(0, 10000)]), rand_hex(rng, size))
    elif kind in ("read", "readeof", "partial"):
        srclen = rng.choice([size, size, size + 3, max(0, size - 1), max(0, size - 2), 0, rng.randrange(0, 80)])
        head = "%s %d %s" % (kind, size, rand_hex(rng, srclen))
    elif kind == "pread":
        flen = rng.randrange(0, 80)
        off = rng.randrange(0, flen + 1)
        head = "pread %d %d %s" % (size, off, rand_hex(rng, flen))
    else:
        bufsize = rng.choice([0, 1, 19, 20, 21, 24, 32, 40, 64, 8192])
        ops = []
        for _ in range(rng.randrange(0, 14)):
            r = rng.random()
            if r < 0.35:
                ops.append("s:" + rand_hex(rng, rng.choice([0, 1, 3, 10, 19, 20, 21, 25, 41, 70])))
            elif r < 0.45:
                ops.append("c:%d" % rng.randrange(1, 256))
            elif r < 0.5:
                ops.append("b:%d" % rng.randrange(2))
            elif r < 0.58:
                ops.append("f")
            else:
                t = rng.choice(["u64", "i64", "u32", "i32", "u16", "i16"])
                bits = int(t[1:])
                if t[0] == "u":
                    v = rng.choice([0, 1, 2 ** bits - 1, rng.getrandbits(bits), rng.getrandbits(rng.randrange(1, bits + 1))])
                else:
                    v = rng.choice([0, -1, 2 ** (bits - 1) - 1, -2 ** (bits - 1), rng.getrandbits(bits) - 2 ** (bits - 1)])
                ops.append("%s:%d" % (t, v))
        head = "stream %d %s" % (bufsize, " ".join(ops))
        size = 40
    return head + " ; " + " ".join(gen_answers(rng, max(size, 1)))


def retry_oracle(line, out):
    """Property oracle independent of the Lean model, on the implementation's line: returns None or a message."""
    head, _, tail = line.partition(";")
    h = head.split()
    answers = tail.split()
    f = dict(x.split("=", 1) for x in out.split()[1:])
    res = out.split()[0]
    moved = "" if f["moved"] == "-" else f["moved"]
    nxt = int(f["next"])
    consumed = answers[:nxt]
    hard = [a for a in consumed if a[0] in "ez" or a == "k0"]
    if h[0] in ("write", "pwrite"):
        data = h[-1] if h[-1] != "-" else ""
        if not data.startswith(moved):
            return "bytes accepted by the OS are not a prefix of the data"
        if res == "ok" and moved != data:
            return "success although not all bytes were accepted"
        if res == "ok" and hard:
            return "success although the OS reported a failure"
        if [a for a in consumed if a[0] == "e"] and not res.startswith("errno:"):
            return "errno answer consumed but no errno exception"
    elif h[0] in ("read", "pread"):
        amount = int(h[1])
        src = h[-1] if h[-1] != "-" else ""
        if h[0] == "pread":
            src = src[2 * int(h[2]):]
        if res == "ok" and moved != src[:2 * amount]:
            return "success but the buffer is not the next n bytes"
        if res == "ok" and len(src) < 2 * amount:
            return "success on a source that is too short"
        if [a for a in consumed if a[0] == "e"] and not res.startswith("errno:"):
            return "errno answer consumed but no errno exception"
    elif h[0] == "readeof":
        src = h[-1] if h[-1] != "-" else ""
        if not src.startswith(moved) or len(moved) > 2 * int(h[1]):
            return "ReadOrEOF result is not a bounded prefix of the source"
    elif h[0] == "stream":
        total = ""
        for o in h[2:]:
            k, _, a = o.partition(":")
            if k == "s":
                total += "" if a == "-" else a
            elif k == "c":
                total += "%02x" % int(a)
            elif k == "b":
                total += "%02x" % (48 + int(a))
            elif k != "f":
                total += a.encode().hex()
        if res == "ok" and moved != total:
            return "FileStream ended normally but the OS did not receive the concatenation of the arguments"
        if not total.startswith(moved):
            return "FileStream handed the OS bytes that are not a prefix of its arguments"
        if res == "ok" and hard:
            return "FileStream success although the OS reported a failure"
    if "!" in res:
        return "harness self-check failed: " + res
    return None


def retry_stream(ctx, hexe, dexe, n_lines, kbytes):
    found = False
    batch = 400
    done = 0
    while done < n_lines:
        lines = [gen_retry_line(ctx.rng, kbytes) for _ in range(min(batch, n_lines - done))]
        done += len(lines)
        (rc1, o1, e1), (rc2, o2, e2) = stream.both(hexe, dexe, lines)
        if rc1 != 0 or len(o1) != len(lines):
            small = stream.ddmin(lines, lambda l: stream.run_lines(hexe, l)[0] != 0)
            ctx.violation("harness died on a retry script (rc=%s): %s" % (rc1, e1[-600:]),
                          {"stream": "retry", "ops": small, "stderr": e1[-3000:]})
            return True
        for i, ln in enumerate(lines):
            kind = ln.split()[0]
            nontriv = len(ln.partition(";")[2].split()) >= 2
            ctx.count(("retry", ln), nontrivial=nontriv)
            ctx.hist("retry.kind", kind)
            ctx.hist("retry.result", o1[i].split()[0].split(":")[0])
            msg = retry_oracle(ln, o1[i])
            if msg and len(ctx.violations) < 12:
                ctx.violation(msg, {"stream": "retry", "ops": [ln], "impl": o1[i]})
                found = True
        if done <= batch:
            for i in range(3):
                ctx.sample({"stream": "retry", "op": lines[i][:160], "impl": o1[i][:200]})
        d = stream.first_diff(o1, o2)
        if (d is not None or rc2 != 0) and len(ctx.violations) < 12:
            bad = [lines[d]] if d is not None and d < len(lines) else lines
            ctx.violation("model and implementation disagree on a retry loop",
                          {"stream": "retry", "ops": bad, "impl": o1[d] if d is not None and d < len(o1) else None,
                           "model": o2[d] if d is not None and d < len(o2) else None}, no_input=not found)
            found = True
    return found



# ------------------------------------------------------------------ call-site inventory (static) and site attribution (runtime)
INVENTORY = os.path.join(VERIF, "checks", "C15_callsites.json")


def current_inventory():
    """Regenerated from the current tree with clang-query (tools/c15_callsites.py); cached by tree hash."""
    import importlib.util
    spec = importlib.util.spec_from_file_location("c15_callsites", os.path.join(VERIF, "tools", "c15_callsites.py"))
    mod = importlib.util.module_from_spec(spec)
    spec.loader.exec_module(mod)
    cache = os.path.join(os.environ.get("VERIF_SCRATCH", "/var/tmp/kpu-kenlm-verif"), "callsites")
    os.makedirs(cache, exist_ok=True)
    cf = os.path.join(cache, "%s_%s.json" % (repo.tree_hash(), sha(open(os.path.join(VERIF, "tools", "c15_callsites.py"), "rb").read())))
    if os.path.exists(cf):
        return json.load(open(cf))
    inv = mod.inventory(REPO, jobs=max(4, min(12, NPROC - 2)))
    tmp = cf + ".tmp%d" % os.getpid()
    json.dump(inv, open(tmp, "w"))
    os.replace(tmp, cf)
    return inv


def compare_inventory(ctx, inv):
    """Returns the list of flagged items (new / changed call sites and non-rethrowing catch handlers)."""
    ref = json.load(open(INVENTORY))
    flagged = []
    rs = {x["key"]: x for x in ref["sites"]}
    rc = {x["key"]: x for x in ref["catches"]}
    for s in inv["sites"]:
        r = rs.get(s["key"])
        if r is None:
            flagged.append(dict(s, kind="site", why="new call site (not in the reviewed inventory)"))
        elif (r["callee"], r["consumed"]) != (s["callee"], s["consumed"]):
            flagged.append(dict(s, kind="site", why="result consumption changed: reviewed %s/%s (%s), now %s/%s" % (
                r["callee"], r["consumed"], r.get("class"), s["callee"], s["consumed"])))
    for c in inv["catches"]:
        r = rc.get(c["key"])
        if r is None:
            flagged.append(dict(c, kind="catch", why="new catch handler that does not rethrow (%s, %s)" % (c["caught"], c["handler"])))
        elif r["handler"] != c["handler"]:
            flagged.append(dict(c, kind="catch", why="catch handler changed: reviewed %s, now %s" % (r["handler"], c["handler"])))
    cur = {x["key"] for x in inv["sites"]} | {x["key"] for x in inv["catches"]}
    removed = sorted(k for k in list(rs) + list(rc) if k not in cur)
    ctx.cov["callsite_inventory"] = {"sites": len(inv["sites"]), "catch_handlers": len(inv["catches"]), "units": inv.get("units"),
                                     "reviewed_sites": len(rs), "reviewed_catch_handlers": len(rc), "removed": removed,
                                     "flagged": [f["key"] + ": " + f["why"] for f in flagged],
                                     "by_class": {}}
    for x in ref["sites"] + ref["catches"]:
        bc = ctx.cov["callsite_inventory"]["by_class"]
        bc[x.get("class", "?")] = bc.get(x.get("class", "?"), 0) + 1
    if inv.get("errors"):
        flagged.append({"kind": "inventory", "key": "inventory", "file": "-", "line": 0, "function": "-",
                        "why": "clang-query could not analyse part of the tree: %s" % inv["errors"][:2]})
    return flagged


def simple_name(demangled):
    d = demangled.replace("(anonymous namespace)::", "")
    d = d.split("(")[0] if not d.startswith("operator") else d
    while "<" in d and ">" in d:
        n = re.sub(r"<[^<>]*>", "", d)
        if n == d:
            break
        d = n
    return d.split("::")[-1].strip()


def resolve_sites(binary, offsets):
    """{offset(hex str): [(function, file, line), …innermost first]} via addr2line on the return address - 1."""
    offs = sorted(set(offsets))
    if not offs:
        return {}
    addrs = ["0x%x" % (int(o, 16) - 1) for o in offs]
    rc, o, e = sh(["addr2line", "-a", "-f", "-C", "-i", "-e", binary] + addrs, timeout=120)
    out, cur = {}, None
    lines = o.splitlines()
    i = 0
    while i < len(lines):
        if lines[i].startswith("0x"):
            cur = "%x" % (int(lines[i], 16) + 1)
            out[cur] = []
            i += 1
            continue
        if cur is not None and i + 1 < len(lines):
            fn, loc = lines[i], lines[i + 1]
            m = re.match(r"(.*?):(\d+)", loc)
            f = m.group(1) if m else loc
            mm = re.search(r"/((?:lm|util)/.*)$", f)
            out[cur].append((simple_name(fn), mm.group(1) if mm else os.path.basename(f), int(m.group(2)) if m else 0))
            i += 2
        else:
            i += 1
    return out


def site_key(inv_sites, cls, frames):
    """Name a runtime site by the static inventory key when it can be matched (file, function, callee; nearest line)."""
    if not frames:
        return "external::%s" % cls
    fn, f, line = frames[0]
    callee = {"open": ("open", "fopen"), "fseek": ("fseek", "fseeko")}.get(cls, (cls,))
    cands = [s for s in inv_sites if s["file"] == f and s["function"] == fn and s["callee"] in callee]
    if cands:
        best = min(cands, key=lambda s: (abs(s["line"] - line), s["line"]))
        return best["key"]
    return "%s::%s::%s@%d" % (f, fn, cls, line)

# ------------------------------------------------------------------ tie 2: fault enumeration on the real tools
def build_shim():
    src = os.path.join(VERIF, "tools", "shim_io.c")
    out_dir = os.path.join(os.environ.get("VERIF_SCRATCH", "/var/tmp/kpu-kenlm-verif"), "shim")
    os.makedirs(out_dir, exist_ok=True)
    so = os.path.join(out_dir, "shim_io_%s.so" % sha(open(src, "rb").read()))
    if not os.path.exists(so):
        tmp = so + ".tmp%d" % os.getpid()
        rc, o, e = sh(["gcc", "-shared", "-fPIC", "-O1", "-o", tmp, src, "-ldl"], timeout=120)
        if rc != 0:
            raise RuntimeError("shim does not compile: " + e[-2000:])
        os.replace(tmp, so)
    return so


def gen_corpus(rng, n_sent, vocab, rate=0.35):
    words = ["w%d" % i for i in range(vocab)]
    lines = []
    for _ in range(n_sent):
        ln = rng.randrange(1, 9)
        lines.append(" ".join(words[min(vocab - 1, int(rng.expovariate(rate)))] for _ in range(ln)))
    return "\n".join(lines) + "\n"


class Tool:
    def __init__(self, name, argv, outputs, stdin=None, binary=None):
        self.name, self.argv, self.outputs, self.stdin, self.binary = name, argv, outputs, stdin, binary


def run_tool(tool, workdir, shim, env_extra, timeout=15):
    """Runs in a fresh directory; returns (rc, {output: bytes or None}, shim log lines)."""
    shutil.rmtree(workdir, ignore_errors=True)
    os.makedirs(os.path.join(workdir, "tmp"))
    env = dict(os.environ)
    env.update(env_extra)
    env["LD_PRELOAD"] = shim
    env["SHIM_LOG"] = os.path.join(workdir, "shim.log")
    stdin = open(tool.stdin, "rb") if tool.stdin else subprocess.DEVNULL
    stdout = open(os.path.join(workdir, "stdout"), "wb")
    try:
        p = subprocess.run(tool.argv, cwd=workdir, env=env, stdin=stdin, stdout=stdout,
                           stderr=subprocess.PIPE, timeout=timeout,
                           preexec_fn=lambda: signal.signal(signal.SIGXFSZ, signal.SIG_IGN))
        rc, err = p.returncode, p.stderr[-1500:].decode("utf-8", "replace")
    except subprocess.TimeoutExpired as ex:
        rc, err = "timeout", (ex.stderr or b"")[-1500:].decode("utf-8", "replace")
    finally:
        stdout.close()
        if tool.stdin:
            stdin.close()
    outs = {}
    for o in tool.outputs:
        fs = sorted(glob.glob(os.path.join(workdir, o)))
        if not fs:
            outs[o] = None
        else:
            outs[o] = b"".join(open(f, "rb").read() for f in fs)
    lg = []
    try:
        lg = open(os.path.join(workdir, "shim.log")).read().splitlines()
    except OSError:
        pass
    return rc, outs, lg, err


def tools_for(bdir, base, tier):
    B = os.path.join(bdir, "bin")
    corpus, corpus2, arpa, vocab = (os.path.join(base, x) for x in ("corpus.txt", "corpus2.txt", "in.arpa", "fv.txt"))
    lm = ["-o", "3", "--discount_fallback", "-S", "40M", "--vocab_estimate", "200", "-T", "tmp/"]
    ts = [
        Tool("lmplz", [B + "/lmplz"] + lm + ["--text", corpus, "--arpa", "out.arpa"], ["out.arpa"]),
        Tool("lmplz-intermediate", [B + "/lmplz"] + lm + ["--text", corpus, "--intermediate", "out.int"],
             ["out.int.kenlm_intermediate", "out.int.vocab", "out.int.1", "out.int.2", "out.int.3"]),
        Tool("lmplz-stdio", [B + "/lmplz"] + lm, ["stdout"], stdin=corpus),
        # class `external sort`: memory so small that every order spills several sorted runs to the temporary files and the
        # merge (util/stream/sort.hh MergeQueue / OwningMergingReader, multi-pass Merge) reads them back with pread
        Tool("lmplz-spill", [B + "/lmplz", "-o", "3", "--discount_fallback", "-S", "100K", "--sort_block", "4K", "--minimum_block", "1K",
                             "--vocab_estimate", "200", "-T", "tmp/", "--text", os.path.join(base, "corpus_spill.txt"),
                             "--arpa", "out.arpa"], ["out.arpa"]),
    ]
    for wm in ("mmap", "after"):
        for ty in ("probing", "trie"):
            ts.append(Tool("build_binary-%s-%s" % (wm, ty),
                           [B + "/build_binary", "-w", wm, "-T", "tmp/", ty, arpa, "out.bin"], ["out.bin"],
                           binary="out.bin"))
    ts.append(Tool("build_binary-mmap-trie-q", [B + "/build_binary", "-w", "mmap", "-q", "4", "-b", "4", "-a", "8", "-T", "tmp/",
                                                "trie", arpa, "out.bin"], ["out.bin"], binary="out.bin"))
    ts.append(Tool("build_binary-after-trie-sri", [B + "/build_binary", "-w", "after", "-T", "tmp/", "trie",
                                                   os.path.join(base, "sri.arpa"), "out.bin"], ["out.bin"], binary="out.bin"))
    ts.append(Tool("filter", [B + "/filter", "single", "arpa", "threads:1", "vocab:" + vocab, "out.arpa"], ["out.arpa"],
                   stdin=arpa))
    ts.append(Tool("filter-model-file", [B + "/filter", "union", "arpa", "threads:1", "model:" + arpa, "out.arpa"],
                   ["out.arpa"], stdin=vocab))
    ts.append(Tool("interpolate", [B + "/interpolate", "-m", os.path.join(base, "a.int"), os.path.join(base, "b.int"),
                                   "-w", "0.4", "0.6", "-T", "tmp/", "-S", "100M", "--sort_block", "1M"], ["stdout"]))
    return ts


def gen_sri_arpa(rng):
    """A small ARPA in the style of SRILM output: higher-order n-grams whose suffix is not in the model
    (the trie builder inserts blanks for them) and lower-order n-grams without a back-off field (their
    "extends" mark then comes only from the builder's context files)."""
    words = ["a", "b", "c", "d", "e"]
    tri = set()
    while len(tri) < 4:
        tri.add((rng.choice(words), rng.choice(words), rng.choice(words)))
    tri = sorted(tri)
    bi = sorted({t[:2] for t in tri} | {(rng.choice(words), rng.choice(words))})
    lp = lambda: "-%.4f" % (rng.randrange(1000, 30000) / 10000.0)
    out = ["", "\\data\\", "ngram 1=%d" % (len(words) + 3), "ngram 2=%d" % len(bi), "ngram 3=%d" % len(tri), "",
           "\\1-grams:", "%s\t<unk>" % lp(), "%s\t<s>\t%s" % (lp(), lp()), "%s\t</s>" % lp()]
    out += ["%s\t%s\t%s" % (lp(), w, lp()) for w in words]
    out += ["", "\\2-grams:"] + ["%s\t%s" % (lp(), " ".join(b)) for b in bi]
    out += ["", "\\3-grams:"] + ["%s\t%s" % (lp(), " ".join(t)) for t in tri]
    out += ["", "\\end\\", ""]
    return "\n".join(out)


def prepare_inputs(ctx, bdir, base, shim):
    """Seeded small inputs, built with the fault-free tools."""
    B = os.path.join(bdir, "bin")
    n_sent, vocab = (14, 9) if ctx.tier == "quick" else (60, 25)
    open(os.path.join(base, "corpus.txt"), "w").write(gen_corpus(ctx.rng, n_sent, vocab))
    open(os.path.join(base, "corpus2.txt"), "w").write(gen_corpus(ctx.rng, n_sent, vocab))
    open(os.path.join(base, "corpus_spill.txt"), "w").write(gen_corpus(ctx.rng, 600, 60, rate=0.08))
    open(os.path.join(base, "sri.arpa"), "w").write(gen_sri_arpa(ctx.rng))
    open(os.path.join(base, "fv.txt"), "w").write(" ".join("w%d" % i for i in range(0, vocab, 2)) + " w1\n")
    os.makedirs(os.path.join(base, "tmp"), exist_ok=True)
    lm = ["-o", "3", "--discount_fallback", "-S", "40M", "--vocab_estimate", "200", "-T", os.path.join(base, "tmp") + "/"]
    for corpus, outp, kind in (("corpus.txt", "in.arpa", "--arpa"), ("corpus.txt", "a.int", "--intermediate"),
                               ("corpus2.txt", "b.int", "--intermediate")):
        rc, o, e = sh([B + "/lmplz"] + lm + ["--text", os.path.join(base, corpus), kind, os.path.join(base, outp)], timeout=120)
        if rc != 0:
            raise RuntimeError("fault-free lmplz failed while preparing inputs: rc=%s %s" % (rc, e[-1500:]))


HARD_CLASSES = ["write", "pwrite", "ftruncate", "fsync", "msync", "read", "pread", "open", "mkstemp",
                "fwrite", "fread", "fflush", "fclose", "fseek", "rewind"]


def pick_errno(rng, cls, tier):
    if cls in ("read", "pread", "fread", "fsync", "msync", "fseek"):
        pool = ["EIO", "ENOMEM"] if cls in ("msync",) else ["EIO"]
    elif cls in ("open", "mkstemp"):
        pool = ["ENOSPC", "ENOMEM", "EIO"]
    else:
        pool = ["ENOSPC", "EIO"]
    if tier == "thorough":
        return pool
    return [rng.choice(pool)]


def with_inputs(replay, base):
    r = dict(replay)
    ins = {}
    for fn in ("corpus.txt", "corpus2.txt", "fv.txt", "in.arpa", "sri.arpa"):
        try:
            ins[fn] = open(os.path.join(base, fn)).read()[:20000]
        except OSError:
            pass
    r["inputs"] = ins
    r["note"] = "a.int/b.int = lmplz --intermediate of corpus.txt/corpus2.txt; in.arpa = lmplz --arpa of corpus.txt (flags in checks/C15.py prepare_inputs)"
    return r


def marked_complete(data):
    return data is not None and data.startswith(MAGIC_COMPLETE)


def fault_stream(ctx, bdir, shim, inv, flagged):
    found = False
    site_cov = {}
    flagged_hit = {f["key"]: 0 for f in flagged if f["kind"] == "site"}
    base = fresh_scratch("c15_%d_%d" % (ctx.seed, os.getpid()))
    try:
        prepare_inputs(ctx, bdir, base, shim)
        tools = tools_for(bdir, base, ctx.tier)
        workers = max(4, min(14, NPROC - 2))
        totals = {"injected": 0, "fired": 0, "not_fired": 0, "transient_runs": 0, "transient_events": 0,
                  "nonzero_exit": 0, "known_sync": 0}
        for tool in tools:
            rc0, out0, lg0, err0 = run_tool(tool, os.path.join(base, "w_base_" + tool.name), shim, {"SHIM_SITES": "1"})
            if rc0 != 0 or any(v is None for v in out0.values()):
                ctx.violation("fault-free run of %s failed (rc=%s): %s" % (tool.name, rc0, err0[-500:]),
                              {"stream": "faults", "tool": tool.name, "argv": tool.argv}, no_input=True)
                found = True
                continue
            # determinism of the fault-free run (else byte identity is not a usable oracle)
            rc1, out1, _, _ = run_tool(tool, os.path.join(base, "w_base2_" + tool.name), shim, {})
            if out1 != out0:
                ctx.violation("fault-free output of %s is not deterministic" % tool.name,
                              {"stream": "faults", "tool": tool.name, "argv": tool.argv}, no_input=True)
                found = True
                continue
            counts = {}
            for l in lg0:
                p = l.split()
                if p and p[0] == "COUNT":
                    counts[p[1]] = counts.get(p[1], 0) + int(p[2])
            ctx.cov.setdefault("fault_free_call_counts", {})[tool.name] = {k: v for k, v in counts.items() if v}
            # calling sites of the fault-free run, resolved to source (addr2line on the return addresses)
            rt_sites = [(p[1], p[3], int(p[4])) for p in (l.split() for l in lg0) if p and p[0] == "SITE" and p[2] == "exe"]
            resolved = resolve_sites(tool.argv[0], [o for _, o, _ in rt_sites])
            key_of = {(cls, off): site_key(inv["sites"], cls, resolved.get(off, [])) for cls, off, _ in rt_sites}
            jobs = []
            # focused enumeration: every call issued from a flagged call site (new / changed in the inventory)
            for cls, off, cnt in rt_sites:
                k_ = key_of[(cls, off)]
                if k_ in flagged_hit:
                    for k in sorted(set(list(range(1, min(cnt, 12) + 1)) + [cnt])):
                        for en in (["ENOSPC", "EIO"] + (["SHORT"] if cls in ("write", "pwrite", "read", "pread") else [])):
                            jobs.append(("hard", cls, k, en, off))
                            flagged_hit[k_] += 1
            # short transfer at an exact call: every pwrite/pread, first/last/sampled write and read
            for cls in ("pwrite", "pread", "write", "read"):
                n = counts.get(cls, 0)
                if n:
                    ks = range(1, n + 1) if (cls.startswith("p") and n <= 40) else sorted({1, 2, n - 1, n} | {ctx.rng.randrange(1, n + 1) for _ in range(4)})
                    for k in ks:
                        if 1 <= k <= n:
                            jobs.append(("hard", cls, k, "SHORT"))
            for cls in HARD_CLASSES:
                n = counts.get(cls, 0)
                if n == 0:
                    continue
                cap = 40 if ctx.tier == "quick" else 120
                if n <= cap:
                    ks = list(range(1, n + 1))
                else:   # stratified: first, last, and a seeded sample in between
                    ks = sorted(set(list(range(1, 9)) + list(range(n - 7, n + 1)) +
                                    [ctx.rng.randrange(9, n - 7) for _ in range(cap - 16)]))
                for k in ks:
                    for en in pick_errno(ctx.rng, cls, ctx.tier):
                        jobs.append(("hard", cls, k, en))
            n_tr = 6 if ctx.tier == "quick" else 40
            for _ in range(n_tr):
                jobs.append(("transient", ctx.rng.randrange(1, 10 ** 9), ctx.rng.choice([5, 20, 45]), ctx.rng.choice([10, 30, 50])))

            def one(job, tool=tool):
                wd = os.path.join(base, "w_%s_%s" % (tool.name, sha(repr(job))))
                if job[0] == "hard":
                    env = {"SHIM_FAULT": "%s:%d:%d" % (job[1], job[2], ERRNOS[job[3]]) + (":%s" % job[4] if len(job) > 4 else "")}
                else:
                    env = {"SHIM_TRANSIENT": "%d:%d:%d" % (job[1], job[2], job[3])}
                r = run_tool(tool, wd, shim, env)
                shutil.rmtree(wd, ignore_errors=True)
                return job, env, r

            with ThreadPoolExecutor(max_workers=workers) as ex:
                results = list(ex.map(one, jobs))
            for job, env, (rc, outs, lg, err) in results:
                replay = {"stream": "faults", "tool": tool.name, "argv": tool.argv, "stdin": tool.stdin, "env": env,
                          "shim": "tools/shim_io.c", "rc": rc, "stderr_tail": err[-600:]}
                same = outs == out0
                if job[0] == "hard":
                    fl = [l.split() for l in lg if l.startswith("FIRED")]
                    fired = bool(fl)
                    if fired and len(fl[0]) >= 6:
                        sk = key_of.get((fl[0][1], fl[0][5])) if fl[0][4] == "exe" else "external(%s)::%s" % (fl[0][4], fl[0][1])
                        if sk is None:
                            sk = site_key(inv["sites"], fl[0][1], resolve_sites(tool.argv[0], [fl[0][5]]).get(fl[0][5], []))
                        c = site_cov.setdefault(sk, {"injected": 0, "short": 0, "nonzero_exit": 0, "tools": set()})
                        c["short" if job[3] == "SHORT" else "injected"] += 1
                        c["nonzero_exit"] += 1 if (rc != 0 and rc != "timeout") else 0
                        c["tools"].add(tool.name)
                    if job[3] == "SHORT":
                        # a short transfer is a transient condition: the result must not change
                        totals["short_faults"] = totals.get("short_faults", 0) + 1
                        ctx.count(("short", tool.name, job), nontrivial=fired)
                        ctx.hist("faults.class", "short-" + job[1])
                        if rc != 0 or not same:
                            ctx.violation("%s: %s #%d transferred only half of the requested bytes and the result changed "
                                          "(rc=%s, outputs %s)" % (tool.name, job[1], job[2], rc, "identical" if same else "DIFFER"),
                                          with_inputs(replay, base))
                            found = True
                        continue
                    totals["injected"] += 1
                    totals["fired" if fired else "not_fired"] += 1
                    ctx.count(("fault", tool.name, job), nontrivial=fired)
                    ctx.hist("faults.class", job[1])
                    ctx.hist("faults.outcome", "rc=0" if rc == 0 else ("timeout" if rc == "timeout" else ("signal" if rc < 0 else "rc!=0")))
                    if rc == "timeout":
                        # lmplz / interpolate (util::stream pipelines): an exception raised while chains are running unwinds through ~Chains,
                        # which joins worker threads that never receive poison (deadlock; no success reported)
                        key = KNOWN_HANG if ((tool.name.startswith("lmplz") or tool.name == "interpolate") and fired) else None
                        totals["hangs"] = totals.get("hangs", 0) + 1
                        if ctx.violation("%s hangs (no exit within the timeout) after %s #%d failed with %s" % (
                                tool.name, job[1], job[2], job[3]), with_inputs(replay, base), key=key):
                            found = True
                        continue
                    if rc != 0:
                        totals["nonzero_exit"] += 1
                    if fired and rc == 0:
                        ctx.violation("%s: %s #%d failed with %s but the tool exited with status 0 (%s)" % (
                            tool.name, job[1], job[2], job[3], "outputs identical" if same else "OUTPUTS DIFFER"), with_inputs(replay, base))
                        found = True
                        continue
                    if rc == 0 and not same:
                        ctx.violation("%s exited 0 with outputs differing from the fault-free run" % tool.name, with_inputs(replay, base))
                        found = True
                        continue
                    if fired and rc != 0 and tool.binary and marked_complete(outs.get(tool.binary)):
                        if job[1] in ("msync", "fsync") and same:
                            totals["known_sync"] += 1
                            if ctx.violation("%s: %s #%d failed at or after the header write: status %s, but the file is "
                                             "complete and identical to the fault-free file" % (tool.name, job[1], job[2], rc),
                                             replay, key=KNOWN_SYNC):
                                found = True
                        else:
                            ctx.violation("%s: after a failed %s #%d (status %s) the binary file is marked complete%s" % (
                                tool.name, job[1], job[2], rc, "" if same else " and differs from the fault-free file"), with_inputs(replay, base))
                            found = True
                else:
                    totals["transient_runs"] += 1
                    ev = 0
                    for l in lg:
                        if l.startswith("TRANSIENT"):
                            for tok in l.split()[1:]:
                                ev += int(tok.split("=")[1])
                    totals["transient_events"] += ev
                    ctx.count(("transient", tool.name, job), nontrivial=ev > 0)
                    ctx.hist("faults.class", "transient")
                    if rc != 0 or not same:
                        ctx.violation("%s: EINTR / short-transfer pattern changed the result (rc=%s, outputs %s)" % (
                            tool.name, rc, "identical" if same else "differ"), with_inputs(replay, base))
                        found = True
            log("  [C15] %-28s %4d runs" % (tool.name, len(jobs)))
        ctx.cov["faults"] = totals
        ctx.cov["fault_sites"] = {k: dict(v, tools=sorted(v["tools"])) for k, v in sorted(site_cov.items())}
        never = [x["key"] for x in inv["sites"] if x["key"] not in site_cov]
        ctx.cov["fault_sites_never_reached"] = never
        ctx.cov["flagged_site_focus_runs"] = flagged_hit
        log("  [C15] faults: %s" % totals)
        if totals["fired"] == 0:
            ctx.violation("no injected fault fired: the shim does not reach the tools", {"stream": "faults"}, no_input=True)
            found = True
    finally:
        shutil.rmtree(base, ignore_errors=True)
    return found


def harness_extra():
    return [REPO + "/util/file.cc", REPO + "/util/exception.cc", REPO + "/util/integer_to_string.cc",
            REPO + "/util/float_to_string.cc", REPO + "/util/scoped.cc"] + sorted(glob.glob(REPO + "/util/double-conversion/*.cc"))


def run(ctx):
    problems, consts = flow.proof_phase(ctx, "C15", probe="probe_C15.cc", required=REQUIRED, drivers=["drv_C15"])
    found = False
    ok, hexe, lg = repo.harness("c15.cc", extra=harness_extra())
    if not ok:
        problems.append(lg)
    else:
        dexe = lean.driver_path("drv_C15")
        if os.path.exists(dexe):
            found |= retry_stream(ctx, hexe, dexe, 1500 if ctx.tier == "quick" else 30000, consts)
    # regenerated call-site inventory vs the reviewed one: a new or changed site breaks the correspondence
    inv = {"sites": [], "catches": [], "errors": []}
    flagged = []
    try:
        inv = current_inventory()
        flagged = compare_inventory(ctx, inv)
    except Exception as ex:     # clang-query missing, parse failure, …
        flagged = [{"kind": "inventory", "key": "inventory", "file": "-", "line": 0, "function": "-",
                    "why": "call-site inventory could not be regenerated: %r" % (ex,)}]
    for f in flagged:
        log("  [C15] inventory: %s %s:%s %s — %s" % (f["key"], f.get("file"), f.get("line"), f.get("function"), f["why"]))
    ok, bdir, lg = repo.build("tools")
    if not ok:
        problems.append(lg)
    else:
        shim = build_shim()
        before = len(ctx.violations)
        found |= fault_stream(ctx, bdir, shim, inv, flagged)
        if flagged and len(ctx.violations) == before:
            # the correspondence (reviewed inventory) is broken and the fault enumeration, including the runs focused
            # on the flagged sites, found no failing input
            ctx.violation("call-site inventory differs from the reviewed one and no failing input was found: " +
                          "; ".join("%s (%s:%s in %s): %s" % (f["key"], f.get("file"), f.get("line"), f.get("function"), f["why"])
                                    for f in flagged)[:1500],
                          {"stream": "inventory", "flagged": flagged, "focus_runs": ctx.cov.get("flagged_site_focus_runs")},
                          no_input=True)
    ctx.cov["rule"] = ("retry: one scripted-OS operation line per case (the six loops and FileStream op sequences over buffer "
                       "sizes 0..8192), non-trivial when the script has >= 2 answers, distinct by line; faults: one injected "
                       "run per (tool, call class, k, errno) or (tool, transient seed), non-trivial when the fault fired / "
                       "at least one EINTR or short transfer was injected")
    ctx.assumptions += [
        "the OS is modelled as an arbitrary answer sequence ok n | EINTR | errno | 0; short transfers deliver a prefix",
        "call-site coverage (every tool lets the primitive's exception end the process) is enumerated, not proved; the "
        "inventory of call sites is exact for lm/ and util/ as parsed by clang (C++ iostream use, e.g. std::ifstream in "
        "filter_main.cc, and third-party code are outside it); per-site injected-fault counts are in coverage.fault_sites, "
        "sites never reached by the inputs in coverage.fault_sites_never_reached",
        "faults inside glibc stdio are injected at the fwrite/fread/fflush/fclose/fseek/rewind entry points",
        "mmap store failures (SIGBUS on a full disk) and failing close() are not injected",
        "x86-64 Linux, glibc; tools dynamically linked against libc so that LD_PRELOAD interposition applies",
    ]
    flow.report_obligation_failures(ctx, problems, found)


def replay(ctx, path):
    import json
    r = json.load(open(path))
    if r.get("stream") == "retry":
        ok, hexe, lg = repo.harness("c15.cc", extra=harness_extra())
        flow.proof_phase(ctx, "C15", probe="probe_C15.cc", required=REQUIRED, drivers=["drv_C15"])
        (rc1, o1, e1), (rc2, o2, e2) = stream.both(hexe, lean.driver_path("drv_C15"), r["ops"])
        for l, a, b in zip(r["ops"], o1, o2):
            print(l, "\n  impl :", a, "\n  model:", b, "\n  oracle:", retry_oracle(l, a))
        return 1 if (stream.first_diff(o1, o2) is not None or any(retry_oracle(l, a) for l, a in zip(r["ops"], o1))) else 0
    if r.get("stream") == "faults" and "argv" in r and "env" in r:
        ok, bdir, lg = repo.build("tools")
        shim = build_shim()
        print("re-run: cd <dir with the same inputs>; env %s LD_PRELOAD=%s %s" % (
            " ".join("%s=%s" % kv for kv in r["env"].items()), shim, " ".join(r["argv"])))
        print("recorded: rc=%s stderr=%s" % (r.get("rc"), r.get("stderr_tail")))
        return 1
    print(json.dumps(r, indent=1))
    return 1
