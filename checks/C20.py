"""C20 — Core lookup primitives behave as exact maps and arrays."""
from vlib import flow, lean, repo, stream
from vlib.common import REPO, log

MANIFEST = {
    "text": "Lean theorems over the model of util/bit_packing.hh (read = the field, write-then-read = value, frame: all "
            "other bits untouched, for every offset, width <= 57 / <= 25, value, neighbouring content), of the probing table "
            "(map refinement from the cyclic probe-path invariant) and of interpolation search (sound+complete for any "
            "in-range pivot); tied to the code by differential execution of seeded op scripts on the real headers "
            "(ASan+UBSan) against the compiled Lean driver, plus an independent property oracle.",
    "note": "Trusted: Lean kernel + propext/Classical.choice/Quot.sound; statements in lean/Properties/C20.lean; the "
            "harness/driver/comparator; little-endian x86-64; preconditions are explicit hypotheses checked per case "
            "(key != invalid key, field zero before Write*, Pivot32 product < 2^64).",
    "technique": "Lean 4 proof (induction/invariants over an executable model) + differential correspondence with the real code",
}

REQUIRED = ["KV.C20.read_eq", "KV.C20.write_read", "KV.C20.write_frame", "KV.C20.write_bits",
            "KV.C20.write25_read", "KV.C20.write25_frame", "KV.C20.float32_write_read", "KV.C20.float31_write_read",
            "KV.C20.required_bits_fits", "KV.C20.required_bits_minimal",
            "KV.C20.pivot32_acceptable", "KV.C20.pivot64_acceptable", "KV.C20.bounded_find_correct",
            "KV.C20.bounded_find_probes_in_range", "KV.C20.bounded_find_terminates",
            "KV.C20.sorted_uniform_correct", "KV.C20.binary_find_correct"]


# ---------------------------------------------------------------- generators: bit fields
def gen_bits_case(rng, contract=True):
    """One script: a buffer with random / all-ones neighbours, disjoint zero fields written
    once and read back.  contract=False additionally issues writes that break the documented
    contract (non-zero target, oversize value) — compared with the model only."""
    size = rng.choice([8, 16, 24, 40, 64, 96])
    nbits = size * 8
    fields = []
    pos = rng.randrange(0, 9)
    while True:
        kind = rng.choice(["57", "57", "25", "f32", "f31"])
        if kind == "57":
            ln = rng.choice([1, 2, 7, 8, 9, 31, 32, 33, 56, 57, rng.randrange(1, 58)])
        elif kind == "25":
            ln = rng.choice([1, 8, 24, 25, rng.randrange(1, 26)])
        elif kind == "f32":
            ln = 32
        else:
            ln = 31
        if pos + ln > nbits:
            break
        fields.append((kind, pos, ln))
        pos += ln + rng.choice([0, 0, 0, 1, 3, 8, rng.randrange(0, 20)])
    # initial memory: ones / random outside the fields, zero inside
    style = rng.choice(["ones", "rand", "zero"])
    mem = 0
    if style == "ones":
        mem = (1 << nbits) - 1
    elif style == "rand":
        mem = rng.getrandbits(nbits)
    for _, p, l in fields:
        mem &= ~(((1 << l) - 1) << p)
    ops = ["init " + mem.to_bytes(size, "little").hex()]
    expect = mem
    reads = []
    order = list(fields)
    rng.shuffle(order)
    for kind, p, l in order:
        if kind == "57":
            v = rng.choice([0, (1 << l) - 1, 1 << (l - 1), rng.getrandbits(l)])
            ops.append("w57 %d %d %d" % (p, l, v))
            reads.append(("r57 %d %d" % (p, l), v))
            expect |= v << p
        elif kind == "25":
            v = rng.choice([0, (1 << l) - 1, rng.getrandbits(l)])
            ops.append("w25 %d %d %d" % (p, l, v))
            reads.append(("r25 %d %d" % (p, l), v))
            expect |= v << p
        elif kind == "f32":
            v = rng.choice([0, 0x80000000, 0xFFFFFFFF, 0x7F800000, rng.getrandbits(32)])
            ops.append("wf32 %d %d" % (p, v))
            reads.append(("rf32 %d" % p, v))
            expect |= v << p
        else:
            v = rng.choice([0, 0x80000000, 0xFFFFFFFF, 0xFF800000, rng.getrandbits(32)])
            ops.append("wf31 %d %d" % (p, v))
            reads.append(("rf31 %d" % p, v | 0x80000000))
            expect |= (v & 0x7FFFFFFF) << p
    oracle = []   # (line index of op, expected output)
    rng.shuffle(reads)
    for r, v in reads:
        oracle.append((len(ops), str(v)))
        ops.append(r)
    oracle.append((len(ops), expect.to_bytes(size, "little").hex()))
    ops.append("dump")
    if not contract:
        for _ in range(rng.randrange(1, 6)):
            p = rng.randrange(0, nbits - 57)
            l = rng.randrange(1, 58)
            ops.append("w57 %d %d %d" % (p, l, rng.getrandbits(rng.choice([l, 64]))))
            ops.append("r57 %d %d" % (rng.randrange(0, nbits - 57), rng.randrange(1, 58)))
            p = rng.randrange(0, nbits - 25)
            ops.append("w25 %d %d %d" % (p, rng.randrange(1, 26), rng.getrandbits(32)))
            ops.append("r25 %d %d" % (rng.randrange(0, nbits - 32), rng.randrange(1, 26)))
        ops.append("dump")
    for _ in range(3):
        ops.append("rb %d" % rng.choice([0, 1, 2, 3, 255, 256, (1 << 32) - 1, 1 << 32, (1 << 64) - 1,
                                         rng.getrandbits(rng.randrange(1, 65))]))
    return ops, oracle, len(fields)


def bits_stream(ctx, hexe, dexe, n_cases):
    found = False
    for ci in range(n_cases):
        contract = ctx.rng.random() < 0.7
        ops, oracle, nfields = gen_bits_case(ctx.rng, contract)
        (rc1, o1, e1), (rc2, o2, e2) = stream.both(hexe, dexe, ops)
        ctx.count(("bits", tuple(ops)), nontrivial=nfields >= 2)
        ctx.hist("bits.fields", min(nfields, 20))
        ctx.hist("bits.contract", contract)
        if ci < 2:
            ctx.sample({"stream": "bits", "ops": ops[:12], "impl": o1[:12]})
        if rc1 != 0:
            ctx.violation("harness died on bit-field script (rc=%s): %s" % (rc1, e1[-400:]),
                          {"stream": "bits", "ops": ops, "stderr": e1[-2000:]})
            found = True
            continue
        # property oracle (independent of the Lean model): values read back unchanged, neighbours untouched
        for idx, want in oracle:
            if idx >= len(o1) or o1[idx] != want:
                ctx.violation("bit field not read back unchanged / neighbouring bits modified",
                              {"stream": "bits", "ops": ops, "op_index": idx, "op": ops[idx],
                               "impl": o1[idx] if idx < len(o1) else None, "expected": want})
                found = True
                break
        d = stream.first_diff(o1, o2)
        if d is not None or rc2 != 0:
            small = stream.ddmin(ops, lambda l: stream.disagree(hexe, dexe, l), keep_prefix=1)
            ctx.violation("model and implementation disagree on a bit-field operation",
                          {"stream": "bits", "ops": small, "first_diff": d,
                           "impl": o1[d] if d is not None and d < len(o1) else None,
                           "model": o2[d] if d is not None and d < len(o2) else None},
                          no_input=not found)
            found = True
    return found


# ---------------------------------------------------------------- generators: sorted-array search
def gen_sorted_array(rng, bits):
    top = (1 << bits) - 1
    style = rng.choice(["uniform", "clustered", "two", "extremes", "dups", "dense", "tiny", "single", "empty"])
    n = rng.choice([1, 2, 3, 5, 8, 17, 64, rng.randrange(1, 200)])
    if style == "uniform":
        a = [rng.randrange(0, top + 1) for _ in range(n)]
    elif style == "clustered":
        c = rng.randrange(0, top + 1)
        a = [min(top, max(0, c + rng.randrange(-50, 50))) for _ in range(n)] + [rng.randrange(0, top + 1) for _ in range(rng.randrange(0, 3))]
    elif style == "two":
        x, y = rng.randrange(0, top + 1), rng.randrange(0, top + 1)
        a = [rng.choice([x, y]) for _ in range(n)]
    elif style == "extremes":
        a = [rng.choice([0, top, 1, top - 1, rng.randrange(0, top + 1)]) for _ in range(n)]
    elif style == "dups":
        pool = [rng.randrange(0, top + 1) for _ in range(max(1, n // 4))]
        a = [rng.choice(pool) for _ in range(n)]
    elif style == "dense":
        b = rng.randrange(0, 1000)
        a = list(range(b, b + n))
    elif style == "tiny":
        a = [rng.randrange(0, 4) for _ in range(n)]
    elif style == "single":
        a = [rng.randrange(0, top + 1)]
    else:
        a = []
    a.sort()
    return style, a


def search_stream(ctx, hexe, dexe, n_cases):
    found = False
    for ci in range(n_cases):
        bits = ctx.rng.choice([32, 64])
        style, a = gen_sorted_array(ctx.rng, bits)
        top = (1 << bits) - 1
        keys = set()
        if len(a) <= 24:
            for x in a:
                keys.update([x, max(0, x - 1), min(top, x + 1)])
        else:
            for x in ctx.rng.sample(a, 12):
                keys.update([x, max(0, x - 1), min(top, x + 1)])
        keys.update([0, top, ctx.rng.randrange(0, top + 1)])
        keys = sorted(keys)
        ops = ["arr " + " ".join(map(str, a))]
        oracle = []
        aset = set(a)
        mx = max(a) if a else 0
        for k in keys:
            want = "found" if k in aset else "absent"
            kinds = ["suf64", "bin"] + (["suf32"] if bits == 32 else [])
            # the trie/vocab call shape needs 0 <= key <= max (precondition before_v <= key <= after_v)
            bound = ctx.rng.choice([mx, top]) if k <= mx else top
            for kind in kinds:
                oracle.append((len(ops), want)); ops.append("%s %d" % (kind, k))
            oracle.append((len(ops), want)); ops.append("bsuf64 %d %d" % (k, bound))
            if bits == 32:
                oracle.append((len(ops), want)); ops.append("bsuf32 %d %d" % (k, bound))
        (rc1, o1, e1), (rc2, o2, e2) = stream.both(hexe, dexe, ops)
        ctx.count(("search", tuple(ops)), nontrivial=len(a) >= 2)
        ctx.hist("search.style", style)
        ctx.hist("search.bits", bits)
        if ci < 1:
            ctx.sample({"stream": "search", "ops": ops[:8], "impl": o1[:8]})
        if rc1 != 0:
            ctx.violation("harness died on search script (rc=%s): %s" % (rc1, e1[-400:]),
                          {"stream": "search", "ops": ops, "stderr": e1[-2000:]})
            found = True
            continue
        for idx, want in oracle:
            if idx >= len(o1) or o1[idx] != want:
                ctx.violation("search reports a key %s although it is %s in the sorted array" % (
                    o1[idx] if idx < len(o1) else None, want),
                    {"stream": "search", "ops": [ops[0], ops[idx]], "impl": o1[idx] if idx < len(o1) else None,
                     "expected": want})
                found = True
                break
        d = stream.first_diff(o1, o2)
        if d is not None or rc2 != 0:
            ctx.violation("model and implementation disagree on a search",
                          {"stream": "search", "ops": [ops[0], ops[d]] if d is not None and d < len(ops) else ops,
                           "impl": o1[d] if d is not None and d < len(o1) else None,
                           "model": o2[d] if d is not None and d < len(o2) else None}, no_input=not found)
            found = True
    return found


def run(ctx):
    problems, consts = flow.proof_phase(ctx, "C20", required=REQUIRED, drivers=["drv_C20"])
    ok, hexe, lg = repo.harness("c20.cc", extra=[REPO + "/util/bit_packing.cc", REPO + "/util/exception.cc",
                                                 REPO + "/util/integer_to_string.cc"])
    if not ok:
        problems.append(lg)
        flow.report_obligation_failures(ctx, problems, False)
        return
    dexe = lean.driver_path("drv_C20")
    n = 150 if ctx.tier == "quick" else 4000
    found = bits_stream(ctx, hexe, dexe, n)
    found = search_stream(ctx, hexe, dexe, n) or found
    ctx.cov["rule"] = ("bits: seeded scripts over buffers of 8..96 bytes with disjoint zero fields (widths 1..57 / 1..25 / "
                       "float32 / float31) among all-ones, random or zero neighbours, every bit offset mod 8; a case is "
                       "non-trivial when it has >= 2 fields; distinct by op script")
    ctx.assumptions += ["little-endian x86-64 (BitPackShift identity branch)",
                        "target bits zero before Write* and value < 2^len (documented contract) for the property oracle; "
                        "contract-violating writes are compared with the model only"]
    flow.report_obligation_failures(ctx, problems, found)
