"""C20 — Core lookup primitives behave as exact maps and arrays."""
from vlib import flow, lean, repo, stream
from vlib.common import REPO, log

MANIFEST = {
    "text": "Lean theorems over the model of util/bit_packing.hh (read = the field, write-then-read = value, frame: all "
            "other bits untouched, for every offset, width <= 57 / <= 25, value, neighbouring content), of the probing table "
            "(map refinement from the cyclic probe-path invariant) and of interpolation search (sound+complete for any "
            "in-range pivot); tied to the code by differential execution of seeded op scripts on the real headers "
            "(ASan+UBSan) against the compiled Lean driver, plus an independent property oracle.",
    "note": "Trusted: Lean kernel + propext/Classical.choice/Quot.sound; statements in lean/Properties/C20.lean; the "
            "harness/driver/comparator; little-endian x86-64; preconditions are explicit hypotheses checked per case "
            "(key != invalid key, Insert only of keys not yet present, field zero before Write*, Pivot32 product < 2^64). "
            "Probing table: hash arbitrary, any bucket count >= 1, keys/values naturals; AutoProbing's double-precision "
            "threshold `buckets * 0.9` is taken as floor(9*buckets/10) and its initial size uses float32 — both exercised by "
            "the correspondence stream on every construction/doubling, not proved.  Vocabularies: words are their 64-bit "
            "MurmurHash (abstract, injective and non-zero on the occurring words as explicit hypotheses); std::sort inside "
            "JointSort is replaced by any sort (result unique on distinct hashes, proved).",
    "technique": "Lean 4 proof (induction/invariants over an executable model) + differential correspondence with the real code",
}

REQUIRED = ["KV.C20.read_eq", "KV.C20.write_read", "KV.C20.write_frame", "KV.C20.write_bits",
            "KV.C20.write25_read", "KV.C20.write25_frame", "KV.C20.float32_write_read", "KV.C20.float31_write_read",
            "KV.C20.required_bits_fits", "KV.C20.required_bits_minimal",
            "KV.C20.pivot32_acceptable", "KV.C20.pivot64_acceptable", "KV.C20.bounded_find_correct",
            "KV.C20.bounded_find_probes_in_range", "KV.C20.bounded_find_terminates",
            "KV.C20.sorted_uniform_correct", "KV.C20.binary_find_correct",
            # probing hash table
            "KV.C20.find_correct", "KV.C20.insert_spec", "KV.C20.full_throws", "KV.C20.findOrInsert_spec",
            "KV.C20.scan_diverges_iff", "KV.C20.run_refines_map", "KV.C20.run_refines_map_from_empty",
            "KV.C20.double_preserves", "KV.C20.auto_refines_map", "KV.C20.auto_refines_map_real",
            "KV.C20.theta_real_ok", "KV.C20.power2_next_eq", "KV.C20.power2_ideal_eq", "KV.C20.power2_ctor_iff",
            "KV.C20.power2_ops_eq", "KV.C20.power2_double_eq", "KV.C20.auto_refines_map_power2",
            "KV.C20.inserted_found", "KV.C20.auto_inserted_found", "KV.C20.firstEmpty_diverges_iff",
            "KV.C20.sized_table_holds", "KV.C20.probe_reads_in_range", "KV.C20.double_frame",
            "KV.C20.run_with_double_refines_map",
            # vocabularies on top of the tables
            "KV.C20.vocab_ids_indep", "KV.C20.vocab_ids_first_occurrence", "KV.C20.vocab_initial_arg_ok",
            "KV.C20.hash_inj_transfer", "KV.C20.probing_vocab_correct", "KV.C20.probing_vocab_sized",
            "KV.C20.probing_vocab_insert_ids", "KV.C20.sorted_vocab_correct", "KV.C20.joint_sort_unique",
            "KV.C20.roundBuckets", "KV.C20.double_without_rollover_loses"]


# ---------------------------------------------------------------- generators: bit fields
def gen_bits_case(rng, contract=True):
    """One script: a buffer with random / all-ones neighbours, disjoint zero fields written
    once and read back.  contract=False additionally issues writes that break the documented
    contract (non-zero target, oversize value) — compared with the model only."""
    size = rng.choice([8, 16, 24, 40, 64, 96])
    nbits = size * 8
    fields = []
    pos = rng.randrange(0, 9)
    while True:
        kind = rng.choice(["57", "57", "25", "f32", "f31"])
        if kind == "57":
            ln = rng.choice([1, 2, 7, 8, 9, 31, 32, 33, 56, 57, rng.randrange(1, 58)])
        elif kind == "25":
            ln = rng.choice([1, 8, 24, 25, rng.randrange(1, 26)])
        elif kind == "f32":
            ln = 32
        else:
            ln = 31
        if pos + ln > nbits:
            break
        fields.append((kind, pos, ln))
        pos += ln + rng.choice([0, 0, 0, 1, 3, 8, rng.randrange(0, 20)])
    # initial memory: ones / random outside the fields, zero inside
    style = rng.choice(["ones", "rand", "zero"])
    mem = 0
    if style == "ones":
        mem = (1 << nbits) - 1
    elif style == "rand":
        mem = rng.getrandbits(nbits)
    for _, p, l in fields:
        mem &= ~(((1 << l) - 1) << p)
    ops = ["init " + mem.to_bytes(size, "little").hex()]
    expect = mem
    reads = []
    order = list(fields)
    rng.shuffle(order)
    for kind, p, l in order:
        if kind == "57":
            v = rng.choice([0, (1 << l) - 1, 1 << (l - 1), rng.getrandbits(l)])
            ops.append("w57 %d %d %d" % (p, l, v))
            reads.append(("r57 %d %d" % (p, l), v))
            expect |= v << p
        elif kind == "25":
            v = rng.choice([0, (1 << l) - 1, rng.getrandbits(l)])
            ops.append("w25 %d %d %d" % (p, l, v))
            reads.append(("r25 %d %d" % (p, l), v))
            expect |= v << p
        elif kind == "f32":
            v = rng.choice([0, 0x80000000, 0xFFFFFFFF, 0x7F800000, rng.getrandbits(32)])
            ops.append("wf32 %d %d" % (p, v))
            reads.append(("rf32 %d" % p, v))
            expect |= v << p
        else:
            v = rng.choice([0, 0x80000000, 0xFFFFFFFF, 0xFF800000, rng.getrandbits(32)])
            ops.append("wf31 %d %d" % (p, v))
            reads.append(("rf31 %d" % p, v | 0x80000000))
            expect |= (v & 0x7FFFFFFF) << p
    oracle = []   # (line index of op, expected output)
    rng.shuffle(reads)
    for r, v in reads:
        oracle.append((len(ops), str(v)))
        ops.append(r)
    oracle.append((len(ops), expect.to_bytes(size, "little").hex()))
    ops.append("dump")
    if not contract:
        for _ in range(rng.randrange(1, 6)):
            p = rng.randrange(0, nbits - 57)
            l = rng.randrange(1, 58)
            ops.append("w57 %d %d %d" % (p, l, rng.getrandbits(rng.choice([l, 64]))))
            ops.append("r57 %d %d" % (rng.randrange(0, nbits - 57), rng.randrange(1, 58)))
            p = rng.randrange(0, nbits - 25)
            ops.append("w25 %d %d %d" % (p, rng.randrange(1, 26), rng.getrandbits(32)))
            ops.append("r25 %d %d" % (rng.randrange(0, nbits - 32), rng.randrange(1, 26)))
        ops.append("dump")
    for _ in range(3):
        ops.append("rb %d" % rng.choice([0, 1, 2, 3, 255, 256, (1 << 32) - 1, 1 << 32, (1 << 64) - 1,
                                         rng.getrandbits(rng.randrange(1, 65))]))
    return ops, oracle, len(fields)


def bits_stream(ctx, hexe, dexe, n_cases):
    found = False
    for ci in range(n_cases):
        contract = ctx.rng.random() < 0.7
        ops, oracle, nfields = gen_bits_case(ctx.rng, contract)
        (rc1, o1, e1), (rc2, o2, e2) = stream.both(hexe, dexe, ops)
        ctx.count(("bits", tuple(ops)), nontrivial=nfields >= 2)
        ctx.hist("bits.fields", min(nfields, 20))
        ctx.hist("bits.contract", contract)
        if ci < 2:
            ctx.sample({"stream": "bits", "ops": ops[:12], "impl": o1[:12]})
        if rc1 != 0:
            ctx.violation("harness died on bit-field script (rc=%s): %s" % (rc1, e1[-400:]),
                          {"stream": "bits", "ops": ops, "stderr": e1[-2000:]})
            found = True
            continue
        # property oracle (independent of the Lean model): values read back unchanged, neighbours untouched
        for idx, want in oracle:
            if idx >= len(o1) or o1[idx] != want:
                ctx.violation("bit field not read back unchanged / neighbouring bits modified",
                              {"stream": "bits", "ops": ops, "op_index": idx, "op": ops[idx],
                               "impl": o1[idx] if idx < len(o1) else None, "expected": want})
                found = True
                break
        d = stream.first_diff(o1, o2)
        if d is not None or rc2 != 0:
            small = stream.ddmin(ops, lambda l: stream.disagree(hexe, dexe, l), keep_prefix=1)
            ctx.violation("model and implementation disagree on a bit-field operation",
                          {"stream": "bits", "ops": small, "first_diff": d,
                           "impl": o1[d] if d is not None and d < len(o1) else None,
                           "model": o2[d] if d is not None and d < len(o2) else None},
                          no_input=not found)
            found = True
    return found


# ---------------------------------------------------------------- generators: sorted-array search
def gen_sorted_array(rng, bits):
    top = (1 << bits) - 1
    style = rng.choice(["uniform", "clustered", "two", "extremes", "dups", "dense", "tiny", "single", "empty"])
    n = rng.choice([1, 2, 3, 5, 8, 17, 64, rng.randrange(1, 200)])
    if style == "uniform":
        a = [rng.randrange(0, top + 1) for _ in range(n)]
    elif style == "clustered":
        c = rng.randrange(0, top + 1)
        a = [min(top, max(0, c + rng.randrange(-50, 50))) for _ in range(n)] + [rng.randrange(0, top + 1) for _ in range(rng.randrange(0, 3))]
    elif style == "two":
        x, y = rng.randrange(0, top + 1), rng.randrange(0, top + 1)
        a = [rng.choice([x, y]) for _ in range(n)]
    elif style == "extremes":
        a = [rng.choice([0, top, 1, top - 1, rng.randrange(0, top + 1)]) for _ in range(n)]
    elif style == "dups":
        pool = [rng.randrange(0, top + 1) for _ in range(max(1, n // 4))]
        a = [rng.choice(pool) for _ in range(n)]
    elif style == "dense":
        b = rng.randrange(0, 1000)
        a = list(range(b, b + n))
    elif style == "tiny":
        a = [rng.randrange(0, 4) for _ in range(n)]
    elif style == "single":
        a = [rng.randrange(0, top + 1)]
    else:
        a = []
    a.sort()
    return style, a


def search_stream(ctx, hexe, dexe, n_cases):
    found = False
    n_viol = 0
    for ci in range(n_cases):
        if n_viol >= 3:
            break
        bits = ctx.rng.choice([32, 64])
        style, a = gen_sorted_array(ctx.rng, bits)
        top = (1 << bits) - 1
        keys = set()
        if len(a) <= 24:
            for x in a:
                keys.update([x, max(0, x - 1), min(top, x + 1)])
        else:
            for x in ctx.rng.sample(a, 12):
                keys.update([x, max(0, x - 1), min(top, x + 1)])
        keys.update([0, top, ctx.rng.randrange(0, top + 1)])
        keys = sorted(keys)
        ops = ["arr " + " ".join(map(str, a))]
        oracle = []
        aset = set(a)
        mx = max(a) if a else 0
        for k in keys:
            want = "found" if k in aset else "absent"
            kinds = ["suf64", "bin"] + (["suf32"] if bits == 32 else [])
            # the trie/vocab call shape needs 0 <= key <= max (precondition before_v <= key <= after_v)
            bound = ctx.rng.choice([mx, top]) if k <= mx else top
            for kind in kinds:
                oracle.append((len(ops), want)); ops.append("%s %d" % (kind, k))
            oracle.append((len(ops), want)); ops.append("bsuf64 %d %d" % (k, bound))
            if bits == 32:
                oracle.append((len(ops), want)); ops.append("bsuf32 %d %d" % (k, bound))
        (rc1, o1, e1), (rc2, o2, e2) = stream.both(hexe, dexe, ops, timeout=20)
        ctx.count(("search", tuple(ops)), nontrivial=len(a) >= 2)
        ctx.hist("search.style", style)
        ctx.hist("search.bits", bits)
        if ci < 1:
            ctx.sample({"stream": "search", "ops": ops[:8], "impl": o1[:8]})
        if rc1 != 0:
            ctx.violation("harness died on search script (rc=%s): %s" % (rc1, e1[-400:]),
                          {"stream": "search", "ops": ops, "stderr": e1[-2000:]})
            found = True
            n_viol += 1
            continue
        for idx, want in oracle:
            if idx >= len(o1) or o1[idx] != want:
                ctx.violation("search reports a key %s although it is %s in the sorted array" % (
                    o1[idx] if idx < len(o1) else None, want),
                    {"stream": "search", "ops": [ops[0], ops[idx]], "impl": o1[idx] if idx < len(o1) else None,
                     "expected": want})
                found = True
                n_viol += 1
                break
        d = stream.first_diff(o1, o2)
        if d is not None or rc2 != 0:
            ctx.violation("model and implementation disagree on a search",
                          {"stream": "search", "ops": [ops[0], ops[d]] if d is not None and d < len(ops) else ops,
                           "impl": o1[d] if d is not None and d < len(o1) else None,
                           "model": o2[d] if d is not None and d < len(o2) else None}, no_input=not found)
            found = True
            n_viol += 1
    return found


# ---------------------------------------------------------------- generators: probing hash table
M64 = (1 << 64) - 1


def py_hash(kind, c, k):
    return k if kind == "id" else (k * c) & M64 if kind == "mul" else (k >> c)


def gen_keys(rng, n_keys, N, kind, c, invalid):
    """Distinct keys != invalid, crafted so that many share an ideal bucket, cluster at the end
    of the table (wrap-around) or equal a neighbour's hash."""
    keys = []
    seen = {invalid}
    style = rng.choice(["collide", "tail", "small", "wide", "mixed", "mixed"])
    hot = [rng.randrange(0, N) for _ in range(3)] + [N - 1, max(0, N - 2), 0]
    tries = 0
    while len(keys) < n_keys and tries < 50 * n_keys + 100:
        tries += 1
        st = style if style != "mixed" else rng.choice(["collide", "tail", "small", "wide", "hash"])
        if st == "collide":
            k = rng.choice(hot[:2]) + N * rng.randrange(0, 64)
        elif st == "tail":
            k = rng.choice([N - 1, max(0, N - 2), max(0, N - 3)]) + N * rng.randrange(0, 1 << rng.choice([3, 8, 40]))
        elif st == "small":
            k = rng.randrange(0, 4 * N + 4)
        elif st == "hash" and keys:
            k = py_hash(kind, c, rng.choice(keys)) & M64     # a key equal to another key's hash
        else:
            k = rng.getrandbits(64)
        if kind == "shr":
            k = (k << c) & M64 | rng.getrandbits(c) if c else k
        k &= M64
        if k in seen:
            continue
        seen.add(k)
        keys.append(k)
    return style, keys


def gen_probing_fixed(rng, big=False):
    """Script on a fixed-size table.  Returns ops, oracle [(index, expected-with-positions-erased)], meta."""
    md = rng.choice(["div", "div", "p2"])
    if md == "div":
        N = rng.choice([1, 2, 3, 4, 5, 6, 7, 8, 11, 13, 16, 24, 33, rng.randrange(2, 70)])
        if big:
            N = rng.randrange(70, 700)
    else:
        N = rng.choice([1, 2, 4, 8, 16, 32, 64])
        if big:
            N = rng.choice([128, 256, 512])
    invalid = rng.choice([0, 0, 1, M64, rng.getrandbits(64), rng.randrange(0, 8)])
    kind = rng.choice(["id", "id", "id", "mul", "shr"])
    c = (rng.getrandbits(64) | 1) if kind == "mul" else rng.choice([0, 1, 2, 3, 5]) if kind == "shr" else 0
    ops, oracle = [], []

    def emit(op, want):
        oracle.append((len(ops), want))
        ops.append(op)
    if md == "p2" and rng.random() < 0.3:
        emit("pnew p2 %d %d %s %d" % (rng.choice([3, 5, 6, 12, 0, 24, 255]), invalid, kind, c), "badsize")
    emit("pnew %s %d %d %s %d" % (md, N, invalid, kind, c), "ok")
    plan = rng.choice(["fill", "fill", "mixed", "mixed", "double", "double", "overflow"])
    n_keys = rng.randrange(0, 3 * N + 3)
    style, keys = gen_keys(rng, n_keys, N, kind, c, invalid)
    d, order = {}, []
    count = 0
    curN = N
    fresh = list(keys)
    doublings = 0
    fulls = 0

    def absent_key():
        for _ in range(20):
            if order and rng.random() < 0.7:
                k = (rng.choice(order) + curN * rng.randrange(1, 5)) & M64   # shares an ideal bucket (id hash)
            else:
                k = rng.getrandbits(rng.choice([3, 8, 64]))
            if k != invalid and k not in d and k not in fresh:
                return k
        return None
    n_ops = rng.randrange(1, 4 * N + 8)
    if big:
        n_keys = rng.randrange(N // 2, 2 * N)
        n_ops = rng.randrange(2 * N, 3 * N)
    for _ in range(n_ops):
        r = rng.random()
        can_double = plan == "double" and curN <= 512 and doublings < 5
        if can_double and r < 0.12:
            emit("dbl" + rng.choice(["", " noclear"]), "ok")
            curN *= 2
            doublings += 1
            continue
        if plan == "overflow" or (plan == "fill" and r < 0.75) or r < 0.4:
            if not fresh:
                k = absent_key()
                if k is None:
                    continue
                fresh.append(k)
            k = fresh.pop(0)
            v = rng.getrandbits(rng.choice([4, 64]))
            if rng.random() < 0.6:
                count += 1
                if count >= curN:
                    emit("ins %d %d" % (k, v), "full"); fulls += 1
                else:
                    d[k] = v; order.append(k)
                    emit("ins %d %d" % (k, v), "ok")
            else:
                count += 1
                if count >= curN:
                    emit("foi %d %d" % (k, v), "full"); fulls += 1
                else:
                    d[k] = v; order.append(k)
                    emit("foi %d %d" % (k, v), "new")
        elif r < 0.55 and order:
            k = rng.choice(order)
            emit("foi %d %d" % (k, rng.getrandbits(8)), "found %d" % d[k])
        elif r < 0.8 and order:
            k = rng.choice(order)
            emit("find %d" % k, "found %d" % d[k])
        elif r < 0.93:
            k = absent_key()
            if k is not None:
                emit("find %d" % k, "absent")
        elif r < 0.97:
            emit("size", str(count))
        else:
            emit("pdump", "%d %d %s" % (curN, count, " ".join("%d:%d" % kv for kv in sorted(d.items()))))
    if plan == "double" and curN <= 512 and rng.random() < 0.7:
        emit("dbl", "ok")
        curN *= 2
        doublings += 1
    for k in order:
        emit("find %d" % k, "found %d" % d[k])
    for _ in range(3):
        k = absent_key()
        if k is not None:
            emit("find %d" % k, "absent")
    emit("size", str(count))
    emit("pdump", "%d %d %s" % (curN, count, " ".join("%d:%d" % kv for kv in sorted(d.items()))))
    dup = False
    if order and rng.random() < 0.08:
        # outside the contract ("Multiple insertions won't cause a failure, just inconsistent lookup"): a second Insert
        # of a present key; the oracle stops judging here, model and implementation are still compared line by line
        dup = True
        k = rng.choice(order)
        emit("ins %d %d" % (k, rng.getrandbits(8)), None)
        for q in rng.sample(order, min(len(order), 4)) + [k]:
            emit("find %d" % q, None)
        emit("foi %d 1" % k, None)
        emit("size", None)
        emit("pdump", None)
    meta = {"mod": md, "dup": dup, "N": N, "plan": plan, "keys": len(d), "style": style, "hash": kind, "c": c, "doublings": doublings,
            "fulls": fulls, "invalid0": invalid == 0}
    return ops, oracle, meta


def gen_probing_auto(rng, big=False):
    init = rng.choice([0, 0, 1, 2, 3, 5, 6, 7, 10, 13, 20, 27, 100, rng.randrange(0, 300)])
    invalid = rng.choice([0, 0, 1, M64, rng.getrandbits(64)])
    kind = rng.choice(["id", "id", "mul", "shr"])
    c = (rng.getrandbits(64) | 1) if kind == "mul" else rng.choice([0, 1, 2, 3]) if kind == "shr" else 0
    ops, oracle = [], []

    def emit(op, want):
        oracle.append((len(ops), want))
        ops.append(op)
    emit("anew %d %d %s %d" % (init, invalid, kind, c), None)
    n_keys = rng.choice([1, 3, 8, 20, 40, 100, rng.randrange(0, 400)])
    if big:
        n_keys = rng.randrange(400, 3000)
    # clusters that wrap around the end of the table at several sizes: ideals just below powers of two
    keys, seen = [], {invalid}
    style = rng.choice(["wraps", "wraps", "collide", "wide", "mixed"])
    tries = 0
    while len(keys) < n_keys:
        tries += 1
        st = style if style != "mixed" else rng.choice(["wraps", "collide", "wide"])
        if tries > 4 * n_keys + 50:
            st = "wide"          # the crafted pools are finite
        if st == "wraps":
            j = rng.randrange(0, 10)
            k = ((1 << j) - 1 - rng.randrange(0, 3)) % (1 << 64) + (rng.randrange(0, 64) << rng.choice([j, j + 1, 10]))
        elif st == "collide":
            k = rng.randrange(0, 4) + (rng.randrange(0, 256) << rng.choice([2, 4, 6, 9]))
        else:
            k = rng.getrandbits(64)
        k &= M64
        if k in seen:
            continue
        seen.add(k)
        keys.append(k)
    d, order = {}, []
    for k in keys:
        v = rng.getrandbits(rng.choice([4, 64]))
        if rng.random() < 0.6:
            emit("ains %d %d" % (k, v), "ok")
        else:
            emit("afoi %d %d" % (k, v), "new")
        d[k] = v
        order.append(k)
        r = rng.random()
        if r < 0.25:
            q = rng.choice(order)
            emit("afind %d" % q, "found %d" % d[q])
        elif r < 0.4:
            q = rng.choice(order)
            emit("afoi %d %d" % (q, rng.getrandbits(8)), "found %d" % d[q])
        elif r < 0.5:
            q = (rng.choice(order) + (rng.randrange(1, 9) << rng.randrange(0, 12))) & M64
            if q not in d and q != invalid:
                emit("afind %d" % q, "absent")
        elif r < 0.55:
            emit("asize", str(len(d)))
        elif r < 0.6:
            emit("adump", None)
    for k in order:
        emit("afind %d" % k, "found %d" % d[k])
    emit("asize", str(len(d)))
    emit("adump", None)
    if order and rng.random() < 0.08:
        k = rng.choice(order)      # duplicate Insert: outside the contract, compared with the model only
        emit("ains %d %d" % (k, rng.getrandbits(8)), None)
        for q in rng.sample(order, min(len(order), 4)) + [k]:
            emit("afind %d" % q, None)
        emit("asize", None)
        emit("adump", None)
    meta = {"init": init, "keys": len(d), "style": style, "hash": kind, "c": c, "invalid0": invalid == 0, "items": sorted(d.items())}
    return ops, oracle, meta


def erase_pos(line):
    """Drop the slot position from a harness answer (the map view of the oracle has none)."""
    w = line.split()
    if not w:
        return line
    if w[0] in ("ok", "new") and len(w) == 2:
        return w[0]
    if w[0] == "found" and len(w) == 3:
        return "found " + w[2]
    return line


def dump_items(line):
    """'N entries p:k:v …' -> (N, entries, [(p,k,v)])"""
    w = line.split()
    cells = [tuple(int(x) for x in c.split(":")) for c in w[2:]]
    return int(w[0]), int(w[1]), cells


def py_oracle(ops):
    """The property oracle, independent of the Lean model: a Python dict with an insertion counter
    and a capacity (fixed table) / a plain dict (AutoProbing).  Returns one expectation per op:
    a string (answer with the slot position erased), ("dump", N, entries, items), ("adump", items)
    or None (not judged: `ins` of a key that is already present is outside the contract)."""
    out = []
    d, count, N = {}, 0, 1
    ad = {}
    for op in ops:
        w = op.split()
        o = w[0]
        if o == "pnew":
            n = int(w[2])
            if w[1] == "p2" and (n == 0 or n & (n - 1)):
                out.append("badsize")
            else:
                d, count, N = {}, 0, n
                out.append("ok")
        elif o in ("ins", "foi"):
            k, v = int(w[1]), int(w[2])
            if k in d:
                out.append("found %d" % d[k] if o == "foi" else None)
                if o == "ins":      # duplicate Insert: the map view is undefined from here on
                    return out + [None] * (len(ops) - len(out))
                continue
            count += 1
            if count >= N:
                out.append("full")
            else:
                d[k] = v
                out.append("ok" if o == "ins" else "new")
        elif o == "find":
            k = int(w[1])
            out.append("found %d" % d[k] if k in d else "absent")
        elif o == "size":
            out.append(str(count))
        elif o == "pdump":
            out.append(("dump", N, count, sorted(d.items())))
        elif o == "dbl":
            N *= 2
            out.append("ok")
        elif o == "anew":
            ad = {}
            out.append(None)
        elif o in ("ains", "afoi"):
            k, v = int(w[1]), int(w[2])
            if k in ad:
                out.append("found %d" % ad[k] if o == "afoi" else None)
                if o == "ains":
                    return out + [None] * (len(ops) - len(out))
                continue
            ad[k] = v
            out.append("ok" if o == "ains" else "new")
        elif o == "afind":
            k = int(w[1])
            out.append("found %d" % ad[k] if k in ad else "absent")
        elif o == "asize":
            out.append(str(len(ad)))
        elif o == "adump":
            out.append(("adump", sorted(ad.items())))
        else:
            out.append(None)
    return out


def oracle_mismatch(ops, got_lines):
    """index of the first answer of the real table that the oracle rejects, or None"""
    want = py_oracle(ops)
    for idx, w in enumerate(want):
        if w is None:
            continue
        if idx >= len(got_lines):
            return idx, w
        got = got_lines[idx]
        if isinstance(w, tuple):
            try:
                N, ent, cells = dump_items(got)
            except Exception:
                return idx, w
            items = sorted((k, v) for _, k, v in cells)
            if len({p for p, _, _ in cells}) != len(cells) or any(p >= N for p, _, _ in cells):
                return idx, w
            if w[0] == "dump":
                if (N, ent, items) != (w[1], w[2], w[3]):
                    return idx, w
            else:
                # AutoProbing: content = the keys inserted so far, size = their number, buckets a power of two above
                if items != w[1] or ent != len(w[1]) or N & (N - 1) or N <= len(cells):
                    return idx, w
        elif erase_pos(got) != w:
            return idx, w
    return None


def probing_stream(ctx, hexe, dexe, n_cases):
    found = False
    n_viol = 0
    for ci in range(n_cases):
        if n_viol >= 3:
            break
        auto = ctx.rng.random() < 0.4
        big = ctx.tier == "thorough" and ctx.rng.random() < 0.03
        ops, _, meta = (gen_probing_auto if auto else gen_probing_fixed)(ctx.rng, big)
        # exceeding capacity must raise, not loop: hard timeout on the real code
        rc1, o1, e1 = stream.run_lines(hexe, ops, timeout=20)
        rc2, o2, e2 = stream.run_lines(dexe, ops, timeout=120)
        tag = "probing.auto" if auto else "probing.fixed"
        # non-trivial: some entry sits away from its ideal bucket (a collision was resolved)
        displaced = wrapped = False
        last_dump = None
        for idx, op in enumerate(ops):
            if op in ("pdump", "adump") and idx < len(o1):
                last_dump = o1[idx]
        if last_dump and rc1 == 0:
            try:
                N, _, cells = dump_items(last_dump)
                for p_, k_, _ in cells:
                    idl = py_hash(meta["hash"], meta["c"], k_) % N
                    if idl != p_:
                        displaced = True
                    if idl > p_:
                        wrapped = True
            except Exception:
                pass
        ctx.count((tag, tuple(ops)), nontrivial=meta["keys"] >= 3 and displaced)
        ctx.hist(tag + ".keys", min(meta["keys"], 50) // 5 * 5)
        ctx.hist("probing.wrapped_cluster", wrapped)
        ctx.hist("probing.hash", meta["hash"])
        ctx.hist("probing.invalid_is_zero", meta["invalid0"])
        ctx.hist("probing.big", big)
        if not auto:
            ctx.hist("probing.mod", meta["mod"])
            ctx.hist("probing.plan", meta["plan"])
            ctx.hist("probing.doublings", meta["doublings"])
            ctx.hist("probing.capacity_exceptions", min(meta["fulls"], 3))
        if ci < 2:
            ctx.sample({"stream": tag, "ops": ops[:14], "impl": o1[:14]})
        if rc1 != 0:
            small = stream.ddmin(ops, lambda l: stream.run_lines(hexe, l, timeout=5)[0] == rc1, keep_prefix=1, max_tests=40)
            rcs, _, es = stream.run_lines(hexe, small, timeout=5)
            what = ("probing table loops instead of raising / terminating (timeout)" if rcs == "timeout"
                    else "harness died on probing script (rc=%s): %s" % (rcs, es[-400:]))
            ctx.violation(what, {"stream": tag, "ops": small, "stderr": es[-2000:]})
            found = True
            n_viol += 1
            continue
        # property oracle: a Python dict with a capacity counter (independent of the Lean model)
        bad = oracle_mismatch(ops, o1)
        if bad:
            def fails(l):
                rc, o, _ = stream.run_lines(hexe, l, timeout=10)
                return rc != 0 or oracle_mismatch(l, o) is not None
            small = stream.ddmin(ops, fails, keep_prefix=1, max_tests=150)
            rc, o, _ = stream.run_lines(hexe, small, timeout=10)
            b2 = oracle_mismatch(small, o) if rc == 0 else None
            idx = b2[0] if b2 else len(small) - 1
            want = py_oracle(small)[idx]
            ctx.violation("probing table answers %r where the map-with-capacity oracle says %r (op %r)" % (
                o[idx] if idx < len(o) else None, want, small[idx]),
                {"stream": tag, "ops": small, "op_index": idx, "impl": o[:idx + 1], "expected": want})
            found = True
            n_viol += 1
        d = stream.first_diff(o1, o2)
        if d is not None or rc2 != 0:
            small = stream.ddmin(ops, lambda l: stream.disagree(hexe, dexe, l, timeout=20), keep_prefix=1, max_tests=150)
            (r1, a1, _), (r2, a2, _) = stream.both(hexe, dexe, small, timeout=20)
            d2 = stream.first_diff(a1, a2)
            ctx.violation("model and implementation disagree on a probing-table operation (answer or exact slot layout)",
                          {"stream": tag, "ops": small, "first_diff": d2,
                           "impl": a1[d2] if d2 is not None and d2 < len(a1) else None,
                           "model": a2[d2] if d2 is not None and d2 < len(a2) else None},
                          no_input=not found)
            found = True
            n_viol += 1
    return found


# ---------------------------------------------------------------- vocabularies on top of the tables (lm/vocab.hh)
import struct

VOCAB_MULTS = [1.01, 1.2, 1.5, 2.0, 5.0]
SPECIAL_WORDS = ["<unk>", "<UNK>", "<s>", "</s>"]


def hexw(w):
    return w.encode("latin-1").hex() if w else "-"


def fbits(x):
    return struct.unpack("<I", struct.pack("<f", x))[0]


def vocab_pool(rng, vexe):
    """One probe pass on the real code: MurmurHash of a pool of words (the model works on these 64-bit
    values; Murmur itself is not modelled) and the bucket counts of ProbingVocabulary::Size.  Returns
    (hash dict, list of groups of words whose hashes are adjacent in sorted order with small gaps, bucket dict)."""
    alpha = "abcdefghijklmnopqrstuvwxyzABCXYZ0123456789<>/_-.,'\xe9\xfc\xff\x01"
    words = list(SPECIAL_WORDS) + ["<Unk>", "<S>", "</S>", "unk", "s", "a", "b", "the", "<unk", "unk>", "<<unk>>"]
    seen = set(words)
    while len(words) < 3000:
        w = "".join(rng.choice(alpha) for _ in range(rng.choice([1, 2, 2, 3, 4, 5, 7, 10, 17])))
        if w not in seen:
            seen.add(w)
            words.append(w)
    lines = ["hash " + hexw(w) for w in words]
    combos = [(e, m) for e in range(0, 90) for m in VOCAB_MULTS]
    lines += ["pvsize %d %d" % (e, fbits(m)) for e, m in combos]
    rc, out, err = stream.run_lines(vexe, lines, timeout=120)
    if rc != 0 or len(out) != len(lines):
        return None, None, "vocab harness probe pass failed rc=%s %s" % (rc, err[-500:])
    hashes = {}
    byhash = {}
    for w, o in zip(words, out):
        try:
            h = int(o)
        except ValueError:
            return None, None, "vocab harness: %r for word %r" % (o, w)
        # contract of the C++ code: hash 0 is the invalid key of the tables; injectivity is the theorems' hypothesis
        if h == 0 or h in byhash:
            continue
        hashes[w] = h
        byhash[h] = w
    for w in SPECIAL_WORDS:
        if w not in hashes:
            return None, None, "special word %r hashes to 0 or collides" % w
    buckets = {}
    for (e, m), o in zip(combos, out[len(words):]):
        buckets[(e, m)] = int(o)
    order = sorted((h, w) for w, h in hashes.items())
    gaps = sorted((order[i + 1][0] - order[i][0], i) for i in range(len(order) - 1))[:40]
    close = [[order[i][1], order[i + 1][1]] + ([order[i + 2][1]] if i + 2 < len(order) else []) for _, i in gaps]
    return hashes, close, buckets


def vocab_words(rng, hashes, close, n, specials="maybe"):
    """n distinct pool words; with the special words mixed in at random positions"""
    pool = [w for w in hashes if w not in SPECIAL_WORDS]
    ws = rng.sample(pool, min(n, len(pool)))
    if close and rng.random() < 0.5:
        for grp in rng.sample(close, min(len(close), rng.randrange(1, 4))):
            for w in grp:
                if w not in ws and w not in SPECIAL_WORDS:
                    ws.insert(rng.randrange(0, len(ws) + 1), w)
    if specials == "maybe":
        for sw in SPECIAL_WORDS:
            if rng.random() < 0.5:
                ws.insert(rng.choice([0, 0, len(ws), rng.randrange(0, len(ws) + 1)]), sw)
    return ws


def gen_vocab_case(rng, hashes, close, buckets):
    kind = rng.choice(["growable", "growable", "probing", "sorted"])
    H = hashes
    ops = ["vconst %d %d %d %d" % tuple(H[w] for w in SPECIAL_WORDS)]

    def wop(op, w):
        ops.append("%s %s %d" % (op, hexw(w), H[w]))
    meta = {"kind": kind}
    if kind == "growable":
        init = rng.choice([0, 0, 1, 2, 3, 5, 7, 10, 100, 5000, rng.randrange(0, 200)])
        types = vocab_words(rng, H, close, rng.choice([1, 3, 10, 30, 100, rng.randrange(1, 300)]))
        n_tok = rng.randrange(1, 3 * len(types) + 5)
        ops.append("gnew %d" % init)
        known = set()
        for _ in range(n_tok):
            w = rng.choice(types) if rng.random() < 0.8 else rng.choice(types[:max(1, len(types) // 5)])
            wop("gfoi", w)
            known.add(w)
            r = rng.random()
            if r < 0.1:
                wop("gidx", rng.choice(types))
            elif r < 0.13:
                ops.append("gsize")
        for w in rng.sample(types, min(len(types), 8)) + SPECIAL_WORDS:
            wop("gidx", w)
        ops.append("gsize")
        meta.update(init=init, types=len(known))
    elif kind == "probing":
        ws = vocab_words(rng, H, close, rng.choice([0, 1, 2, 5, 20, rng.randrange(0, 80)]))
        mult = rng.choice(VOCAB_MULTS)
        entries = len(ws)          # counts[0] of the ARPA header (includes <unk> if present)
        short = rng.random() < 0.08 and len(ws) > 3
        if short:
            entries = rng.randrange(0, len(ws) // 2)    # header lies: the table must throw, not loop
        entries = min(entries, 89)
        ops.append("pvnew %d %d %d" % (entries, fbits(mult), buckets[(entries, mult)]))
        for w in ws:
            wop("pvins", w)
        ops.append("pvfin")
        absent = [w for w in rng.sample(list(H), 6) if w not in ws]
        for w in rng.sample(ws, min(len(ws), 10)) + absent + SPECIAL_WORDS:
            wop("pvidx", w)
        if ws and rng.random() < 0.06:
            wop("pvins", rng.choice(ws))     # duplicate word: outside the contract, compared with the model only
            for w in rng.sample(ws, min(len(ws), 4)):
                wop("pvidx", w)
        meta.update(types=len(ws), mult=mult, short=short)
    else:
        ws = vocab_words(rng, H, close, rng.choice([0, 1, 2, 3, 5, 20, 100, rng.randrange(0, 300)]))
        ops.append("svnew %d" % len(ws))
        for w in ws:
            wop("svins", w)
        ops.append("svfin")
        absent = [w for w in rng.sample(list(H), 8) if w not in ws]
        for w in rng.sample(ws, min(len(ws), 12)) + absent + SPECIAL_WORDS:
            wop("svidx", w)
        meta.update(types=len(ws))
    return ops, meta


def vocab_oracle(ops):
    """Independent of the Lean model: Python dicts keyed by the word *string*; only SortedVocabulary's ids use the
    hash values (they are defined as the rank in hash order).  One expectation per op (None = not judged)."""
    out = []
    unkw = {hexw("<unk>"), hexw("<UNK>")}
    g = {}
    pv, pv_n, pv_buckets, pv_saw, pv_entries, pv_dead = {}, 0, 1, False, 0, False
    sv, sv_saw, sv_fin = [], False, None
    for op in ops:
        w = op.split()
        o = w[0]
        if o == "vconst":
            out.append("ok")
        elif o == "gnew":
            g = {hexw("<unk>"): 0, hexw("<s>"): 1, hexw("</s>"): 2}
            out.append("ok 3")
        elif o == "gfoi":
            if w[1] not in g:
                g[w[1]] = len(g)
            out.append(str(g[w[1]]))
        elif o == "gidx":
            out.append(str(g.get(w[1], 0)))
        elif o == "gsize":
            out.append(str(len(g)))
        elif o == "pvnew":
            pv, pv_saw, pv_entries, pv_dead = {}, False, 0, False
            pv_buckets = int(w[3])
            out.append("ok %d" % pv_buckets)
        elif o == "pvins":
            if w[1] in unkw:
                pv_saw = True
                out.append("0")
            elif w[1] in pv:
                pv_dead = True      # duplicate Insert: undefined map view from here on
                out.append(None)
            else:
                pv_entries += 1
                if pv_entries >= pv_buckets:
                    out.append("full")
                else:
                    pv[w[1]] = len(pv) + 1
                    out.append(str(pv[w[1]]))
        elif o == "pvidx":
            out.append(None if pv_dead else str(pv.get(w[1], 0)))
        elif o == "pvfin":
            out.append("%d %d %d %d" % (len(pv) + 1, pv_saw, pv.get(hexw("<s>"), 0), pv.get(hexw("</s>"), 0)))
        elif o == "svnew":
            sv, sv_saw, sv_fin = [], False, None
            out.append("ok")
        elif o == "svins":
            if w[1] in unkw:
                sv_saw = True
                out.append("0")
            else:
                sv.append((int(w[2]), w[1], len(sv) + 1))
                out.append(str(len(sv)))
        elif o == "svfin":
            srt = sorted(sv)
            sv_fin = {hw: r + 1 for r, (_, hw, _) in enumerate(srt)}
            out.append("%d %d %d %d | %s" % (len(sv) + 1, sv_saw, sv_fin.get(hexw("<s>"), 0), sv_fin.get(hexw("</s>"), 0),
                                            " ".join(["0"] + [str(old) for _, _, old in srt])))
        elif o == "svidx":
            out.append(None if sv_fin is None else str(sv_fin.get(w[1], 0)))
        else:
            out.append(None)
    return out


def vocab_mismatch(ops, got):
    want = vocab_oracle(ops)
    for i, w in enumerate(want):
        if w is None:
            continue
        if i >= len(got) or got[i] != w:
            return i, w
    return None


def vocab_stream(ctx, vexe, dexe, n_cases):
    hashes, close, buckets = vocab_pool(ctx.rng, vexe)
    if hashes is None:
        ctx.violation("vocab stream: " + str(buckets), {"stream": "vocab"}, no_input=True)
        return True
    ctx.hist("vocab.pool_words", len(hashes) // 500 * 500)
    found = False
    n_viol = 0
    for ci in range(n_cases):
        if n_viol >= 3:
            break
        ops, meta = gen_vocab_case(ctx.rng, hashes, close, buckets)
        rc1, o1, e1 = stream.run_lines(vexe, ops, timeout=30)
        rc2, o2, e2 = stream.run_lines(dexe, ops, timeout=60)
        tag = "vocab." + meta["kind"]
        ctx.count((tag, tuple(ops)), nontrivial=meta.get("types", 0) >= 3)
        ctx.hist(tag + ".types", min(meta.get("types", 0), 300) // 20 * 20)
        if meta["kind"] == "growable":
            ctx.hist("vocab.growable.init", min(meta["init"], 200))
        if meta["kind"] == "probing":
            ctx.hist("vocab.probing.mult", meta["mult"])
            ctx.hist("vocab.probing.header_too_small", meta["short"])
        if ci < 2:
            ctx.sample({"stream": tag, "ops": ops[:10], "impl": o1[:10]})
        if rc1 != 0:
            small = stream.ddmin(ops, lambda l: stream.run_lines(vexe, l, timeout=5)[0] == rc1, keep_prefix=2, max_tests=40)
            rcs, _, es = stream.run_lines(vexe, small, timeout=5)
            ctx.violation(("vocabulary loops (timeout)" if rcs == "timeout" else
                           "harness died on vocabulary script (rc=%s): %s" % (rcs, es[-400:])),
                          {"stream": tag, "ops": small, "stderr": es[-2000:]})
            found = True
            n_viol += 1
            continue
        bad = vocab_mismatch(ops, o1)
        if bad:
            def fails(l):
                rc, o, _ = stream.run_lines(vexe, l, timeout=5)
                return rc == 0 and vocab_mismatch(l, o) is not None
            small = stream.ddmin(ops, fails, keep_prefix=2, max_tests=120)
            rc, o, _ = stream.run_lines(vexe, small, timeout=5)
            b2 = vocab_mismatch(small, o) if rc == 0 else None
            idx = b2[0] if b2 else len(small) - 1
            ctx.violation("vocabulary answers %r where the oracle (first occurrence / file order / hash rank) says %r (op %r)" % (
                o[idx] if idx < len(o) else None, vocab_oracle(small)[idx], small[idx]),
                {"stream": tag, "ops": small, "op_index": idx, "impl": o[:idx + 1]})
            found = True
            n_viol += 1
        d = stream.first_diff(o1, o2)
        if d is not None or rc2 != 0:
            small = stream.ddmin(ops, lambda l: stream.disagree(vexe, dexe, l, timeout=20), keep_prefix=2, max_tests=120)
            (r1, a1, _), (r2, a2, _) = stream.both(vexe, dexe, small, timeout=20)
            d2 = stream.first_diff(a1, a2)
            ctx.violation("model and implementation disagree on a vocabulary operation",
                          {"stream": tag, "ops": small, "first_diff": d2,
                           "impl": a1[d2] if d2 is not None and d2 < len(a1) else None,
                           "model": a2[d2] if d2 is not None and d2 < len(a2) else None},
                          no_input=not found)
            found = True
            n_viol += 1
    return found


HARNESS_EXTRA = ["/util/bit_packing.cc", "/util/exception.cc", "/util/integer_to_string.cc", "/util/mmap.cc",
                 "/util/file.cc", "/util/scoped.cc", "/util/parallel_read.cc", "/util/spaces.cc", "/util/string_piece.cc"]


def replay(ctx, path):
    """Re-run the op script of a replay file on the real code and on the model.  Exit code 1 if it
    still fails (harness dies / loops, the oracle rejects an answer, or model and code disagree)."""
    import json
    obj = json.load(open(path))
    ops = obj.get("ops")
    if not ops:
        log("replay file has no op script (broken obligations: %s)" % obj.get("broken"))
        return 1
    ok, out = lean.lake_build(["drv_C20"])
    ok2, hexe, lg = repo.harness("c20.cc", extra=[REPO + x for x in HARNESS_EXTRA])
    if not ok or not ok2:
        log("cannot build driver/harness: %s" % (lg if ok else out[-500:]))
        return 1
    dexe = lean.driver_path("drv_C20")
    rc1, o1, e1 = stream.run_lines(hexe, ops, timeout=20)
    rc2, o2, e2 = stream.run_lines(dexe, ops, timeout=60)
    bad = False
    if rc1 != 0:
        log("real code: rc=%s %s" % (rc1, e1[-600:]))
        bad = True
    elif str(obj.get("stream", "")).startswith("probing"):
        m = oracle_mismatch(ops, o1)
        if m:
            log("oracle rejects answer %d: op %r, real code %r, expected %r" % (
                m[0], ops[m[0]], o1[m[0]] if m[0] < len(o1) else None, m[1]))
            bad = True
    d = stream.first_diff(o1, o2)
    if d is not None:
        log("model and implementation differ at op %d %r: impl %r model %r" % (
            d, ops[d] if d < len(ops) else None, o1[d] if d < len(o1) else None, o2[d] if d < len(o2) else None))
        bad = True
    for i, op in enumerate(ops):
        log("  %-40s impl=%-30s model=%s" % (op[:40], (o1[i] if i < len(o1) else None), (o2[i] if i < len(o2) else None)))
    log("replay: %s" % ("still failing" if bad else "passes"))
    return 1 if bad else 0


def run(ctx):
    problems, consts = flow.proof_phase(ctx, "C20", required=REQUIRED, drivers=["drv_C20"])
    ok, hexe, lg = repo.harness("c20.cc", extra=[REPO + x for x in HARNESS_EXTRA])
    if not ok:
        problems.append(lg)
        flow.report_obligation_failures(ctx, problems, False)
        return
    dexe = lean.driver_path("drv_C20")
    # private copy: the shared build cache may be pruned by a concurrent run on another tree
    import os, shutil
    from vlib.common import scratch_dir
    priv = os.path.join(scratch_dir("run"), "c20_%d_%s" % (os.getpid(), os.path.basename(hexe)))
    shutil.copy2(hexe, priv)
    hexe = priv
    okv, vexe, lgv = repo.harness("c20_vocab.cc", config="asan", libs=True)
    if not okv:
        problems.append(lgv)
        flow.report_obligation_failures(ctx, problems, False)
        return
    privv = os.path.join(scratch_dir("run"), "c20v_%d_%s" % (os.getpid(), os.path.basename(vexe)))
    shutil.copy2(vexe, privv)
    try:
        _streams(ctx, problems, hexe, dexe, privv)
    finally:
        try:
            os.remove(privv)
        except OSError:
            pass
        try:
            os.remove(priv)
        except OSError:
            pass


def _streams(ctx, problems, hexe, dexe, vexe):
    n = 150 if ctx.tier == "quick" else 4000
    found = bits_stream(ctx, hexe, dexe, n)
    found = search_stream(ctx, hexe, dexe, n) or found
    found = probing_stream(ctx, hexe, dexe, 300 if ctx.tier == "quick" else 6000) or found
    found = vocab_stream(ctx, vexe, dexe, 60 if ctx.tier == "quick" else 1500) or found
    ctx.cov["rule"] = ("bits: seeded scripts over buffers of 8..96 bytes with disjoint zero fields (widths 1..57 / 1..25 / "
                       "float32 / float31) among all-ones, random or zero neighbours, every bit offset mod 8; a case is "
                       "non-trivial when it has >= 2 fields; distinct by op script.  probing: seeded op scripts on the real "
                       "ProbingHashTable<DivMod|Power2Mod> (1..69 buckets, explicit Double up to 5 times) and AutoProbing "
                       "(initial size 0..300, up to 400 keys), identity / multiplicative / shift hash, invalid key 0 or not, keys "
                       "crafted to share ideal buckets and to cluster at the end of the table; non-trivial when >= 3 keys are "
                       "stored and at least one sits away from its ideal bucket; answers, size, content and the exact slot "
                       "layout compared.  vocab: op scripts on the real lm::ngram::GrowableVocab (initial sizes 0..5000), "
                       "ProbingVocabulary (bucket count from Size(entries, multiplier), multipliers 1.01..5, header count "
                       "sometimes too small: must throw) and SortedVocabulary (Insert, FinishedLoading with tagged weights, "
                       "Index); words from a pool of 3000 (incl. <unk>/<UNK>/<s>/</s> present or absent and the 40 pairs with "
                       "the closest MurmurHash values); the model works on the 64-bit hashes reported by the real code; "
                       "oracle: first occurrence / file order / hash rank by word string; non-trivial when >= 3 types")
    ctx.assumptions += ["little-endian x86-64 (BitPackShift identity branch)",
                        "target bits zero before Write* and value < 2^len (documented contract) for the property oracle; "
                        "contract-violating writes are compared with the model only",
                        "probing: the invalid key is never inserted and Insert is only called with keys not yet present "
                        "(documented contract); 64-bit keys, values and hashes; AutoProbing's threshold `buckets * 0.9` in "
                        "double precision equals floor(9*buckets/10) (compared on every doubling through the bucket count)",
                        "vocab: MurmurHash64A is abstract (the real values are fed to the model); it is injective and non-zero "
                        "on the word pool (checked when the pool is built; colliding or zero-hash words are dropped); words "
                        "other than <unk>/<UNK> are inserted once into ProbingVocabulary / SortedVocabulary (ARPA contract)"]
    flow.report_obligation_failures(ctx, problems, found)
